(* C16 - proofs about Model/Switch.v. *)
From Coq Require Import List Arith Bool Lia.
From Verif Require Import Base.Conc Base.Lin Model.Switch.
Import ListNotations.

(* ---------- A. basics ---------- *)

Lemma conn_eqb_refl c : conn_eqb c c = true.
Proof. unfold conn_eqb. now rewrite !Nat.eqb_refl. Qed.

Lemma conn_eqb_eq a b : conn_eqb a b = true -> a = b.
Proof.
  destruct a as [s1 n1], b as [s2 n2]. unfold conn_eqb. cbn.
  intros H. apply andb_true_iff in H. destruct H as [H1 H2].
  apply Nat.eqb_eq in H1. apply Nat.eqb_eq in H2. now subst.
Qed.

Lemma conn_eqb_neq a b : a <> b -> conn_eqb a b = false.
Proof.
  intros H. destruct (conn_eqb a b) eqn:E; [|reflexivity].
  exfalso. apply H. now apply conn_eqb_eq.
Qed.

Lemma remove_conn_notin c l : ~ In c l -> remove_conn c l = l.
Proof.
  induction l as [|x l IH]; intros H; [reflexivity|].
  cbn. rewrite conn_eqb_neq.
  - cbn. f_equal. apply IH. intros Hin. apply H. now right.
  - intros ->. apply H. now left.
Qed.

Lemma remove_conn_head c l : remove_conn c (c :: l) = remove_conn c l.
Proof. cbn. now rewrite conn_eqb_refl. Qed.

Lemma remove_conn_single c : remove_conn c [c] = [].
Proof. now rewrite remove_conn_head. Qed.

Lemma remove_nat_single n : remove_nat n [n] = [].
Proof. cbn. now rewrite Nat.eqb_refl. Qed.

Lemma nth_bump_same t : forall l, nth t (bump t l) 0 = S (nth t l 0).
Proof.
  induction t as [|t IH]; intros [|n l]; cbn; try reflexivity.
  - rewrite IH. now destruct t.
  - apply IH.
Qed.

Lemma nth_bump_other t : forall l u, u <> t -> nth u (bump t l) 0 = nth u l 0.
Proof.
  induction t as [|t IH]; intros [|n l] [|u] H; cbn; try reflexivity; try congruence.
  - now destruct u.
  - rewrite IH by congruence. now destruct u.
  - apply IH. congruence.
Qed.

Lemma nth_bump_le t l u : nth u l 0 <= nth u (bump t l) 0.
Proof.
  destruct (Nat.eq_dec u t) as [->|H].
  - rewrite nth_bump_same. lia.
  - rewrite nth_bump_other by assumption. lia.
Qed.

Definition olist {A} (o : option A) : list A := match o with Some x => [x] | None => [] end.

(* ---------- B. sequential histories: the quiescent-state invariant ---------- *)

(* every open connection was numbered below its server's counter (so a newly opened one is new) *)
Definition fresh (s : st) : Prop :=
  forall c, In c (opened s) -> c_no c < nth (c_srv c) (attempts s) 0.

(* between two operations: nothing in flight; the only open backend connection is the current one;
   the player is in the list of exactly its current server; a player that is gone has no server *)
Definition quiet (s : st) : Prop :=
  flight s = None /\
  opened s = olist (cur s) /\
  lists s = map c_srv (olist (cur s)) /\
  (alive s = false -> cur s = None) /\
  fresh s.

Lemma quiet_init : quiet init_st.
Proof. unfold quiet, init_st, fresh. cbn. repeat split; auto. intros c []. Qed.

Ltac simp_conn :=
  repeat first
    [ rewrite Nat.eqb_refl
    | progress cbv beta iota zeta delta
        [negb andb orb filter app map olist c_srv c_no
         cur flight lists opened tryi alive attempts
         set_cur set_flight set_tryi close_plain close_joined remove_nat remove_conn conn_eqb
         join do_switch reset_if_flight
         oconn_eqb add_nat existsb fst snd option_map] ].

(* what one attempt does to a quiescent state *)
Lemma attempt_cases e t s :
  quiet s -> alive s = true ->
  let r := attempt e t s in
  quiet (fst r) /\ alive (fst r) = alive s /\
  ((snd r = OutSuccess /\ exists c, cur (fst r) = Some c /\ c_srv c = t) \/
   (snd r <> OutSuccess /\ (cur (fst r) = cur s \/ cur (fst r) = None) /\
    (fam e = FamA -> cur (fst r) = cur s))).
Proof.
  destruct s as [cu fl li op ti al at_].
  intros (Hf & Ho & Hl & Ha & Hfr) Hal. cbn in Hf, Ho, Hl, Ha, Hal. subst fl op li al.
  set (n := nth t at_ 0).
  assert (Hc : n < nth t (bump t at_) 0) by (rewrite nth_bump_same; subst n; lia).
  unfold attempt, open_conn. cbn [attempts opened cur flight lists tryi alive c_no].
  fold n.
  unfold quiet, fresh.
  Ltac fin Hc Hfr' :=
    (split; [repeat split; auto; try discriminate;
             try (intros c [<-|[]]; cbn; first [exact Hc | exact Hfr']);
             try (intros c []) |
     split; [reflexivity|]]);
    try (left; split; [reflexivity|eexists; split; reflexivity]);
    try (right; split; [discriminate|split; [auto|auto]]).
  destruct cu as [[es en]|].
  - assert (Hlt : en < nth es at_ 0) by (apply (Hfr (mkConn es en)); now left).
    assert (Hfr' : en < nth es (bump t at_) 0)
      by (eapply Nat.lt_le_trans; [exact Hlt|apply nth_bump_le]).
    assert (Hd : es <> t \/ en <> n) by (destruct (Nat.eq_dec es t); [subst; right; subst n; lia|now left]).
    destruct (script e t n), (fam e); simp_conn;
      destruct (Nat.eqb_spec es t), (Nat.eqb_spec en n), (Nat.eqb_spec t es), (Nat.eqb_spec n en);
      try (exfalso; lia); try (exfalso; congruence); simp_conn; fin Hc Hfr'.
    all: try (intros HH; discriminate HH); try (intros HH; specialize (Ha HH); discriminate Ha).
  - destruct (script e t n), (fam e); simp_conn; fin Hc Hc.
Qed.

(* a failed attempt that starts without a current server does not move the try cursor *)
Lemma attempt_fail_tryi e t s :
  cur s = None -> snd (attempt e t s) <> OutSuccess -> tryi (fst (attempt e t s)) = tryi s.
Proof.
  destruct s as [cu fl li op ti al at_]. cbn. intros ->.
  unfold attempt, open_conn. cbn [attempts opened cur flight lists tryi alive c_no].
  set (n := nth t at_ 0).
  destruct (script e t n), (fam e); simp_conn; intros H; try reflexivity; try congruence;
    destruct (oconn_eqb _ _); reflexivity.
Qed.

(* ----- nextServerToTry ----- *)

Lemma scan_spec excl : forall l i0 i x,
  scan l i0 excl = Some (i, x) ->
  exists j, i = i0 + j /\ nth_error l j = Some x /\ excl x = false /\
            (forall j', j' < j -> forall y, nth_error l j' = Some y -> excl y = true).
Proof.
  induction l as [|y l IH]; intros i0 i x H; cbn in H; [discriminate|].
  destruct (excl y) eqn:E.
  - destruct (IH _ _ _ H) as (j & -> & Hn & Hx & Hbefore).
    exists (S j). split; [lia|]. split; [exact Hn|]. split; [exact Hx|].
    intros [|j'] Hlt z Hz; cbn in Hz.
    + now inversion Hz; subst.
    + eapply Hbefore; [|exact Hz]. lia.
  - inversion H; subst. exists 0. split; [lia|]. split; [reflexivity|]. split; [exact E|].
    intros j' Hlt. lia.
Qed.

Lemma nth_error_skipn {A} (l : list A) : forall k j, nth_error (skipn k l) j = nth_error l (k + j).
Proof.
  induction l as [|x l IH]; intros [|k] j; cbn; try reflexivity.
  - now destruct j.
  - apply IH.
Qed.

Lemma next_spec e s current s' t :
  next_server_to_try e s current = (s', Some t) ->
  exists i, s' = set_tryi i s /\ tryi s <= i /\ nth_error (try_list e) i = Some t /\
            onat_is current t = false /\
            (forall y, nth_error (try_list e) (tryi s) = Some y -> onat_is current y = true -> tryi s < i).
Proof.
  unfold next_server_to_try.
  destruct (scan _ _ _) as [[i x]|] eqn:E; [|discriminate].
  intros H. inversion H; subst. clear H.
  apply scan_spec in E. destruct E as (j & -> & Hn & Hx & Hbefore).
  rewrite nth_error_skipn in Hn.
  exists (tryi s + j). split; [reflexivity|]. split; [lia|]. split; [exact Hn|]. split.
  - apply orb_false_iff in Hx. tauto.
  - intros y Hy Hex. destruct j as [|j]; [|lia].
    exfalso. rewrite Nat.add_0_r in Hn. rewrite Hy in Hn. inversion Hn; subst.
    apply orb_false_iff in Hx. destruct Hx as [_ Hx]. congruence.
Qed.

Lemma next_none e s current s' :
  next_server_to_try e s current = (s', None) -> s' = s.
Proof.
  unfold next_server_to_try. destruct (scan _ _ _) as [[i x]|]; intros H; inversion H; reflexivity.
Qed.

Lemma onat_is_refl x : onat_is (Some x) x = true.
Proof. cbn. apply Nat.eqb_refl. Qed.

(* ----- Player.Disconnect ----- *)

Lemma kill_quiet s :
  flight s = None -> cur s = None -> opened s = [] -> lists s = [] -> fresh s -> quiet (kill s) /\ alive (kill s) = false.
Proof.
  destruct s as [cu fl li op ti al at_]. cbn. intros -> -> -> -> Hfr.
  unfold kill, quiet, fresh. cbn. repeat split; auto; try (intros c []).
Qed.

(* ----- the fallback walk ----- *)

(* where recover starts: nothing in flight, and either a quiescent state whose current server is not
   the one that failed, or no live backend connection at all (the current connection, if still
   recorded, is the one to the failed server and is already closed) *)
Definition pre_rec (rs : nat) (s : st) : Prop :=
  flight s = None /\ fresh s /\ alive s = true /\
  ((quiet s /\ srv_is (cur s) rs = false /\ cur s <> None) \/
   (opened s = [] /\ lists s = [] /\ (cur s = None \/ srv_is (cur s) rs = true))).

Definition need (e : env) (rs : nat) (s : st) : nat :=
  length (try_list e) - tryi s +
  match nth_error (try_list e) (tryi s) with
  | Some y => if y =? rs then 0 else 1
  | None => 1
  end.

Definition landed (e : env) (rs : nat) (s0 s' : st) : Prop :=
  alive s' = false \/
  (alive s' = true /\ exists c, cur s' = Some c /\ In (c_srv c) (try_list e)) \/
  (s' = s0 /\ cur s0 <> None /\ srv_is (cur s0) rs = false).

Lemma set_flight_none_id s : flight s = None -> set_flight None s = s.
Proof. destruct s; cbn; intros ->; reflexivity. Qed.

Lemma recover_quiet e : forall f rs s,
  pre_rec rs s -> need e rs s <= f ->
  quiet (recover f e rs s) /\ landed e rs s (recover f e rs s).
Proof.
  induction f as [|f IH]; intros rs s (Hfl & Hfr & Hal & Hpre) Hneed.
  { exfalso. unfold need in Hneed.
    destruct (nth_error (try_list e) (tryi s)) as [y|] eqn:E.
    - assert (tryi s < length (try_list e)) by (apply nth_error_Some; congruence).
      destruct (y =? rs); lia.
    - lia. }
  cbn [recover]. rewrite Hal. cbn [negb].
  destruct Hpre as [(Hq & Hne & Hcur) | (Hop & Hli & Hcur)].
  - (* the failed server is not the current one: a chat message, nothing changes *)
    destruct (cur s) as [c|] eqn:Ec; [|congruence].
    cbn in Hne. rewrite Hne.
    rewrite set_flight_none_id by assumption. split; [assumption|].
    right. right. rewrite Ec. split; [reflexivity|]. split; [discriminate|exact Hne].
  - assert (Hk : match cur s with None => true | Some c => c_srv c =? rs end = true).
    { destruct Hcur as [->|H]; [reflexivity|]. destruct (cur s); [exact H|reflexivity]. }
    rewrite Hk.
    destruct (next_server_to_try e s (Some rs)) as [s1 [t|]] eqn:En.
    + destruct (next_spec _ _ _ _ _ En) as (i & -> & Hle & Hnth & Hex & Hadv).
      set (s2 := set_cur None (set_flight None (set_tryi i s))).
      assert (Hq2 : quiet s2).
      { destruct s as [cu fl li op ti al at_]. cbn in *. subst. unfold s2, quiet, fresh. cbn.
        repeat split; auto; try (intros c []). }
      assert (Hcs : check_server s2 t = None) by reflexivity.
      rewrite Hcs.
      assert (Hal2 : alive s2 = true) by (destruct s; exact Hal).
      pose proof (attempt_cases e t s2 Hq2 Hal2) as Hatt.
      destruct (attempt e t s2) as [s3 o] eqn:Ea. cbn [fst snd] in Hatt.
      destruct Hatt as (Hq3 & Hal3 & [(Ho & c & Hc3 & Hct) | (Ho & Hcur3 & _)]).
      * subst o. split; [assumption|]. right. left. split; [congruence|]. exists c. split; [assumption|].
        subst t. eapply nth_error_In; eassumption.
      * assert (Hc3 : cur s3 = None) by (destruct Hcur3 as [H|H]; [rewrite H; reflexivity|exact H]).
        assert (Ht3 : tryi s3 = i).
        { pose proof (attempt_fail_tryi e t s2 eq_refl) as H. rewrite Ea in H. cbn [fst snd] in H.
          rewrite H by assumption. destruct s; reflexivity. }
        assert (Hrec : quiet (recover f e t s3) /\ landed e t s3 (recover f e t s3)).
        { apply IH.
          - destruct Hq3 as (A & B & C & D & E). repeat split; auto; [congruence|].
            right. rewrite Hc3 in B, C. cbn in B, C. auto.
          - unfold need. rewrite Ht3, Hnth, Nat.eqb_refl.
            assert (i < length (try_list e)) by (apply nth_error_Some; congruence).
            unfold need in Hneed.
            destruct (nth_error (try_list e) (tryi s)) as [y|] eqn:E.
            + destruct (Nat.eqb_spec y rs) as [->|].
              * assert (tryi s < i) by (apply (Hadv rs eq_refl), onat_is_refl). lia.
              * lia.
            + lia. }
        destruct o; [congruence| |]; (split; [apply Hrec|]);
          destruct Hrec as (_ & [H|[H|(H1 & H2 & _)]]); try (left; exact H); try (right; left; exact H);
          congruence.
    + apply next_none in En. subst s1.
      assert (Hk2 : quiet (kill (set_cur None (set_flight None s))) /\
                    alive (kill (set_cur None (set_flight None s))) = false).
      { apply kill_quiet; destruct s; cbn in *; auto. }
      split; [apply Hk2|]. left. apply Hk2.
Qed.

Lemma need_le_fuel e rs s : need e rs s <= fuel_of e.
Proof.
  unfold need, fuel_of. destruct (nth_error _ _) as [y|]; [destruct (y =? rs)|]; lia.
Qed.

(* ----- operations ----- *)

Lemma check_none_not_cur s t : check_server s t = None -> srv_is (cur s) t = false.
Proof.
  unfold check_server. destruct (flight s); [discriminate|].
  destruct (cur s) as [c|]; [|reflexivity]. cbn. destruct (c_srv c =? t); [discriminate|reflexivity].
Qed.

Lemma connect_raw_quiet strict e t s :
  quiet s -> alive s = true ->
  quiet (fst (connect_raw strict e t s)) /\
  (snd (connect_raw strict e t s) = RSuccess -> srv_is (cur (fst (connect_raw strict e t s))) t = true).
Proof.
  intros Hq Hal. unfold connect_raw.
  destruct (check_server s t) as [r|] eqn:Ec.
  - assert (Hs : (if strict then s else set_flight None s) = s)
      by (destruct strict; [reflexivity|apply set_flight_none_id, Hq]).
    cbn [fst snd]. rewrite Hs. split; [assumption|].
    intros ->. unfold check_server in Ec. destruct (flight s); [discriminate|].
    destruct (cur s) as [c|]; [|discriminate]. destruct (c_srv c =? t); discriminate.
  - pose proof (attempt_cases e t s Hq Hal) as H.
    destruct (attempt e t s) as [s1 o]. cbn [fst snd] in *.
    destruct H as (Hq1 & _ & [(-> & c & Hc & Hct) | (Ho & _)]).
    + split; [assumption|]. intros _. rewrite Hc. cbn. subst t. apply Nat.eqb_refl.
    + split; [assumption|]. destruct o; cbn; congruence.
Qed.

Lemma connect_ind_quiet e t s :
  quiet s -> alive s = true -> quiet (fst (connect_ind e t s)).
Proof.
  intros Hq Hal. unfold connect_ind.
  destruct (check_server s t) as [r|] eqn:Ec; [exact Hq|].
  pose proof (attempt_cases e t s Hq Hal) as H.
  destruct (attempt e t s) as [s1 o]. cbn [fst snd] in *.
  destruct H as (Hq1 & Hal1 & [(-> & _) | (Ho & Hcur & _)]); [exact Hq1|].
  assert (Hpre : pre_rec t s1).
  { pose proof Hq1 as (A & B & C & D & E).
    split; [exact A|]. split; [exact E|]. split; [congruence|].
    destruct (cur s1) as [c|] eqn:Ec1.
    - left. split; [exact Hq1|]. split; [|discriminate].
      destruct Hcur as [H|H]; [|discriminate].
      pose proof (check_none_not_cur s t Ec) as Hn. rewrite <- H in Hn. exact Hn.
    - right. cbn in B, C. auto. }
  destruct o; [congruence| |]; cbn [fst];
    apply (recover_quiet e (fuel_of e) t s1 Hpre (need_le_fuel e t s1)).
Qed.

Lemma login_quiet e : quiet (login e init_st).
Proof.
  unfold login.
  destruct (next_server_to_try e init_st None) as [s1 [t|]] eqn:En.
  - destruct (next_spec _ _ _ _ _ En) as (i & -> & _).
    apply connect_ind_quiet; [|reflexivity].
    unfold quiet, fresh. cbn. repeat split; auto; try (intros c []).
  - apply next_none in En. subst s1.
    apply (kill_quiet init_st); try reflexivity. intros c [].
Qed.

Lemma run_inner_refused e c : forall inner s,
  flight s = Some c ->
  run_inner true e inner s = (s, map (fun x : bool * nat => if fst x then RFalse else RInProgress) inner).
Proof.
  induction inner as [|[ind t] r IH]; intros s Hf; [reflexivity|].
  cbn [run_inner]. unfold connect_ind, connect_raw, check_server. rewrite Hf.
  destruct ind; cbn [fst]; rewrite (IH s Hf); reflexivity.
Qed.

(* every operation of the specification leads from a quiescent state to a quiescent state *)
Lemma step_spec_quiet e o s : quiet s -> quiet (fst (step true e o s)).
Proof.
  intros Hq. unfold step. destruct (alive s) eqn:Hal; cbn [negb]; [|exact Hq].
  destruct o as [t|t| | |z inner|prev t].
  6:{ pose proof (connect_raw_quiet true e t s Hq Hal) as [H _].
      destruct (connect_raw true e t s). exact H. }
  - pose proof (connect_raw_quiet true e t s Hq Hal) as [H _].
    destruct (connect_raw true e t s). exact H.
  - pose proof (connect_ind_quiet e t s Hq Hal) as H.
    destruct (connect_ind e t s). exact H.
  - destruct (cur s) as [c|] eqn:Ec; [|exact Hq]. cbn [fst].
    apply recover_quiet; [|apply need_le_fuel].
    destruct s as [cu fl li op ti al at_]. destruct Hq as (A & B & C & D & E). cbn in *. subst.
    unfold pre_rec, close_joined, fresh. cbn [cur flight lists opened tryi alive attempts olist map].
    rewrite remove_conn_single, remove_nat_single.
    split; [reflexivity|]. split; [intros x []|]. split; [reflexivity|].
    right. split; [reflexivity|]. split; [reflexivity|]. right. cbn. apply Nat.eqb_refl.
  - destruct (cur s) as [c|] eqn:Ec; [|exact Hq]. cbn [fst].
    apply recover_quiet; [|apply need_le_fuel].
    destruct s as [cu fl li op ti al at_]. destruct Hq as (A & B & C & D & E). cbn in *. subst.
    unfold pre_rec, close_joined, fresh. cbn [cur flight lists opened tryi alive attempts olist map].
    rewrite remove_conn_single, remove_nat_single.
    split; [reflexivity|]. split; [intros x []|]. split; [reflexivity|].
    right. split; [reflexivity|]. split; [reflexivity|]. right. cbn. apply Nat.eqb_refl.
  - destruct (check_server s z) as [r|] eqn:Ec; [exact Hq|].
    unfold open_conn.
    set (c := mkConn z (nth z (attempts s) 0)).
    set (s1 := mkSt _ _ _ _ _ _ _).
    rewrite (run_inner_refused e c inner (set_flight (Some c) s1) eq_refl). cbn [fst].
    destruct s as [cu fl li op ti al at_]. destruct Hq as (A & B & C & D & E). cbn in *. subst.
    unfold quiet, fresh, reset_if_flight, close_plain, set_flight. cbn.
    rewrite !conn_eqb_refl. cbn.
    assert (Hrm : remove_conn c (olist cu) = olist cu).
    { apply remove_conn_notin. intros Hin. specialize (E c Hin). subst c. cbn in E. lia. }
    unfold remove_conn in Hrm. rewrite Hrm. repeat split; auto.
    intros x Hx. specialize (E x Hx). cbn in E.
    eapply Nat.lt_le_trans; [exact E|apply nth_bump_le].
Qed.

(* the code before fix 8f6edb6 differed only in what a refused raw Connect did to the in-flight slot,
   which is empty in a quiescent state: outside ODuring the two coincide *)
Definition no_during (ops : list op) : Prop :=
  Forall (fun o => match o with ODuring _ _ => False | _ => True end) ops.

Lemma step_prefix_eq_spec e o s :
  quiet s -> match o with ODuring _ _ => False | _ => True end -> step false e o s = step true e o s.
Proof.
  intros Hq Ho. unfold step. destruct (alive s); cbn [negb]; [|reflexivity].
  destruct o; try reflexivity; try contradiction;
    (unfold connect_raw; destruct (check_server s t); [|reflexivity];
     rewrite set_flight_none_id by apply Hq; reflexivity).
Qed.

(* ----- observations of quiescent states satisfy the property's state predicate ----- *)

Lemma bools_eqb_refl l : bools_eqb l l = true.
Proof. induction l as [|x l IH]; [reflexivity|]. cbn. rewrite IH. now destruct x. Qed.
Lemma nats_eqb_refl l : nats_eqb l l = true.
Proof. induction l as [|x l IH]; [reflexivity|]. cbn. now rewrite IH, Nat.eqb_refl. Qed.

Lemma observe_state_ok n rs s : quiet s -> state_ok n (observe n rs s) = true.
Proof.
  intros (A & B & C & D & E). unfold state_ok, observe. cbn [o_lists o_open o_cur o_alive].
  rewrite !map_length, seq_length, Nat.eqb_refl. cbn [andb].
  rewrite B, C.
  assert (H1 : map (fun x => existsb (Nat.eqb x) (map c_srv (olist (cur s)))) (seq 0 n)
               = map (fun x => onat_is (option_map c_srv (cur s)) x) (seq 0 n)).
  { apply map_ext. intros x. destruct (cur s) as [c|]; cbn; [|reflexivity].
    rewrite orb_false_r. apply Nat.eqb_sym. }
  assert (H2 : map (fun x => count_srv x (olist (cur s))) (seq 0 n)
               = map (fun x => if onat_is (option_map c_srv (cur s)) x then 1 else 0) (seq 0 n)).
  { apply map_ext. intros x. destruct (cur s) as [c|]; cbn; [|reflexivity].
    unfold count_srv. cbn. destruct (c_srv c =? x); reflexivity. }
  rewrite H1, H2, bools_eqb_refl, nats_eqb_refl. cbn [andb].
  destruct (alive s) eqn:Ea; [reflexivity|]. rewrite (D eq_refl). reflexivity.
Qed.

Lemma run_ops_spec_ok e n : forall ops s,
  quiet s -> Forall (fun o => state_ok n o = true) (run_ops true e n ops s).
Proof.
  induction ops as [|o r IH]; intros s Hq; [constructor|].
  cbn [run_ops]. pose proof (step_spec_quiet e o s Hq) as H.
  destruct (step true e o s) as [s1 rs]. cbn [fst] in H.
  constructor; [apply observe_state_ok, H|apply IH, H].
Qed.

Theorem spec_histories_state_ok e n ops :
  Forall (fun o => state_ok n o = true) (run true e n ops).
Proof.
  unfold run. constructor.
  - apply observe_state_ok, login_quiet.
  - apply run_ops_spec_ok, login_quiet.
Qed.

Lemma run_ops_prefix_eq e n : forall ops s,
  quiet s -> no_during ops -> run_ops false e n ops s = run_ops true e n ops s.
Proof.
  induction ops as [|o r IH]; intros s Hq Hn; [reflexivity|].
  inversion Hn as [|? ? Ho Hr]; subst.
  cbn [run_ops]. rewrite (step_prefix_eq_spec e o s Hq Ho).
  pose proof (step_spec_quiet e o s Hq) as H.
  destruct (step true e o s) as [s1 rs]. cbn [fst] in H.
  rewrite (IH s1 H Hr). reflexivity.
Qed.

Theorem prefix_eq_impl_off_trigger e n ops :
  no_during ops -> prefix_run e n ops = impl_run e n ops.
Proof.
  intros H. unfold prefix_run, impl_run, run. f_equal. apply run_ops_prefix_eq; [apply login_quiet|exact H].
Qed.

Theorem prefix_histories_state_ok e n ops :
  no_during ops -> Forall (fun o => state_ok n o = true) (prefix_run e n ops).
Proof. intros H. rewrite prefix_eq_impl_off_trigger by exact H. apply (spec_histories_state_ok e n ops). Qed.

(* today's code is the specification on sequential histories *)
Lemma seq_impl_is_spec : impl_run = spec_run.
Proof. reflexivity. Qed.

(* refusals have no side effects in the specification ... *)
Theorem spec_refusal_no_side_effect e t s r :
  check_server s t = Some r ->
  connect_raw true e t s = (s, r) /\ connect_ind e t s = (s, RFalse).
Proof. intros H. unfold connect_raw, connect_ind. rewrite H. split; reflexivity. Qed.

(* ... but not in the code before fix 8f6edb6 (finding C16-2): the history observed on the real proxy *)
Definition ex_env : env := mkEnv FamA [0] [[]; []; []; repeat BStall 8].
Definition ex_ops : list op := [ODuring 3 [(false, 1); (false, 2)]].

Theorem prefix_refusal_side_effect_refuted :
  map o_res (run false ex_env 4 ex_ops) = [[RNone]; [RInProgress; RSuccess; RErr]] /\
  history_ok ex_env 4 ex_ops (run false ex_env 4 ex_ops) = false /\
  map o_res (run true ex_env 4 ex_ops) = [[RNone]; [RInProgress; RInProgress; RErr]] /\
  history_ok ex_env 4 ex_ops (run true ex_env 4 ex_ops) = true.
Proof. vm_compute. repeat split; reflexivity. Qed.

(* after a successful switch the player is on the destination (and, by quiet, the previous backend
   connection is closed and the lists are updated) *)
Theorem success_on_destination strict e t s :
  quiet s -> alive s = true -> snd (connect_raw strict e t s) = RSuccess ->
  quiet (fst (connect_raw strict e t s)) /\ srv_is (cur (fst (connect_raw strict e t s))) t = true.
Proof. intros Hq Ha Hr. destruct (connect_raw_quiet strict e t s Hq Ha) as [A B]. auto. Qed.

(* a failed attempt of a pre-1.20.2 client leaves the player on its previous server *)
Theorem failed_attempt_keeps_previous e t s :
  fam e = FamA -> quiet s -> alive s = true -> snd (attempt e t s) <> OutSuccess ->
  cur (fst (attempt e t s)) = cur s /\ quiet (fst (attempt e t s)).
Proof.
  intros Hf Hq Ha Ho. destruct (attempt_cases e t s Hq Ha) as (A & _ & [(B & _)|(_ & _ & C)]).
  - congruence.
  - auto.
Qed.

(* the built-in recovery ends on the previous server, on a server of the try list, or with the player
   disconnected - always in a consistent state *)
Theorem recovery_lands e rs s :
  pre_rec rs s ->
  quiet (recover (fuel_of e) e rs s) /\ landed e rs s (recover (fuel_of e) e rs s).
Proof. intros H. apply recover_quiet; [exact H|apply need_le_fuel]. Qed.

(* ---------- C. concurrent requests: all schedules (Base/Conc.v) ---------- *)

Definition idle_pc (n : nat) : Prop := n = 0 \/ n = 1 \/ n = 4.

(* the shape of the shared state of the specification threads *)
Inductive cinv (c : cst) : Prop :=
| CIdle :
    c_active c = [] ->
    (forall j, idle_pc (l_pc (c_loc c j))) ->
    flight (c_st c) = None ->
    opened (c_st c) = olist (cur (c_st c)) ->
    lists (c_st c) = map c_srv (olist (cur (c_st c))) ->
    fresh (c_st c) ->
    cinv c
| CFlight (k : nat) (cn : conn) :
    c_active c = [k] ->
    l_pc (c_loc c k) = 2 -> l_conn (c_loc c k) = Some cn ->
    (forall j, j <> k -> idle_pc (l_pc (c_loc c j))) ->
    flight (c_st c) = Some cn ->
    opened (c_st c) = cn :: olist (cur (c_st c)) ->
    lists (c_st c) = map c_srv (olist (cur (c_st c))) ->
    ~ In cn (olist (cur (c_st c))) ->
    fresh (c_st c) ->
    cinv c
| CJoin (k : nat) (cn : conn) (ex : option conn) :
    c_active c = [k] ->
    l_pc (c_loc c k) = 3 -> l_conn (c_loc c k) = Some cn -> l_existing (c_loc c k) = ex ->
    (forall j, j <> k -> idle_pc (l_pc (c_loc c j))) ->
    flight (c_st c) = Some cn -> cur (c_st c) = None ->
    opened (c_st c) = cn :: olist ex ->
    lists (c_st c) = map c_srv (olist ex) ->
    ~ In cn (olist ex) ->
    fresh (c_st c) ->
    cinv c.

Lemma upd_same k x f : upd k x f k = x.
Proof. unfold upd. now rewrite Nat.eqb_refl. Qed.
Lemma upd_other k x f j : j <> k -> upd k x f j = f j.
Proof. unfold upd. intros H. destruct (Nat.eqb_spec j k); [contradiction|reflexivity]. Qed.

Lemma idle_not_2 n : idle_pc n -> n <> 2 /\ n <> 3.
Proof. intros [->|[->| ->]]; split; discriminate. Qed.

Lemma fresh_open t s :
  fresh s ->
  let c := mkConn t (nth t (attempts s) 0) in
  fresh (fst (open_conn t s)) /\ ~ In c (opened s).
Proof.
  intros Hf. cbn. split.
  - intros x [<-|Hx]; cbn.
    + rewrite nth_bump_same. lia.
    + eapply Nat.lt_le_trans; [apply Hf, Hx|apply nth_bump_le].
  - intros Hin. specialize (Hf _ Hin). cbn in Hf. lia.
Qed.

Lemma check_set_preserves k t c : cinv c -> cinv (fst (a_check_set k t c)).
Proof.
  intros Hc. unfold a_check_set.
  destruct ((l_pc (c_loc c k) =? 0) || (l_pc (c_loc c k) =? 1)) eqn:Hg; [|exact Hc].
  assert (Hpc : l_pc (c_loc c k) = 0 \/ l_pc (c_loc c k) = 1).
  { apply orb_true_iff in Hg. destruct Hg as [H|H]; apply Nat.eqb_eq in H; auto. }
  destruct Hc as [Ha Hidle Hfl Hop Hli Hfr | k' cn Ha Hp Hcn Hidle Hfl Hop Hli Hnin Hfr
                 | k' cn ex Ha Hp Hcn Hex Hidle Hfl Hcur Hop Hli Hnin Hfr].
  - destruct (check_server (c_st c) t) as [r|] eqn:Ec; cbn [fst].
    + apply CIdle; cbn [c_active c_loc c_st]; auto.
      intros j. destruct (Nat.eq_dec j k) as [->|Hj]; [rewrite upd_same; right; right; reflexivity|].
      rewrite upd_other by assumption. apply Hidle.
    + destruct (fresh_open t (c_st c) Hfr) as [Hfr' Hnew].
      unfold open_conn in *. cbn [fst] in *.
      set (cn := mkConn t (nth t (attempts (c_st c)) 0)) in *.
      apply (CFlight _ k cn); cbn [c_active c_loc c_st set_flight cur flight lists opened attempts];
        auto.
      * now rewrite Ha.
      * now rewrite upd_same.
      * now rewrite upd_same.
      * intros j Hj. rewrite upd_other by assumption. apply Hidle.
      * now rewrite Hop.
      * now rewrite <- Hop.
  - assert (Hk : k <> k') by (intros ->; destruct Hpc; congruence).
    unfold check_server. rewrite Hfl. cbn [fst].
    apply (CFlight _ k' cn); cbn [c_active c_loc c_st]; auto.
    + now rewrite upd_other by auto.
    + now rewrite upd_other by auto.
    + intros j Hj. destruct (Nat.eq_dec j k) as [->|Hjk]; [rewrite upd_same; right; right; reflexivity|].
      rewrite upd_other by assumption. apply Hidle, Hj.
  - assert (Hk : k <> k') by (intros ->; destruct Hpc; congruence).
    unfold check_server. rewrite Hfl. cbn [fst].
    apply (CJoin _ k' cn ex); cbn [c_active c_loc c_st]; auto.
    + now rewrite upd_other by auto.
    + now rewrite upd_other by auto.
    + now rewrite upd_other by auto.
    + intros j Hj. destruct (Nat.eq_dec j k) as [->|Hjk]; [rewrite upd_same; right; right; reflexivity|].
      rewrite upd_other by assumption. apply Hidle, Hj.
Qed.

Lemma join1_preserves k c : cinv c -> cinv (fst (a_join1 k c)).
Proof.
  intros Hc. unfold a_join1.
  destruct (Nat.eqb_spec (l_pc (c_loc c k)) 2) as [Hpc|Hpc]; [|exact Hc].
  destruct Hc as [Ha Hidle Hfl Hop Hli Hfr | k' cn Ha Hp Hcn Hidle Hfl Hop Hli Hnin Hfr
                 | k' cn ex Ha Hp Hcn Hex Hidle Hfl Hcur Hop Hli Hnin Hfr].
  - exfalso. destruct (idle_not_2 _ (Hidle k)). congruence.
  - destruct (Nat.eq_dec k k') as [->|Hk].
    + cbn [fst]. apply (CJoin _ k' cn (cur (c_st c)));
        cbn [c_active c_loc c_st set_cur cur flight lists opened attempts]; auto.
      * now rewrite upd_same.
      * now rewrite upd_same.
      * now rewrite upd_same.
      * intros j Hj. rewrite upd_other by assumption. apply Hidle, Hj.
    + exfalso. destruct (idle_not_2 _ (Hidle k Hk)). congruence.
  - destruct (Nat.eq_dec k k') as [->|Hk]; [congruence|].
    exfalso. destruct (idle_not_2 _ (Hidle k Hk)). congruence.
Qed.

Lemma join2_preserves k c : cinv c -> cinv (fst (a_join2 k c)).
Proof.
  intros Hc. unfold a_join2.
  destruct (Nat.eqb_spec (l_pc (c_loc c k)) 3) as [Hpc|Hpc]; [|exact Hc].
  destruct Hc as [Ha Hidle Hfl Hop Hli Hfr | k' cn Ha Hp Hcn Hidle Hfl Hop Hli Hnin Hfr
                 | k' cn ex Ha Hp Hcn Hex Hidle Hfl Hcur Hop Hli Hnin Hfr].
  - exfalso. destruct (idle_not_2 _ (Hidle k)). congruence.
  - destruct (Nat.eq_dec k k') as [->|Hk]; [congruence|].
    exfalso. destruct (idle_not_2 _ (Hidle k Hk)). congruence.
  - destruct (Nat.eq_dec k k') as [->|Hk].
    2:{ exfalso. destruct (idle_not_2 _ (Hidle k Hk)). congruence. }
    rewrite Hcn, Hex. cbn [fst].
    destruct (c_st c) as [cu fl li op ti al at_] eqn:Es. cbn in Hfl, Hcur, Hop, Hli. subst cu fl op li.
    assert (Hfin : join_finish cn ex (mkSt None (Some cn) (map c_srv (olist ex)) (cn :: olist ex) ti al at_)
                   = mkSt (Some cn) None [c_srv cn] [cn] 0 al at_).
    { unfold join_finish. destruct ex as [x|]; cbn [olist map] in *.
      - unfold close_joined. cbn [cur flight lists opened tryi alive attempts c_srv].
        rewrite remove_nat_single.
        assert (Hne : conn_eqb cn x = false) by (apply conn_eqb_neq; intros ->; apply Hnin; now left).
        unfold remove_conn. cbn [filter]. rewrite Hne, conn_eqb_refl. cbn.
        now rewrite conn_eqb_refl.
      - cbn. now rewrite conn_eqb_refl. }
    rewrite Hfin.
    apply CIdle; cbn [c_active c_loc c_st cur flight lists opened olist map]; auto.
    + rewrite Ha. cbn. now rewrite Nat.eqb_refl.
    + intros j. destruct (Nat.eq_dec j k') as [->|Hj]; [rewrite upd_same; right; right; reflexivity|].
      rewrite upd_other by assumption. apply Hidle, Hj.
    + intros x [<-|[]]. cbn. apply (Hfr cn). cbn. now left.
Qed.

Lemma spec_actions k0 ts a :
  In a (concat (requests spec_request k0 ts)) ->
  exists k t, a = a_check_set k t \/ a = a_join1 k \/ a = a_join2 k.
Proof.
  revert k0. induction ts as [|t r IH]; intros k0 H; [destruct H|].
  cbn in H. destruct H as [<-|[<-|[<-|H]]].
  - exists k0, t. auto.
  - exists k0, t. auto.
  - exists k0, t. auto.
  - apply (IH (S k0)). exact H.
Qed.

(* for every number of concurrent requests, every target list and every schedule *)
Theorem spec_invariant_all_schedules ts sched c0 :
  cinv c0 ->
  cinv (fst (fst (Conc.run (requests spec_request 0 ts) sched c0))).
Proof.
  apply (inv_all_schedules cinv).
  intros a Ha s Hs. destruct (spec_actions _ _ _ Ha) as (k & t & [->|[->| ->]]).
  - now apply check_set_preserves.
  - now apply join1_preserves.
  - now apply join2_preserves.
Qed.

Lemma cinv_start : cinv start_cst.
Proof.
  apply CIdle; cbn; auto.
  - intros j. now left.
  - intros c [<-|[]]. cbn. lia.
Qed.

(* today's code: the unlocked preliminary checks only move a request that holds nothing *)
Lemma check_preserves k t c : cinv c -> cinv (fst (a_check k t c)).
Proof.
  intros Hc. unfold a_check.
  destruct ((l_pc (c_loc c k) =? 0) || (l_pc (c_loc c k) =? 1)) eqn:Hg; [|exact Hc].
  assert (Hpc : l_pc (c_loc c k) = 0 \/ l_pc (c_loc c k) = 1).
  { apply orb_true_iff in Hg. destruct Hg as [H|H]; apply Nat.eqb_eq in H; auto. }
  set (l' := match check_server (c_st c) t with Some _ => mkLocal 4 None None | None => mkLocal 1 None None end).
  assert (Hl' : idle_pc (l_pc l')) by (unfold l'; destruct (check_server (c_st c) t); [right; right|right; left]; reflexivity).
  assert (Heq : fst (match check_server (c_st c) t with
              | Some r => (mkCst (c_st c) (upd k (mkLocal 4 None None) (c_loc c)) (c_active c), [(k, r)])
              | None => (mkCst (c_st c) (upd k (mkLocal 1 None None) (c_loc c)) (c_active c), [])
              end) = mkCst (c_st c) (upd k l' (c_loc c)) (c_active c))
    by (unfold l'; destruct (check_server (c_st c) t); reflexivity).
  rewrite Heq. clear Heq.
  destruct Hc as [Ha Hidle Hfl Hop Hli Hfr | k' cn Ha Hp Hcn Hidle Hfl Hop Hli Hnin Hfr
                 | k' cn ex Ha Hp Hcn Hex Hidle Hfl Hcur Hop Hli Hnin Hfr].
  - apply CIdle; cbn [c_active c_loc c_st]; auto.
    intros j. destruct (Nat.eq_dec j k) as [->|Hj]; [rewrite upd_same; exact Hl'|].
    rewrite upd_other by assumption. apply Hidle.
  - assert (Hk : k <> k') by (intros ->; destruct Hpc; congruence).
    apply (CFlight _ k' cn); cbn [c_active c_loc c_st]; auto.
    + now rewrite upd_other by auto.
    + now rewrite upd_other by auto.
    + intros j Hj. destruct (Nat.eq_dec j k) as [->|Hjk]; [rewrite upd_same; exact Hl'|].
      rewrite upd_other by assumption. apply Hidle, Hj.
  - assert (Hk : k <> k') by (intros ->; destruct Hpc; congruence).
    apply (CJoin _ k' cn ex); cbn [c_active c_loc c_st]; auto.
    + now rewrite upd_other by auto.
    + now rewrite upd_other by auto.
    + now rewrite upd_other by auto.
    + intros j Hj. destruct (Nat.eq_dec j k) as [->|Hjk]; [rewrite upd_same; exact Hl'|].
      rewrite upd_other by assumption. apply Hidle, Hj.
Qed.

Lemma impl_actions k0 ts a :
  In a (concat (requests impl_request k0 ts)) ->
  exists k t, a = a_check k t \/ a = a_check_set k t \/ a = a_join1 k \/ a = a_join2 k.
Proof.
  revert k0. induction ts as [|t r IH]; intros k0 H; [destruct H|].
  cbn in H. destruct H as [<-|[<-|[<-|[<-|[<-|H]]]]].
  - exists k0, t. auto.
  - exists k0, t. auto.
  - exists k0, t. auto.
  - exists k0, t. auto.
  - exists k0, t. auto.
  - apply (IH (S k0)). exact H.
Qed.

(* today's code, every number of concurrent requests, every target list, every schedule *)
Theorem impl_invariant_all_schedules ts sched c0 :
  cinv c0 ->
  cinv (fst (fst (Conc.run (requests impl_request 0 ts) sched c0))).
Proof.
  apply (inv_all_schedules cinv).
  intros a Ha s Hs. destruct (impl_actions _ _ _ Ha) as (k & t & [->|[->|[->| ->]]]).
  - now apply check_preserves.
  - now apply check_set_preserves.
  - now apply join1_preserves.
  - now apply join2_preserves.
Qed.

(* consequences of the invariant *)
Lemma cinv_one_in_flight c : cinv c -> length (c_active c) <= 1.
Proof. intros [Ha | k cn Ha | k cn ex Ha]; rewrite Ha; cbn; lia. Qed.

Lemma cinv_lists c : cinv c -> length (lists (c_st c)) <= 1 /\ length (opened (c_st c)) <= 2.
Proof.
  intros [Ha _ _ Hop Hli _ | k cn _ _ _ _ _ Hop Hli _ _ | k cn ex _ _ _ _ _ _ _ Hop Hli _ _];
    rewrite Hop, Hli; try destruct (cur (c_st c)); try destruct ex; cbn; lia.
Qed.

Lemma cinv_quiescent c :
  cinv c -> c_active c = [] ->
  flight (c_st c) = None /\ opened (c_st c) = olist (cur (c_st c)) /\
  lists (c_st c) = map c_srv (olist (cur (c_st c))).
Proof.
  intros Hc Hz. destruct Hc as [Ha Hidle Hfl Hop Hli _ | k cn Ha | k cn ex Ha];
    try (rewrite Ha in Hz; discriminate). auto.
Qed.

(* ----- the code BEFORE the fixes e5fee55 / 8f6edb6: refuted by schedule ----- *)

Definition proj (r : cst * list (nat * res) * list (@thread cst (nat * res))) :=
  let c := fst (fst r) in
  (c_active c, option_map c_srv (cur (c_st c)), lists (c_st c), map c_srv (opened (c_st c)), snd (fst r)).

(* two requests pass checkServer before either sets the slot: two attempts in flight *)
Theorem prefix_two_in_flight_refuted :
  proj (Conc.run [prefix_request 0 1; prefix_request 1 2] [0; 0; 1; 1; 0; 1] start_cst)
  = ([1; 0], Some 0, [0], [2; 1; 0], []).
Proof. vm_compute. reflexivity. Qed.

(* ... and, run to completion, two live backend connections, the player in two lists, two Success *)
Theorem prefix_two_live_refuted :
  proj (Conc.run [prefix_request 0 1; prefix_request 1 2] [0; 0; 1; 1; 0; 1; 0; 1; 0; 1; 0; 1] start_cst)
  = ([], Some 2, [2; 1], [2; 1], [(0, RSuccess); (1, RSuccess)]).
Proof. vm_compute. reflexivity. Qed.

(* a refused request clears the slot of the running one: the third request is let in *)
Theorem prefix_refusal_starts_next_refuted :
  proj (Conc.run [prefix_request 0 1; prefix_request 1 2; prefix_request 2 2]
            [0; 0; 0; 1; 1; 1; 1; 2; 2; 2] start_cst)
  = ([2; 0], Some 0, [0], [2; 1; 0], [(1, RInProgress)]).
Proof. vm_compute. reflexivity. Qed.

(* the same interleavings cannot hurt today's code: the second request is refused at
   checkAndSetInFlight (instance of the general theorem) *)
Example impl_same_schedule :
  proj (Conc.run [impl_request 0 1; impl_request 1 2] [0; 0; 1; 1; 0; 1; 0; 1; 0; 1] start_cst)
  = ([], Some 1, [1], [1], [(1, RInProgress); (0, RSuccess)]).
Proof. vm_compute. reflexivity. Qed.

(* the same schedules cannot hurt the specification (instances of the general theorem) *)
Example spec_same_schedule :
  proj (Conc.run [spec_request 0 1; spec_request 1 2] [0; 1; 0; 1; 0; 1] start_cst)
  = ([], Some 1, [1], [1], [(1, RInProgress); (0, RSuccess)]).
Proof. vm_compute. reflexivity. Qed.

(* ---------- D. the specification satisfies the whole property predicate on every history ---------- *)

Lemma onat_eqb_refl o : onat_eqb o o = true.
Proof. destruct o; cbn; [apply Nat.eqb_refl|reflexivity]. Qed.

Lemma same_state_obs n r r' s s' :
  quiet s -> quiet s' -> cur s = cur s' -> alive s = alive s' ->
  same_state (observe n r s) (observe n r' s') = true.
Proof.
  intros (_ & B & C & _) (_ & B' & C' & _) Hc Ha.
  unfold same_state, observe. cbn [o_cur o_lists o_open o_alive].
  rewrite B, C, B', C', Hc, Ha, onat_eqb_refl, bools_eqb_refl, nats_eqb_refl.
  now destruct (alive s').
Qed.

Lemma in_try_of e c : In (c_srv c) (try_list e) -> in_try e (Some (c_srv c)) = true.
Proof. intros H. cbn. apply existsb_exists. exists (c_srv c). split; [exact H|apply Nat.eqb_refl]. Qed.

Definition after_fail (e : env) (s s' : st) : Prop :=
  (cur s' = cur s /\ alive s' = alive s /\ cur s <> None) \/
  alive s' = false \/
  (alive s' = true /\ exists c, cur s' = Some c /\ In (c_srv c) (try_list e)).

Lemma connect_ind_ok e t s :
  quiet s -> alive s = true ->
  quiet (fst (connect_ind e t s)) /\
  ((snd (connect_ind e t s) = RTrue /\ srv_is (cur (fst (connect_ind e t s))) t = true) \/
   (snd (connect_ind e t s) = RFalse /\ after_fail e s (fst (connect_ind e t s)))).
Proof.
  intros Hq Hal. split; [now apply connect_ind_quiet|]. unfold connect_ind.
  destruct (check_server s t) as [r|] eqn:Ec.
  { right. split; [reflexivity|]. left. split; [reflexivity|]. split; [reflexivity|].
    unfold check_server in Ec. destruct Hq as (Hf & _). rewrite Hf in Ec.
    destruct (cur s); [discriminate|discriminate]. }
  pose proof (attempt_cases e t s Hq Hal) as H.
  destruct (attempt e t s) as [s1 o]. cbn [fst snd] in *.
  destruct H as (Hq1 & Hal1 & [(-> & c & Hc & Hct) | (Ho & Hcur & _)]).
  { left. split; [reflexivity|]. cbn [fst]. rewrite Hc. cbn. subst t. apply Nat.eqb_refl. }
  assert (Hpre : pre_rec t s1).
  { pose proof Hq1 as (A & B & C & D & E).
    split; [exact A|]. split; [exact E|]. split; [congruence|].
    destruct (cur s1) as [c|] eqn:Ec1.
    - left. split; [exact Hq1|]. split; [|discriminate].
      destruct Hcur as [H|H]; [|discriminate].
      pose proof (check_none_not_cur s t Ec) as Hn. rewrite <- H in Hn. exact Hn.
    - right. cbn in B, C. auto. }
  pose proof (recover_quiet e (fuel_of e) t s1 Hpre (need_le_fuel e t s1)) as (_ & Hl).
  right. split; [destruct o; [congruence|reflexivity|reflexivity]|].
  assert (Hgoal : after_fail e s (recover (fuel_of e) e t s1)).
  { destruct Hl as [H|[H|(H1 & H2 & _)]].
    - right. left. exact H.
    - right. right. exact H.
    - left. rewrite H1.
      assert (Hcs : cur s1 = cur s) by (destruct Hcur as [H|H]; [exact H|congruence]).
      split; [exact Hcs|]. split; [congruence|congruence]. }
  destruct o; [congruence|exact Hgoal|exact Hgoal].
Qed.

Lemma after_fail_obs e n r r' s s' :
  quiet s -> quiet s' -> after_fail e s s' ->
  same_state (observe n r s) (observe n r' s') || in_try e (o_cur (observe n r' s'))
  || negb (o_alive (observe n r' s')) = true.
Proof.
  intros Hq Hq' [(Hc & Ha & _)|[Ha|(Ha & c & Hc & Hin)]].
  - rewrite (same_state_obs n r r' s s' Hq Hq') by congruence. reflexivity.
  - cbn [observe o_alive]. rewrite Ha. cbn. now rewrite !orb_true_r.
  - cbn [observe o_cur]. rewrite Hc. cbn [option_map]. rewrite (in_try_of e c Hin).
    now rewrite orb_true_r.
Qed.

Lemma check_some_quiet s t r :
  quiet s -> check_server s t = Some r -> r = RAlready /\ srv_is (cur s) t = true.
Proof.
  intros (Hf & _) H. unfold check_server in H. rewrite Hf in H.
  destruct (cur s) as [c|]; [|discriminate]. cbn.
  destruct (c_srv c =? t); [|discriminate]. inversion H. auto.
Qed.

Lemma onat_is_map o x : onat_is (option_map c_srv o) x = srv_is o x.
Proof. destruct o; reflexivity. Qed.

Lemma ress_eqb_refl l : ress_eqb l l = true.
Proof. induction l as [|x l IH]; [reflexivity|]. cbn. rewrite IH. now destruct x. Qed.

(* one operation of the specification: quiescent again, and the operation's own clause holds *)
Lemma step_spec_ok e n o s r0 :
  quiet s ->
  quiet (fst (step true e o s)) /\
  op_ok e o (observe n r0 s) (observe n (snd (step true e o s)) (fst (step true e o s))) = true.
Proof.
  intros Hq. split; [now apply step_spec_quiet|].
  unfold step. destruct (alive s) eqn:Hal; cbn [negb].
  2:{ (* player gone: skipped *)
    cbn [fst snd].
    pose proof (same_state_obs n r0 [RSkipped] s s Hq Hq eq_refl eq_refl) as Hs.
    assert (Hb : o_alive (observe n r0 s) = false) by exact Hal.
    assert (Hr : o_res (observe n [RSkipped] s) = [RSkipped]) by reflexivity.
    set (b := observe n r0 s) in *. set (a := observe n [RSkipped] s) in *.
    destruct o; cbn [op_ok]; rewrite Hr, ?Hb, Hs; cbn; try reflexivity.
    now rewrite orb_true_r. }
  destruct o as [t|t| | |z inner|prev t].
  6:{ (* Connect on a stale request object: the snapshot is not looked at *)
    unfold connect_raw. destruct (check_server s t) as [r|] eqn:Ec.
    + destruct (check_some_quiet s t r Hq Ec) as [-> Hsrv]. cbn [fst snd].
      pose proof (same_state_obs n r0 [RAlready] s s Hq Hq eq_refl eq_refl) as Hs.
      assert (Hr : o_res (observe n [RAlready] s) = [RAlready]) by reflexivity.
      assert (Hc : onat_is (o_cur (observe n r0 s)) t = true) by (rewrite <- Hsrv; apply onat_is_map).
      set (b := observe n r0 s) in *. set (a := observe n [RAlready] s) in *.
      cbn [op_ok]. rewrite Hr, Hc, Hs. reflexivity.
    + pose proof (attempt_cases e t s Hq Hal) as H.
      destruct (attempt e t s) as [s1 oc]. cbn [fst snd] in *.
      destruct H as (Hq1 & Hal1 & [(-> & c & Hc & Hct) | (Ho & Hcur & HfamA)]).
      * cbn [res_of op_ok observe o_res o_cur]. rewrite Hc. cbn. subst t. apply Nat.eqb_refl.
      * assert (Hgoal :
          same_state (observe n r0 s) (observe n [res_of oc] s1)
          || (match fam e with FamB => true | FamA => false end &&
              match o_cur (observe n [res_of oc] s1) with None => o_alive (observe n [res_of oc] s1) | Some _ => false end) = true).
        { destruct Hcur as [Hsame|Hnone].
          - rewrite (same_state_obs n r0 [res_of oc] s s1 Hq Hq1) by congruence. reflexivity.
          - destruct (fam e) eqn:Ef.
            + rewrite (same_state_obs n r0 [res_of oc] s s1 Hq Hq1) by (try apply eq_sym, HfamA; congruence).
              reflexivity.
            + cbn [observe o_cur o_alive]. rewrite Hnone. cbn [option_map]. rewrite Hal1, Hal.
              now rewrite orb_true_r. }
        destruct oc; [congruence| |]; cbn [res_of op_ok o_res]; cbn [observe o_res]; exact Hgoal. }
  - (* Connect *)
    unfold connect_raw. destruct (check_server s t) as [r|] eqn:Ec.
    + destruct (check_some_quiet s t r Hq Ec) as [-> Hsrv]. cbn [fst snd].
      pose proof (same_state_obs n r0 [RAlready] s s Hq Hq eq_refl eq_refl) as Hs.
      assert (Hr : o_res (observe n [RAlready] s) = [RAlready]) by reflexivity.
      assert (Hc : onat_is (o_cur (observe n r0 s)) t = true) by (rewrite <- Hsrv; apply onat_is_map).
      set (b := observe n r0 s) in *. set (a := observe n [RAlready] s) in *.
      cbn [op_ok]. rewrite Hr, Hc, Hs. reflexivity.
    + pose proof (attempt_cases e t s Hq Hal) as H.
      destruct (attempt e t s) as [s1 oc]. cbn [fst snd] in *.
      destruct H as (Hq1 & Hal1 & [(-> & c & Hc & Hct) | (Ho & Hcur & HfamA)]).
      * cbn [res_of op_ok observe o_res o_cur]. rewrite Hc. cbn. subst t. apply Nat.eqb_refl.
      * assert (Hgoal :
          same_state (observe n r0 s) (observe n [res_of oc] s1)
          || (match fam e with FamB => true | FamA => false end &&
              match o_cur (observe n [res_of oc] s1) with None => o_alive (observe n [res_of oc] s1) | Some _ => false end) = true).
        { destruct Hcur as [Hsame|Hnone].
          - rewrite (same_state_obs n r0 [res_of oc] s s1 Hq Hq1) by congruence. reflexivity.
          - destruct (fam e) eqn:Ef.
            + rewrite (same_state_obs n r0 [res_of oc] s s1 Hq Hq1) by (try apply eq_sym, HfamA; congruence).
              reflexivity.
            + cbn [observe o_cur o_alive]. rewrite Hnone. cbn [option_map]. rewrite Hal1, Hal.
              now rewrite orb_true_r. }
        destruct oc; [congruence| |]; cbn [res_of op_ok o_res]; cbn [observe o_res]; exact Hgoal.
  - (* ConnectWithIndication *)
    pose proof (connect_ind_ok e t s Hq Hal) as (Hq1 & H).
    destruct (connect_ind e t s) as [s1 r]. cbn [fst snd] in *.
    destruct H as [(-> & Hon) | (-> & Haf)].
    + cbn [op_ok observe o_res o_cur]. destruct (cur s1) as [c|]; [exact Hon|discriminate].
    + cbn [op_ok]. cbn [observe o_res]. apply (after_fail_obs e n r0 [RFalse] s s1 Hq Hq1 Haf).
  - (* kick *)
    destruct (cur s) as [c|] eqn:Ec.
    + cbn [fst snd].
      assert (Hpre : pre_rec (c_srv c) (close_joined c s)).
      { destruct s as [cu fl li op ti al at_]. destruct Hq as (A & B & C & D & E). cbn in *. subst.
        unfold pre_rec, close_joined, fresh. cbn [cur flight lists opened tryi alive attempts olist map].
        rewrite remove_conn_single, remove_nat_single.
        split; [reflexivity|]. split; [intros x []|]. split; [reflexivity|].
        right. split; [reflexivity|]. split; [reflexivity|]. right. cbn. apply Nat.eqb_refl. }
      pose proof (recover_quiet e (fuel_of e) _ _ Hpre (need_le_fuel e _ _)) as (Hq1 & Hl).
      set (s' := recover (fuel_of e) e (c_srv c) (close_joined c s)) in *.
      change (in_try e (option_map c_srv (cur s')) || negb (alive s') = true).
      destruct Hl as [H|[(Ha & c' & Hc' & Hin)|(_ & _ & Hno)]].
      * rewrite H. now rewrite orb_true_r.
      * rewrite Hc'. cbn [option_map]. now rewrite (in_try_of e c' Hin).
      * exfalso. destruct s; cbn in *. subst. cbn in Hno. rewrite Nat.eqb_refl in Hno. discriminate.
    + cbn [fst snd op_ok observe o_res].
      pose proof (same_state_obs n r0 [RSkipped] s s Hq Hq eq_refl eq_refl) as Hs. exact Hs.
  - (* drop: the same reaction *)
    destruct (cur s) as [c|] eqn:Ec.
    + cbn [fst snd].
      assert (Hpre : pre_rec (c_srv c) (close_joined c s)).
      { destruct s as [cu fl li op ti al at_]. destruct Hq as (A & B & C & D & E). cbn in *. subst.
        unfold pre_rec, close_joined, fresh. cbn [cur flight lists opened tryi alive attempts olist map].
        rewrite remove_conn_single, remove_nat_single.
        split; [reflexivity|]. split; [intros x []|]. split; [reflexivity|].
        right. split; [reflexivity|]. split; [reflexivity|]. right. cbn. apply Nat.eqb_refl. }
      pose proof (recover_quiet e (fuel_of e) _ _ Hpre (need_le_fuel e _ _)) as (Hq1 & Hl).
      set (s' := recover (fuel_of e) e (c_srv c) (close_joined c s)) in *.
      change (in_try e (option_map c_srv (cur s')) || negb (alive s') = true).
      destruct Hl as [H|[(Ha & c' & Hc' & Hin)|(_ & _ & Hno)]].
      * rewrite H. now rewrite orb_true_r.
      * rewrite Hc'. cbn [option_map]. now rewrite (in_try_of e c' Hin).
      * exfalso. destruct s; cbn in *. subst. cbn in Hno. rewrite Nat.eqb_refl in Hno. discriminate.
    + cbn [fst snd op_ok observe o_res].
      pose proof (same_state_obs n r0 [RSkipped] s s Hq Hq eq_refl eq_refl) as Hs. exact Hs.
  - (* requests issued while another one is in flight *)
    pose proof (step_spec_quiet e (ODuring z inner) s Hq) as Hq1.
    unfold step in Hq1. rewrite Hal in Hq1. cbn [negb] in Hq1.
    destruct (check_server s z) as [r|] eqn:Ec.
    + destruct (check_some_quiet s z r Hq Ec) as [-> Hsrv]. cbn [fst snd].
      pose proof (same_state_obs n r0 [RAlready] s s Hq Hq eq_refl eq_refl) as Hs.
      assert (Hr : o_res (observe n [RAlready] s) = [RAlready]) by reflexivity.
      assert (Hc : onat_is (o_cur (observe n r0 s)) z = true) by (rewrite <- Hsrv; apply onat_is_map).
      set (b := observe n r0 s) in *. set (a := observe n [RAlready] s) in *.
      cbn [op_ok]. rewrite Hr, Hc, Hs. cbn. now rewrite orb_true_r.
    + unfold open_conn in *.
      set (c := mkConn z (nth z (attempts s) 0)) in *.
      set (s1 := mkSt _ _ _ _ _ _ _) in *.
      rewrite (run_inner_refused e c inner (set_flight (Some c) s1) eq_refl) in *.
      cbn [fst snd] in *. cbn [op_ok observe o_res].
      rewrite ress_eqb_refl. cbn [andb].
      rewrite (same_state_obs n r0 _ s _ Hq Hq1); [reflexivity| |].
      * unfold reset_if_flight, close_plain, set_flight. cbn. rewrite conn_eqb_refl. reflexivity.
      * unfold reset_if_flight, close_plain, set_flight. cbn. rewrite conn_eqb_refl. reflexivity.
Qed.

Lemma run_ops_spec_history_ok e n : forall ops s r0,
  quiet s -> ops_ok e n ops (observe n r0 s) (run_ops true e n ops s) = true.
Proof.
  induction ops as [|o r IH]; intros s r0 Hq; [reflexivity|].
  cbn [run_ops]. pose proof (step_spec_ok e n o s r0 Hq) as (Hq1 & Hok).
  destruct (step true e o s) as [s1 rs]. cbn [fst snd] in *.
  cbn [ops_ok]. rewrite (observe_state_ok n rs s1 Hq1), Hok. cbn [andb]. apply IH, Hq1.
Qed.

Lemma login_ok e : in_try e (option_map c_srv (cur (login e init_st))) || negb (alive (login e init_st)) = true.
Proof.
  unfold login.
  destruct (next_server_to_try e init_st None) as [s1 [t|]] eqn:En.
  - destruct (next_spec _ _ _ _ _ En) as (i & -> & _ & Hnth & _).
    assert (Hq : quiet (set_tryi i init_st)).
    { unfold quiet, fresh. cbn. repeat split; auto; try (intros c []). }
    pose proof (connect_ind_ok e t (set_tryi i init_st) Hq eq_refl) as (_ & H).
    destruct (connect_ind e t (set_tryi i init_st)) as [s2 r]. cbn [fst snd] in *.
    destruct H as [(_ & Hon) | (_ & [(_ & _ & Hne)|[Ha|(Ha & c & Hc & Hin)]])].
    + destruct (cur s2) as [c|]; [|discriminate]. cbn in Hon. apply Nat.eqb_eq in Hon.
      cbn [option_map]. rewrite Hon.
      assert (Hin : In t (try_list e)) by (eapply nth_error_In; eassumption).
      apply orb_true_iff. left. apply existsb_exists. exists t. split; [exact Hin|apply Nat.eqb_refl].
    + exfalso. apply Hne. reflexivity.
    + rewrite Ha. now rewrite orb_true_r.
    + rewrite Hc. cbn [option_map]. now rewrite (in_try_of e c Hin).
  - apply next_none in En. subst s1. cbn. reflexivity.
Qed.

(* the specification model satisfies the property's whole predicate on every history: every client
   family, every try list, every backend script (fault sequence), every operation list *)
Theorem spec_history_ok e n ops : history_ok e n ops (run true e n ops) = true.
Proof.
  unfold run, history_ok.
  rewrite (observe_state_ok n [RNone] _ (login_quiet e)). cbn [andb].
  cbn [observe o_cur o_alive]. rewrite login_ok. cbn [andb].
  apply (run_ops_spec_history_ok e n ops _ [RNone] (login_quiet e)).
Qed.

(* ---------- E. stale request objects ---------- *)

(* what a request does depends only on the player's state when it runs, not on when the request object
   was created (its previousServer snapshot) *)
Theorem outcome_independent_of_creation_time strict e prev prev' t s :
  step strict e (OConnectSnap prev t) s = step strict e (OConnectSnap prev' t) s /\
  step strict e (OConnectSnap prev t) s = step strict e (OConnect t) s.
Proof. split; reflexivity. Qed.

Theorem history_independent_of_creation_time e n :
  forall ops ops',
    Forall2 (fun o o' => o = o' \/ exists p p' t, o = OConnectSnap p t /\ (o' = OConnectSnap p' t \/ o' = OConnect t)) ops ops' ->
    forall s, run_ops true e n ops s = run_ops true e n ops' s.
Proof.
  induction 1 as [|o o' r r' Ho _ IH]; intros s; [reflexivity|].
  cbn [run_ops].
  assert (Hs : step true e o s = step true e o' s).
  { destruct Ho as [->|(p & p' & t & -> & [->| ->])]; reflexivity. }
  rewrite Hs. destruct (step true e o' s) as [s1 rs]. now rewrite IH.
Qed.

(* a variant keyed on the snapshot (NOT the code) would depend on it: the same switch from the same
   state tears the old connection down with a fresh snapshot and leaves two live backends and two
   lists with a snapshot taken before the first join *)
Theorem keyed_refuted :
  let fresh_snap := connect_keyed (Some 0) 1 start_st in
  let stale_snap := connect_keyed None 1 start_st in
  snd fresh_snap = RSuccess /\ state_ok 3 (observe 3 [RSuccess] (fst fresh_snap)) = true /\
  snd stale_snap = RSuccess /\ state_ok 3 (observe 3 [RSuccess] (fst stale_snap)) = false /\
  map c_srv (opened (fst stale_snap)) = [1; 0] /\ lists (fst stale_snap) = [1; 0] /\
  fst fresh_snap = fst (connect_raw true (mkEnv FamA [0] []) 1 start_st).
Proof. vm_compute. repeat split; reflexivity. Qed.
