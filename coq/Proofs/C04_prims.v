(* The concrete primitive family LP (Model/LayoutPrims.v) satisfies the hypotheses [pfam_ok] of the
   generic layout theorems, on the domain [lp_dom].  With this the theorems about translated layouts
   are closed (no premise about primitives remains). *)
From Coq Require Import List NArith ZArith Bool Lia ZifyN ZifyNat ZifyBool.
From Verif Require Import Base.Hex Model.Layout Model.LayoutPrims Proofs.C04_layout.
From Verif Require Base.VarInt.
Import ListNotations.
Open Scope Z_scope.

Definition lp_dom (p : lprim) (a : atom) : Prop := lp_domb p a = true.

(* ---------- take_n ---------- *)
Lemma take_n_app (s rest : bytes) : take_n (length s) (s ++ rest) = Ok (s, rest).
Proof.
  unfold take_n. rewrite app_length.
  replace (Nat.leb (length s) (length s + length rest)) with true by (symmetry; apply Nat.leb_le; lia).
  rewrite firstn_app, skipn_app, Nat.sub_diag, firstn_all, skipn_all. cbn [firstn skipn]. rewrite app_nil_r. reflexivity.
Qed.

Lemma take_n_len n bs a r : take_n n bs = Ok (a, r) -> (length r + n = length bs)%nat.
Proof.
  unfold take_n. destruct (Nat.leb n (length bs)) eqn:E; [|discriminate].
  intro H. inversion H; subst. apply Nat.leb_le in E. rewrite skipn_length. lia.
Qed.

(* ---------- two's complement ---------- *)
Lemma wrap_signed bits z : 0 < bits -> - 2 ^ (bits - 1) <= z < 2 ^ (bits - 1) ->
  to_signed bits (wrapN bits z) = z.
Proof.
  intros Hb Hz. unfold to_signed, wrapN.
  assert (HM : 2 ^ bits = 2 * 2 ^ (bits - 1)).
  { replace bits with (Z.succ (bits - 1)) at 1 by lia. rewrite Z.pow_succ_r by lia. reflexivity. }
  assert (HP : 0 < 2 ^ (bits - 1)) by (apply Z.pow_pos_nonneg; lia).
  rewrite Z2N.id by (apply Z.mod_pos_bound; lia).
  destruct (Z_lt_le_dec z 0) as [Hn|Hn].
  - assert (E : z mod 2 ^ bits = z + 2 ^ bits).
    { symmetry. apply (Z.mod_unique z (2 ^ bits) (-1)); lia. }
    rewrite E. replace (z + 2 ^ bits <? 2 ^ (bits - 1)) with false by (symmetry; apply Z.ltb_ge; lia). lia.
  - rewrite Z.mod_small by lia. replace (z <? 2 ^ (bits - 1)) with true by (symmetry; apply Z.ltb_lt; lia). reflexivity.
Qed.

Lemma wrap_unsigned bits z : 0 <= bits -> 0 <= z < 2 ^ bits -> Z.of_N (wrapN bits z) = z.
Proof.
  intros Hb Hz. unfold wrapN. rewrite Z2N.id by (apply Z.mod_pos_bound; lia). apply Z.mod_small. exact Hz.
Qed.

Lemma wrapN_lt bits z : 0 <= bits -> (wrapN bits z < 2 ^ Z.to_N bits)%N.
Proof.
  intros Hb. unfold wrapN.
  assert (H : 0 <= z mod 2 ^ bits < 2 ^ bits) by (apply Z.mod_pos_bound; apply Z.pow_pos_nonneg; lia).
  apply N2Z.inj_lt. rewrite Z2N.id by lia. rewrite N2Z.inj_pow. rewrite Z2N.id by lia. change (Z.of_N 2) with 2. lia.
Qed.

(* ---------- VarInt ---------- *)
Lemma dec_enc_varint z rest : - 2 ^ 31 <= z < 2 ^ 31 -> dec_varint (enc_varint z ++ rest) = Ok (z, rest).
Proof.
  intros Hz. unfold dec_varint, enc_varint.
  rewrite VarInt.varint_roundtrip by (apply (wrapN_lt 32 z); lia).
  rewrite (wrap_signed 32 z) by (try lia; exact Hz). reflexivity.
Qed.

Lemma dec_fuel_consumes f : forall i acc bs u n rest,
  VarInt.dec_fuel f i acc bs = VarInt.Ok (u, n, rest) -> (length rest < length bs)%nat.
Proof.
  induction f as [|f IH]; intros i acc bs u n rest H; cbn [VarInt.dec_fuel] in H; [discriminate|].
  destruct bs as [|b r]; [discriminate|].
  destruct (5 <=? i)%N; [discriminate|].
  destruct (N.land b 128 =? 0)%N.
  - inversion H; subst. cbn [length]. lia.
  - apply IH in H. cbn [length]. lia.
Qed.

Lemma dec_varint_min bs z rest : dec_varint bs = Ok (z, rest) -> (length rest + 1 <= length bs)%nat.
Proof.
  unfold dec_varint. destruct (VarInt.dec bs) as [[[u n] r]|e] eqn:E.
  - intro H. inversion H; subst. unfold VarInt.dec in E. apply dec_fuel_consumes in E. lia.
  - destruct e; discriminate.
Qed.

(* ---------- big endian ---------- *)
Lemma be_enc_length w : forall x, length (be_enc w x) = w.
Proof. induction w as [|w IH]; intro x; cbn [be_enc]; [reflexivity|]. rewrite app_length, IH. cbn. lia. Qed.

Lemma be_val_snoc l b : be_val (l ++ [b]) = (be_val l * 256 + b)%N.
Proof. unfold be_val. rewrite fold_left_app. reflexivity. Qed.

Lemma be_val_enc w : forall x, be_val (be_enc w x) = (x mod 256 ^ N.of_nat w)%N.
Proof.
  induction w as [|w IH]; intro x.
  - cbn. rewrite N.mod_1_r. reflexivity.
  - cbn [be_enc]. rewrite be_val_snoc, IH.
    rewrite Nat2N.inj_succ, N.pow_succ_r by lia.
    rewrite (N.mod_mul_r x 256 (256 ^ N.of_nat w)) by (try lia; apply N.pow_nonzero; lia). lia.
Qed.

Lemma pow256 w : Z.of_N (256 ^ N.of_nat w) = 2 ^ (8 * Z.of_nat w).
Proof.
  rewrite N2Z.inj_pow. change (Z.of_N 256) with (2 ^ 8). rewrite <- Z.pow_mul_r by lia.
  rewrite nat_N_Z. reflexivity.
Qed.

Lemma be_val_wrap w z : be_val (be_enc w (wrapN (8 * Z.of_nat w) z)) = wrapN (8 * Z.of_nat w) z.
Proof.
  rewrite be_val_enc. apply N.mod_small.
  pose proof (wrapN_lt (8 * Z.of_nat w) z ltac:(lia)) as H.
  apply N2Z.inj_lt. rewrite pow256. apply N2Z.inj_lt in H. rewrite N2Z.inj_pow in H. rewrite Z2N.id in H by lia.
  exact H.
Qed.

(* ---------- length-prefixed ---------- *)
Lemma dec_lenpref_rt limit s rest : lenZ s <= limit -> lenZ s < 2 ^ 31 ->
  dec_lenpref limit (enc_varint (lenZ s) ++ s ++ rest) = Ok (s, rest).
Proof.
  intros Hl Hm. unfold dec_lenpref. rewrite dec_enc_varint by (unfold lenZ in *; lia).
  replace (lenZ s <? 0) with false by (symmetry; apply Z.ltb_ge; unfold lenZ; lia).
  replace (limit <? lenZ s) with false by (symmetry; apply Z.ltb_ge; lia).
  unfold lenZ. rewrite Nat2Z.id. apply take_n_app.
Qed.

Lemma dec_lenpref_min limit bs s rest : dec_lenpref limit bs = Ok (s, rest) -> (length rest + 1 <= length bs)%nat.
Proof.
  unfold dec_lenpref. destruct (dec_varint bs) as [[n r]|e] eqn:E; [|discriminate].
  apply dec_varint_min in E. destruct (n <? 0); [discriminate|]. destruct (limit <? n); [discriminate|].
  intro H. apply take_n_len in H. lia.
Qed.

(* ---------- 1.7 arrays: finite sweeps over the length ---------- *)
Definition zrange (k : nat) : list Z := map Z.of_nat (seq 0 k).
Lemma zrange_in k n : 0 <= n < Z.of_nat k -> In n (zrange k).
Proof.
  intro H. unfold zrange. replace n with (Z.of_nat (Z.to_nat n)) by lia. apply in_map. apply in_seq. lia.
Qed.

(* pre-fix one-byte form, lengths below 256 *)
Lemma fshort_old_sweep : forallb (fun n => beq_bytes (old_enc_fshort n) [Z.to_N n]) (zrange 256) = true.
Proof. vm_compute. reflexivity. Qed.
Lemma fshort_old n : 0 <= n < 256 -> old_enc_fshort n = [Z.to_N n].
Proof.
  intro H. pose proof fshort_old_sweep as S. rewrite forallb_forall in S.
  apply beq_bytes_eq. apply S. apply zrange_in. lia.
Qed.

(* today's two-byte form, vanilla lengths (below 2^15): no third byte *)
Lemma land_hi n k : 0 <= n < 2 ^ 15 -> Z.land n (Z.shiftl k 15) = 0.
Proof.
  intros H. apply Z.bits_inj'. intros i Hi. rewrite Z.land_spec, Z.bits_0.
  destruct (Z_lt_le_dec i 15) as [L|G].
  - rewrite Z.shiftl_spec_low by lia. apply andb_false_r.
  - replace (Z.testbit n i) with false; [reflexivity|]. symmetry.
    destruct (Z.eq_dec n 0) as [->|Hn]; [apply Z.bits_0|].
    apply Z.bits_above_log2; [lia|]. assert (Z.log2 n < 15) by (apply Z.log2_lt_pow2; lia). lia.
Qed.

Lemma fshort_new n : 0 <= n < 32768 -> enc_fshort n = be_enc 2 (Z.to_N n) /\ Z.land n 32768 = 0.
Proof.
  intro H. change 32768 with (2 ^ 15) in H.
  assert (H1 : Z.land n 32767 = n).
  { change 32767 with (Z.ones 15). rewrite Z.land_ones by lia. apply Z.mod_small. exact H. }
  assert (H2 : Z.land n 8355840 = 0) by (change 8355840 with (Z.shiftl 255 15); apply land_hi; exact H).
  assert (H3 : Z.land n 32768 = 0) by (change 32768 with (Z.shiftl 1 15); apply land_hi; exact H).
  split; [|exact H3]. unfold enc_fshort. rewrite H1, H2. cbn [Z.shiftr Z.shiftl Z.eqb]. rewrite app_nil_r. reflexivity.
Qed.

(* ---------- uuid text ---------- *)
Lemma unhex_hexdigit_sweep : forallb (fun n => match unhex (hexdigit n) with Some m => (m =? n)%N | None => false end)
                                     (map N.of_nat (seq 0 16)) = true.
Proof. vm_compute. reflexivity. Qed.
Lemma unhex_hexdigit n : (n < 16)%N -> unhex (hexdigit n) = Some n.
Proof.
  intro H. pose proof unhex_hexdigit_sweep as S. rewrite forallb_forall in S.
  specialize (S n). destruct (unhex (hexdigit n)) as [m|].
  - assert (Hin : In n (map N.of_nat (seq 0 16))).
    { replace n with (N.of_nat (N.to_nat n)) by lia. apply in_map. apply in_seq. lia. }
    specialize (S Hin). apply N.eqb_eq in S. congruence.
  - assert (Hin : In n (map N.of_nat (seq 0 16))).
    { replace n with (N.of_nat (N.to_nat n)) by lia. apply in_map. apply in_seq. lia. }
    specialize (S Hin). discriminate.
Qed.

Ltac Zify.zify_post_hook ::= Z.div_mod_to_equations.

Lemma unhex_byte b r t : (b < 256)%N -> unhex_bytes r = Some t ->
  unhex_bytes (hexdigit (b / 16) :: hexdigit (b mod 16) :: r) = Some (b :: t).
Proof.
  intros Hb Hr. cbn [unhex_bytes]. rewrite !unhex_hexdigit by lia. rewrite Hr.
  f_equal. f_equal. lia.
Qed.

Lemma unhex_hex bs : wf_bytesb bs = true -> unhex_bytes (hex_of_bytes bs) = Some bs.
Proof.
  induction bs as [|b r IH]; intro W; [reflexivity|].
  cbn [wf_bytesb forallb] in W. apply andb_true_iff in W as [Hb Wr]. apply N.ltb_lt in Hb.
  unfold hex_of_bytes. cbn [flat_map hex_of_byte app]. apply unhex_byte; [exact Hb | apply IH; exact Wr].
Qed.

Lemma hex_length bs : length (hex_of_bytes bs) = (2 * length bs)%nat.
Proof. induction bs as [|b r IH]; [reflexivity|]. unfold hex_of_bytes in *. cbn [flat_map hex_of_byte app length]. rewrite IH. lia. Qed.

Lemma list16 (u : bytes) : length u = 16%nat ->
  exists b0 b1 b2 b3 b4 b5 b6 b7 b8 b9 b10 b11 b12 b13 b14 b15,
    u = [b0; b1; b2; b3; b4; b5; b6; b7; b8; b9; b10; b11; b12; b13; b14; b15].
Proof.
  intro H. do 16 (destruct u as [|? u]; [discriminate H|]). destruct u; [|discriminate H].
  repeat eexists.
Qed.

Lemma parse_uuid_text_rt d u : wf_bytesb u = true -> length u = 16%nat -> parse_uuid_text (uuid_text d u) = Some u.
Proof.
  intros W H. destruct d.
  - destruct (list16 u H) as (b0 & b1 & b2 & b3 & b4 & b5 & b6 & b7 & b8 & b9 & b10 & b11 & b12 & b13 & b14 & b15 & ->).
    cbn [wf_bytesb forallb] in W. repeat (apply andb_true_iff in W as [?Hb W]).
    repeat match goal with Hx : (_ <? 256)%N = true |- _ => apply N.ltb_lt in Hx end.
    unfold uuid_text, parse_uuid_text, hex_of_bytes. cbn [firstn skipn flat_map hex_of_byte app length Nat.eqb nth].
    unfold dash. cbn [N.eqb Pos.eqb andb].
    repeat (apply unhex_byte; [assumption|]). reflexivity.
  - unfold uuid_text, parse_uuid_text. rewrite hex_length, H. cbn [Nat.mul Nat.add Nat.eqb]. apply unhex_hex. exact W.
Qed.

Lemma uuid_text_length d u : length u = 16%nat -> length (uuid_text d u) = (if d then 36 else 32)%nat.
Proof.
  intro H. destruct (list16 u H) as (b0 & b1 & b2 & b3 & b4 & b5 & b6 & b7 & b8 & b9 & b10 & b11 & b12 & b13 & b14 & b15 & ->).
  destruct d; reflexivity.
Qed.

(* ---------- NBT: the skipper reads a prefix and ignores what follows ---------- *)
Lemma drop_n_app k bs r x : drop_n k bs = Some r -> drop_n k (bs ++ x) = Some (r ++ x).
Proof.
  unfold drop_n. destruct (Nat.leb k (length bs)) eqn:E; [|discriminate]. intro H. inversion H; subst.
  apply Nat.leb_le in E. rewrite app_length.
  replace (Nat.leb k (length bs + length x)) with true by (symmetry; apply Nat.leb_le; lia).
  rewrite skipn_app. replace (k - length bs)%nat with 0%nat by lia. reflexivity.
Qed.
Lemma drop_n_len k bs r : drop_n k bs = Some r -> (length r + k = length bs)%nat.
Proof.
  unfold drop_n. destruct (Nat.leb k (length bs)) eqn:E; [|discriminate]. intro H. inversion H; subst.
  apply Nat.leb_le in E. rewrite skipn_length. lia.
Qed.

Lemma be_i32_app bs n r x : be_i32 bs = Some (n, r) -> be_i32 (bs ++ x) = Some (n, r ++ x).
Proof.
  unfold be_i32. destruct (Nat.leb 4 (length bs)) eqn:E; [|discriminate]. intro H. injection H as <- <-.
  apply Nat.leb_le in E. rewrite app_length.
  replace (Nat.leb 4 (length bs + length x)) with true by (symmetry; apply Nat.leb_le; lia).
  rewrite firstn_app, skipn_app. replace (4 - length bs)%nat with 0%nat by lia. cbn [firstn skipn]. rewrite app_nil_r. reflexivity.
Qed.
Lemma be_i32_len bs n r : be_i32 bs = Some (n, r) -> (length r + 4 = length bs)%nat.
Proof.
  unfold be_i32. destruct (Nat.leb 4 (length bs)) eqn:E; [|discriminate].
  remember (skipn 4 bs) as sk eqn:Hsk. intro H. injection H as _ <-.
  apply Nat.leb_le in E. rewrite Hsk, skipn_length. lia.
Qed.
Lemma be_u16_app bs n r x : be_u16 bs = Some (n, r) -> be_u16 (bs ++ x) = Some (n, r ++ x).
Proof.
  unfold be_u16. destruct (Nat.leb 2 (length bs)) eqn:E; [|discriminate]. intro H. injection H as <- <-.
  apply Nat.leb_le in E. rewrite app_length.
  replace (Nat.leb 2 (length bs + length x)) with true by (symmetry; apply Nat.leb_le; lia).
  rewrite firstn_app, skipn_app. replace (2 - length bs)%nat with 0%nat by lia. cbn [firstn skipn]. rewrite app_nil_r. reflexivity.
Qed.
Lemma be_u16_len bs n r : be_u16 bs = Some (n, r) -> (length r + 2 = length bs)%nat.
Proof.
  unfold be_u16. destruct (Nat.leb 2 (length bs)) eqn:E; [|discriminate].
  remember (skipn 2 bs) as sk eqn:Hsk. intro H. injection H as _ <-.
  apply Nat.leb_le in E. rewrite Hsk, skipn_length. lia.
Qed.

Lemma nbt_skip_app k st bs s r x : nbt_skip k st bs = Some (s, r) -> nbt_skip k st (bs ++ x) = Some (s, r ++ x).
Proof.
  unfold nbt_skip. destruct (drop_n k bs) as [r0|] eqn:E; [|discriminate]. intro H. inversion H; subst.
  rewrite (drop_n_app _ _ _ x E). reflexivity.
Qed.
Lemma nbt_skip_len k st bs s r : nbt_skip k st bs = Some (s, r) -> (length r + k = length bs)%nat.
Proof.
  unfold nbt_skip. destruct (drop_n k bs) as [r0|] eqn:E; [|discriminate]. intro H. inversion H; subst.
  apply drop_n_len in E. exact E.
Qed.
Lemma nbt_arr_app w st bs s r x : nbt_arr w st bs = Some (s, r) -> nbt_arr w st (bs ++ x) = Some (s, r ++ x).
Proof.
  unfold nbt_arr. destruct (be_i32 bs) as [[n r0]|] eqn:E; [|discriminate]. rewrite (be_i32_app _ _ _ x E).
  destruct (n <? 0); [discriminate|]. apply nbt_skip_app.
Qed.
Lemma nbt_arr_len w st bs s r : nbt_arr w st bs = Some (s, r) -> (length r + 4 <= length bs)%nat.
Proof.
  unfold nbt_arr. destruct (be_i32 bs) as [[n r0]|] eqn:E; [|discriminate]. apply be_i32_len in E.
  destruct (n <? 0); [discriminate|]. intro H. apply nbt_skip_len in H. lia.
Qed.
Lemma nbt_str_app st bs s r x : nbt_str st bs = Some (s, r) -> nbt_str st (bs ++ x) = Some (s, r ++ x).
Proof.
  unfold nbt_str. destruct (be_u16 bs) as [[n r0]|] eqn:E; [|discriminate]. rewrite (be_u16_app _ _ _ x E). apply nbt_skip_app.
Qed.
Lemma nbt_str_len st bs s r : nbt_str st bs = Some (s, r) -> (length r + 2 <= length bs)%nat.
Proof.
  unfold nbt_str. destruct (be_u16 bs) as [[n r0]|] eqn:E; [|discriminate]. apply be_u16_len in E.
  intro H. apply nbt_skip_len in H. lia.
Qed.
Lemma nbt_list_app st bs s r x : nbt_list st bs = Some (s, r) -> nbt_list st (bs ++ x) = Some (s, r ++ x).
Proof.
  unfold nbt_list. destruct bs as [|et r0]; [discriminate|]. cbn [app].
  destruct (be_i32 r0) as [[n r1]|] eqn:E; [|discriminate]. rewrite (be_i32_app _ _ _ x E).
  destruct (n <=? 0); [intro H; inversion H; subst; reflexivity|].
  destruct (et =? 0)%N; [discriminate|]. intro H; inversion H; subst; reflexivity.
Qed.
Lemma nbt_list_len st bs s r : nbt_list st bs = Some (s, r) -> (length r + 5 = length bs)%nat.
Proof.
  unfold nbt_list. destruct bs as [|et r0]; [discriminate|].
  destruct (be_i32 r0) as [[n r1]|] eqn:E; [|discriminate]. apply be_i32_len in E.
  destruct (n <=? 0); [intro H; inversion H; subst; cbn [length]; lia|].
  destruct (et =? 0)%N; [discriminate|]. intro H; inversion H; subst. cbn [length]. lia.
Qed.

Lemma start_val_app t st bs s r x : start_val t st bs = Some (s, r) -> start_val t st (bs ++ x) = Some (s, r ++ x).
Proof.
  unfold start_val.
  repeat match goal with |- context [if (t =? ?k)%N then _ else _] => destruct (t =? k)%N end;
    try apply nbt_skip_app; try apply nbt_arr_app; try apply nbt_str_app; try apply nbt_list_app; try discriminate.
  intro H. inversion H; subst. reflexivity.
Qed.
Lemma start_val_len t st bs s r : start_val t st bs = Some (s, r) -> (length r <= length bs)%nat.
Proof.
  unfold start_val.
  repeat match goal with |- context [if (t =? ?k)%N then _ else _] => destruct (t =? k)%N end; intro H;
    try (apply nbt_skip_len in H; lia); try (apply nbt_arr_len in H; lia); try (apply nbt_str_len in H; lia);
    try (apply nbt_list_len in H; lia); try discriminate.
  inversion H; subst. lia.
Qed.

Lemma nbt_run_app f : forall st bs r x f', (f <= f')%nat -> nbt_run f st bs = Some r -> nbt_run f' st (bs ++ x) = Some (r ++ x).
Proof.
  induction f as [|f IH]; intros st bs r x f' Hf H; [discriminate|].
  destruct f' as [|f']; [lia|]. cbn [nbt_run] in *.
  destruct st as [|[et n|] st'].
  - inversion H; subst. reflexivity.
  - destruct (n =? 0)%N; [apply IH; [lia | exact H]|].
    destruct (start_val et (NList et (n - 1) :: st') bs) as [[s2 r2]|] eqn:E; [|discriminate].
    rewrite (start_val_app _ _ _ _ _ x E). apply IH; [lia | exact H].
  - destruct bs as [|t r0]; [discriminate|]. cbn [app].
    destruct (t =? 0)%N; [apply IH; [lia | exact H]|].
    destruct (nbt_str st' r0) as [[s1 r2]|] eqn:E1; [|discriminate]. rewrite (nbt_str_app _ _ _ _ x E1).
    destruct (start_val t (NComp :: st') r2) as [[s2 r3]|] eqn:E2; [|discriminate].
    rewrite (start_val_app _ _ _ _ _ x E2). apply IH; [lia | exact H].
Qed.

Lemma nbt_run_len f : forall st bs r, nbt_run f st bs = Some r -> (length r <= length bs)%nat.
Proof.
  induction f as [|f IH]; intros st bs r H; [discriminate|]. cbn [nbt_run] in H.
  destruct st as [|[et n|] st'].
  - inversion H; subst. lia.
  - destruct (n =? 0)%N; [apply IH in H; exact H|].
    destruct (start_val et (NList et (n - 1) :: st') bs) as [[s2 r2]|] eqn:E; [|discriminate].
    apply start_val_len in E. apply IH in H. lia.
  - destruct bs as [|t r0]; [discriminate|].
    destruct (t =? 0)%N; [apply IH in H; cbn [length]; lia|].
    destruct (nbt_str st' r0) as [[s1 r2]|] eqn:E1; [|discriminate]. apply nbt_str_len in E1.
    destruct (start_val t (NComp :: st') r2) as [[s2 r3]|] eqn:E2; [|discriminate].
    apply start_val_len in E2. apply IH in H. cbn [length]. lia.
Qed.

Lemma nbt_rest_app s x : nbt_rest s = Some [] -> nbt_rest (s ++ x) = Some x.
Proof.
  unfold nbt_rest. destruct s as [|t r]; [discriminate|]. cbn [app].
  destruct (t =? 0)%N; [intro H; inversion H; subst; reflexivity|].
  destruct (start_val t [] r) as [[st r']|] eqn:E; [|discriminate]. rewrite (start_val_app _ _ _ _ _ x E).
  intro H. apply (nbt_run_app _ _ _ _ x (3 * length (t :: r ++ x) + 3)) in H; [exact H|].
  cbn [length]. rewrite app_length. lia.
Qed.

Lemma nbt_rest_len bs r : nbt_rest bs = Some r -> (length r + 1 <= length bs)%nat.
Proof.
  unfold nbt_rest. destruct bs as [|t r0]; [discriminate|].
  destruct (t =? 0)%N; [intro H; inversion H; subst; cbn [length]; lia|].
  destruct (start_val t [] r0) as [[st r']|] eqn:E; [|discriminate]. apply start_val_len in E.
  intro H. apply nbt_run_len in H. cbn [length]. lia.
Qed.

(* ---------- the record ---------- *)
Lemma lp_prim_rt : forall p a rest, lp_dom p a ->
  exists bs, lp_enc p a = Ok bs /\ lp_dec p (bs ++ rest) = Ok (a, rest).
Proof.
  intros p a rest D. unfold lp_dom in D.
  destruct p as [| | w sg | max | max | | n | | | d | |]; destruct a as [z | b | s]; cbn [lp_domb] in D; try discriminate D.
  - (* PVarInt *)
    apply andb_true_iff in D as [D1 D2]. exists (enc_varint z). split; [reflexivity|].
    cbn [lp_dec]. rewrite dec_enc_varint by lia. reflexivity.
  - (* PBool *)
    exists [if b then 1%N else 0%N]. split; [reflexivity|]. cbn [lp_dec app]. destruct b; reflexivity.
  - (* PInt *)
    exists (be_enc w (wrapN (8 * Z.of_nat w) z)). split; [reflexivity|].
    cbn [lp_dec]. rewrite <- (be_enc_length w (wrapN (8 * Z.of_nat w) z)) at 1. rewrite take_n_app, be_val_wrap.
    destruct sg.
    + apply andb_true_iff in D as [D1 D2].
      destruct w as [|w].
      * cbn in D1, D2. lia.
      * rewrite wrap_signed by lia. reflexivity.
    + apply andb_true_iff in D as [D1 D2]. rewrite wrap_unsigned by lia. reflexivity.
  - (* PString *)
    apply andb_true_iff in D as [D D3]. apply andb_true_iff in D as [D1 D2].
    exists (enc_varint (lenZ s) ++ s). split; [reflexivity|].
    cbn [lp_dec]. rewrite <- app_assoc, dec_lenpref_rt by lia. reflexivity.
  - (* PBytes *)
    apply andb_true_iff in D as [D D3]. apply andb_true_iff in D as [D1 D2].
    exists (enc_varint (lenZ s) ++ s). split; [reflexivity|].
    cbn [lp_dec]. rewrite <- app_assoc, dec_lenpref_rt by lia. reflexivity.
  - (* PUUID *)
    apply andb_true_iff in D as [D1 D2]. apply Nat.eqb_eq in D2.
    exists s. split; [cbn [lp_enc]; rewrite D2; reflexivity|].
    cbn [lp_dec]. rewrite <- D2, take_n_app. reflexivity.
  - (* PFixed *)
    apply andb_true_iff in D as [D1 D2]. apply Nat.eqb_eq in D2.
    exists s. split; [cbn [lp_enc]; rewrite D2, Nat.eqb_refl; reflexivity|].
    cbn [lp_dec]. rewrite <- D2, take_n_app. reflexivity.
  - (* PBytes17 *)
    apply andb_true_iff in D as [D1 D2].
    assert (Hl : 0 <= lenZ s < 32768) by (unfold lenZ in *; lia).
    destruct (fshort_new (lenZ s) Hl) as [E1 E2].
    exists (enc_fshort (lenZ s) ++ s). split.
    + cbn [lp_enc]. replace (forge_max <? lenZ s) with false by (symmetry; apply Z.ltb_ge; unfold forge_max; lia). reflexivity.
    + cbn [lp_dec]. unfold dec_fshort. rewrite E1, <- app_assoc.
      rewrite <- (be_enc_length 2 (Z.to_N (lenZ s))) at 1. rewrite take_n_app.
      rewrite be_val_enc. change (256 ^ N.of_nat 2)%N with 65536%N.
      rewrite N.mod_small by lia. rewrite Z2N.id by lia. rewrite E2. cbn [Z.eqb].
      replace (forge_max <? lenZ s) with false by (symmetry; apply Z.ltb_ge; unfold forge_max; lia).
      unfold lenZ. rewrite Nat2Z.id, take_n_app. reflexivity.
  - (* PBytes17Old *)
    apply andb_true_iff in D as [D1 D2].
    assert (Hl : 0 <= lenZ s < 256) by (unfold lenZ in *; lia).
    exists (old_enc_fshort (lenZ s) ++ s). split.
    + cbn [lp_enc]. replace (forge_max <? lenZ s) with false by (symmetry; apply Z.ltb_ge; unfold forge_max; lia). reflexivity.
    + cbn [lp_dec]. rewrite fshort_old by exact Hl. cbn [app old_dec_fshort].
      rewrite Z2N.id by lia. unfold lenZ. rewrite Nat2Z.id, take_n_app. reflexivity.
  - (* PUUIDStr *)
    apply andb_true_iff in D as [D1 D2]. apply Nat.eqb_eq in D2.
    exists (enc_varint (lenZ (uuid_text d s)) ++ uuid_text d s). split; [cbn [lp_enc]; rewrite D2; reflexivity|].
    cbn [lp_dec]. rewrite <- app_assoc.
    assert (Hlen : lenZ (uuid_text d s) = if d then 36 else 32).
    { unfold lenZ. rewrite uuid_text_length by exact D2. destruct d; reflexivity. }
    rewrite dec_lenpref_rt by (rewrite Hlen; destruct d; lia).
    rewrite parse_uuid_text_rt by assumption. reflexivity.
  - (* PKey *)
    apply andb_true_iff in D as [D D4]. apply andb_true_iff in D as [D D3]. apply andb_true_iff in D as [D1 D2].
    apply beq_bytes_eq in D3.
    exists (enc_varint (lenZ s) ++ s). split.
    + cbn [lp_enc]. rewrite D2, D3. reflexivity.
    + cbn [lp_dec]. rewrite <- app_assoc, dec_lenpref_rt by (unfold default_max in *; lia).
      rewrite D2, D3. reflexivity.
  - (* PNbt *)
    apply andb_true_iff in D as [D1 D2].
    destruct (nbt_rest s) as [[|? ?]|] eqn:E; try discriminate D2.
    exists s. split; [cbn [lp_enc]; rewrite E; reflexivity|].
    cbn [lp_dec]. rewrite (nbt_rest_app s rest E). rewrite app_length.
    replace (length s + length rest - length rest)%nat with (length s) by lia.
    rewrite firstn_app, Nat.sub_diag, firstn_all. cbn [firstn]. rewrite app_nil_r. reflexivity.
Qed.

Lemma lp_prim_min : forall p bs a rest, lp_dec p bs = Ok (a, rest) ->
  (length rest + N.to_nat (lp_min p) <= length bs)%nat.
Proof.
  intros p bs a rest H.
  destruct p as [| | w sg | max | max | | n | | | d | |]; cbn [lp_dec lp_min] in *.
  - destruct (dec_varint bs) as [[z r]|e] eqn:E; [|discriminate]. inversion H; subst. apply dec_varint_min in E. lia.
  - destruct bs as [|b r]; [discriminate|]. inversion H; subst. cbn [length]. lia.
  - destruct (take_n w bs) as [[b r]|e] eqn:E; [|discriminate]. inversion H; subst. apply take_n_len in E. lia.
  - destruct (dec_lenpref (4 * max) bs) as [[s r]|e] eqn:E; [|discriminate]. inversion H; subst. apply dec_lenpref_min in E. lia.
  - destruct (dec_lenpref max bs) as [[s r]|e] eqn:E; [|discriminate]. inversion H; subst. apply dec_lenpref_min in E. lia.
  - destruct (take_n 16 bs) as [[b r]|e] eqn:E; [|discriminate]. inversion H; subst. apply take_n_len in E. lia.
  - destruct (take_n n bs) as [[b r]|e] eqn:E; [|discriminate]. inversion H; subst. apply take_n_len in E. lia.
  - unfold dec_fshort in H. destruct (take_n 2 bs) as [[b2 r]|e] eqn:E; [|discriminate]. apply take_n_len in E.
    destruct (Z.land (Z.of_N (be_val b2)) 32768 =? 0).
    + destruct (forge_max <? Z.of_N (be_val b2)); [discriminate|].
      destruct (take_n (Z.to_nat (Z.of_N (be_val b2))) r) as [[s r']|e] eqn:E2; [|discriminate]. inversion H; subst.
      apply take_n_len in E2. lia.
    + destruct r as [|h r']; [discriminate|].
      destruct (forge_max <? _); [discriminate|].
      destruct (take_n _ r') as [[s r'']|e] eqn:E2; [|discriminate]. inversion H; subst.
      apply take_n_len in E2. cbn [length] in E. lia.
  - destruct bs as [|b r]; [discriminate|]. cbn [old_dec_fshort] in H.
    destruct (take_n (Z.to_nat (Z.of_N b)) r) as [[s r']|e] eqn:E; [|discriminate]. inversion H; subst.
    apply take_n_len in E. cbn [length]. lia.
  - destruct (dec_lenpref _ bs) as [[s r]|e] eqn:E; [|discriminate]. apply dec_lenpref_min in E.
    destruct (parse_uuid_text s); [|discriminate]. inversion H; subst. lia.
  - destruct (dec_lenpref _ bs) as [[s r]|e] eqn:E; [|discriminate]. apply dec_lenpref_min in E.
    destruct (valid_key (canon_key s)); [|discriminate]. inversion H; subst. lia.
  - destruct (nbt_rest bs) as [r|] eqn:E; [|discriminate]. inversion H; subst. apply nbt_rest_len in E. lia.
Qed.

Lemma lp_prim_eqb : forall p q a, lprim_eqb p q = true -> lp_enc p a = lp_enc q a.
Proof.
  intros p q a H. destruct p, q; cbn [lprim_eqb] in H; try discriminate; try reflexivity.
  - apply Nat.eqb_eq in H. subst. reflexivity.
  - apply Nat.eqb_eq in H. subst. reflexivity.
  - apply Bool.eqb_prop in H. subst. reflexivity.
Qed.

Theorem lp_ok : pfam_ok LP lp_dom.
Proof.
  constructor.
  - exact lp_prim_rt.
  - exact lp_prim_min.
  - exact lp_prim_eqb.
  - intros b rest. destruct b; reflexivity.
  - intros bs b rest H. cbn in H. destruct bs as [|x r]; [discriminate|]. inversion H; subst. cbn [length]. lia.
  - intros n rest Hn. exists (enc_varint n). split; [reflexivity|]. cbn. apply dec_enc_varint. lia.
  - intros bs n rest H. cbn in H. apply dec_varint_min in H. exact H.
Qed.
Print Assumptions lp_ok.
