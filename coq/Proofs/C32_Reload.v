(* C32 — the reload decision the CReload judge uses (Check/C32.v): routes_differ on flattened
   route lists, and what the model's reload step guarantees.  Mostly corollaries of the invariant
   of Proofs/C32.v. *)
From Coq Require Import List NArith Bool Lia String.
From Verif Require Import Base.Hex Model.PingCache Proofs.C32 Check.C32.
Import ListNotations.
Open Scope N_scope.

Definition routes_differ (r1 r2 : list (list (bytes * bytes))) : bool := negb (beq_routes r1 r2).

Lemma beq_fields_eq : forall a b, beq_fields a b = true <-> a = b.
Proof.
  induction a as [|[k v] a IH]; intros [|[k' v'] b]; simpl; split; intro H;
    try discriminate; try reflexivity.
  - apply andb_true_iff in H. destruct H as [H Hr]. apply andb_true_iff in H. destruct H as [Hk Hv].
    apply beq_bytes_eq in Hk. apply beq_bytes_eq in Hv. apply IH in Hr. congruence.
  - inversion H; subst. apply andb_true_iff. split; [apply andb_true_iff; split|];
      [now apply beq_bytes_eq|now apply beq_bytes_eq|now apply IH].
Qed.

Lemma beq_routes_eq : forall a b, beq_routes a b = true <-> a = b.
Proof.
  induction a as [|x a IH]; intros [|y b]; simpl; split; intro H; try discriminate; try reflexivity.
  - apply andb_true_iff in H. destruct H as [Hx Hr]. apply beq_fields_eq in Hx. apply IH in Hr. congruence.
  - inversion H; subst. apply andb_true_iff. split; [now apply beq_fields_eq|now apply IH].
Qed.

(* the decision ignores nothing: it says "differ" exactly when the two (path, value) lists are
   not the same list *)
Theorem routes_differ_sound_complete : forall r1 r2,
  (routes_differ r1 r2 = true <-> r1 <> r2) /\ (routes_differ r1 r2 = false <-> r1 = r2).
Proof.
  intros r1 r2. unfold routes_differ. destruct (beq_routes r1 r2) eqn:E; simpl.
  - apply beq_routes_eq in E. split; split; intro H; try discriminate; try assumption; try reflexivity.
    contradiction.
  - assert (Hne : r1 <> r2) by (intro Heq; apply beq_routes_eq in Heq; congruence).
    split; split; intro H; try discriminate; try assumption; try reflexivity. contradiction.
Qed.

(* the model's reload step: reset (cache cleared, generation advanced) iff the routes differ *)
Definition reload_step (r1 r2 : list (list (bytes * bytes))) (s : state) : state :=
  if routes_differ r1 r2 then do_reset s else s.

Theorem reload_unchanged : forall r1 r2 s, routes_differ r1 r2 = false -> reload_step r1 r2 s = s.
Proof. intros r1 r2 s H. unfold reload_step. now rewrite H. Qed.

Lemma resets_step : forall e s tr, In tr (resets s) -> In tr (resets (step s e)).
Proof.
  intros e s tr H. destruct e; simpl;
    unfold do_cs1, do_dochan, do_complete, do_reset, do_tick, do_skew, do_get;
    repeat match goal with
           | |- context [match ?x with _ => _ end] => destruct x
           end; simpl; auto; apply in_or_app; now left.
Qed.

Lemma resets_steps : forall es s tr, In tr (resets s) -> In tr (resets (fold_left step es s)).
Proof. induction es as [|e es IH]; intros s tr H; simpl; [assumption|]. apply IH. now apply resets_step. Qed.

Lemma inv_steps : forall es s, Inv s -> Inv (fold_left step es s).
Proof. induction es as [|e es IH]; intros s H; simpl; [assumption|]. apply IH. now apply step_inv. Qed.

(* After a reload whose route lists differ: (1) every key misses - the cache is empty and the
   generation is new; (2) whatever happens next (any further steps [es], including the completion
   of loads that were in flight when the reload happened), every answer given to a request that
   started after the reload carries a value whose fetch started after the reload. *)
Theorem reload_no_stale : forall r1 r2 s,
  Inv s -> routes_differ r1 r2 = true ->
  let s1 := reload_step r1 r2 s in
  (forall k, fst (live s1 k) = None)
  /\ gen s1 = gen s + 1
  /\ forall es r, In r (responses (fold_left step es s1)) -> r_val r <> None ->
       time s < r_req_start r -> time s < r_fetch_start r.
Proof.
  intros r1 r2 s HI Hd. unfold reload_step. rewrite Hd. split; [|split].
  - intro k. reflexivity.
  - reflexivity.
  - intros es r Hr Hv Hlt.
    pose proof (inv_steps es (do_reset s) (inv_reset s HI)) as HF.
    destruct (i_no_stale _ HF r Hr Hv) as [_ Hns].
    apply Hns; [|assumption].
    apply resets_steps. unfold do_reset. simpl. apply in_or_app. right. now left.
Qed.

(* reachable states satisfy the premise *)
Corollary reload_no_stale_reachable : forall r1 r2 h,
  routes_differ r1 r2 = true ->
  let s := fold_left step h init in
  let s1 := reload_step r1 r2 s in
  (forall k, fst (live s1 k) = None)
  /\ forall es r, In r (responses (fold_left step es s1)) -> r_val r <> None ->
       time s < r_req_start r -> time s < r_fetch_start r.
Proof.
  intros r1 r2 h Hd s s1.
  destruct (reload_no_stale r1 r2 s (inv_steps h init inv_init) Hd) as [A [_ B]]. split; assumption.
Qed.

(* non-vacuity: two routes that differ only in ModifyVirtualHost; a load is in flight when the
   reload happens and completes afterwards; the request that starts after the reload is not
   answered with it (it is parked: a miss), whereas without the reload it is *)
Definition route_mvh (b : bool) : list (bytes * bytes) :=
  [(tx "Route.Host#len"%string, tx "1"%string); (tx "Route.Host[0]"%string, tx "a.test"%string);
   (tx "Route.ModifyVirtualHost"%string, if b then tx "true"%string else tx "false"%string);
   (tx "Route.Strategy"%string, tx ""%string)].

Example reload_example :
  routes_differ [route_mvh false] [route_mvh true] = true
  /\ routes_differ [route_mvh true] [route_mvh true] = false
  /\ (let s := fold_left step [ECs1 0 kA 3; EDoChan 0] init in
      let after := fold_left step [EComplete 0 true; ECs1 1 kA 3]
                     (reload_step [route_mvh false] [route_mvh true] s) in
      map (fun r => (r_id r, r_val r)) (responses after) = [(0, Some (0, true))]
      /\ map p_id (parked after) = [1])
  /\ (let s := fold_left step [ECs1 0 kA 3; EDoChan 0] init in
      let after := fold_left step [EComplete 0 true; ECs1 1 kA 3]
                     (reload_step [route_mvh true] [route_mvh true] s) in
      map (fun r => (r_id r, r_val r)) (responses after) = [(0, Some (0, true)); (1, Some (0, true))]).
Proof. vm_compute. repeat split; reflexivity. Qed.
