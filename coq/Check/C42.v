(* C42 — per-case judge used by generated case files.
   A case is a history of API calls on [nfut] futures run through the real
   pkg/internal/future code: per call the operation, what the harness saw during the call
   (the log callbacks that ran on the calling goroutine, as (future, tag, value), and whether
   the call hung), and logical-clock stamps of invocation and return.
   Sequential cases (no two calls overlap) are replayed exactly against Model.Future.call;
   concurrent cases must be linearizable w.r.t. it (Base.Lin, search + validated order). *)
From Coq Require Import List NArith ZArith Bool Arith.
From Verif Require Import Base.Verdict Base.Lin Model.Future.
Import ListNotations.

Definition runrec := (nat * N * N)%type.            (* future, callback tag, value *)
Definition obs := (list runrec * option bool)%type. (* runs during the call; Some hung *)

Record case := mk { nfut : nat; concurrent : bool; hist : list (Lin.call op obs) }.

Definition eq_run (a b : runrec) : bool :=
  let '(f, c, v) := a in let '(f', c', v') := b in
  (f =? f')%nat && (c =? c')%N && (v =? v')%N.

Fixpoint eq_runs (a b : list runrec) : bool :=
  match a, b with
  | [], [] => true
  | x :: a', y :: b' => eq_run x y && eq_runs a' b'
  | _, _ => false
  end.

Definition eq_obs (m o : obs) : bool :=
  eq_runs (fst m) (fst o) &&
  match snd m, snd o with
  | Some x, Some y => Bool.eqb x y
  | _, _ => false
  end.

Definition runs_of (ev : list event) : list runrec :=
  flat_map (fun e => match e with ERun f c v => [(f, c, v)] | ESet _ _ => [] end) ev.

(* the sequential specification handed to Lin: one whole call, projected to what Go can see *)
Definition spec_step (s : state) (o : op) : state * obs :=
  let '(s', (ev, oc)) := Future.call s o in
  (s', (runs_of ev,
        match oc with Done => Some false | Stuck => Some true | OutOfFuel => None end)).

(* ---------- the property's predicate on the observation alone ---------- *)

Definition all_runs (h : list (Lin.call op obs)) : list runrec := flat_map (fun c => fst (c_ret c)) h.

Definition count_runs (f : nat) (c : N) (rs : list runrec) : nat :=
  length (filter (fun r => let '(f', c', _) := r in (f =? f')%nat && (c =? c')%N) rs).

Definition count_regs (f : nat) (c : N) (h : list (Lin.call op obs)) : nat :=
  length (filter (fun x => match c_op x with
                           | ThenAccept f' c' => (f =? f')%nat && (c =? c')%N
                           | _ => false end) h).

(* callbacks never run more often than they were registered *)
Definition p_at_most_once (h : list (Lin.call op obs)) : bool :=
  let rs := all_runs h in
  forallb (fun r => let '(f, c, _) := r in count_runs f c rs <=? count_regs f c h) rs.

(* all callbacks of one future see the same value *)
Definition p_one_value (h : list (Lin.call op obs)) : bool :=
  let rs := all_runs h in
  forallb (fun r => let '(f, _, v) := r in
     forallb (fun r' => let '(f', _, v') := r' in negb (f =? f')%nat || (v =? v')%N) rs) rs.

(* futures completed only by direct Complete calls (never the result of a ThenCompose, never
   completed from inside a composed user function) *)
Definition plain (f : nat) (h : list (Lin.call op obs)) : bool :=
  forallb (fun x => match c_op x with
                    | ThenCompose _ u out =>
                        negb (f =? out)%nat &&
                        match u with UCompleting g _ => negb (f =? g)%nat | UExisting _ => true end
                    | _ => true end) h.

Fixpoint first_complete (f : nat) (h : list (Lin.call op obs)) : option N :=
  match h with
  | [] => None
  | x :: r => match c_op x with
              | Complete f' v => if (f =? f')%nat then Some v else first_complete f r
              | _ => first_complete f r
              end
  end.

(* sequential histories: a plain future's callbacks see the value of the first Complete *)
Definition p_first_wins (h : list (Lin.call op obs)) : bool :=
  forallb (fun r => let '(f, _, v) := r in
     negb (plain f h) ||
     match first_complete f h with Some w => (v =? w)%N | None => false end) (all_runs h).

Definition no_hang (h : list (Lin.call op obs)) : bool :=
  forallb (fun x => match snd (c_ret x) with Some false => true | _ => false end) h.

(* when everything has returned: a future one of whose callbacks ran has run every
   registered callback exactly as often as it was registered *)
Definition p_all_ran (h : list (Lin.call op obs)) : bool :=
  let rs := all_runs h in
  negb (no_hang h) ||
  forallb (fun x => match c_op x with
                    | ThenAccept f c =>
                        negb (existsb (fun r => let '(f', _, _) := r in (f =? f')%nat) rs)
                        || (count_runs f c rs =? count_regs f c h)
                    | _ => true end) h.

Definition holds_P (c : case) : bool :=
  p_at_most_once (hist c) && p_one_value (hist c) && p_all_ran (hist c)
  && (concurrent c || p_first_wins (hist c)).

Definition lin_fuel : nat := 40.

Definition judge (c : case) : verdict :=
  let s0 := init (nfut c) [] in
  if negb (holds_P c) then VViolation
  else if concurrent c then
    (if check_history spec_step eq_obs lin_fuel s0 (hist c) then VOk else VViolation)
  else
    (if replay_okb spec_step eq_obs s0 (hist c) (seq 0 (length (hist c))) then VOk else VMismatch).
