(* C28 - per-case judge.  A case is one history on a fresh tab list of a viewer of protocol [ver];
   [observed] holds per operation: how the call ended, the packets the viewer received as the
   bytes of the real encoder (proxy-originated and forwarded backend packets alike), and the
   proxy's TabList.Entries() afterwards.  [tbl] is the encoding of the display-name pool for this
   protocol (chat components are delimited, not interpreted, by the model). *)
From Coq Require Import List NArith ZArith Bool.
From Verif Require Import Base.Hex Base.Assoc Base.Verdict Model.TabList.
Import ListNotations.
Open Scope N_scope.

(* an entry of Entries() as the harness reads it off the real Entry *)
Record vrec := mkV { v_name : bytes; v_props : list prop; v_listed : bool; v_latency : Z;
                     v_gm : Z; v_dn : option N; v_order : Z }.
Record ostep := mkO { o_ret : tret; o_pkts : list (pkind * bytes); o_view : list (N * vrec) }.
Record case := mk { ver : N; tbl : list bytes; ops : list top; observed : list ostep }.

(* the same projection the model applies to its own entries ([pview]) *)
Definition vview (ver : N) (tbl : list bytes) (v : vrec) : cinfo :=
  pview ver tbl (mkA (v_name v) (v_props v) (v_latency v) (v_gm v) (v_listed v) (v_dn v) (v_order v) false).
Definition oview (c : case) (o : ostep) : cstate :=
  map (fun kv => (fst kv, vview (ver c) (tbl c) (snd kv))) (o_view o).

Definition tret_eqb (a b : tret) : bool :=
  match a, b with TOk, TOk | TErr, TErr | TPanic, TPanic => true | _, _ => false end.

Fixpoint insert (x : N) (l : list N) : list N :=
  match l with [] => [x] | y :: r => if x <=? y then x :: l else y :: insert x r end.
Definition sort (l : list N) : list N := fold_right insert [] l.

(* upsert packets are compared byte for byte; remove packets by the decoded ids as a sorted list
   (RemoveAll() of everything ranges over a Go map) *)
Definition pkt_eqb (m o : pkind * bytes) : bool :=
  match fst m, fst o with
  | KUpsert, KUpsert => beq_bytes (snd m) (snd o)
  | KRemove, KRemove =>
    match vanilla_decode_remove (snd m), vanilla_decode_remove (snd o) with
    | Some a, Some b => list_eqb N.eqb (sort a) (sort b)
    | _, _ => false
    end
  | _, _ => false
  end.

Fixpoint list_eqb2 {A B} (eqb : A -> B -> bool) (a : list A) (b : list B) : bool :=
  match a, b with
  | [], [] => true
  | x :: r, y :: r' => eqb x y && list_eqb2 eqb r r'
  | _, _ => false
  end.

Definition step_eqb (c : case) (m : mstep) (o : ostep) : bool :=
  tret_eqb (m_ret m) (o_ret o) && list_eqb pkt_eqb (m_pkts m) (o_pkts o) && same_view (m_view m) (oview c o).

Definition model (cf : tcfg) (c : case) : list mstep := run cf (ver c) (tbl c) [] (ops c).
Definition same (c : case) (m : list mstep) : bool := list_eqb2 (step_eqb c) m (observed c).

Definition holds_P (c : case) : bool :=
  Nat.eqb (length (observed c)) (length (ops c)) &&
  agree (ver c) (Some []) (map (fun o => (o_ret o, o_pkts o, oview c o)) (observed c)).

(* Findings C28-1..3 are fixed (commits d54f770, d5f50a6, eb9ac68): no verdict is excused any more.
   A record in which the client cannot decode a packet, ends with another view than the proxy's, or in
   which a call panics falsifies [holds_P] and is a violation; any other departure from the model of
   today's code is a mismatch. *)
Definition judge (c : case) : verdict :=
  let good := holds_P c in
  if same c (model impl_tcfg c) then (if good then VOk else VViolation)
  else if good then VMismatch else VViolation.
