(* C44 - per-case judge.  One case = one scenario run on the real connection in a child process:
   a read loop fed with |script| packets whose handler returns or panics, a set of goroutines that close
   the connection concurrently in different ways, then writes started after everything was closed. *)
From Coq Require Import List NArith Bool Arith.
From Verif Require Import Base.Conc Base.Verdict Model.ConnClose.
Import ListNotations.

(* how one goroutine closes the connection *)
Inductive closer :=
| KClose            (* conn.Close() *)
| KCloseWith        (* netmc.CloseWith(conn, packet) *)
| KCloseUnknown     (* netmc.CloseUnknown(conn) *)
| KPeerClose        (* the other end of the pipe is closed: the read loop sees EOF *)
| KWriteFail.       (* the other end is closed, then conn.WritePacket fails and closes the connection *)

(* when the PARENT context handed to NewMinecraftConn is cancelled *)
Inductive cmode :=
| CNone       (* never *)
| CBefore     (* after the packets were handled, before any closer starts *)
| CAfter      (* after all closers returned and the read loop ended *)
| CRacing.    (* by one more goroutine released together with the closers *)

Record case := mk {
  script : list hkind;        (* behaviour of HandlePacket for incoming packet 0, 1, ... *)
  closers : list closer;      (* one goroutine each, released together *)
  drain_first : bool;         (* the closers start only after every packet was handled *)
  n_after : nat;              (* writes started after all closers returned and the loop ended *)
  cancel : cmode;
  dops : list dop;            (* what the handler's Disconnected() does with its own connection (for a paired
                                 scenario: what the OTHER connection's teardown does back to this one) *)
  paired : bool;              (* a second connection is torn down by this one's Disconnected() and vice versa *)
  o_alive : bool;             (* the child process survived the scenario *)
  o_handled : list nat;       (* packet numbers for which HandlePacket was entered, in order *)
  o_disc : nat;               (* number of Disconnected() calls *)
  o_winners : nat;            (* explicit Close/CloseWith/CloseUnknown calls that did not answer ErrClosedConn *)
  o_after : list wres;        (* result classes of the late writes *)
  o_closed : bool;            (* netmc.Closed(conn) at the end *)
  o_loop_returned : bool;     (* startReadLoop returned *)
  o_closers_returned : bool;  (* every closing goroutine returned (nobody hangs in Close) *)
  o_dres : list dres;         (* what the calls made from inside the teardown answered *)
  o_pdisc : nat               (* paired: Disconnected() calls of the other connection's handler *)
}.

Definition dres_eqb (a b : dres) : bool :=
  match a, b with DClosed, DClosed | DSkipped, DSkipped | DOther, DOther => true | _, _ => false end.

Definition wres_eqb (a b : wres) : bool :=
  match a, b with WOk, WOk | WClosed, WClosed | WIO, WIO => true | _, _ => false end.

Fixpoint list_eqb {A : Type} (eq : A -> A -> bool) (a b : list A) {struct a} : bool :=
  match a, b with
  | [], [] => true
  | x :: a', y :: b' => eq x y && list_eqb eq a' b'
  | _, _ => false
  end.

Fixpoint is_prefix (a b : list nat) : bool :=
  match a, b with
  | [], _ => true
  | x :: a', y :: b' => Nat.eqb x y && is_prefix a' b'
  | _ :: _, [] => false
  end.

(* the property on the observations *)
Definition holds (c : case) : bool :=
  o_alive c                                                  (* the panic did not end the process *)
  && Nat.eqb (o_disc c) 1                                     (* teardown exactly once *)
  && Nat.leb (o_winners c) 1
  && forallb (wres_eqb WClosed) (o_after c)                   (* late writes report "closed" *)
  && Nat.eqb (length (o_after c)) (n_after c)
  && o_closed c && o_loop_returned c
  && o_closers_returned c                                     (* no close call hangs *)
  && list_eqb dres_eqb (o_dres c) (map res_of (dops c))        (* calls from inside the teardown see "closed" *)
  && Nat.eqb (o_pdisc c) (if paired c then 1 else 0)          (* the paired session is torn down once, too *)
  && (if drain_first c
      then list_eqb Nat.eqb (o_handled c) (seq 0 (length (script c)))   (* the loop went on after every panic *)
      else is_prefix (o_handled c) (seq 0 (length (script c)))).

(* the model on a canonical schedule: the loop handles everything, the closers run one after the other,
   the blocked read fails, then the late writes (a parent-context cancel goes first, or after the read
   loop ended); the theorems say the compared values do not depend on
   the schedule *)
Definition gors_of (k : closer) : list gor :=
  match k with
  | KClose | KCloseUnknown => [GClose]
  | KCloseWith => [GCloseWith]
  | KPeerClose => [GPeerClose]
  | KWriteFail => [GPeerClose; GWrite]
  end.

Definition model_run (c : case) :=
  let pre := match cancel c with CBefore | CRacing => [GCancel] | _ => [] end in
  let post := match cancel c with CAfter => [GCancel] | _ => [] end in
  let gs0 := pre ++ flat_map gors_of (closers c) in
  let gs := gs0 ++ post ++ repeat GWrite (n_after c) in
  let n0 := length gs0 in
  let n1 := (n0 + length post)%nat in
  let sched := repeat O (length (script c))
               ++ flat_map (fun i => [i; i; i]) (seq 1 n0)
               ++ [O]
               ++ seq (S n0) (length post)
               ++ flat_map (fun i => [i; i; i]) (seq (S n1) (n_after c)) in
  (n1, run (program impl_cfg (script c) gs) sched (cinit_d (dops c))).

Definition late_results (n1 : nat) (evs : list event) : list wres :=
  flat_map (fun e => match e with EWRes t r => if Nat.ltb n1 t then [r] else [] | _ => [] end) evs.

Definition model_agrees (c : case) : bool :=
  let '(n1, r) := model_run c in
  let evs := events r in
  Nat.eqb (o_disc c) (n_disc evs)
  && Bool.eqb (o_alive c) (negb (died evs))
  && Bool.eqb (o_closers_returned c) (negb (stuck_ev evs))
  && list_eqb dres_eqb (o_dres c) (dop_results evs)
  && list_eqb wres_eqb (o_after c) (late_results n1 evs)
  && Bool.eqb (o_closed c) (seen_closed (final_state r))
  && (negb (drain_first c) || list_eqb Nat.eqb (o_handled c) (handled evs)).

Definition judge (c : case) : verdict :=
  if holds c then (if model_agrees c then VOk else VMismatch) else VViolation.
