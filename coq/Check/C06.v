(* C06 — per-case judge used by generated case files.
   One case = one call state.FromDirection(dir, state.<State>, protocol) on the LIVE registries of the real
   code, observed through the public API (ProtocolRegistry.Protocol, CreatePacket over the keys of PacketIDs,
   PacketID over the keys of PacketTypes), together with the live version.Versions list and the observation
   of the same registry at the lowest supported protocol (for the fallback clause). *)
From Coq Require Import List ZArith String Bool.
From Verif Require Import Base.Verdict Model.Registry Model.RegistryReference Gen.Registry.
Import ListNotations.
Open Scope Z_scope.

(* what was observed for one resolved *ProtocolRegistry (None = the nil pointer) *)
Record otable := mkO {
  o_protocol : Z;                 (* its Protocol field *)
  o_ids : list (Z * ptype);       (* id -> type of CreatePacket(id), sorted by id *)
  o_types : list (ptype * Z) }.   (* type -> PacketID(new(type)), sorted by type name *)

Record case := mk {
  c_state : state; c_dir : dir; c_protocol : Z;
  c_live : list Z;                (* protocol numbers of the live version.Versions, in order *)
  c_live_min : Z; c_live_max : Z; (* live version.MinimumVersion / MaximumVersion *)
  c_obs : option otable;          (* registry resolved for c_protocol *)
  c_obs_min : option otable }.    (* registry resolved for the lowest non-negative protocol of c_live *)

Definition to_pr (o : otable) : protoreg := mkPR (o_protocol o) (o_ids o) (o_types o).

Fixpoint memZ (x : Z) (l : list Z) : bool :=
  match l with [] => false | y :: r => (x =? y) || memZ x r end.
Fixpoint list_eqb {A} (eqb : A -> A -> bool) (a b : list A) : bool :=
  match a, b with
  | [], [] => true
  | x :: r, y :: s => eqb x y && list_eqb eqb r s
  | _, _ => false
  end.
Definition id_entry_eqb (a b : Z * ptype) := (fst a =? fst b) && String.eqb (snd a) (snd b).
Definition ty_entry_eqb (a b : ptype * Z) := String.eqb (fst a) (fst b) && (snd a =? snd b).
Definition otable_eqb (a b : otable) : bool :=
  (o_protocol a =? o_protocol b) && list_eqb id_entry_eqb (o_ids a) (o_ids b)
  && list_eqb ty_entry_eqb (o_types a) (o_types b).

(* The property speaks of "supported protocol versions": the entries of Versions that are real protocol
   numbers (the two pseudo versions Unknown / Legacy are negative). *)
Definition live_supported (c : case) : list Z := filter (fun v => 0 <=? v) (c_live c).

(* ---- the property's predicate, evaluated on the OBSERVATION only ---- *)

(* clause 1: id <-> type is a bijection (Model.Registry.bijb, sound for bij_pr by Proofs.C06.bijb_sound) *)
Definition holds_bij (c : case) : bool :=
  match c_obs c with Some o => bijb (to_pr o) | None => true end.

(* clause 3 (and "every supported version has its own table"): *)
Definition holds_fallback (c : case) : bool :=
  if memZ (c_protocol c) (live_supported c) then
    match c_obs c with Some o => o_protocol o =? c_protocol c | None => false end
  else if fallback_policy (c_state c) then
    match c_obs c, c_obs_min c, lowest (live_supported c) with
    | Some o, Some om, Some lw => (o_protocol o =? lw) && otable_eqb o om
    | _, _, _ => false
    end
  else
    match c_obs c with None => true | Some _ => false end.

(* clause 2: a type shared with the reference has the reference id (verified entries only) *)
Definition holds_reference (c : case) : bool :=
  match c_obs c with
  | None => true
  | Some o =>
    forallb (fun e =>
               if state_eqb (e_state e) (c_state c) && dir_eqb (e_dir e) (c_dir c) && in_range e (o_protocol o)
               then match find_ty (o_types o) (e_type e) with
                    | Some id => id =? e_id e
                    | None => true
                    end
               else true) alarmed
  end.

Definition holds_P (c : case) : bool := holds_bij c && holds_fallback c && holds_reference c.

(* ---- agreement of the model (built from the regenerated Gen/Registry.v) with the observation ---- *)

Definition model_table : res table := build config fallback_settings registrations.

Definition same_ids (obs mdl : list (Z * ptype)) : bool :=
  forallb (fun e => opt_ty_eqb (find_id mdl (fst e)) (snd e)) obs &&
  forallb (fun e => opt_ty_eqb (find_id obs (fst e)) (snd e)) mdl.
Definition same_types (obs mdl : list (ptype * Z)) : bool :=
  forallb (fun e => opt_id_eqb (find_ty mdl (fst e)) (snd e)) obs &&
  forallb (fun e => opt_id_eqb (find_ty obs (fst e)) (snd e)) mdl.

Definition model_agrees (c : case) : bool :=
  match model_table with
  | Err _ => false
  | Ok tb =>
    list_eqb Z.eqb (c_live c) (c_versions config)
    && (c_live_min c =? t_min tb) && (c_live_max c =? t_max tb)
    && match lookup tb (c_state c) (c_dir c) (c_protocol c), c_obs c with
       | RFound r, Some o =>
         (pr_protocol r =? o_protocol o) && same_ids (o_ids o) (pr_ids r) && same_types (o_types o) (pr_types r)
       | RNil, None => true
       | _, _ => false
       end
  end.

Definition judge (c : case) : verdict :=
  if holds_P c then (if model_agrees c then VOk else VMismatch) else VViolation.
