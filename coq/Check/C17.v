(* C17 — per-case judge used by generated case files.
   A case = one player: configuration, virtual host string, a history of operations driven through the
   real connectedPlayer (nextServerToTry / setConnectedServer / setInFlightConnection), what the real
   code returned after each operation (chosen server name, tryIndex), the observed
   getVirtualHostname(), and optionally a final handleConnectionErr2 with the initial result of the
   KickedFromServerEvent it fired. *)
From Coq Require Import List NArith Bool Arith.
From Verif Require Import Base.Hex Base.Text Base.Verdict Model.TryList.
Import ListNotations.

(* final kick: registry, kicked-from server, safe flag; observed: initial result, whether the
   disconnect reason / notify message was the friendly reason passed in, tryIndex and the
   connected / in-flight servers afterwards *)
Record kick_in := mkKick { k_reg : list bytes; k_rs : bytes; k_safe : bool }.
Record kick_obs := mkKObs {
  k_result : kick_result; k_reason_ok : bool; k_cursor : nat;
  k_connected : option bytes; k_inflight : option bytes }.

Record case := mk {
  cfg : config;
  vhost : bytes;
  vh_obs : bytes;              (* observed getVirtualHostname() *)
  hint : option nat;           (* generator's claim: vhost = plain host of this length ++ removable suffix *)
  ops : list op;
  observed : list obs;
  kick_ : option (kick_in * kick_obs)
}.

Definition beq_obytes (a b : option bytes) : bool :=
  match a, b with
  | Some x, Some y => beq_bytes x y
  | None, None => true
  | _, _ => false
  end.

Fixpoint beq_obs (a b : list obs) : bool :=
  match a, b with
  | [], [] => true
  | x :: a', y :: b' =>
    beq_obytes (o_result x) (o_result y) && Nat.eqb (o_cursor x) (o_cursor y) && beq_obs a' b'
  | _, _ => false
  end.

Definition beq_kick (a b : kick_result) : bool :=
  match a, b with
  | KUnsafe, KUnsafe | KDisconnect, KDisconnect | KNotify, KNotify => true
  | KRedirect x, KRedirect y => beq_bytes x y
  | _, _ => false
  end.

(* property clause "port, Forge and TCPShield suffixes removed, compared case-insensitively":
   on a virtual host of the shape [plain host ++ removable suffix] the host used for the lookup is the
   lower-cased plain host (Properties/C17.v, C17_clean_removes_suffixes) *)
Definition clean_clause (c : case) : bool :=
  match hint c with
  | Some k =>
    let h := firstn k (vhost c) in
    let rest := skipn k (vhost c) in
    if plain_host h && removable_suffix rest then beq_bytes (vh_obs c) (go_to_lower h) else true
  | None => true
  end.

(* model agrees with everything observed *)
Definition agree (c : case) : bool :=
  beq_bytes (vh_obs c) (clean (vhost c))
  && beq_obs (run (cfg c) (vhost c) init_state (ops c)) (observed c)
  && match kick_ c with
     | None => true
     | Some (ki, ko) =>
       let st := run_state (cfg c) (vhost c) init_state (ops c) in
       let '(st', r) := kick (cfg c) (vhost c) (k_reg ki) st (k_rs ki) (k_safe ki) in
       beq_kick r (k_result ko) && k_reason_ok ko && Nat.eqb (cursor st') (k_cursor ko)
       && beq_obytes (connected st') (k_connected ko) && beq_obytes (inflight st') (k_inflight ko)
     end.

(* the property's predicate on what the implementation was observed to do *)
Definition holds (c : case) : bool :=
  let cands := candidates (cfg c) (vhost c) in
  holds_history cands (mkS None None) 0 (ops c) (observed c)
  && match kick_ c with
     | None => true
     | Some (ki, ko) =>
       holds_kick cands (s_run (mkS None None) (ops c)) (last_cursor (observed c))
                  (k_reg ki) (k_rs ki) (k_safe ki) (k_result ko)
       (* "disconnected with the kick reason" *)
       && match k_result ko with KDisconnect => k_reason_ok ko | _ => true end
     end.

Definition premise (c : case) : bool :=
  let cands := candidates (cfg c) (vhost c) in
  consistent_ops cands (ops c)
  && match kick_ c with None => true | Some (ki, _) => consistent (k_reg ki) cands end.

Definition judge (c : case) : verdict :=
  if negb (clean_clause c) then VViolation
  else if premise c then
    (if holds c then (if agree c then VOk else VMismatch) else VViolation)
  else
    (* outside the loaded-configuration premise (a registered name differs from a listed one only by
       case): only the correspondence with the faithful model is checked *)
    (if agree c then VOk else VMismatch).
