(* C17 — per-case judge used by generated case files.
   A case = one player: configuration, virtual host string, a history of operations driven through the
   real connectedPlayer (nextServerToTry / setConnectedServer / setInFlightConnection), and what the
   real code returned after each operation (chosen server name, tryIndex), plus the observed
   getVirtualHostname(). *)
From Coq Require Import List NArith Bool Arith.
From Verif Require Import Base.Hex Base.Text Base.Verdict Model.TryList.
Import ListNotations.

Record case := mk {
  cfg : config;
  vhost : bytes;
  vh_obs : bytes;              (* observed getVirtualHostname() *)
  hint : option nat;           (* generator's claim: vhost = plain host of this length ++ removable suffix *)
  ops : list op;
  observed : list obs
}.

Definition beq_obytes (a b : option bytes) : bool :=
  match a, b with
  | Some x, Some y => beq_bytes x y
  | None, None => true
  | _, _ => false
  end.

Fixpoint beq_obs (a b : list obs) : bool :=
  match a, b with
  | [], [] => true
  | x :: a', y :: b' =>
    beq_obytes (o_result x) (o_result y) && Nat.eqb (o_cursor x) (o_cursor y) && beq_obs a' b'
  | _, _ => false
  end.

(* property clause "port, Forge and TCPShield suffixes removed, compared case-insensitively":
   on a virtual host of the shape [plain host ++ removable suffix] the host used for the lookup is the
   lower-cased plain host (Properties/C17.v, C17_clean_removes_suffixes) *)
Definition clean_clause (c : case) : bool :=
  match hint c with
  | Some k =>
    let h := firstn k (vhost c) in
    let rest := skipn k (vhost c) in
    if plain_host h && removable_suffix rest then beq_bytes (vh_obs c) (go_to_lower h) else true
  | None => true
  end.

Definition judge (c : case) : verdict :=
  let cands := candidates (cfg c) (vhost c) in
  let agree := beq_bytes (vh_obs c) (clean (vhost c))
               && beq_obs (run (cfg c) (vhost c) init_state (ops c)) (observed c) in
  if negb (clean_clause c) then VViolation
  else if consistent_ops cands (ops c) then
    (if holds_history cands (mkS None None) 0 (ops c) (observed c)
     then (if agree then VOk else VMismatch)
     else VViolation)
  else
    (* outside the loaded-configuration premise (a registered name differs from a listed one only by
       case): only the correspondence with the faithful model is checked *)
    (if agree then VOk else VMismatch).
