(* C39 — per-case judge used by generated case files.
   CRead : a hostname handed to the real Floodgate.ReadHostname under [key]; [table] holds the results of
           the real AES-GCM Open for the (key, nonce, ciphertext) triples of this case (everything else
           opens to None); [origin] = (nonce, ciphertext, fields) of the valid encoding under THIS key the
           hostname was derived from, if any; [must_reject] = made under another key.
   CWrite: the real Floodgate.WriteHostname output for (key, original, d); [iv] is the nonce the harness
           read back from the output, [stab]/[otab] the real Seal/Open results for it, [ref_fields] what the
           harness's own Floodgate decoder (Go, independent of gate) read from the output. *)
From Coq Require Import List NArith ZArith Bool.
From Verif Require Import Base.Hex Base.Verdict Base.Base64 Base.Decimal Model.Floodgate.
Import ListNotations.

(* oracle tables hold results of the real AES-GCM under the case's own key [tk] *)
Definition otable := list (bytes * bytes * option bytes).   (* nonce, ciphertext, Open result *)
Definition stable := list (bytes * bytes * bytes).          (* nonce, plaintext, Seal result *)

Definition open_tab (tk : bytes) (t : otable) (k iv ct : bytes) : option bytes :=
  if negb (beq_bytes k tk) then None
  else match find (fun e => match e with (iv', ct', _) => beq_bytes iv iv' && beq_bytes ct ct' end) t with
       | Some (_, _, r) => r
       | None => None
       end.

Definition seal_tab (tk : bytes) (t : stable) (k iv p : bytes) : bytes :=
  if negb (beq_bytes k tk) then []
  else match find (fun e => match e with (iv', p', _) => beq_bytes iv iv' && beq_bytes p p' end) t with
       | Some (_, _, c) => c
       | None => []
       end.

Inductive case :=
| CRead (key hostname : bytes) (table : otable) (origin : option (bytes * bytes * bedrock))
        (must_reject : bool) (observed : outcome (bytes * bedrock))
| CWrite (key original : bytes) (d : bedrock) (iv : bytes) (stab : stable) (otab : otable)
         (ref_fields : option (bytes * list bytes)) (observed : option bytes)
(* summary of a concurrent encode stream on ONE Floodgate instance: [total] WriteHostname calls from 8
   goroutines, [decoded] of them read back by the harness's reference decoder to exactly the encoded
   fields, [distinct] different nonces among the outputs; [fail] = the first output that did not read back
   (key, original host, data, output, real Open result for the output's nonce and ciphertext) *)
| CConc (keylen total decoded distinct : N) (fail : option (bytes * bytes * bedrock * bytes * otable)).

Definition beq_read (a b : outcome (bytes * bedrock)) : bool :=
  match a, b with
  | Ok (h, d), Ok (h', d') => beq_bytes h h' && beq_bedrock d d'
  | Err, Err => true
  | Panic, Panic => true
  | _, _ => false
  end.

Definition is_err {A} (o : outcome A) : bool := match o with Err => true | _ => false end.
Definition is_panic {A} (o : outcome A) : bool := match o with Panic => true | _ => false end.

Definition beq_opt_bytes (a b : option bytes) : bool :=
  match a, b with Some x, Some y => beq_bytes x y | None, None => true | _, _ => false end.

Fixpoint beq_list_bytes (a b : list bytes) : bool :=
  match a, b with
  | [], [] => true
  | x :: a', y :: b' => beq_bytes x y && beq_list_bytes a' b'
  | _, _ => false
  end.

Definition beq_decoded (a b : option (bytes * list bytes)) : bool :=
  match a, b with
  | Some (h, fs), Some (h', fs') => beq_bytes h h' && beq_list_bytes fs fs'
  | None, None => true
  | _, _ => false
  end.

(* the property's predicate on one ReadHostname observation *)
Definition holds_read (open : bytes -> bytes -> bytes -> option bytes) (hostname : bytes)
    (origin : option (bytes * bytes * bedrock)) (must_reject : bool) (obs : outcome (bytes * bedrock)) : bool :=
  negb (is_panic obs) &&
  (if must_reject then is_err obs
   else match origin with
        | None => true
        | Some (iv0, ct0, d0) =>
          match envelope_of hostname with
          | Some (iv, ct) =>
            if beq_bytes iv iv0 && beq_bytes ct ct0
            then match obs with Ok (_, d) => beq_bedrock d d0 | _ => false end    (* authentic data: same fields *)
            else is_err obs                                                       (* nonce or ciphertext altered *)
          | None => is_err obs
          end
        end).

(* the out direction can be demanded only where Floodgate's decoder can represent the data:
   Java's split drops trailing empty strings, so the last field must not be empty *)
Definition write_in_scope (d : bedrock) : bool :=
  match b_verify d with [] => false | _ => true end.

Definition judge (c : case) : verdict :=
  match c with
  | CRead key hostname table origin must_reject obs =>
    let open := open_tab key table in
    (* a panic falsifies the property; finding C39-1 is fixed, so a recurrence is a violation like any other *)
    if is_panic obs then VViolation
    else if holds_read open hostname origin must_reject obs then
      (if beq_read obs (impl_read_hostname open key hostname) then VOk else VMismatch)
    else VViolation
  | CWrite key original d iv stab otab ref_fields obs =>
    let mdl := write_hostname (seal_tab key stab) key iv original d in
    match obs with
    | None => if beq_opt_bytes mdl None then VOk else VMismatch
    | Some out =>
      let want := Some (original, bedrock_fields d) in
      if negb (write_in_scope d) || (beq_decoded (floodgate_decode (open_tab key otab) key out) want && beq_decoded ref_fields want)
      then (if beq_opt_bytes mdl obs then VOk else VMismatch)
      else VViolation
    end
  | CConc keylen total decoded distinct fail =>
    match fail with
    | Some (key, original, d, out, otab) =>
      (* the judge re-reads the reported output with the Floodgate decoder model *)
      if beq_decoded (floodgate_decode (open_tab key otab) key out) (Some (original, bedrock_fields d))
      then VMismatch else VViolation
    | None => if N.eqb decoded total && N.eqb distinct total then VOk else VViolation
    end
  end.
