(* C21 — per-case judge used by generated case files.
   observed = packets written to the backend connection (in write order) by the real
   clientPlaySessionHandler.HandlePacket + chatQueue for one client history, ChatState's
   delayedAckCount once the queue is idle, and whether the player was disconnected. *)
From Coq Require Import List NArith Bool.
From Verif Require Import Base.Verdict Model.ChatQueue.
Import ListNotations.
Open Scope N_scope.

Record case := mk { cfg : config; ops : list op; obs_out : list bp; obs_delayed : N; obs_disc : bool }.

Definition bp_eqb (a b : bp) : bool :=
  match a, b with
  | PChat i x, PChat j y => (i =? j) && (x =? y)
  | PCmd i x, PCmd j y => (i =? j) && (x =? y)
  | PUCmd i, PUCmd j => i =? j
  | PAck x, PAck y => x =? y
  | POther, POther => true
  | _, _ => false
  end.

Fixpoint list_eqb {X} (eqb : X -> X -> bool) (a b : list X) : bool :=
  match a, b with
  | [], [] => true
  | x :: a', y :: b' => eqb x y && list_eqb eqb a' b'
  | _, _ => false
  end.

Definition matches (c : case) (r : st) : bool :=
  list_eqb bp_eqb (obs_out c) (out r) && (obs_delayed c =? delayed r) && Bool.eqb (obs_disc c) (disc r).

Definition judge (c : case) : verdict :=
  let holds := holds_C21 (ops c) (obs_out c) (obs_delayed c) (obs_disc c) in
  let im := impl_run (cfg c) (ops c) in
  if matches c (spec_run (cfg c) (ops c)) then (if holds then VOk else VViolation)
  else if matches c im && hit2 im then VKnown 2
  else if holds then VMismatch else VViolation.
