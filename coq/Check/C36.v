(* C36 — per-case judge used by generated case files.

   MergeCase  target patch observed
     target, patch : the two documents as written on the wire (raw member lists, duplicate
                     names possible, numbers as the literal Go prints for the decoded float64);
     observed      : json.Marshal(applyMergePatch(json.Unmarshal target, json.Unmarshal patch))
                     parsed back by the harness.
   ConfigCase cls target patch accepted candidate
     target    : canonicalConfigJSON(current) of a real configuration;
     patch     : a patch of class [cls] (class known by construction, Model.MergePatch.patch_class);
     accepted  : mergeConfigPatch returned no error;
     candidate : for accepted patches whose values are written in canonical form,
                 canonicalConfigJSON(candidate) (otherwise None). *)
From Coq Require Import List NArith Bool.
From Verif Require Import Base.Hex Base.Json Base.Verdict Model.MergePatch.
Import ListNotations.

Inductive case :=
| MergeCase (target patch observed : json)
| ConfigCase (cls : patch_class) (target patch : json) (accepted : bool) (candidate : option json)
(* document-level `null` patch through mergeConfigPatch; zero = canonicalConfigJSON of the
   configuration with no member set (computed by the harness without mergeConfigPatch) *)
| NullPatchCase (target zero : json) (accepted : bool) (candidate : option json).

(* observed document = RFC 7396 result (property predicate) and = model of the code *)
Definition judge_doc (target patch observed : json) : verdict :=
  if json_eqb observed (spec_apply target patch)
  then (if json_eqb observed (go_apply target patch) then VOk else VMismatch)
  else VViolation.

Definition judge (c : case) : verdict :=
  match c with
  | MergeCase t p obs => judge_doc t p obs
  | ConfigCase cls t p accepted cand =>
      if Bool.eqb accepted (spec_accepts cls)
      then match cand with
           | Some c => judge_doc t p c
           | None => VOk
           end
      else VViolation
  | NullPatchCase t zero accepted cand =>
      (* accepted: the candidate must be what the RFC result (null, no members) decodes to and
         in particular not the unmodified target; rejected: permitted by the property ("accepted
         only if") but not what the code does today *)
      if accepted
      then match cand with
           | Some c => if null_patch_candidate_ok (spec_apply t JNull) zero c
                       then (if is_null (go_apply t JNull) then VOk else VMismatch)
                       else VViolation
           | None => VViolation
           end
      else VMismatch
  end.
