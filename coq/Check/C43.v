(* C43 - per-case judge. observed = per operation, what the fake client saw the real proxy do. *)
From Coq Require Import List NArith ZArith Bool.
From Verif Require Import Base.Hex Base.Verdict Model.Status.
Import ListNotations.
Open Scope Z_scope.

Record case := mk {
  sup : list Z;                 (* version.SupportedVersions as protocol numbers, in gate's order *)
  proto : Z;                    (* protocol number in the client's handshake *)
  parked : Z;                   (* players the harness logged in beforehand and keeps connected *)
  count_api : Z;                (* Proxy.PlayerCount() read just before the session *)
  ops : list op;
  observed : list (list out)
}.

Definition judge (c : case) : verdict :=
  let want := spec_advertised (sup c) (proto c) in
  let impl := outs (impl_advertised (sup c) (proto c)) (parked c) (ops c) in
  let setup_ok := count_api c =? parked c in
  if holds_C43 want (count_api c) (ops c) (observed c)
  then (if beq_outs (observed c) impl && setup_ok then VOk else VMismatch)
  else VViolation.
