(* C38 — per-case judge.  One case = one scenario run against the real watch loop
   (reload.watchWithOptions through the verif export hook, injected faulty eventWatcher, real temp directory):
     f0        content of the file when the loop was started (None = missing)
     items     the serialised log: file operations performed, callback invocations with the content the
               callback read, and IQuiet where the harness had left the file alone for 3 x (interval + debounce)
               (only written when the harness's own scheduling-delay probe stayed below its limit).
   The judge evaluates the property predicate holds_C38 on that log, and asks whether the log is a behaviour of
   the faithful model (impl) or of the repaired one (spec) under some schedule of hidden steps. *)
From Coq Require Import List NArith Bool.
From Verif Require Import Base.Verdict Model.Reload.
Import ListNotations.

Record case := mk { f0 : fp; items : list item }.

Definition judge (c : case) : verdict :=
  let by_impl := explains impl_expire (f0 c) (items c) in
  let by_spec := explains spec_expire (f0 c) (items c) in
  if holds_C38 (f0 c) (items c)
  then (if by_impl || by_spec then VOk else VMismatch)
  else if trigger (f0 c) (items c) && by_impl then VKnown 1
  else VViolation.
