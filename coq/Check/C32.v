(* C32 — per-case judge.
     CSched   : a schedule of the ping cache's atomic steps (CS1 / DoChan+CS2 / loader result+CS3 /
                reset / clock advance / fast-path get) that the harness realised EXACTLY on a real
                pingStatusCache (gated flight group, blocking loaders, injected clock), with every
                answer (request id -> which fetch's value, status or error) and the loaders started;
     CResolve : ResolveStatusResponseWithGeneration against fake loopback backends (up / down) with
                or without a configured fallback: which answer came back.
   [holds_P] evaluates the property's clauses on the OBSERVED answers alone (no model involved):
   no answer older than a reset that precedes the request, values only from fetches for the same
   key, cached values only within their TTL, never two loaders in flight for one (generation, key). *)
From Coq Require Import List NArith Bool.
From Verif Require Import Base.Hex Base.Verdict Model.PingCache.
Import ListNotations.
Open Scope N_scope.

Inductive case :=
| CSched (events : list ev) (obs_resp : list (N * option value)) (obs_fetches : list N)
| CResolve (oks : list bool) (has_fallback : bool) (observed : answer)
(* a live reload through the real Proxy.ApplyLiveConfig: route lists A and B as flat lists of
   (field path, printed value), the route generation read by status requests before and after, and
   whether a ping started after the reload contacted the backend again (the first ping had been
   answered by the backend and cached with a long TTL) *)
| CReload (field : bytes) (routes_a routes_b : list (list (bytes * bytes)))
          (gen_before gen_after : N) (fresh : bool).

(* ---------- tables read off the event list (event n, counted from 0, happens at time n+1) ---------- *)

Record reqinfo := mkRI { q_t : N; q_key : key; q_ttl : N; q_gen : N; q_now : N; q_wall : N; q_is_get : bool }.
Record cominfo := mkCI { c_t : N; c_ok : bool; c_wall : N }.

Record tabs := mkT {
  t_reqs : list (N * reqinfo);
  t_dochan : list (N * N);
  t_complete : list (N * cominfo);
  t_resets : list N
}.

Fixpoint scan (es : list ev) (t g nw wl : N) (acc : tabs) : tabs :=
  match es with
  | [] => acc
  | e :: r =>
      let acc' :=
        match e with
        | ECs1 i k ttl => mkT ((i, mkRI t k ttl g nw wl false) :: t_reqs acc) (t_dochan acc) (t_complete acc) (t_resets acc)
        | EGet i k => mkT ((i, mkRI t k 0 g nw wl true) :: t_reqs acc) (t_dochan acc) (t_complete acc) (t_resets acc)
        | EDoChan i => mkT (t_reqs acc) ((i, t) :: t_dochan acc) (t_complete acc) (t_resets acc)
        | EComplete i ok => mkT (t_reqs acc) (t_dochan acc) ((i, mkCI t ok wl) :: t_complete acc) (t_resets acc)
        | EReset => mkT (t_reqs acc) (t_dochan acc) (t_complete acc) (t :: t_resets acc)
        | ETick _ | ESkew _ => acc
        end in
      let g' := match e with EReset => g + 1 | _ => g end in
      let nw' := match e with ETick d | ESkew d => nw + d | _ => nw end in
      let wl' := match e with ETick d => wl + d | _ => wl end in
      scan r (t + 1) g' nw' wl' acc'
  end.

Fixpoint assoc {A} (l : list (N * A)) (i : N) : option A :=
  match l with
  | [] => None
  | (j, a) :: r => if j =? i then Some a else assoc r i
  end.

Definition mem (i : N) (l : list N) : bool := existsb (N.eqb i) l.

Definition resp_ok (tb : tabs) (fetched : list N) (r : N * option value) : bool :=
  let '(i, ov) := r in
  match assoc (t_reqs tb) i with
  | None => false                                             (* an answer nobody asked for *)
  | Some q =>
      match ov with
      | None => q_is_get q                                    (* only the fast path may miss *)
      | Some (f, ok) =>
          match assoc (t_reqs tb) f, assoc (t_dochan tb) f, assoc (t_complete tb) f with
          | Some qf, Some tstart, Some cf =>
              mem f fetched
              && key_eqb (q_key qf) (q_key q)                 (* a value fetched for this very key *)
              && Bool.eqb ok (c_ok cf)                        (* and it is what that loader returned *)
              && forallb (fun tr => negb (tr <? q_t q) || (tr <? tstart)) (t_resets tb)   (* no stale after reset *)
              && (negb (c_t cf <? q_t q)
                  || ((q_now q <? c_wall cf + q_ttl qf) && (q_wall q <? c_wall cf + q_ttl qf)))   (* cached => within TTL *)
          | _, _, _ => false
          end
      end
  end.

(* two loaders for the same (generation, key) never overlap *)
Definition overlap_free (tb : tabs) (fetched : list N) : bool :=
  forallb (fun f1 => forallb (fun f2 =>
    (f1 =? f2) ||
    match assoc (t_reqs tb) f1, assoc (t_reqs tb) f2,
          assoc (t_dochan tb) f1, assoc (t_dochan tb) f2,
          assoc (t_complete tb) f1, assoc (t_complete tb) f2 with
    | Some q1, Some q2, Some s1, Some s2, Some c1, Some c2 =>
        negb ((q_gen q1 =? q_gen q2) && key_eqb (q_key q1) (q_key q2))
        || (c_t c1 <? s2) || (c_t c2 <? s1)
    | _, _, _, _, _, _ => false
    end) fetched) fetched.

Fixpoint nodup_n (l : list N) : bool :=
  match l with [] => true | x :: r => negb (mem x r) && nodup_n r end.

Definition holds_P (es : list ev) (obs_resp : list (N * option value)) (fetched : list N) : bool :=
  let tb := scan es 1 0 0 0 (mkT [] [] [] []) in
  forallb (resp_ok tb fetched) obs_resp
  && overlap_free tb fetched
  && nodup_n (map fst obs_resp)
  && Nat.eqb (length obs_resp) (length (t_reqs tb)).          (* every request was answered, once *)

Definition beq_val (a b : option value) : bool :=
  match a, b with
  | None, None => true
  | Some (f, o), Some (g, p) => (f =? g) && Bool.eqb o p
  | _, _ => false
  end.

Definition same_answers (a b : list (N * option value)) : bool :=
  Nat.eqb (length a) (length b)
  && forallb (fun r => match assoc b (fst r) with Some v => beq_val (snd r) v | None => false end) a.

Fixpoint beq_ln (a b : list N) : bool :=
  match a, b with
  | [], [] => true
  | x :: a', y :: b' => (x =? y) && beq_ln a' b'
  | _, _ => false
  end.

Definition beq_answer (a b : answer) : bool :=
  match a, b with
  | AStatus i, AStatus j => i =? j
  | AFallback, AFallback => true
  | AError, AError => true
  | _, _ => false
  end.

Fixpoint beq_fields (a b : list (bytes * bytes)) : bool :=
  match a, b with
  | [], [] => true
  | (k, v) :: a', (k', v') :: b' => beq_bytes k k' && beq_bytes v v' && beq_fields a' b'
  | _, _ => false
  end.

Fixpoint beq_routes (a b : list (list (bytes * bytes))) : bool :=
  match a, b with
  | [], [] => true
  | x :: a', y :: b' => beq_fields x y && beq_routes a' b'
  | _, _ => false
  end.

(* the model's reload: request 0 fetches and is cached (ttl 100, no time passes); IF the two route
   lists differ the cache is reset and the route generation (part of the key) advances; request 1
   starts afterwards.  Result: was request 1 NOT answered in its first critical section, i.e. does
   it need a fresh fetch? *)
Definition reload_model (differ : bool) (g : N) : bool * N :=
  let k0 : key := ([98], 765, g) in
  let g' := if differ then g + 1 else g in
  let k1 : key := ([98], 765, g') in
  let es := [ECs1 0 k0 100; EDoChan 0; EComplete 0 true]
            ++ (if differ then [EReset] else []) ++ [ECs1 1 k1 100] in
  let s := run_events es in
  (negb (existsb (fun r => r_id r =? 1) (responses s)), g').

Definition judge (c : case) : verdict :=
  match c with
  | CSched es obs_resp fetched =>
      if negb (holds_P es obs_resp fetched) then VViolation
      else
        let '(mr, mf) := obs_of (run_events es) in
        if same_answers obs_resp mr && beq_ln fetched mf then VOk else VMismatch
  | CResolve oks fb observed =>
      (* the property's clause itself: the fallback only if every backend failed (and then, if
         configured, always); a status only from the first backend that is up *)
      if beq_answer observed (resolve oks fb) then VOk else VViolation
  | CReload _ ra rb g0 g1 fresh =>
      let differ := negb (beq_routes ra rb) in        (* computed here, not by the Go side *)
      (* the property: routes were reloaded with a difference, the request started afterwards, and
         it was answered from the pre-reload cache entry *)
      if differ && negb fresh then VViolation
      else
        let '(mfresh, mg) := reload_model differ g0 in
        if Bool.eqb fresh mfresh && (g1 =? mg) then VOk else VMismatch
  end.
