(* C02 — per-case judge.  One case = one hostile byte stream fed to codec.NewDecoder(...).Decode() until the
   first call that does not return a packet; zlib is instantiated from the per-case inflate oracle. *)
From Coq Require Import List NArith ZArith Bool.
From Verif Require Import Base.Hex Base.Verdict Base.VarInt Model.Codec Check.C01.
Import ListNotations.
Open Scope N_scope.

Record case := mk {
  thr : Z;                              (* compression threshold, -1 = compression off *)
  serverbound : bool;
  stream : bytes;
  itbl : list (bytes * zres);           (* inflate oracle: zlib body -> (all output, ended cleanly) *)
  ltbl : list (bytes * N * bool);       (* (body, claimed) -> Close() silent after reading exactly claimed bytes *)
  obs : list bytes;                     (* payloads returned by successive Decode calls *)
  obs_term : oterm                      (* how the first unsuccessful call ended *)
}.

Definition outcome := (list bytes * oterm)%type.

Definition out_eqb (a b : outcome) : bool := beq_list (fst a) (fst b) && oterm_eqb (snd a) (snd b).

(* property-level agreement: same payloads, and the run ends the same way up to the kind of error *)
Definition blur (t : oterm) : oterm := match t with OFrameTooLarge => OErr | x => x end.
Definition out_agree (a b : outcome) : bool := beq_list (fst a) (fst b) && oterm_eqb (blur (snd a)) (blur (snd b)).

Definition judge (c : case) : verdict :=
  let I := inflate_of (itbl c) in
  let L := lazy_of (ltbl c) in
  let cf := mkcfg (thr c) (dir_of (serverbound c)) in
  let run := fun rv f1 f2 =>
    let '(ps, t) := decode_stream_flat (decode_frame_with I L rv f1 f2) cf (stream c) in (ps, coarse t) in
  let impl := run read_varint false false in
  let g1 := run read_varint true false in
  let g2 := run read_varint false true in
  let fx := run read_varint true true in
  let vel := run read_varint21 true true in
  let o : outcome := (obs c, obs_term c) in
  let bound := Z.max MAXFRAME (cap (c_dir cf)) in
  let sized := forallb (fun p => (Z.of_N (len p) <=? bound)%Z) (obs c) in
  let modelled := out_eqb o impl || out_eqb o g1 || out_eqb o g2 || out_eqb o fx in
  if negb sized then VViolation
  else if minimal_stream I L cf (stream c) then
    if out_agree o vel then (if modelled then VOk else VMismatch)
    else if out_eqb o impl then
      (if negb (out_eqb impl g1) then VKnown 1 else if negb (out_eqb impl g2) then VKnown 2 else VViolation)
    else if out_eqb o g1 && negb (out_eqb g1 fx) then VKnown 2
    else if out_eqb o g2 && negb (out_eqb g2 fx) then VKnown 1
    else VViolation
  else if modelled then VOk else VMismatch.
