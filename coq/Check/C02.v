(* C02 — per-case judge.  One case = one hostile byte stream fed to codec.NewDecoder(...).Decode() until the
   first call that does not return a packet; zlib is instantiated from the per-case inflate oracle.
   impl_ = today's decoder.go. *)
From Coq Require Import List NArith ZArith Bool.
From Verif Require Import Base.Hex Base.Verdict Base.VarInt Model.Codec Check.C01.
Import ListNotations.
Open Scope N_scope.

Record case := mk {
  thr : Z;                              (* compression threshold, -1 = compression off *)
  serverbound : bool;
  stream : bytes;
  itbl : list (bytes * zres);           (* inflate oracle: zlib body -> (all output, ended cleanly) *)
  obs : list bytes;                     (* payloads returned by successive Decode calls *)
  obs_term : oterm                      (* how the first unsuccessful call ended *)
}.

Definition outcome := (list bytes * oterm)%type.

Definition out_eqb (a b : outcome) : bool := beq_list (fst a) (fst b) && oterm_eqb (snd a) (snd b).

(* property-level agreement: same payloads, and the run ends the same way up to the kind of error *)
Definition blur (t : oterm) : oterm := match t with OFrameTooLarge => OErr | x => x end.
Definition out_agree (a b : outcome) : bool := beq_list (fst a) (fst b) && oterm_eqb (blur (snd a)) (blur (snd b)).

(* Both findings of this property are repaired in /repo (C02-1 commit 7de81ff, C02-2 commit 9119697), so there
   is no VKnown verdict any more: a recurrence of either behaviour on a stream with minimal prefixes falsifies the
   property predicate (VViolation); on other streams it is a model/implementation disagreement (VMismatch). *)
Definition judge (c : case) : verdict :=
  let I := inflate_of (itbl c) in
  let L := fun (_ : bytes) (_ : N) => false in   (* consulted by the pre-fix variant only *)
  let cf := mkcfg (thr c) (dir_of (serverbound c)) in
  let run := fun df =>
    let '(ps, t) := decode_stream_flat df cf (stream c) in (ps, coarse t) in
  let impl := run (impl_decode_frame I L) in
  let vel := run (velocity_decode_frame I L) in
  let o : outcome := (obs c, obs_term c) in
  let bound := Z.max MAXFRAME (cap (c_dir cf)) in
  let sized := forallb (fun p => (Z.of_N (len p) <=? bound)%Z) (obs c) in
  if negb sized then VViolation
  else if minimal_stream I L cf (stream c) then
    if out_agree o vel then (if out_eqb o impl then VOk else VMismatch) else VViolation
  else if out_eqb o impl then VOk else VMismatch.
