(* C29 — per-case judge.  Three kinds of case:
     CMatch : matchWithGroups(s, pattern) as observed through the export hook;
     CSubst : substituteBackendParams(template, groups);
     CRoute : ClearVirtualHost + FindRouteWithGroups + substitution of the found route's backends +
              what the real findRoute returned (error class, route host, first backend candidate).
   The property predicate is "observed = what the spec model (glob reading, simultaneous $k)
   yields".  The three findings once accepted here are fixed in /repo; see the judge. *)
From Coq Require Import List NArith Bool.
From Verif Require Import Base.Hex Base.Verdict Base.Text Model.Glob.
Import ListNotations.
Open Scope N_scope.

Definition route_c := (list bytes * list bytes)%type.

Inductive case :=
| CMatch (s pattern : bytes) (obs : option (list bytes))
| CSubst (template : bytes) (gs : list bytes) (obs : bytes)
| CRoute (raw : bytes) (routes : list route_c)
         (obs_clean : bytes)
         (obs_found : option (N * bytes * list bytes))   (* FindRouteWithGroups: route index, pattern, groups *)
         (obs_backends : list bytes)                      (* substituteBackendParams over the route's backends *)
         (obs_class : N) (obs_host : bytes) (obs_first : bytes). (* findRoute: 0 ok / 1 no route / 2 no backend *)

Fixpoint beq_list {A} (eq : A -> A -> bool) (a b : list A) : bool :=
  match a, b with
  | [], [] => true
  | x :: a', y :: b' => eq x y && beq_list eq a' b'
  | _, _ => false
  end.
Definition beq_lb := beq_list beq_bytes.
Definition beq_opt {A} (eq : A -> A -> bool) (a b : option A) : bool :=
  match a, b with Some x, Some y => eq x y | None, None => true | _, _ => false end.
Definition beq_found (a b : N * bytes * list bytes) : bool :=
  let '(i, p, g) := a in let '(j, q, k) := b in (i =? j) && beq_bytes p q && beq_lb g k.

(* does the observation equal the outcome of the model built from (dot, subst)? *)
Definition agrees (dot : N -> bool) (subst : bytes -> list bytes -> bytes)
           (raw : bytes) (rs : list route_c)
           (obs_found : option (N * bytes * list bytes)) (obs_backends : list bytes)
           (obs_class : N) (obs_host obs_first : bytes) : bool :=
  let '(cls, found, bs) := route_outcome dot subst raw rs in
  (cls =? obs_class) && beq_opt beq_found found obs_found
  && beq_lb bs obs_backends
  && beq_bytes obs_host (match found with Some (_, p, _) => p | None => [] end)
  && beq_bytes obs_first (hd [] bs).

(* All three recorded findings are FIXED (0f43e55, 23c72fc): nothing is excused any more.  The
   property predicate is "observed = spec"; a recurrence of the old behaviour is a VViolation.
   When the predicate holds, the model of today's code (impl_) must reproduce the observation too,
   otherwise VMismatch (impl_ = spec_ is proved, so this cannot happen below 10^9 groups). *)
Definition judge (c : case) : verdict :=
  match c with
  | CMatch s p obs =>
      if beq_opt beq_lb obs (match_bytes spec_dot s p)
      then (if beq_opt beq_lb obs (match_bytes impl_dot s p) then VOk else VMismatch)
      else VViolation
  | CSubst t gs obs =>
      if beq_bytes obs (spec_subst t gs)
      then (if beq_bytes obs (impl_subst t gs) then VOk else VMismatch)
      else VViolation
  | CRoute raw rs oc ofound obs_bs ocls ohost ofirst =>
      if negb (beq_bytes oc (clean_host raw)) then VViolation
      else if agrees spec_dot spec_subst raw rs ofound obs_bs ocls ohost ofirst
      then (if agrees impl_dot impl_subst raw rs ofound obs_bs ocls ohost ofirst then VOk else VMismatch)
      else VViolation
  end.
