(* C05 - per-case judge.  A case = one payload decoded through the REAL codec.Decoder (frame ->
   decodePayload -> RecoverFunc -> Packet.Decode) in a child process of the harness, with what was
   observed: packet / error / a panic that got through, bytes allocated (runtime.MemStats.TotalAlloc
   delta) and wall time.  Process-level crashes and hangs never reach Coq (they are reported by the
   harness as Go-side violations).
   The property's predicate: outcome is a packet or an error, and the allocation stays under
   alloc_a * len + alloc_b.  For fragment decoders the layout model is tied to the code on malformed input
   as well: when the model decodes the body completely, the real decoder must also return a packet. *)
From Coq Require Import List NArith ZArith String Bool.
From Verif Require Import Base.Hex Base.Verdict Model.Layout Model.LayoutPrims Gen.PacketLayouts Check.C04.
Import ListNotations.
Open Scope N_scope.

Inductive obs := OPacket | OError | OPanic.

Record case := mk {
  tname : string;       (* type the id resolves to in this registry, "" for an unknown id *)
  cv : Z; cb : bool;
  plen : N;             (* length of the packet body (after the id) *)
  outcome : obs;
  alloc : N;            (* bytes allocated while decoding *)
  millis : N;
  body : option bytes   (* the body itself, for fragment types and short payloads *)
}.

(* generous constants: observed ratios are below 200 bytes per payload byte (brigadier nodes), fixed costs
   (reflect.New, error formatting, one 256 KiB string buffer, NBT decoder state) below 1 MiB *)
Definition alloc_a : N := 1024.
Definition alloc_b : N := 8388608.
Definition time_limit_ms : N := 20000.

Definition holds_C05 (c : case) : bool :=
  match outcome c with OPanic => false | _ => true end &&
  (alloc c <=? alloc_a * plen c + alloc_b) && (millis c <=? time_limit_ms).

(* Finding 1 (config.TagsUpdate sized its maps by the untrusted count) is repaired (c77169e): no exception.
   Known finding 2: AvailableCommands.Decode is quadratic in the node count (redirect chains in random order). *)
Definition judge (c : case) : verdict :=
  if holds_C05 c then
    match body c, find_entry (tname c) packets with
    | Some bs, Some (Fragment _ _ decl _) =>
        (* when the model decodes the body completely the real decoder must return a packet as well
           (the byte array readers are strict since 4d8a5a4: no divergence on empty trailing arrays any more) *)
        match dec_L LP decl (mkctx (cv c) (cb c)) bs, outcome c with
        | Ok (_, []), OError => VMismatch
        | _, _ => VOk
        end
    | _, _ => VOk
    end
  else if String.eqb (tname c) "packet.AvailableCommands" && (500000 <=? plen c) && negb (millis c <=? time_limit_ms)
          && match outcome c with OPanic => false | _ => true end && (alloc c <=? alloc_a * plen c + alloc_b)
  then VKnown 2
  else VViolation.
