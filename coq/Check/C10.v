(* C10 - per-case judge. Two kinds of case: a direct call of uuid.OfflinePlayerUUID, and a name sent
   through the real login path of an offline-mode proxy. *)
From Coq Require Import List NArith Bool.
From Verif Require Import Base.Hex Base.Verdict Base.Md5 Model.OfflineId.
Import ListNotations.

Inductive kind :=
| KUuid (observed : bytes)            (* the 16 bytes returned by uuid.OfflinePlayerUUID (name) *)
| KLogin (observed : login_result).   (* what the fake client saw after sending login start *)

Record case := mk { name : bytes; what : kind }.

Definition judge (c : case) : verdict :=
  match what c with
  | KUuid u => if beq_bytes u (offline_uuid (name c)) then VOk else VViolation
  | KLogin r =>
      if holds_login (name c) r
      then (if beq_result r (login_result_of (name c)) then VOk else VMismatch)
      else VViolation
  end.
