(* C31 — judge: one case = one client connection through the real Lite proxy (harness/cmd/c31).
   Inputs: route options, client address as the proxy saw it, the client's byte stream (head = empty
   frames + handshake frame (+ status request), tail = explicit bytes + LCG bytes), the backend's reply
   stream, the unix-time window of the run.  Observed: every byte the backend received (None = no
   connection was accepted) and every byte the client received.

   holds_*   = the property's own predicate on the observed bytes (parse-based: PROXY header parsed by
               the reference parser and compared with the client address, handshake decoded and compared
               field by field, tail compared byte by byte);
   model     = Model.LiteForward.spec_flow / impl_flow (generate-based, exact bytes). *)
From Coq Require Import List Arith NArith Bool.
From Verif Require Import Base.Hex Base.VarInt Base.Verdict Model.LiteForward.
Import ListNotations.
Open Scope N_scope.
Open Scope bool_scope.

(* generated bulk bytes: x' = (x*1103515245 + 12345) mod 2^31, byte = (x' / 2^16) mod 256
   (mirrored by lcg() in the harness; keeps 64 KiB tails out of the case files) *)
Fixpoint gen_acc (n : nat) (x : N) (acc : bytes) : bytes :=
  match n with
  | O => rev' acc
  | S k => let x' := (x * 1103515245 + 12345) mod 2147483648 in
           gen_acc k x' ((x' / 65536) mod 256 :: acc)
  end.
Definition gen (n : N) (seed : N) : bytes := gen_acc (N.to_nat n) seed [].

Record stream := mkStream { s_explicit : bytes; s_seed : N; s_len : N }.
Definition stream_bytes (s : stream) : bytes := s_explicit s ++ gen (s_len s) (s_seed s).

Record case := mk {
  c_route : route;
  c_client : endpoint;
  c_head : bytes;
  c_tail : stream;
  c_back : stream;
  c_t0 : N;
  c_t1 : N;
  o_backend : option bytes;
  o_client : bytes
}.

Definition is_digit (c : N) : bool := (48 <=? c) && (c <=? 57).
Fixpoint take_digits (s : bytes) : bytes :=
  match s with
  | x :: r => if is_digit x then x :: take_digits r else []
  | [] => []
  end.
Definition is_nil {A} (l : list A) : bool := match l with [] => true | _ => false end.

(* the rewritten address the property allows: virtual host replaced in the host part only, then the
   TCPShield form with the client's address and SOME decimal unix time *)
Definition address_ok (r : route) (ca : endpoint) (addr a' : bytes) : bool :=
  let a1 := if r_mvh r && mvh_applies (r_backend_host r) addr then spec_mvh (r_backend_host r) addr else addr in
  if r_realip r && is_tcpshield a1 then
    let pre := shield_pre a1 (addr_text (ep_ip ca) (ep_port ca)) in
    prefixb pre a' &&
    let s := skipn (length pre) a' in
    let ds := take_digits s in
    negb (is_nil ds) && beq_bytes (skipn (length ds) s) (shield_tail a1)
  else beq_bytes a' a1.

(* "optional PROXY header carrying the client's real address, only if the route enables it":
   strip it with the reference parser and compare the source endpoint *)
Definition strip_proxy (r : route) (ca : endpoint) (b : bytes) : option bytes :=
  if r_proxy r then
    match parse_proxy_v2 b with
    | Some (src, _, rest) =>
      if same_ip (ep_ip src) (ep_ip ca) && (ep_port src =? ep_port ca) then Some rest else None
    | None => None
    end
  else Some b.

Definition same_fields (r : route) (ca : endpoint) (h h' : handshake) : bool :=
  (hs_proto h' =? hs_proto h) && (hs_port h' =? hs_port h) && (hs_next h' =? hs_next h) &&
  address_ok r ca (hs_addr h) (hs_addr h').

(* login / transfer *)
Definition holds_forward (r : route) (ca : endpoint) (p : bytes) (h : handshake) (rest back : bytes)
           (ob : option bytes) (oc : bytes) : bool :=
  beq_bytes oc back &&
  match ob with
  | None => false
  | Some b =>
    match strip_proxy r ca b with
    | None => false
    | Some b' =>
      if rewrite_flag spec_mvh r (hs_addr h) then
        match read_frame b' with
        | FPayload p' rest' =>
          beq_bytes rest' rest &&
          match dec_handshake_payload p' with
          | Some (h', []) => same_fields r ca h h'
          | _ => false
          end
        | _ => false
        end
      else beq_bytes b' (frame p ++ rest)
    end
  end.

(* status ping: the backend must see the (possibly re-encoded) handshake with the same fields and then
   the client's status request frame *)
Definition holds_status (r : route) (ca : endpoint) (h : handshake) (q : bytes) (ob : option bytes) : bool :=
  match ob with
  | None => false
  | Some b =>
    match strip_proxy r ca b with
    | None => false
    | Some b' =>
      match read_frame b' with
      | FPayload p' rest' =>
        beq_bytes rest' (frame q) &&
        match dec_handshake_payload p' with
        | Some (h', _) => same_fields r ca h h'
        | None => false
        end
      | _ => false
      end
    end
  end.

(* candidate values of time.Now().Unix() during the run *)
Fixpoint nows (n : nat) (t : N) : list N :=
  match n with O => [] | S k => t :: nows k (t + 1) end.
Definition window (t0 t1 : N) : list N :=
  nows (S (N.to_nat (N.min (t1 - t0) 8))) t0.

Definition flow_matches (f : flow) (ob : option bytes) : bool :=
  match f, ob with
  | FlowNone, None => true
  | FlowForward s, Some b => beq_bytes s b
  | FlowStatus s, Some b => beq_bytes s b
  | _, _ => false
  end.

Definition judge (c : case) : verdict :=
  let r := c_route c in
  let ca := c_client c in
  let tail := stream_bytes (c_tail c) in
  let back := stream_bytes (c_back c) in
  let cs := c_head c ++ tail in
  let ts := window (c_t0 c) (c_t1 c) in
  let model_eq (mvh : bytes -> bytes -> bytes) :=
      existsb (fun now => flow_matches (lite_flow mvh r ca now cs) (o_backend c)) ts in
  let known (h : handshake) :=
      r_mvh r && mvh_trigger (r_backend_host r) (hs_addr h) in
  match classify cs with
  | ReqNone =>
    (* nothing is demanded by the property; the model says no backend is contacted *)
    match o_backend c with None => VOk | Some _ => VMismatch end
  | ReqForward p h rest =>
    if holds_forward r ca p h rest back (o_backend c) (o_client c) then
      if model_eq spec_mvh then VOk else VMismatch
    else if known h && model_eq impl_mvh && beq_bytes (o_client c) back then VKnown 1
    else VViolation
  | ReqStatus p h q =>
    if holds_status r ca h q (o_backend c) then
      if model_eq spec_mvh then VOk else VMismatch
    else if known h && model_eq impl_mvh then VKnown 1
    else VViolation
  end.
