(* C01 — per-case judge.  One case = one writer/reader session of the real code:
   a history of Write / SetCompressionThreshold / EnableEncryption / Flush calls on netmc.NewWriter, the wire bytes that
   reached the conn, the sizes of the chunks the conn handed to the reader, and what netmc.NewReader
   returned.  zlib and AES are instantiated from the per-case oracle tables. *)
From Coq Require Import List NArith ZArith Bool FMapPositive.
From Verif Require Import Base.Hex Base.Verdict Base.VarInt Model.Codec.
Import ListNotations.
Open Scope N_scope.

(* how the real reader's run ended, coarse (no error strings) *)
Inductive oterm := ONeedMore | OFrameTooLarge | OErr | OFuel.

Definition coarse (t : term) : oterm :=
  match t with
  | TNeedMore => ONeedMore
  | TErr EFrameTooLarge => OFrameTooLarge
  | TErr _ => OErr
  | TFuel => OFuel
  end.

Definition oterm_eqb (a b : oterm) : bool :=
  match a, b with
  | ONeedMore, ONeedMore | OFrameTooLarge, OFrameTooLarge | OErr, OErr | OFuel, OFuel => true
  | _, _ => false
  end.

Record case := mk {
  lvl : Z;                         (* zlib level given to NewWriter *)
  serverbound : bool;              (* reader direction *)
  ops : list wop;                  (* what was done to the Writer, in order; it starts with compression off
                                      (threshold -1) and no encryption; the reader mirrors the changes *)
  dtbl : list (bytes * bytes);     (* zlib oracle: payload -> compress/zlib output at lvl *)
  ebytes : bytes;                  (* AES oracle: first byte of AES_secret(register) for the register in front of
                                      each ENCRYPTED wire byte (the last |ebytes| bytes of the wire); the registers
                                      are the 16-byte windows of secret ++ that part of wire_obs, rebuilt here *)
  wire_obs : bytes;                (* bytes the real writer put on the conn *)
  chunk_sizes : list (N * N);      (* sizes of the successive conn.Read results, run-length encoded (size, times) *)
  read_obs : list bytes;           (* payloads the real reader returned *)
  term_obs : oterm                 (* how reading ended *)
}.

Fixpoint first_secret (ops : list wop) : option bytes :=
  match ops with
  | [] => None
  | WEnc s :: _ => Some s
  | _ :: r => first_secret r
  end.

(* table register -> byte: the i-th register is bytes i..i+15 of secret ++ wire *)
Fixpoint aes_map_from (regs eb : bytes) (m : PositiveMap.t N) : PositiveMap.t N :=
  match eb, regs with
  | e :: eb', _ :: regs' => aes_map_from regs' eb' (PositiveMap.add (N.succ_pos (pack (firstn 16 regs))) e m)
  | _, _ => m
  end.

Definition aes_map (sec : option bytes) (w eb : bytes) : PositiveMap.t N :=
  match sec with
  | None => PositiveMap.empty N
  | Some k => aes_map_from (k ++ w) eb (PositiveMap.empty N)
  end.

Definition aes_of (m : PositiveMap.t N) (reg : bytes) : bytes :=
  match PositiveMap.find (N.succ_pos (pack reg)) m with Some b => [b] | None => [] end.

Definition unrle (l : list (N * N)) : list N := flat_map (fun st => repeat (fst st) (N.to_nat (snd st))) l.

Fixpoint split_sizes (s : bytes) (sz : list N) : list bytes :=
  match sz with
  | [] => match s with [] => [] | _ => [s] end
  | n :: r => firstn (N.to_nat n) s :: split_sizes (skipn (N.to_nat n) s) r
  end.

Definition dir_of (b : bool) : dir := if b then ServerBound else ClientBound.

Definition judge (c : case) : verdict :=
  let D := deflate_of (dtbl c) in
  let I := fun z => match assoc_bytes z (map (fun kv => (snd kv, fst kv)) (dtbl c)) with
                    | Some p => mkz p true | None => mkz [] false end in
  let L := fun (_ : bytes) (_ : N) => false in
  let off := (length (wire_obs c) - length (ebytes c))%nat in
  let m := aes_map (first_secret (ops c)) (skipn off (wire_obs c)) (ebytes c) in
  let E := aes_of m in
  let d := dir_of (serverbound c) in
  let premises := ops_ok D (lvl c) (-1) d (ops c) in
  let holds := beq_list (read_obs c) (written (ops c)) && oterm_eqb (term_obs c) ONeedMore in
  if premises && negb holds then VViolation
  else
    let w := wire_ops D E (lvl c) (-1) None (ops c) in
    let '(ps, t) := read_ops I L E d (-1) (mkrd (split_sizes (wire_obs c) (unrle (chunk_sizes c))) None) (ops c) in
    if beq_bytes w (wire_obs c) && beq_list ps (read_obs c) && oterm_eqb (coarse t) (term_obs c)
    then VOk else VMismatch.
