(* C09 — per-case judge used by generated case files.
   observed = what the real GenerateServerID returned for (secret, key). *)
From Coq Require Import List NArith.
From Verif Require Import Base.Hex Base.Verdict Model.ServerId.
Import ListNotations.

Record case := mk { secret : bytes; key : bytes; observed : bytes }.

Definition judge (c : case) : verdict :=
  let ref := reference_server_id (secret c) (key c) in
  let mdl := server_id (secret c) (key c) in
  if beq_bytes (observed c) ref
  then (if beq_bytes (observed c) mdl then VOk else VMismatch)
  else VViolation.
