(* C33 -- per-case judge.
   NetCase : netutil.ParseTrustedNetworks / Contains / Host run directly.
   WrapCase: the real newProxyProtocol + wrapConnTimeout around a fake net.Conn.
   Strings handed to Go's netip are also parsed by Base/Ip here and compared with what netip
   itself returned (the oracle): a difference there means the reference parser is off, which is a
   correspondence failure (VMismatch), not a statement about gate. *)
From Coq Require Import List NArith Bool.
From Verif Require Import Base.Hex Base.Verdict Base.Ip Model.Trusted.
Import ListNotations.
Open Scope N_scope.
Open Scope bool_scope.

(* netip result as printed by the harness: is6, As16 bytes, bits (0 for plain addresses), zone *)
Definition go_ip := (bool * bytes * N * bytes)%type.

Definition addr_matches (a : addr) (g : go_ip) (len : N) : bool :=
  let '(is6, b16, bits, z) := g in
  Bool.eqb is6 (family_eqb (fam a) V6) && (abits a =? be_val b16 0) && (bits =? len) && beq_bytes (zone a) z.

(* (text, is_prefix, what netip.ParsePrefix / ParseAddr returned) *)
Definition oracle_ok (o : bytes * bool * option go_ip) : bool :=
  let '(s, isp, g) := o in
  if isp then
    match parse_prefix s, g with
    | None, None => true
    | Some p, Some g => addr_matches (paddr p) g (plen p)
    | _, _ => false
    end
  else
    match parse_addr s, g with
    | None, None => true
    | Some a, Some g => addr_matches a g 0
    | _, _ => false
    end.

Definition prefix_canon (p : prefix) : bool * N * N :=
  (family_eqb (fam (paddr p)) V6, abits (paddr p), plen p).

Definition canon_eqb (a b : bool * N * N) : bool :=
  let '(a1, a2, a3) := a in let '(b1, b2, b3) := b in
  Bool.eqb a1 b1 && (a2 =? b2) && (a3 =? b3).

Fixpoint list_eqb {A} (e : A -> A -> bool) (x y : list A) : bool :=
  match x, y with
  | [], [] => true
  | a :: x', b :: y' => e a b && list_eqb e x' y'
  | _, _ => false
  end.

Definition obs_prefix_canon (o : bool * bytes * N) : bool * N * N :=
  let '(is6, b16, bits) := o in (is6, be_val b16 0, bits).

Definition opt_bytes_eqb (a b : option bytes) : bool :=
  match a, b with
  | None, None => true
  | Some x, Some y => beq_bytes x y
  | _, _ => false
  end.

Inductive case :=
| NetCase (entries : list bytes)
          (oracles : list (bytes * bool * option go_ip))
          (obs_parsed : option (list (bool * bytes * N)))
          (peers : list (option bytes * bytes * bool))     (* String() or nil, observed Host, observed Contains *)
| WrapCase (configured : list bytes) (obs_cfg_ok : bool)
           (oracles : list (bytes * bool * option go_ip))
           (peer : option bytes) (obs_host : bytes)
           (fb : first_bytes) (hdr_src : bytes) (payload : bytes)
           (obs_remote : option bytes) (obs_class : N) (obs_read : bytes).

Definition host_ok (p : option bytes * bytes * bool) : bool :=
  match p with
  | (Some s, h, _) => beq_bytes (host_of s) h
  | (None, _, _) => true
  end.

Definition judge (c : case) : verdict :=
  match c with
  | NetCase entries oracles obs_parsed peers =>
    if negb (forallb oracle_ok oracles && forallb host_ok peers) then VMismatch
    else
      match parse_trusted entries, obs_parsed with
      | None, None => VOk
      | Some t, Some o =>
        if list_eqb canon_eqb (map prefix_canon t) (map obs_prefix_canon o)
           && forallb (fun p => Bool.eqb (spec_trusted_peer t (fst (fst p))) (snd p)) peers
        then VOk else VViolation
      | _, _ => VViolation
      end
  | WrapCase configured obs_cfg_ok oracles peer obs_host fb hdr_src payload obs_remote obs_class obs_read =>
    if negb (forallb oracle_ok oracles && host_ok (peer, obs_host, true)) then VMismatch
    else
      match new_proxy_protocol configured with
      | None => if obs_cfg_ok then VViolation else VOk
      | Some t =>
        if negb obs_cfg_ok then VViolation
        else
          let want := spec_effect (spec_trusted_peer t peer) fb in
          let impl := effect (policy_of t peer) fb in
          let ok (e : remote_is * read_is) : bool :=
            opt_bytes_eqb obs_remote (match fst e with RemotePeer => peer | RemoteHeaderSource => Some hdr_src end)
            && match snd e with
               | ReadPayload => (obs_class =? 0) && beq_bytes obs_read payload
               | ReadFailsSuperfluous => obs_class =? 1
               end in
          if ok want then (if ok impl then VOk else VMismatch) else VViolation
      end
  end.
