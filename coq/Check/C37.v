(* C37 — per-case judge.  One case = one configuration built by the harness (a valid base perturbed around one
   or two constraint boundaries) and what the real code did with it:
     c          the validated fields (trusted_ok and bf_key_ok computed with the real parser / file system)
     obs_errs   clause ids of the errors returned by gate/config Config.Validate (messages mapped to ids by
                stable prefix; a message that matches no prefix is Unmapped)
     obs_warns  ids of the modelled warnings found among the returned warnings; an error-class message that
                shows up among the warnings is reported as its error id, so it cannot match
     rt         round trip evaluated in Go (differential testing only, no Coq model of yaml/json/viper):
                0 = not applicable (configuration rejected, or not serialisable by construction)
                1 = YAML and JSON: marshal -> loader -> equal
                3 = every difference is a zero-valued field that came back as the loader's default (finding C37-3)
                2 = any other difference, or a marshal / load error
     zero_default  the configuration has a zero-valued field whose loader default is not zero (trigger class of
                C37-3, computed by reflection in the harness)
   holds_C37: the accept/reject decision is the documented one (by C37_iff: impl_validate c = [] iff no
   documented constraint is broken) and an accepted configuration survived the round trip. *)
From Coq Require Import List NArith Bool.
From Verif Require Import Base.Verdict Model.ConfigValidate.
Import ListNotations.

Record case := mk { c : cfg; obs_errs : list clause; obs_warns : list clause; rt : N; zero_default : bool }.

Definition is_nil {A : Type} (l : list A) : bool := match l with [] => true | _ => false end.

Definition holds_C37 (k : case) : bool :=
  Bool.eqb (is_nil (obs_errs k)) (is_nil (impl_validate (c k)))
  && negb (is_nil (obs_errs k) && (N.eqb (rt k) 2 || N.eqb (rt k) 3)).

(* Findings C37-1 (NaN ops) and C37-2 (forced-host keys differing in case) are fixed: impl_validate is today's code
   and equals the specified validator, so a recurrence of either is judged like any other deviation (VViolation if
   the accept/reject decision is wrong, VMismatch otherwise).  Only C37-3 (round trip) is still a known finding. *)
Definition judge (k : case) : verdict :=
  let warns_ok := same_clauses (obs_warns k) (warnings (c k)) in
  let as_impl := same_clauses (obs_errs k) (impl_validate (c k)) && warns_ok in
  if as_impl && holds_C37 k then VOk
  else if as_impl && is_nil (obs_errs k) && N.eqb (rt k) 3 && zero_default k then VKnown 3
  else if holds_C37 k then VMismatch
  else VViolation.
