(* C13 — per-case judge used by generated case files.
   A case: whether the client protocol allows login plugin messages, and a history of calls run
   through the real loginInboundConn / Forge relay; per call what the harness saw during the
   call, in order: LoginPluginMessages written to the client (id, data), flushes, consumer
   invocations (tag, argument), LoginPluginResponses written to the backend (backend id,
   argument), runs of the completion callback, an error return; plus logical-clock stamps.
   Sequential cases are compared exactly with Model.LoginInbound.step_op; concurrent cases must
   be linearizable w.r.t. it (Base.Lin).
   Finding C13-1 (the completion callback was never cleared and ran again whenever a later
   response emptied the outstanding set) is FIXED in /repo (commit 7206740): the model of the code
   is Impl, and a recurrence of the old behaviour is a violation like any other (completions
   outnumber fires => the property predicate is false => VViolation).  No VKnown verdicts. *)
From Coq Require Import List ZArith NArith Bool Arith.
From Verif Require Import Base.Verdict Base.Lin Model.LoginInbound.
Import ListNotations.

Inductive out :=
| OMsg (id : Z) (data : body)
| OFlush
| OErr
| OCons (tag : N) (a : arg)
| OBackend (bid : Z) (a : arg)
| OCompletion.

Definition hcall := Lin.call op (list out).
Record case := mk { pok : bool; concurrent : bool; hist : list hcall }.

Fixpoint body_eqb (a b : body) : bool :=
  match a, b with
  | [], [] => true
  | x :: a', y :: b' => N.eqb x y && body_eqb a' b'
  | _, _ => false
  end.
Definition arg_eqb (a b : arg) : bool :=
  match a, b with
  | None, None => true
  | Some x, Some y => body_eqb x y
  | _, _ => false
  end.
Definition out_eqb (a b : out) : bool :=
  match a, b with
  | OMsg i d, OMsg j e => Z.eqb i j && body_eqb d e
  | OFlush, OFlush | OErr, OErr | OCompletion, OCompletion => true
  | OCons t a1, OCons u a2 => N.eqb t u && arg_eqb a1 a2
  | OBackend i a1, OBackend j a2 => Z.eqb i j && arg_eqb a1 a2
  | _, _ => false
  end.
Fixpoint outs_eqb (a b : list out) : bool :=
  match a, b with
  | [], [] => true
  | x :: a', y :: b' => out_eqb x y && outs_eqb a' b'
  | _, _ => false
  end.

(* what of the model's events the harness can see *)
Definition project (ev : list event) : list out :=
  flat_map (fun e => match e with
    | EMsg i d => [OMsg i d]
    | EFlush => [OFlush]
    | EErr => [OErr]
    | ECons _ (CPlain t) a | ECons _ (CSendMore t _) a | ECons _ (CFail t) a => [OCons t a]
    | ECons _ (CRelay _) _ => []
    | EBackend _ b a => [OBackend b a]
    | ECompletion => [OCompletion]
    | EReg _ _ | EResp _ _ | EFire => []
    end) ev.

Definition spec_step (v : variant) (s : state) (o : op) : state * list out :=
  let '(s', ev) := step_op v s o in (s', project ev).

(* ---------- the property's predicate on the observation alone ---------- *)

Definition all_outs (h : list hcall) : list out := flat_map (fun c => c_ret c) h.

(* the tag a message id carries, read off the messages the client was sent (data = [tag]; a relay
   of a backend message without data sends [0], which identifies nothing) *)
Fixpoint tag_of (id : Z) (os : list out) : option N :=
  match os with
  | [] => None
  | OMsg i [t] :: r => if Z.eqb i id then (if N.eqb t 0 then None else Some t) else tag_of id r
  | _ :: r => tag_of id r
  end.

Definition count_out (p : out -> bool) (os : list out) : nat := length (filter p os).
Definition is_cons (o : out) := match o with OCons _ _ => true | _ => false end.
Definition is_backend (o : out) := match o with OBackend _ _ => true | _ => false end.
Definition is_completion (o : out) := match o with OCompletion => true | _ => false end.
Definition is_invocation (o : out) := is_cons o || is_backend o.

Definition relay_tag (bid : Z) : N := (200 + Z.to_N bid)%N.

(* one call, given the ids consumed so far and the whole-history tag table *)
Definition call_ok (table : list out) (consumed : list Z) (x : hcall) : bool :=
  let os := c_ret x in
  match c_op x with
  | OResponse id ok data =>
      let a := resp_arg ok data in
      if existsb (Z.eqb id) consumed
      then negb (existsb is_invocation os) && negb (existsb is_completion os)   (* at most once *)
      else
        (count_out is_invocation os <=? 1)
        && forallb (fun o => match o with
             | OCons t a' => arg_eqb a a' &&
                 match tag_of id table with Some t' => N.eqb t t' | None => true end   (* id correlation *)
             | OBackend b a' => arg_eqb a a' &&
                 match tag_of id table with Some t' => N.eqb (relay_tag b) t' | None => true end
             | _ => true end) os
        && (existsb is_invocation os || negb (existsb is_completion os))
  | OFire => negb (existsb is_invocation os)
  | _ => negb (existsb is_invocation os) && negb (existsb is_completion os)
  end.

Definition consumed_by (x : hcall) : list Z :=
  match c_op x with
  | OResponse id _ _ => if existsb is_invocation (c_ret x) then [id] else []
  | _ => []
  end.

Fixpoint walk (table : list out) (consumed : list Z) (h : list hcall) : bool :=
  match h with
  | [] => true
  | x :: r => call_ok table consumed x && walk table (consumed_by x ++ consumed) r
  end.

Definition fires (h : list hcall) : nat :=
  length (filter (fun x => match c_op x with OFire => true | _ => false end) h).

(* completion: never more often than the pre-login event fired *)
Definition completion_ok (h : list hcall) : bool :=
  count_out is_completion (all_outs h) <=? fires h.

(* "exactly once ... after every outstanding message has been answered", on the observation alone,
   for histories the property speaks about (adm: the event once, answers after it, no clear): when
   the event has fired and as many consumers / relay writes have been invoked as messages were
   registered (successful sends, plus the k messages each invoked CSendMore consumer sent), the
   completion has run exactly once — whatever the consumers returned. *)
Definition has_err (os : list out) : bool := existsb (fun o => match o with OErr => true | _ => false end) os.
Definition registered (h : list hcall) : nat :=
  length (filter (fun x => match c_op x with
                           | OSend _ _ | ORelay _ _ => negb (has_err (c_ret x))
                           | _ => false end) h)
  + fold_right (fun o n => match o with
        | OCons t _ =>
            fold_right (fun x m => match c_op x with
                                   | OSend (CSendMore t' k) _ => if N.eqb t t' then k else m
                                   | _ => m end) 0 h + n
        | _ => n end) 0 (all_outs h).
Definition p_completes (h : list hcall) : bool :=
  negb (adm false (map (fun x => c_op x) h)) || negb (0 <? fires h)
  || negb (registered h =? count_out is_invocation (all_outs h))
  || (count_out is_completion (all_outs h) =? 1).

Definition holds_P (c : case) : bool :=
  let h := hist c in
  completion_ok h &&
  (if concurrent c
   then forallb (call_ok (all_outs h) []) h
        && forallb (fun x => match c_op x with
                             | OResponse id _ _ =>
                                 (* an id is answered to its consumer at most once over all calls *)
                                 length (filter (fun y => match c_op y with
                                                          | OResponse id' _ _ => Z.eqb id id' && existsb is_invocation (c_ret y)
                                                          | _ => false end) h) <=? 1
                             | _ => true end) h
   else walk (all_outs h) [] h && p_completes h).

Definition lin_fuel : nat := 40.

Definition judge (c : case) : verdict :=
  let s0 := init (pok c) 1 in
  let h := hist c in
  if negb (holds_P c) then VViolation
  else if concurrent c then
    (if check_history (spec_step Impl) outs_eqb lin_fuel s0 h then VOk else VViolation)
  else
    (if replay_okb (spec_step Impl) outs_eqb s0 h (seq 0 (length h)) then VOk else VMismatch).
