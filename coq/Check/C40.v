(* C40 — per-case judge.
   CName: [formatted] = fmt.Sprintf(format, gamertag) (or the gamertag when the format is empty) as computed
          by the harness with the same stdlib call gate uses; [observed] = the real javaCompatibleUsername(formatted).
   CUuid: [observed] = the 16 bytes of the real BedrockData{Xuid}.JavaUuid(). *)
From Coq Require Import List NArith ZArith Bool.
From Verif Require Import Base.Hex Base.Verdict Base.Text Base.Sha1 Base.Decimal Model.JavaIdentity.
Import ListNotations.
Open Scope N_scope.

Inductive case :=
| CName (format tag formatted observed : bytes)
| CUuid (xuid : Z) (observed : bytes)
(* the identity APPLIED by the real onGameProfile handler (GameProfileRequestEvent.GameProfile after the
   handler ran) for one Bedrock config: username format, BackendFloodgate.Enabled; [formatted] as in CName *)
| CProfile (format tag formatted : bytes) (xuid : Z) (backend_floodgate : bool) (obs_name obs_id : bytes).

(* 1 to 16 characters drawn only from A-Z, a-z, 0-9 and underscore *)
Definition valid_java_name (n : bytes) : bool :=
  Nat.leb 1 (length n) && Nat.leb (length n) 16 && forallb name_ok n.

(* RFC 4122: 16 bytes, version nibble 5, variant bits 10 *)
Definition rfc4122_v5 (u : bytes) : bool :=
  Nat.eqb (length u) 16 && (nth 6 u 0 / 16 =? 5) && (nth 8 u 0 / 64 =? 2) && wf_bytesb u.

Definition judge (c : case) : verdict :=
  match c with
  | CName format tag formatted observed =>
    if valid_java_name observed then
      (if beq_bytes observed (java_compatible_username formatted)
          && (negb (simple_format format) || beq_bytes observed (java_name format tag))
       then VOk else VMismatch)
    else VViolation
  | CUuid xuid observed =>
    if rfc4122_v5 observed then (if beq_bytes observed (java_uuid xuid) then VOk else VMismatch)
    else VViolation
  | CProfile format tag formatted xuid _ obs_name obs_id =>
    (* whatever the configuration: a valid Java name and an RFC 4122 UUID, equal to the model's *)
    if valid_java_name obs_name && rfc4122_v5 obs_id then
      (if beq_bytes obs_name (java_compatible_username formatted)
          && (negb (simple_format format) || beq_bytes obs_name (java_name format tag))
          && beq_bytes obs_id (java_uuid xuid)
       then VOk else VMismatch)
    else VViolation
  end.
