(* C27 - per-case judge.  A case is one history run on a fresh handler that the real
   resourcepack.NewHandler returned for a player of protocol [proto]; [observed] is what each
   call made visible (packets written to the player / backend, result, applied and pending
   packs), cut after the first call that did not return within the watchdog. *)
From Coq Require Import List NArith Bool.
From Verif Require Import Base.Verdict Model.ResourcePack.
Import ListNotations.
Open Scope N_scope.

Record case := mk { proto : N; hb : bool; ops : list op; observed : list step }.

Definition event_eqb (a b : event) : bool :=
  match a, b with
  | OReq u i h f, OReq u' i' h' f' => (u =? u') && (i =? i') && (h =? h') && Bool.eqb f f'
  | ORep i h s, ORep i' h' s' => (i =? i') && (h =? h') && status_eqb s s'
  | _, _ => false       (* ghost marks never occur in what is compared *)
  end.
Definition ret_eqb (a b : ret) : bool :=
  match a, b with
  | RUnit, RUnit | RPanic, RPanic | RStuck, RStuck | RErr, RErr => true
  | RHandled x, RHandled y | RBool x, RBool y => Bool.eqb x y
  | _, _ => false
  end.
Fixpoint list_eqb {A} (eqb : A -> A -> bool) (a b : list A) : bool :=
  match a, b with
  | [], [] => true
  | x :: r, y :: r' => eqb x y && list_eqb eqb r r'
  | _, _ => false
  end.
Definition pair_eqb (a b : N * N) : bool := (fst a =? fst b) && (snd a =? snd b).

(* model step against recorded step; the ghost marks of the model are erased first *)
Definition step_eqb (m o : step) : bool :=
  list_eqb event_eqb (obs (s_events m)) (s_events o)
  && ret_eqb (s_ret m) (s_ret o)
  && list_eqb pair_eqb (s_applied m) (s_applied o)
  && list_eqb pair_eqb (s_pending m) (s_pending o).
Definition same (m o : list step) : bool := list_eqb step_eqb m o.

(* Findings C27-1..3 are fixed (commit c3c83c0): no verdict is excused any more.  A run that shows
   one of them again (a call that never returns, a panic on a response with an empty queue, a pack
   declined on the client's behalf although the client never declined) falsifies [holds_P] and is a
   violation; any other departure from the model of today's code is a mismatch. *)
Definition judge (c : case) : verdict :=
  let ob := observed c in
  let good := holds_P (proto c) (hb c) (ops c) ob in
  if same (impl_run (proto c) (hb c) (ops c)) ob then (if good then VOk else VViolation)
  else if good then VMismatch else VViolation.
