(* C12 — per-case judge used by generated case files.
     CSite : one access site of Gen/LockFacts.v (the harness reads the same generated file and sends
             index + file + line + function, so the replay names the site): guarded => VOk, unguarded
             => VViolation (the list of tolerated sites Model.LockDiscipline.c12_known_sites is EMPTY
             since findings C12-1..3 are repaired; the VKnown branch is dead while it stays empty).
     CList : a concurrent history (16 goroutines, barrier rounds, logical clock) of registry mutations
             and listing calls against the real proxy, with the linearization order found by the
             harness; validated with Base/Lin against the atomic-snapshot specification below. *)
From Coq Require Import List NArith ZArith Bool String.
From Verif Require Import Base.Verdict Base.Lin Model.LockDiscipline Model.Listing Gen.LockFacts.
Import ListNotations.
Open Scope N_scope.
Open Scope list_scope.

(* ---------- sequential specification of the listing API ---------- *)

Inductive lop :=
| PReg (h : N) | PUnreg (h : N)           (* registerConnection / unregisterConnection of player h *)
| SAdd (h : N) | SRem (h : N)             (* server's players.add / players.remove *)
| VReg (v : N) | VUnreg (v : N)           (* Proxy.Register / Proxy.Unregister of server v *)
| QPlayers | QCount                       (* Proxy.Players (sorted handles), Proxy.PlayerCount *)
| QRange | QLen                           (* server.Players().Range (sorted), .Len *)
| QServers.                               (* Proxy.Servers (sorted) *)

Inductive lres := RU | RL (l : list N) | RN (n : N).

Record spec := mkSp { sp_players : list N; sp_srv : list N; sp_servers : list N }.
Definition spec0 : spec := mkSp [] [] [].

Fixpoint ins (x : N) (l : list N) : list N :=     (* sorted set insert *)
  match l with
  | [] => [x]
  | y :: r => if x <? y then x :: l else if x =? y then l else y :: ins x r
  end.
Definition rem (x : N) (l : list N) : list N := filter (fun y => negb (x =? y)) l.

Definition lstep (s : spec) (o : lop) : spec * lres :=
  match o with
  | PReg h => (mkSp (ins h (sp_players s)) (sp_srv s) (sp_servers s), RU)
  | PUnreg h => (mkSp (rem h (sp_players s)) (sp_srv s) (sp_servers s), RU)
  | SAdd h => (mkSp (sp_players s) (ins h (sp_srv s)) (sp_servers s), RU)
  | SRem h => (mkSp (sp_players s) (rem h (sp_srv s)) (sp_servers s), RU)
  | VReg v => (mkSp (sp_players s) (sp_srv s) (ins v (sp_servers s)), RU)
  | VUnreg v => (mkSp (sp_players s) (sp_srv s) (rem v (sp_servers s)), RU)
  | QPlayers => (s, RL (sp_players s))
  | QCount => (s, RN (N.of_nat (List.length (sp_players s))))
  | QRange => (s, RL (sp_srv s))
  | QLen => (s, RN (N.of_nat (List.length (sp_srv s))))
  | QServers => (s, RL (sp_servers s))
  end.

Definition lres_eqb (a b : lres) : bool :=
  match a, b with
  | RU, RU => true
  | RL x, RL y => list_eqbN x y
  | RN x, RN y => x =? y
  | _, _ => false
  end.

(* ---------- racy listings of OPEN findings (none at present: c12_known_sites = []) ---------- *)

(* which map an op touches: 0 players, 1 server's player list, 2 servers *)
Definition op_map (o : lop) : N :=
  match o with
  | PReg _ | PUnreg _ | QPlayers | QCount => 0
  | SAdd _ | SRem _ | QRange | QLen => 1
  | VReg _ | VUnreg _ | QServers => 2
  end.
Definition is_mutation (o : lop) : bool :=
  match o with PReg _ | PUnreg _ | SAdd _ | SRem _ | VReg _ | VUnreg _ => true | _ => false end.
(* the Go function behind a listing op *)
Definition op_func (o : lop) : option string :=
  match o with
  | QPlayers => Some "Proxy.Players"%string
  | QRange => Some "players.Range"%string
  | QServers => Some "Proxy.Servers"%string
  | QCount => Some "Proxy.PlayerCount"%string
  | QLen => Some "players.Len"%string
  | _ => None
  end.

(* finding number if, in TODAY's generated facts, the function has an unguarded recorded site *)
Definition racy_finding (o : lop) : option N :=
  match op_func o with
  | None => None
  | Some f =>
      match filter (fun a => String.eqb (a_func a) f && negb (guarded a)) accesses with
      | [] => None
      | a :: _ => known_site a
      end
  end.

Definition overlaps (a b : call lop lres) : bool :=
  negb (c_res a <? c_inv b)%Z && negb (c_res b <? c_inv a)%Z.

(* a listing call of a recorded unguarded function that overlaps a mutation of the same map:
   a data race in today's code, its result is not constrained *)
Definition racy_call (h : list (call lop lres)) (c : call lop lres) : option N :=
  match racy_finding (c_op c) with
  | Some k =>
      if existsb (fun d => is_mutation (c_op d) && (op_map (c_op d) =? op_map (c_op c)) && overlaps c d) h
      then Some k else None
  | None => None
  end.

Definition reduce (h : list (call lop lres)) : list (call lop lres) :=
  filter (fun c => match racy_call h c with Some _ => false | None => true end) h.
Definition first_racy (h : list (call lop lres)) : option N :=
  match flat_map (fun c => match racy_call h c with Some k => [k] | None => [] end) h with
  | k :: _ => Some k
  | [] => None
  end.

(* ---------- cases ---------- *)

Inductive case :=
| CSite (idx : nat) (file : string) (line : N) (func : string)
| CList (h : list (call lop lres)) (order : list nat).

Definition judge (c : case) : verdict :=
  match c with
  | CSite idx file line func =>
      match nth_error accesses idx with
      | None => VMismatch
      | Some a =>
          if negb (String.eqb (a_file a) file && (a_line a =? line) && String.eqb (a_func a) func)
          then VMismatch
          else if guarded a then VOk
          else match known_site a with Some k => VKnown k | None => VViolation end
      end
  | CList h order =>
      if valid_linearization lstep lres_eqb spec0 h order then VOk
      else match first_racy h with
           | Some k => if valid_linearization lstep lres_eqb spec0 (reduce h) order then VKnown k else VViolation
           | None => VViolation
           end
  end.
