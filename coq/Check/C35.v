(* C35 — per-case judge used by generated case files.

   SeqCase init init_ver steps
     one gate.New instance driven sequentially; after every call the harness takes
     ConfigSnapshot() and reads the proxy's routes, so every step carries
       s_op    the call (candidates abstracted to (rest, lite, routes) digests + Validate()),
       s_res   the LiveConfigResult (code, version),
       s_cfg / s_ver   content digest triple and version of the snapshot taken right after,
       s_proxy routes digest read from Java().Config() right after.
   ConcCase init vt h order
     goroutines (8 appliers with fresh / stale versions, snapshot and proxy readers) started
     behind a barrier on one instance; h = completed calls with logical-clock timestamps,
     bracketed by a sequential snapshot before and after; vt = (content, version) pairs seen
     (snapshots; applied results paired with the candidate's content); order = linearization
     proposed by the harness (by response time) - validated here, searched here if it fails. *)
From Coq Require Import List NArith ZArith Bool.
From Verif Require Import Base.Hex Base.Verdict Base.Lin Model.LiveConfig.
Import ListNotations.

(* transport encoding of an 8-byte token: the bytes as a little-endian number *)
Fixpoint unpack_le (k : nat) (z : N) : bytes :=
  match k with O => [] | S k' => (z mod 256)%N :: unpack_le k' (z / 256)%N end.
Definition d8 (n : N) : bytes := unpack_le 8 n.

Record sstep := mkS { s_op : op; s_res : result; s_cfg : cfg; s_ver : bytes; s_proxy : bytes }.

Inductive case :=
| SeqCase (init : cfg) (init_ver : bytes) (steps : list sstep)
| ConcCase (init : cfg) (vt : list (cfg * bytes)) (h : list (call op result)) (order : list nat).

(* ---------- the property on what was observed (no model involved) ---------- *)
Definition holds_step (bcfg : cfg) (bver : bytes) (st : sstep) : bool :=
  let r := s_res st in
  (* only valid candidates that differ from the current configuration solely in Lite routes are
     applied, and what is published is that candidate; anything else leaves configuration and
     version unchanged *)
  (if is_applied r
   then match cand_of (s_op st) with
        | Some cd => c_valid cd && only_routes_changed bcfg (c_cfg cd) && cfg_eqb (s_cfg st) (c_cfg cd)
        | None => false
        end
   else cfg_eqb (s_cfg st) bcfg && beq_bytes (s_ver st) bver)
  (* routing follows the published configuration *)
  && beq_bytes (s_proxy st) (routes (s_cfg st))
  (* the version changes exactly when the content changes *)
  && Bool.eqb (cfg_eqb (s_cfg st) bcfg) (beq_bytes (s_ver st) bver)
  (* a reported version is the version of the configuration now in force *)
  && (match r_version r with [] => true | v => beq_bytes v (s_ver st) end)
  (* compare-and-swap: a conditional apply fails with precondition_failed iff its expected
     version is not the current one; unconditional calls never do *)
  && (match s_op st with
      | ApplyIf _ e => Bool.eqb (beq_bytes e bver) (negb (code_eqb (r_code r) CPrecondition))
      | _ => negb (code_eqb (r_code r) CPrecondition)
      end).

Fixpoint holds_steps (bcfg : cfg) (bver : bytes) (l : list sstep) : bool :=
  match l with
  | [] => true
  | st :: r => holds_step bcfg bver st && holds_steps (s_cfg st) (s_ver st) r
  end.

(* ---------- the model on the same calls ---------- *)
Fixpoint model_agrees (hash : cfg -> bytes) (cur : cfg) (l : list sstep) : bool :=
  match l with
  | [] => true
  | st :: r =>
      let sr := step hash cur (s_op st) in
      result_eqb (snd sr) (s_res st) && cfg_eqb (fst sr) (s_cfg st)
      && beq_bytes (hash (fst sr)) (s_ver st) && beq_bytes (routes (fst sr)) (s_proxy st)
      && model_agrees hash (fst sr) r
  end.

Definition judge (c : case) : verdict :=
  match c with
  | SeqCase init init_ver steps =>
      let vt := (init, init_ver) :: map (fun st => (s_cfg st, s_ver st)) steps in
      if holds_steps init init_ver steps && table_consistent vt
      then (if model_agrees (table_hash vt) init steps then VOk else VMismatch)
      else VViolation
  | ConcCase init vt h order =>
      let stp := step (table_hash vt) in
      if table_consistent vt &&
         (valid_linearization stp result_eqb init h order
          || check_history stp result_eqb (length h) init h)
      then VOk else VViolation
  end.
