(* C23 — per-case judge used by generated case files.
   observed = the children of AvailableCommands.RootNode in the packet the player received after
   the real backendPlaySessionHandler.HandlePacket: backend children (name, subtree fingerprint
   taken after the call) and proxy copies (decoded from node names back to source ids). *)
From Coq Require Import List NArith Bool.
From Verif Require Import Base.Verdict Model.CmdTree.
Import ListNotations.
Open Scope N_scope.

Record case := mk { gr : graph; backend : list bnode; observed : list mnode }.

Fixpoint otree_eqb (a b : otree) {struct a} : bool :=
  match a, b with
  | ONode i1 k1 e1 r1 c1, ONode i2 k2 e2 r2 c2 =>
    (i1 =? i2) && kind_eqb k1 k2 && Bool.eqb e1 e2
    && match r1, r2 with
       | Some x, Some y => otree_eqb x y
       | None, None => true
       | _, _ => false
       end
    && (fix eqs (l1 l2 : list otree) {struct l1} : bool :=
          match l1, l2 with
          | [], [] => true
          | x :: l1', y :: l2' => otree_eqb x y && eqs l1' l2'
          | _, _ => false
          end) c1 c2
  end.

Definition mnode_eqb (a b : mnode) : bool :=
  match a, b with
  | MBackend x, MBackend y => bnode_eqb x y
  | MProxy x, MProxy y => otree_eqb x y
  | _, _ => false
  end.

(* the generator only produces graphs whose edges increase the id, so |graph|+1 frames suffice
   (C23_terminates_when_acyclic); a model that runs out of fuel here is a broken correspondence *)
Definition judge (c : case) : verdict :=
  let holds := holds_C23 (gr c) (backend c) (observed c) in
  match announce (S (length (gr c))) (gr c) (backend c) with
  | Some ms =>
    if list_eqb mnode_eqb (observed c) ms then (if holds then VOk else VViolation)
    else if holds then VMismatch else VViolation
  | None => if holds then VMismatch else VViolation
  end.
