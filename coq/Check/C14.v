(* C14 - per-case judge.

   Seq    : one sequential history driven through the public API of one connection
            (WritePacket / SetState / SetOutboundState over a net.Pipe), observed per call.
   Stress : several writer goroutines plus a goroutine flipping CONFIG/PLAY, observed at quiescence
            (after a final SetState(Play)).

   holds_seq / holds_stress evaluate the property on what the real code was OBSERVED to do, with the
   same projections (acc, wire, po, cv, wire_wellformed) the theorems in Properties/C14.v are about.
   The model (Model.PlayQueue: impl_write = today's one-critical-section write) is compared exactly on
   sequential histories, where it is deterministic.  Finding C14-1 (two-step write) is fixed: a lost or
   reordered packet, a crash or a hang in a stress scenario is a violation again. *)
From Coq Require Import List NArith Bool Arith.
From Verif Require Import Base.Hex Base.VarInt Base.Verdict Model.PlayQueue.
Import ListNotations.

(* CrQueue: the process died with the packet queue on the panicking stack; CrHangQueue: it hung with a
   goroutine spinning inside the packet queue; CrOther / CrHang: died / hung anywhere else *)
Inductive crash := CrNone | CrQueue | CrHangQueue | CrOther | CrHang.

Inductive case :=
| Seq (ids : idtab) (ops : list op)
      (o_res : list wres)        (* per call: result class (ROk for state changes) *)
      (o_len : list N)           (* per call: bytes received by the peer so far *)
      (o_closed : list bool)     (* per call: netmc.Closed(conn) afterwards *)
      (o_wire : bytes)           (* everything the peer received *)
      (o_eof : bool)             (* the peer saw EOF at the end *)
| Stress (ids : idtab) (pss : list (list pkt))   (* program of each writer goroutine *)
      (o_ress : list (list wres))                (* per writer, per packet *)
      (o_wire : bytes) (o_closed : bool)
      (o_crash : crash)                          (* the child process died / hung *)
      (o_race_q o_race_other : N).               (* race reports touching the packet queue / others *)

(* ---------- decoding the observed wire ---------- *)

Definition be_to_N (bs : bytes) : N := fold_left (fun a b => a * 256 + b)%N bs 0%N.

(* one frame: (packet id, payload, rest, bytes consumed) *)
Definition parse_one (bs : bytes) : option (N * bytes * bytes * N) :=
  match dec bs with
  | Ok (len, n1, r1) =>
      let body := firstn (N.to_nat len) r1 in
      if negb (N.of_nat (length body) =? len)%N then None
      else match dec body with
           | Ok (id, _, pl) => Some (id, pl, skipn (N.to_nat len) r1, (n1 + len)%N)
           | Err _ => None
           end
  | Err _ => None
  end.

Definition try_pkt (ids : idtab) (id : N) (pl : bytes) (ph : phase) (ty : ptype) (tag : N)
  : option (phase * pkt) :=
  match wire_id ids ph ty with
  | Some i => if (i =? id)%N && beq_bytes (payload (mkPkt ty tag)) pl then Some (ph, mkPkt ty tag) else None
  | None => None
  end.

Definition or_else {A : Type} (a b : option A) : option A := match a with Some _ => a | None => b end.

(* the four payload shapes have four different lengths *)
Definition classify (ids : idtab) (id : N) (pl : bytes) : option (phase * pkt) :=
  match length pl with
  | 12%nat => try_pkt ids id pl Play TTimes (be_to_N (firstn 4 pl))
  | 17%nat => try_pkt ids id pl Play TBoss (be_to_N (firstn 8 (skipn 8 pl)))
  | 8%nat => or_else (try_pkt ids id pl Config TKeepAlive (be_to_N pl))
                     (try_pkt ids id pl Play TKeepAlive (be_to_N pl))
  | 9%nat => or_else (try_pkt ids id pl Config TPlugin (be_to_N (skipn 5 pl)))
                     (try_pkt ids id pl Play TPlugin (be_to_N (skipn 5 pl)))
  | _ => None
  end.

(* frames with the offset at which each ends *)
Fixpoint parse_frames (fuel : nat) (ids : idtab) (off : N) (bs : bytes) : option (list (N * (phase * pkt))) :=
  match bs with
  | [] => Some []
  | _ :: _ =>
      match fuel with
      | O => None
      | S f =>
          match parse_one bs with
          | Some (id, pl, rest, n) =>
              match classify ids id pl, parse_frames f ids (off + n)%N rest with
              | Some x, Some r => Some ((off + n, x)%N :: r)
              | _, _ => None
              end
          | None => None
          end
      end
  end.

Definition parse_wire (ids : idtab) (w : bytes) := parse_frames (length w) ids 0%N w.

(* ---------- small list tools ---------- *)

Fixpoint nodupb (l : list pkt) : bool :=
  match l with [] => true | x :: r => negb (inb x r) && nodupb r end.

Fixpoint is_prefix (a b : list pkt) : bool :=
  match a, b with
  | [], _ => true
  | x :: a', y :: b' => pkt_eqb x y && is_prefix a' b'
  | _ :: _, [] => false
  end.

(* a is a subsequence of b *)
Fixpoint is_subseq (a b : list pkt) : bool :=
  match b with
  | [] => match a with [] => true | _ => false end
  | y :: b' =>
      match a with
      | [] => true
      | x :: a' => if pkt_eqb x y then is_subseq a' b' else is_subseq a b'
      end
  end.

Definition wres_class (r : wres) : N :=
  match r with ROk => 0 | RErrClosed => 1 | RErrQueueFull => 2 | RErrEncode | RErrIO => 3 end%N.
Definition wres_eqb (a b : wres) : bool := (wres_class a =? wres_class b)%N.
Definition is_ok_res (r : wres) : bool := (wres_class r =? 0)%N.

Fixpoint list_eqb {A B : Type} (eq : A -> B -> bool) (a : list A) (b : list B) : bool :=
  match a, b with
  | [], [] => true
  | x :: a', y :: b' => eq x y && list_eqb eq a' b'
  | _, _ => false
  end.

(* ---------- Seq: the observed trace ---------- *)

(* frames that end at or before [lim]; the rest; offset reached *)
Fixpoint take_frames (lim : N) (cur : N) (fs : list (N * (phase * pkt)))
  : list (phase * pkt) * list (N * (phase * pkt)) * N :=
  match fs with
  | (e, x) :: r =>
      if (e <=? lim)%N then let '(t, rest, c) := take_frames lim e r in (x :: t, rest, c)
      else ([], fs, cur)
  | [] => ([], [], cur)
  end.

Record obs_op := mkObs {
  oo_op : op; oo_res : wres; oo_frames : list (phase * pkt); oo_closed_before : bool; oo_closed : bool
}.

(* None: a length that is not a frame boundary, lists of different lengths, frames left over *)
Fixpoint observe (ops : list op) (ress : list wres) (lens : list N) (closeds : list bool)
         (fs : list (N * (phase * pkt))) (cur : N) (was_closed : bool) : option (list obs_op) :=
  match ops, ress, lens, closeds with
  | [], [], [], [] => match fs with [] => Some [] | _ => None end
  | o :: ops', r :: ress', n :: lens', c :: closeds' =>
      let '(taken, rest, reached) := take_frames n cur fs in
      if negb (reached =? n)%N then None
      else match observe ops' ress' lens' closeds' rest reached c with
           | Some l => Some (mkObs o r taken was_closed c :: l)
           | None => None
           end
  | _, _, _, _ => None
  end.

Definition obs_events (x : obs_op) : list event :=
  match oo_op x with
  | OWrite p =>
      (if is_ok_res (oo_res x) then [EAcc p] else [])
      ++ map (fun f => EWire (fst f) (snd f)) (oo_frames x)
      ++ (if oo_closed x && negb (oo_closed_before x) then [EClose] else [])
      ++ [ERes O p (oo_res x)]
  | OSet _ => map (fun f => EWire (fst f) (snd f)) (oo_frames x)
  end.

Definition frames_eqb (a b : list (phase * pkt)) : bool :=
  list_eqb (fun x y => phase_eqb (fst x) (fst y) && pkt_eqb (snd x) (snd y)) a b.

(* per call; [ph] is the writer's state by the history, [held] the number of accepted play-only
   packets not yet on the wire, both BEFORE the call *)
Definition call_ok (ph : phase) (held : nat) (x : obs_op) : bool :=
  implb (oo_closed_before x) (oo_closed x)                      (* closing is final *)
  && match oo_op x with
     | OWrite p =>
         match wres_class (oo_res x) with
         | 0%N =>   (* accepted *)
             negb (oo_closed_before x) && negb (oo_closed x)
             && (if is_cv p then frames_eqb (oo_frames x) [(ph, p)]         (* config-valid: at once *)
                 else match ph with
                      | Play => frames_eqb (oo_frames x) [(Play, p)]        (* nothing is held in PLAY *)
                      | Config => frames_eqb (oo_frames x) [] && Nat.ltb held cap  (* held back, bounded *)
                      end)
         | 1%N => oo_closed_before x && frames_eqb (oo_frames x) []        (* ErrClosedConn only when closed *)
         | 2%N =>   (* ErrQueueFull: only a play-only packet in CONFIG on a full queue, and it closes *)
             negb (oo_closed_before x) && oo_closed x && frames_eqb (oo_frames x) []
             && is_po p && phase_eqb ph Config && Nat.leb cap held
         | _ => false   (* no other error can occur in a sequential history *)
         end
     | OSet Config => frames_eqb (oo_frames x) []
     | OSet Play =>
         forallb (fun f => phase_eqb (fst f) Play && is_po (snd f)) (oo_frames x)
         && Bool.eqb (oo_closed_before x) (oo_closed x)
     end.

Definition next_phase (ph : phase) (o : op) : phase := match o with OSet q => q | OWrite _ => ph end.

Fixpoint calls_ok (ph : phase) (seen : list event) (xs : list obs_op) : bool :=
  match xs with
  | [] => true
  | x :: r =>
      let held := (length (po (acc seen)) - length (po (wire seen)))%nat in
      call_ok ph held x && calls_ok (next_phase ph (oo_op x)) (seen ++ obs_events x) r
  end.

Definition final_phase (ops : list op) : phase := fold_left next_phase ops Play.

Definition written (ops : list op) : list pkt :=
  flat_map (fun o => match o with OWrite p => [p] | OSet _ => [] end) ops.

(* the property on the observations of a sequential history *)
Definition holds_seq (ops : list op) (xs : list obs_op) (closed_end eof : bool) : bool :=
  let evs := flat_map obs_events xs in
  wire_wellformed evs
  && nodupb (wire evs)
  && is_prefix (po (wire evs)) (po (acc evs))                      (* FIFO, nothing invented, no duplicate *)
  && pkts_eqb (cv (acc evs)) (cv (wire evs))                       (* config-valid: at once, in order *)
  && (closed_end || negb (phase_eqb (final_phase ops) Play)
      || pkts_eqb (po (acc evs)) (po (wire evs)))                  (* back in PLAY: nothing lost *)
  && calls_ok Play [] xs
  && Bool.eqb closed_end eof.                                      (* overflow closes the connection for the peer too *)

(* ---------- Seq: exact comparison with the model ---------- *)

Fixpoint model_obs (ids : idtab) (rs : list (list event * bool)) (off : N)
  : list wres * list N * list bool * bytes :=
  match rs with
  | [] => ([], [], [], [])
  | (evs, c) :: r =>
      let w := frames_of ids evs in
      let off' := (off + N.of_nat (length w))%N in
      let '(a, b, d, e) := model_obs ids r off' in
      (result_of evs :: a, off' :: b, c :: d, w ++ e)
  end.

Definition model_agrees (ids : idtab) (ops : list op) (o_res : list wres) (o_len : list N)
           (o_closed : list bool) (o_wire : bytes) (o_eof : bool) : bool :=
  let '(a, b, d, e) := model_obs ids (seq_run impl_write ops init) 0%N in
  list_eqb wres_eqb a o_res && list_eqb N.eqb b o_len && list_eqb Bool.eqb d o_closed
  && beq_bytes e o_wire && Bool.eqb (last d false) o_eof.

(* ---------- Stress ---------- *)

Fixpoint index_of (p : pkt) (l : list pkt) : nat :=
  match l with [] => O | x :: r => if pkt_eqb p x then O else S (index_of p r) end.

(* a before b on the wire although b was written first by the same goroutine: only a config-valid
   packet may overtake a held-back play-only one *)
Fixpoint order_ok (prog : list pkt) (w : list pkt) : bool :=
  match w with
  | [] => true
  | a :: r =>
      forallb (fun b => Nat.ltb (index_of a prog) (index_of b prog) || (is_cv a && is_po b)) r
      && order_ok prog r
  end.

Definition all_ok (ress : list (list wres)) : bool := forallb (forallb is_ok_res) ress.

Definition same_shape (pss : list (list pkt)) (ress : list (list wres)) : bool :=
  list_eqb (fun ps rs => Nat.eqb (length ps) (length rs)) pss ress.

(* the property, as far as it is sound under real scheduling: every packet exactly once, each
   writer's packets in its own order (a config-valid one may pass its own held-back play-only ones) *)
Definition holds_stress (ids : idtab) (pss : list (list pkt)) (ress : list (list wres))
           (w : bytes) (closed : bool) (cr : crash) (rq ro : N) : bool :=
  match cr, parse_wire ids w with
  | CrNone, Some fs =>
      let evs := map (fun f => EWire (fst (snd f)) (snd (snd f))) fs in
      let wp := wire evs in
      (rq =? 0)%N && (ro =? 0)%N && negb closed && same_shape pss ress && all_ok ress
      && wire_wellformed evs
      && nodupb wp && Nat.eqb (length wp) (length (concat pss)) && forallb (fun p => inb p (concat pss)) wp
      && forallb (fun ps => pkts_eqb (owned ps (po wp)) (po ps) && pkts_eqb (owned ps (cv wp)) (cv ps)
                            && order_ok ps (owned ps wp)) pss
  | _, _ => false
  end.

Definition judge (c : case) : verdict :=
  match c with
  | Seq ids ops o_res o_len o_closed o_wire o_eof =>
      if negb (nodupb (written ops)) then VMismatch   (* generator error: tags must be unique *)
      else
      let agrees := model_agrees ids ops o_res o_len o_closed o_wire o_eof in
      match parse_wire ids o_wire with
      | Some fs =>
          match observe ops o_res o_len o_closed fs 0%N false with
          | Some xs =>
              if holds_seq ops xs (last o_closed false) o_eof
              then (if agrees then VOk else VMismatch)
              else VViolation
          | None => VViolation      (* a call returned with half a frame on the wire, or stray frames *)
          end
      | None => VViolation          (* the peer cannot decode what was sent *)
      end
  | Stress ids pss o_ress o_wire o_closed o_crash rq ro =>
      if negb (nodupb (concat pss)) then VMismatch
      else if holds_stress ids pss o_ress o_wire o_closed o_crash rq ro then VOk
      else VViolation
  end.
