(* C30 — per-case judge.
     CSeq     : a sequential history of TrackConnection / release / RecordLatency / ActiveConnections /
                connection attempts (the real nextBackend iterator drained for a scripted number of
                failed dials) on ONE real StrategyManager, with everything it returned;
     CCanon   : canonicalBackendAddress(b) (ties [canon], the notion of "the same backend");
     CCount   : a concurrent history of Track / Release / ActiveConnections calls from real
                goroutines, validated by Base.Lin against the sequential counter;
     CRR      : a concurrent history of round-robin selections, validated by Base.Lin against the
                atomic rotation;
     CBalance : how often each position was chosen by [calls] concurrent round-robin selections. *)
From Coq Require Import List NArith ZArith Bool.
From Verif Require Import Base.Hex Base.Verdict Base.Lin Model.Strategy.
Import ListNotations.
Open Scope N_scope.

Inductive case :=
| CSeq (ops : list op) (observed : list obs)
| CCanon (b : bytes) (observed : bytes)
| CCount (h : list (call cop N))
| CRR (n : N) (h : list (call unit N))
| CBalance (n calls goroutines : N) (counts : list N).

Fixpoint beq_lb (a b : list bytes) : bool :=
  match a, b with
  | [], [] => true
  | x :: a', y :: b' => beq_bytes x y && beq_lb a' b'
  | _, _ => false
  end.

Definition beq_obs (a b : obs) : bool :=
  match a, b with
  | BNone, BNone => true
  | BActive x, BActive y => x =? y
  | BAttempt ys e, BAttempt zs f => beq_lb ys zs && Bool.eqb e f
  | _, _ => false
  end.

Fixpoint beq_obsl (a b : list obs) : bool :=
  match a, b with
  | [], [] => true
  | x :: a', y :: b' => beq_obs x y && beq_obsl a' b'
  | _, _ => false
  end.

Definition attempt_lists (ops : list op) : list (list bytes) :=
  flat_map (fun o => match o with OAttempt _ _ bs _ => [bs] | _ => [] end) ops.

Definition overlap {O R} (a b : call O R) : bool :=
  negb (c_res a <? c_inv b)%Z && negb (c_res b <? c_inv a)%Z.

Fixpoint has_overlap {O R} (h : list (call O R)) : bool :=
  match h with
  | [] => false
  | a :: r => existsb (overlap a) r || has_overlap r
  end.

(* All four recorded findings are FIXED (426c657, 3b8fde0, 968926e): nothing is excused.  The
   property predicate for a sequential history is "observed = what the spec iterator / counters
   yield"; when it holds, the model of today's code (impl_remove) must reproduce the observation as
   well, otherwise VMismatch (impl_remove = spec_remove is proved).  A concurrent round-robin
   history that is not linearizable, or an unbalanced distribution, is a violation. *)
Definition judge (c : case) : verdict :=
  match c with
  | CSeq ops observed =>
      if beq_obsl observed (run_ops spec_remove ops [] init_state)
      then (if beq_obsl observed (run_ops impl_remove ops [] init_state) then VOk else VMismatch)
      else VViolation
  | CCanon b observed => if beq_bytes observed (canon b) then VOk else VMismatch
  | CCount h =>
      if check_history cstep N.eqb (length h) 0 h then VOk else VViolation
  | CRR n h =>
      if check_history (rstep n) N.eqb (length h) 0 h then VOk else VViolation
  | CBalance n calls g counts =>
      if (fix eqs (a b : list N) := match a, b with
                                    | [], [] => true
                                    | x :: a', y :: b' => (x =? y) && eqs a' b'
                                    | _, _ => false end)
           counts (rr_counts n calls)
      then VOk else VViolation
  end.
