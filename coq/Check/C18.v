(* C18 — per-case judge used by generated case files.
   A case: the initial connection status of every serverConnection, which of them the player has
   as connected / in-flight server, and a history of calls run through the real code; per call
   the KeepAlive packets written to backends during the call on the calling goroutine, as
   (backend, id, state the backend connection reported at the write), plus logical-clock stamps.
   Sequential cases are replayed exactly against Model.KeepAlive.step_op; concurrent cases must
   be linearizable w.r.t. it (Base.Lin). *)
From Coq Require Import List ZArith Bool Arith.
From Verif Require Import Base.Verdict Base.Lin Model.KeepAlive.
Import ListNotations.

Definition wr := (nat * Z * pstate)%type.
Definition hcall := Lin.call op (list wr).

Record case := mk {
  stats : list cstat; cur0 : option nat; inf0 : option nat;
  concurrent : bool; hist : list hcall
}.

Definition pstate_eqb (a b : pstate) : bool :=
  match a, b with
  | PHandshake, PHandshake | PStatus, PStatus | PLogin, PLogin | PConfig, PConfig | PPlay, PPlay => true
  | _, _ => false
  end.

Definition eq_wr (a b : wr) : bool :=
  let '(c, i, s) := a in let '(c', i', s') := b in (c =? c')%nat && (i =? i')%Z && pstate_eqb s s'.

Fixpoint eq_wrs (a b : list wr) : bool :=
  match a, b with
  | [], [] => true
  | x :: a', y :: b' => eq_wr x y && eq_wrs a' b'
  | _, _ => false
  end.

Definition writes_of (ev : list event) : list wr :=
  flat_map (fun e => match e with EWrite c i s => [(c, i, s)] | ERec _ _ _ => [] end) ev.

Definition spec_step (s : state) (o : op) : state * list wr :=
  let '(s', ev) := step_op s o in (s', writes_of ev).

(* ---------- the property's predicate on the observation alone ---------- *)

Definition count_pair (c : nat) (i : Z) (l : list (nat * Z)) : nat :=
  length (filter (fun p => (c =? fst p)%nat && (i =? snd p)%Z) l).

Definition state_ok (s : pstate) : bool := match s with PConfig | PPlay => true | _ => false end.

(* one call: a reply writes at most one packet, carrying its own id, to a backend in CONFIG or
   PLAY that has sent that id more often than it has been answered; nothing else writes *)
Definition call_ok (recs wrote : list (nat * Z)) (x : hcall) : bool :=
  match c_op x, c_ret x with
  | ClientReply id, [] => true
  | ClientReply id, [(c, i, s)] =>
      (i =? id)%Z && state_ok s && (count_pair c i wrote <? count_pair c i recs)
  | _, [] => true
  | _, _ => false
  end.

Definition recs_of (x : hcall) : list (nat * Z) :=
  match c_op x with BackendKA c id => [(c, id)] | _ => [] end.
Definition wrote_of (x : hcall) : list (nat * Z) := map (fun w => (fst (fst w), snd (fst w))) (c_ret x).

(* sequential: walk the history in order *)
Fixpoint walk (recs wrote : list (nat * Z)) (h : list hcall) : bool :=
  match h with
  | [] => true
  | x :: r => call_ok recs wrote x && walk (recs_of x ++ recs) (wrote_of x ++ wrote) r
  end.

(* concurrent: per call the local conditions; globally no id answered more often than sent *)
Definition totals_ok (h : list hcall) : bool :=
  let recs := flat_map recs_of h in
  let wrote := flat_map wrote_of h in
  forallb (fun x => call_ok recs [] x) h
  && forallb (fun p => count_pair (fst p) (snd p) wrote <=? count_pair (fst p) (snd p) recs) wrote.

Definition holds_P (c : case) : bool :=
  if concurrent c then totals_ok (hist c) else walk [] [] (hist c).

Definition lin_fuel : nat := 40.

Definition judge (c : case) : verdict :=
  let s0 := init (stats c) (cur0 c) (inf0 c) 1 in
  if negb (holds_P c) then VViolation
  else if concurrent c then
    (if check_history spec_step eq_wrs lin_fuel s0 (hist c) then VOk else VViolation)
  else
    (if replay_okb spec_step eq_wrs s0 (hist c) (seq 0 (length (hist c))) then VOk else VMismatch).
