(* C41 — per-case judge used by generated case files.
   unknown  = the bytes of s.ProtoReflect().GetUnknown() as observed on the real connect.Session;
   observed = what the real connectutil.ExtractSessionPrincipalWire(s) returned. *)
From Coq Require Import List NArith ZArith Bool.
From Verif Require Import Base.Hex Base.Verdict Base.ProtoWire Model.Principal.
Import ListNotations.

Record case := mk { unknown : bytes; observed : result }.

Definition is_err (r : result) : bool := match r with RErr => true | _ => false end.
Definition is_ok_none (r : result) : bool := match r with ROk None => true | _ => false end.

(* the property's predicate on the implementation's own output:
   equals what the reference parser reads, rejects exactly the listed classes, never downgrades *)
Definition holds_P (u : bytes) (obs : result) : bool :=
  beq_result obs (ref_extract u)
  && Bool.eqb (is_err obs) (must_reject u)
  && (negb (has_field_6_12 u) || negb (is_ok_none obs)).

Definition judge (c : case) : verdict :=
  if holds_P (unknown c) (observed c)
  then (if beq_result (observed c) (extract (unknown c)) then VOk else VMismatch)
  else VViolation.
