(* C22 — per-case judge used by generated case files.
   observed = what the real clientPlaySessionHandler.HandlePacket did with one command packet:
   executors invoked, packets written to the backend, whether the player was disconnected,
   number of chat messages sent to the player. *)
From Coq Require Import List NArith Bool.
From Verif Require Import Base.Hex Base.Verdict Model.CmdDispatch.
Import ListNotations.
Open Scope N_scope.

Record case := mk { inp : input; obs_ran : list N; obs_backend : list bpkt; obs_disc : bool; obs_msgs : N }.

Definition bpkt_eqb (a b : bpkt) : bool :=
  match a, b with
  | BLegacy x, BLegacy y => beq_bytes x y
  | BKeyed o1 u1 c1, BKeyed o2 u2 c2 => Bool.eqb o1 o2 && Bool.eqb u1 u2 && beq_bytes c1 c2
  | BSession o1 c1 f1 n1, BSession o2 c2 f2 n2 => Bool.eqb o1 o2 && beq_bytes c1 c2 && (f1 =? f2) && (n1 =? n2)
  | BUnsigned x, BUnsigned y => beq_bytes x y
  | BAck x, BAck y => x =? y
  | BOther, BOther => true
  | _, _ => false
  end.

Fixpoint list_eqb {A} (eqb : A -> A -> bool) (a b : list A) : bool :=
  match a, b with
  | [], [] => true
  | x :: a', y :: b' => eqb x y && list_eqb eqb a' b'
  | _, _ => false
  end.

(* the executor list the harness recorded, as the model's option (more than one invocation
   cannot be a model output, so it never equals one) *)
Definition ran_matches (obs : list N) (m : option N) : bool :=
  match obs, m with
  | [], None => true
  | [x], Some y => x =? y
  | _, _ => false
  end.

Definition result_matches (c : case) (r : result) : bool :=
  ran_matches (obs_ran c) (r_ran r)
  && list_eqb bpkt_eqb (obs_backend c) (r_backend r)
  && Bool.eqb (obs_disc c) (r_disc r)
  && (obs_msgs c =? r_msgs r).

(* the observation as a model result, for the property predicate *)
Definition observed (c : case) : result :=
  mkResult (match obs_ran c with [x] => Some x | _ => None end) (obs_backend c) (obs_disc c) (obs_msgs c).

Definition holds_obs (c : case) : bool :=
  match obs_ran c with _ :: _ :: _ => false | _ => holds_C22 (inp c) (observed c) end.

Definition judge (c : case) : verdict :=
  if result_matches c (spec_decide (inp c)) then (if holds_obs c then VOk else VViolation)
  else if holds_obs c then VMismatch else VViolation.
