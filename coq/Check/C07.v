(* C07 - per-case judge: bytes produced by the REAL Encode of a packet the proxy builds, parsed by the
   reference decoder (Model/Vanilla.v); the parse must consume everything and equal the intended values
   (the field dump of the value handed to Encode, read through the reference layout). *)
From Coq Require Import List NArith ZArith String Bool.
From Verif Require Import Base.Hex Base.Verdict Model.Layout Model.LayoutPrims Model.Vanilla Gen.PacketLayouts Check.C04.
Import ListNotations.
Open Scope string_scope.

(* compact literal for long uniform payloads: n copies of the byte b *)
Definition rep (b : N) (n : N) : bytes := repeat b (N.to_nat n).

Inductive kind :=
| KRef                                   (* a type of Vanilla.references *)
| KUpsert (acts : list N)                (* playerinfo.Upsert with this ActionSet (indices in the order the API got them) *)
| KLoginStart                            (* packet.ServerLogin; the dump holds the intended key / holder values *)
| KDisconnect (json_era : bool) (text : bytes).   (* packet.Disconnect with a plain text reason *)

Record case := mk {
  tname : string; cv : Z; cb : bool;
  k : kind;
  env : fval;          (* dump of the value handed to Encode *)
  obs : bytes          (* what Encode wrote *)
}.

Fixpoint find_ref (n : string) (t : list (string * (ctx -> VL))) : option (ctx -> VL) :=
  match t with
  | [] => None
  | (m, v) :: r => if String.eqb n m then Some v else find_ref n r
  end.

Definition decodes_to (ref : VL) (c : ctx) (e : fval) (bs : bytes) : option bool :=
  match tree ref c [([], e)] with
  | None => None
  | Some want => Some (match dec_L LP ref c bs with Ok (t, []) => value_eqb t want | _ => false end)
  end.

Definition encodes_as (l : VL) (c : ctx) (e : fval) (bs : bytes) : bool :=
  match tree l c [([], e)] with
  | Some t => match enc_L LP l c t with Ok b => beq_bytes b bs | Err _ => false end
  | None => false
  end.

Fixpoint is_sub (needle hay : bytes) : bool :=
  match hay with
  | [] => match needle with [] => true | _ => false end
  | _ :: r => beq_bytes needle (firstn (List.length needle) hay) || is_sub needle r
  end.

Fixpoint list_N_eqb (a b : list N) : bool :=
  match a, b with
  | [], [] => true
  | x :: a', y :: b' => N.eqb x y && list_N_eqb a' b'
  | _, _ => false
  end.

(* Both findings once recorded for C07 are repaired (known_findings.jsonl: fixed - action order d54f770, two-byte
   1.7 array length 6e760d1).  No exception is left: a recurrence is a violation. *)
Definition judge (c : case) : verdict :=
  let ctx := mkctx (cv c) (cb c) in
  match k c with
  | KRef =>
      match find_ref (tname c) references with
      | None => VMismatch
      | Some van =>
          match decodes_to (van ctx) ctx (env c) (obs c) with
          | None => VMismatch
          | Some true => VOk
          | Some false => VViolation
          end
      end
  | KUpsert acts =>
      match tree (van_upsert acts ctx) ctx [([], env c)] with
      | None => VMismatch
      | Some w =>
          match van_upsert_decode ctx (obs c) with
          | Ok (t, []) => if value_eqb t w
                          then (if encodes_as (impl_upsert acts ctx) ctx (env c) (obs c) then VOk else VMismatch)
                          else VViolation
          | _ => VViolation
          end
      end
  | KLoginStart =>
      match decodes_to (van_login_start ctx) ctx (env c) (obs c) with
      | None => VMismatch
      | Some true => VOk
      | Some false => VViolation
      end
  | KDisconnect json text =>
      match dec_L LP (van_disconnect json) ctx (obs c) with
      | Ok (VPair (VAtom (ABytes blob)) VUnit, []) =>
          (* the reason carries the text member the proxy meant: "text":"..." in JSON, TAG_String "text" in NBT
             (or a bare string tag) *)
          let member := if json then (tx """text"":""" ++ text ++ tx """")%list
                        else ([8; 0; 4]%N ++ tx "text" ++ [N.of_nat (List.length text / 256); N.of_nat (List.length text mod 256)] ++ text)%list in
          let bare := ([8; N.of_nat (List.length text / 256); N.of_nat (List.length text mod 256)]%N ++ text)%list in
          if is_sub member blob || (negb json && beq_bytes blob bare) then VOk else VViolation
      | _ => VViolation
      end
  end.
