(* C34 -- per-case judge.
   KeyCase     : addrquota.ipKey on one address text (observed key string, parsed back here).
   QuotaCase   : Quota.Blocked on address texts in real time; per text (attempts, granted), measured elapsed ns.
   WaveCase    : concurrent first contact: N > burst goroutines call Blocked once each on one fresh group.
   LimCase     : packetlimiter.Limiter through VerifAccountAt with generated timestamps/sizes;
                 observed decisions and (head, tail, cap, total) of both counters after every event,
                 full arrays at the end.
   AccountCase : the real Limiter.Account (time.Now) called in a tight burst that stayed inside one window.
   CounterCase : the counter alone: updateAndAdd / expire / add in any order, full state after every op. *)
From Coq Require Import List ZArith NArith Bool.
From Verif Require Import Base.Hex Base.Verdict Base.Ip Model.Limiter.
Import ListNotations.
Open Scope Z_scope.
Open Scope bool_scope.

(* observed counter summary: head, tail, cap, total *)
Definition csum := (Z * Z * Z * Z)%type.
(* observed full state: summary, minTime, times, counts *)
Definition cfull := (csum * Z * list Z * list Z)%type.

Inductive case :=
| KeyCase (a : bytes) (obs_key : bytes)
| QuotaCase (burst rnum rden elapsed_ns : Z) (reqs : list (bytes * Z * Z))
| WaveCase (burst rnum rden elapsed_upper_ns : Z) (reqs : list (bytes * Z * Z))
| LimCase (pps bps window : Z) (evs : list (Z * Z)) (obs : list bool)
          (obs_p obs_b : list (option csum)) (fin_p fin_b : option cfull)
| AccountCase (pps bps window : Z) (sizes : list Z) (valid : bool) (obs : list bool)
| CounterCase (iv : Z) (ops : list (Z * Z * Z)) (obs : list cfull).

(* ---------- keys ---------- *)
Definition key_matches (k : option addr) (obs : bytes) : bool :=
  match k with
  | None => Ip.is_nil obs
  | Some x => match parse_addr obs with
              | Some y => addr_eqb x y
              | None => false
              end
  end.

(* ---------- counters ---------- *)
Definition summary (c : counter) : csum :=
  (Z.of_nat (head c), Z.of_nat (tail c), Z.of_nat (cap c), total c).

Definition csum_eqb (a b : csum) : bool :=
  let '(a1, a2, a3, a4) := a in let '(b1, b2, b3, b4) := b in
  (a1 =? b1) && (a2 =? b2) && (a3 =? b3) && (a4 =? b4).

Fixpoint zlist_eqb (a b : list Z) : bool :=
  match a, b with
  | [], [] => true
  | x :: a', y :: b' => (x =? y) && zlist_eqb a' b'
  | _, _ => false
  end.

Definition full_eqb (c : counter) (o : cfull) : bool :=
  let '(s, mt, ts, cs) := o in
  csum_eqb (summary c) s && (minTime c =? mt)
  && zlist_eqb (map (times c) (seq 0 (cap c))) ts
  && zlist_eqb (map (counts c) (seq 0 (cap c))) cs.

Definition opt_sum_eqb (c : option counter) (o : option csum) : bool :=
  match c, o with
  | None, None => true
  | Some c, Some s => csum_eqb (summary c) s
  | _, _ => false
  end.

Definition opt_full_eqb (c : option counter) (o : option cfull) : bool :=
  match c, o with
  | None, None => true
  | Some c, Some s => full_eqb c s
  | _, _ => false
  end.

Fixpoint bools_eqb (a b : list bool) : bool :=
  match a, b with
  | [], [] => true
  | x :: a', y :: b' => Bool.eqb x y && bools_eqb a' b'
  | _, _ => false
  end.

Fixpoint lim_states_ok (run : list (option limiter * bool)) (op ob : list (option csum)) : bool :=
  match run, op, ob with
  | [], [], [] => true
  | (Some l, _) :: r, p :: op', b :: ob' =>
    opt_sum_eqb (packets l) p && opt_sum_eqb (bytesc l) b && lim_states_ok r op' ob'
  | (None, _) :: r, None :: op', None :: ob' => lim_states_ok r op' ob'
  | _, _, _ => false
  end.

(* every float comparison replayed by the model obeys the standard model of floating-point arithmetic
   (the hypothesis of C34_float_decision_exact_outside_band) *)
Definition counter_run_ok (c : option counter) (limit : Z) : bool :=
  match c with
  | Some c => float_run_ok (total c) (interval c) limit
  | None => true
  end.
Definition floats_ok (run : list (option limiter * bool)) : bool :=
  forallb (fun x => match fst x with
                    | Some l => counter_run_ok (packets l) (pps l) && counter_run_ok (bytesc l) (bps l)
                    | None => true
                    end) run.

Definition last_limiter (run : list (option limiter * bool)) (l0 : option limiter) : option limiter :=
  fold_left (fun _ x => fst x) run l0.

(* ---------- counter ops ---------- *)
Definition counter_step (c : counter) (op : Z * Z * Z) : counter :=
  let '(k, a, b) := op in
  match k with
  | 0 => update_and_add c a b                (* updateAndAdd(count = a, now = b) *)
  | 1 => expire c a                          (* expire(now = a) *)
  | _ => add c a b                             (* add(now = a, count = b) *)
  end.

Fixpoint counter_run (c : counter) (ops : list (Z * Z * Z)) : list counter :=
  match ops with
  | [] => []
  | op :: r => let c' := counter_step c op in c' :: counter_run c' r
  end.

Fixpoint fulls_ok (cs : list counter) (obs : list cfull) : bool :=
  match cs, obs with
  | [], [] => true
  | c :: r, o :: r' => full_eqb c o && fulls_ok r r'
  | _, _ => false
  end.

(* for a run made of updateAndAdd only, with sorted in-range times: total after each op = window sum *)
Fixpoint only_uaa (ops : list (Z * Z * Z)) : list (Z * Z) :=       (* as (now, count) *)
  match ops with
  | [] => []
  | (0, a, b) :: r => (b, a) :: only_uaa r
  | _ :: r => only_uaa r
  end.

Fixpoint totals_ok (iv : Z) (hist : list (Z * Z)) (evs : list (Z * Z)) (obs : list cfull) : bool :=
  match evs, obs with
  | [], _ => true
  | (now, cnt) :: r, o :: r' =>
    let hist' := (now, cnt) :: hist in
    let '(s, _, _, _) := o in let '(_, _, _, tot) := s in
    (tot =? window_sum iv now hist') && totals_ok iv hist' r r'
  | _ :: _, [] => false
  end.

(* ---------- quota ---------- *)
(* group the requests by spec key; per group: attempts, granted *)
Fixpoint group_add (k : addr) (att adm : Z) (gs : list (addr * Z * Z)) : list (addr * Z * Z) :=
  match gs with
  | [] => [(k, att, adm)]
  | (k', a, d) :: r => if addr_eqb k k' then (k', a + att, d + adm) :: r else (k', a, d) :: group_add k att adm r
  end.

(* granted within [min(attempts, burst), burst + rate * elapsed + 1] *)
(* slack = extra events tolerated on top of C34_bucket_bound's right-hand side burst*rden + rnum*elapsed *)
Definition group_ok (slack burst rnum rden elapsed : Z) (g : addr * Z * Z) : bool :=
  let '(_, att, adm) := g in
  (Z.min att burst <=? adm) && (adm <=? att) &&
  (adm * rden <=? (burst + slack) * rden + rnum * elapsed).

(* keyfn = spec_ip_key or impl_ip_key: unparsable texts are never blocked *)
Definition quota_ok (slack : Z) (keyfn : bytes -> option addr) (burst rnum rden elapsed : Z) (reqs : list (bytes * Z * Z)) : bool :=
  let unl := forallb (fun r => match keyfn (fst (fst r)) with
                               | None => snd (fst r) =? snd r
                               | Some _ => true
                               end) reqs in
  let gs := fold_left (fun gs r => match keyfn (fst (fst r)) with
                                   | Some k => group_add k (snd (fst r)) (snd r) gs
                                   | None => gs
                                   end) reqs [] in
  unl && forallb (group_ok slack burst rnum rden elapsed) gs.

Definition judge (c : case) : verdict :=
  match c with
  | KeyCase a obs =>
    (* finding C34-1 is fixed: a zoned address without a key is a violation again *)
    if key_matches (spec_ip_key a) obs then
      (if key_matches (impl_ip_key a) obs then VOk else VMismatch)
    else VViolation
  | QuotaCase burst rnum rden elapsed reqs =>
    if quota_ok 1 spec_ip_key burst rnum rden elapsed reqs then
      (if quota_ok 1 impl_ip_key burst rnum rden elapsed reqs then VOk else VMismatch)
    else VViolation
  | WaveCase burst rnum rden elapsed reqs =>
    (* concurrent first contact: more callers than burst hit one fresh group at once; lookup-or-create
       of the group's bucket must be atomic, so the group as a whole stays within burst + rate * elapsed
       (elapsed rounded up by the harness, no slack event) *)
    if quota_ok 0 spec_ip_key burst rnum rden elapsed reqs then
      (if quota_ok 0 impl_ip_key burst rnum rden elapsed reqs then VOk else VMismatch)
    else VViolation
  | LimCase pps bps window evs obs obs_p obs_b fin_p fin_b =>
    let l0 := new_limiter pps bps window in
    let run := run_limiter exceeds_float l0 evs in
    let spec_ok := if in_range window evs
                   then prefix_agrees (spec_run exceeds_exact pps bps window [] evs) obs
                   else true in
    if negb spec_ok then VViolation
    else if bools_eqb (map snd run) obs && lim_states_ok run obs_p obs_b && floats_ok run
            && match last_limiter run l0 with
               | Some l => opt_full_eqb (packets l) fin_p && opt_full_eqb (bytesc l) fin_b
               | None => opt_full_eqb None fin_p && opt_full_eqb None fin_b
               end
         then VOk else VMismatch
  | AccountCase pps bps window sizes valid obs =>
    if negb valid then VOk
    else
      let evs := map (fun s => (1000000000000000000, s)) sizes in
      if negb (prefix_agrees (spec_run exceeds_exact pps bps window [] evs) obs) then VViolation
      else if bools_eqb (map snd (run_limiter exceeds_float (new_limiter pps bps window) evs)) obs then VOk
      else VMismatch
  | CounterCase iv ops obs =>
    let uaa := only_uaa ops in
    let pure := Nat.eqb (length uaa) (length ops) in
    if pure && in_range iv uaa && negb (totals_ok iv [] uaa obs) then VViolation
    else if fulls_ok (counter_run (new_counter iv) ops) obs then VOk else VMismatch
  end.
