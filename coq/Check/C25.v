(* C25 — per-case judge.  One case = one packet handed to HandlePacket of one of the four session
   handlers (built over recording connections and the real event manager), with what was observed:
   the events the subscribers saw, the writes the connections recorded, whether the message was queued. *)
From Coq Require Import List NArith Bool.
From Verif Require Import Base.Hex Base.Verdict Model.PluginMsg.
Import ListNotations.
Open Scope N_scope.

Record case := mk { c_h : handler; c_env : env; c_msg : msg; observed : outcome }.

Definition judge (c : case) : verdict :=
  let o := observed c in
  let i := impl_handle (c_h c) (c_env c) (c_msg c) in
  let s := spec_handle (c_h c) (c_env c) (c_msg c) in
  if negb (holds_P (c_h c) (c_env c) (c_msg c) o) then
    (if beq_outcome o i then
       (if trigger1 (c_h c) (c_env c) (c_msg c) then VKnown 1
        else if trigger2 (c_h c) (c_env c) (c_msg c) then VKnown 2
        else VViolation)
     else VViolation)
  else if beq_outcome o s || beq_outcome o i then VOk
  else VMismatch.
