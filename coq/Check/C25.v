(* C25 — per-case judge.  One case = one packet handed to HandlePacket of one of the four session
   handlers (built over recording connections and the real event manager), with what was observed:
   the events the subscribers saw, the writes the connections recorded, whether the message was queued. *)
From Coq Require Import List NArith Bool.
From Verif Require Import Base.Hex Base.Verdict Model.PluginMsg.
Import ListNotations.
Open Scope N_scope.

Inductive case :=
| mk (c_h : handler) (c_env : env) (c_msg : msg) (observed : outcome)
    (* one packet handed to a fresh handler *)
| mkHist (c_h : handler) (c_env : env) (c_msgs : list msg) (observed : list hobs)
| mkReg (c_env : env) (c_msgs : list msg) (observed : list outcome).
    (* 3..6 register (/unregister) messages of one player through one client play handler: the known
       channel set grows and shrinks along the way; one observed outcome per message *)
    (* 2..4 packets back to back through the SAME handler instance on registered channels; the
       PluginMessageEvent subscriber of each blocks until the next packet has been handled *)

Definition spec_steps (e : env) (ms : list msg) := reg_history true true [] e ms.

Definition judge_one (h : handler) (e : env) (m : msg) (o : outcome) : verdict :=
  let i := impl_handle h e m in
  let s := spec_handle h e m in
  if negb (holds_P h e m o) then
    (if beq_outcome o i then
       (if trigger1 h e m then VKnown 1
        else if trigger2 h e m then VKnown 2
        else VViolation)
     else VViolation)
  else if beq_outcome o s || beq_outcome o i then VOk
  else VMismatch.

(* history: per message, event data at start = event data at the end = that message's body, and the
   forwarded copy is that message *)
Definition judge_hist (h : handler) (e : env) (ms : list msg) (obs : list hobs) : verdict :=
  if hist_all (spec_history h e ms) obs then VOk
  else if hist_all (impl_history h e ms) obs && forallb (trigger2 h e) ms then VKnown 2
  else VViolation.

(* register history: at every step, whatever the player's known channels, a forwarded registration
   raised exactly one event with the parsed channels (holds_P with that step's channel count) *)
Definition judge_reg (e : env) (ms : list msg) (obs : list outcome) : verdict :=
  let steps := spec_steps e ms in
  if negb (reg_hist_holds steps ms obs) then VViolation
  else if reg_hist_equal steps obs then VOk else VMismatch.

Definition judge (c : case) : verdict :=
  match c with
  | mkReg e ms obs => judge_reg e ms obs
  | mk h e m o => judge_one h e m o
  | mkHist h e ms obs => judge_hist h e ms obs
  end.
