(* C20 — per-case judge used by generated case files. Three kinds of cases:
   - CVersion: findForwardingVersion(requested, player) called directly (any int);
   - CRequest: a velocity:player_info LoginPluginMessage handled by the real backendLoginSessionHandler;
     observed = the Data of the LoginPluginResponse written to the backend (None = no answer);
     with_mac = evaluate HMAC-SHA256 inside Coq for this case (else only the body after the 32 MAC
     bytes is judged);
   - CRequired: a sequence of login-phase packets from the backend and what the handler did. *)
From Coq Require Import List NArith ZArith Bool.
From Verif Require Import Base.Hex Base.Verdict Base.Hmac Model.Prim Model.Forwarding.
Import ListNotations.
Open Scope Z_scope.

Inductive case :=
| CVersion (requested protocol : Z) (k : key_kind) (observed : Z)
| CRequest (data : bytes) (i : fwd_input) (observed : option bytes) (with_mac : bool)
| CRequired (velocity_mode : bool) (events : list login_event) (observed : list login_outcome).

Definition beq_kd (a b : option (Z * bytes * bytes)) : bool :=
  match a, b with
  | Some (e1, p1, s1), Some (e2, p2, s2) => (e1 =? e2) && beq_bytes p1 p2 && beq_bytes s1 s2
  | None, None => true
  | _, _ => false
  end.
Definition beq_ob (a b : option bytes) : bool :=
  match a, b with Some x, Some y => beq_bytes x y | None, None => true | _, _ => false end.
Definition beq_property (a b : property) : bool :=
  beq_bytes (fst a) (fst b) && beq_bytes (fst (snd a)) (fst (snd b)) && beq_bytes (snd (snd a)) (snd (snd b)).
Fixpoint beq_properties (a b : list property) : bool :=
  match a, b with
  | [], [] => true
  | x :: a', y :: b' => beq_property x y && beq_properties a' b'
  | _, _ => false
  end.
Definition beq_parsed (a b : parsed) : bool :=
  (pr_version a =? pr_version b) && beq_bytes (pr_addr a) (pr_addr b) && beq_bytes (pr_uuid a) (pr_uuid b)
  && beq_bytes (pr_name a) (pr_name b) && beq_properties (pr_props a) (pr_props b)
  && beq_kd (pr_key a) (pr_key b) && beq_ob (pr_signer a) (pr_signer b).

Fixpoint beq_outcomes (a b : list login_outcome) : bool :=
  match a, b with
  | [], [] => true
  | x :: a', y :: b' => beq_outcome x y && beq_outcomes a' b'
  | _, _ => false
  end.

(* the payload clauses for a given version: MAC (when evaluated), body, Paper's reading *)
Definition payload_ok (v : Z) (i : fwd_input) (d : bytes) (with_mac : bool) : bool :=
  (if with_mac then paper_check_integrity (f_secret i) d else Nat.leb 32 (length d))
  && beq_ob (Some (skipn 32 d)) (body_of_version v i)
  && match paper_parse (skipn 32 d) with
     | Ok (p, []) => beq_parsed p (expected_parsed v i)
     | _ => false
     end.

Definition judge (c : case) : verdict :=
  match c with
  | CVersion r p k obs =>
    if obs =? velocity_choice r p k then (if obs =? find_version r p k then VOk else VMismatch)
    else VViolation
  | CRequest data i obs with_mac =>
    let k := kind_of (f_key i) in
    let v_spec := velocity_choice (requested_of_data spec_requested data) (f_protocol i) k in
    let v_impl := find_version (requested_of_data impl_requested data) (f_protocol i) k in
    match obs with
    | None => VViolation                     (* a forwarding request must be answered *)
    | Some d =>
      (* C20-1 (unsigned request byte) is fixed: a recurrence is a violation *)
      if payload_ok v_spec i d with_mac then (if v_impl =? v_spec then VOk else VMismatch)
      else VViolation
    end
  | CRequired vm es obs =>
    if required_holds vm false es obs
    then (if beq_outcomes obs (login_run vm false es) then VOk else VMismatch)
    else VViolation
  end.
