(* C19 — per-case judge used by generated case files.
   A case = forwarding mode, client connection type, the two addresser hooks (as data), the
   forwarding inputs, and the Handshake.ServerAddress the real serverConnection.startHandshake wrote to
   the backend connection (None = it returned an error and wrote nothing). *)
From Coq Require Import List NArith ZArith Bool Arith.
From Verif Require Import Base.Hex Base.Text Base.Verdict Model.TryList Model.HandshakeAddr.
Import ListNotations.
Open Scope N_scope.

(* the addresser behaviours the harness installs *)
Inductive addr_spec :=
| ANone                      (* hook not installed *)
| AIdentity                  (* returns its argument *)
| AAppendNul (d : bytes)     (* x ++ NUL ++ d: extra data after the host (Floodgate style) *)
| AConst (s : bytes)         (* ignores its argument *)
| APrepend (s : bytes)       (* s ++ x *)
| AFail.                     (* BackendHandshakeAddresser only: returns an error *)

Definition addr_fun (a : addr_spec) (x : bytes) : bytes :=
  match a with
  | ANone | AIdentity | AFail => x
  | AAppendNul d => x ++ 0 :: d
  | AConst s => s
  | APrepend s => s ++ x
  end.
Definition apply_ha (a : addr_spec) : option (bytes -> bytes) :=
  match a with ANone => None | _ => Some (addr_fun a) end.
Definition apply_ba (a : addr_spec) : option (bytes -> option bytes) :=
  match a with
  | ANone => None
  | AFail => Some (fun _ => None)
  | _ => Some (fun x => Some (addr_fun a x))
  end.
(* the hook keeps the first NUL-separated part of its argument, for every argument *)
Definition keeps_first (a : addr_spec) : bool :=
  match a with ANone | AIdentity | AAppendNul _ | AFail => true | AConst _ | APrepend _ => false end.

Record case := mk {
  fw : fw_mode;
  ct : conn_type;
  ha_s : addr_spec;
  ba_s : addr_spec;
  ctx : fw_ctx;
  observed : option bytes;
  ref_props : option (list property)   (* encoding/json's reading of part 4, when the harness parsed it *)
}.

Definition beq_obytes (a b : option bytes) : bool :=
  match a, b with
  | Some x, Some y => beq_bytes x y
  | None, None => true
  | _, _ => false
  end.

Definition beq_prop (a b : property) : bool :=
  beq_bytes (p_name a) (p_name b) && beq_bytes (p_value a) (p_value b) && beq_bytes (p_sig a) (p_sig b).
Fixpoint beq_props (a b : list property) : bool :=
  match a, b with
  | [], [] => true
  | x :: a', y :: b' => beq_prop x y && beq_props a' b'
  | _, _ => false
  end.

Definition part4 (o : bytes) : bytes := nth 3 (split_nul o) [].

(* forwarding clause: the address is exactly addr NUL ip NUL undashed-uuid NUL json(props') and the
   reference BungeeCord parser reads those four values back (strings with invalid UTF-8 come back with
   U+FFFD for each bad byte, as from any JSON parser) *)
Definition holds_forwarding (c : case) (o : bytes) : bool :=
  beq_bytes o (forwarding_address (spec_props_json (fw c) (ct c) (ctx c)) (ctx c))
  && match bungee_parse o with
     | Some (a, ip, id, ps) =>
       beq_bytes a (srv_addr (ctx c)) && beq_bytes ip (host_str (remote (ctx c)))
       && beq_bytes id (undashed (uuid (ctx c)))
       && beq_props ps (map sanitize_property (props_list (fw c) (ct c) (ctx c)))
     | None => false
     end.

(* host-first clause, for hooks that themselves keep the host first *)
Definition holds_host_first (c : case) : bool :=
  if keeps_first (ha_s c) && keeps_first (ba_s c) then
    match observed c with
    | Some o => beq_bytes (first_part o) (first_part (player_vhost (ctx c)))
    | None => match ba_s c with AFail => true | _ => false end
    end
  else true.

Definition judge (c : case) : verdict :=
  let ha := apply_ha (ha_s c) in
  let ba := apply_ba (ba_s c) in
  let impl := server_address ha ba impl_props_json (fw c) (ct c) (ctx c) in
  if used_forwarding ha (fw c) then
    match observed c with
    | None => VViolation
    | Some o =>
      if holds_forwarding c o then
        (* parser sanity: Go's own reading of part 4 agrees with the reference parser *)
        match ref_props c, parse_props (part4 o) with
        | Some rp, Some ps => if beq_props rp ps then VOk else VMismatch
        | _, _ => VOk
        end
      else VViolation    (* C19-1 (null instead of []) is fixed: a recurrence is a violation *)
    end
  else
    if holds_host_first c then (if beq_obytes (observed c) impl then VOk else VMismatch)
    else VViolation.
