(* C24 — per-case judge.  One case = one sequential history of client plugin messages, flushes and
   switches driven through the real client config / client play session handler; observed = the
   backend writes and player disconnects in the order they happened, the largest queue length and
   byte counter seen after any operation, and the final queue counters. *)
From Coq Require Import List NArith Bool.
From Verif Require Import Base.Verdict Model.PluginQueue.
Import ListNotations.
Open Scope N_scope.

Record case := mk {
  c_kind : qkind; c_ops : list op;
  o_outs : list out;                 (* Deliver / Disconnect in order *)
  o_max_len : N; o_max_bytes : N;    (* maxima over the states after every operation *)
  o_len : N; o_bytes : N; o_ovf : bool }.

(* the property's own clauses, evaluated on what the implementation did *)
Definition holds_P (c : case) : bool :=
  let '(s, es) := run (c_kind c) init (c_ops c) in
  (* never more than 1024 messages / 4 MiB buffered *)
  (o_max_len c <=? max_msgs) && (o_max_bytes c <=? max_bytes) &&
  (* exactly once, in order, before later messages; overflow disconnects instead of buffering:
     the writes and disconnects are those of the reference machine *)
  beq_outs (o_outs c) es.

Definition judge (c : case) : verdict :=
  let '(s, es) := run (c_kind c) init (c_ops c) in
  let '(ml, mb) := run_max (c_kind c) init (c_ops c) in
  if negb (holds_P c) then VViolation
  else if (o_max_len c =? ml) && (o_max_bytes c =? mb) && (o_len c =? N.of_nat (length (q s))) &&
          (o_bytes c =? qbytes s) && Bool.eqb (o_ovf c) (ovf s)
  then VOk else VMismatch.
