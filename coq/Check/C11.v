(* C11 — per-case judge used by generated case files.
   Three kinds of case, all produced by running the real proxy code (harness/cmd/c11):
     CSeq  : a sequential history of registry / login / disconnect / lookup calls with every result,
     CLin  : a concurrent history of the atomic registry calls (16 goroutines, logical clock) with the
             linearization order the harness found; validated here by Lin.valid_linearization,
     CRace : logins started concurrently through authSessionHandler.Activated; the observed outcome
             must be the outcome of SOME schedule of the model's login threads (Conc.all_schedules).
     CKick : kick-existing mode, 3 or 4 sessions of ONE UUID: the observed log of registrations and
             DisconnectEvents (exact when the interleaving was forced) and the state at quiescence;
             judged by the property's own predicate on the log (Model.order_ok, linked to the theorem
             by Proofs.C11.order_ok_sound) and on the quiescent state.
   The model is run as impl_cfg = spec_cfg (the code as it is now).  The pre-fix variants (findings
   C11-1, C11-2, fixed in /repo) are NOT accepted any more: a recurrence is a violation. *)
From Coq Require Import List NArith ZArith Bool String.
From Verif Require Import Base.Verdict Base.Conc Base.Lin Model.PlayerRegistry.
Import ListNotations.
Open Scope N_scope.
Open Scope list_scope.

(* observed in a kick-existing run: registerConnection(h) returned true / DisconnectEvent for h *)
Inductive kev := KReg (h : N) | KTear (h : N) (st : status).

Inductive case :=
| CSeq (on kk : bool) (pool : list (string * N)) (hist : list (op * out))
| CLin (on : bool) (pool : list (string * N)) (h : list (call op out)) (order : list nat) (hung : bool)
| CRace (on kk : bool) (pool : list (string * N)) (pre : list N) (logins : list N)
        (results : list res) (final : res)
| CKick (on : bool) (pool : list (string * N)) (exact : bool) (log : list kev)
        (live : list N) (final : res).

(* ---------- pools ---------- *)

Fixpoint mk_pool (i : N) (l : list (string * N)) : list player :=
  match l with
  | [] => []
  | (n, u) :: r => mkP i n u :: mk_pool (i + 1) r
  end.
Fixpoint dedupN (l : list N) : list N :=
  match l with
  | [] => []
  | x :: r => x :: filter (fun y => negb (x =? y)) (dedupN r)
  end.
Fixpoint dedupS (l : list string) : list string :=
  match l with
  | [] => []
  | x :: r => x :: filter (fun y => negb (String.eqb x y)) (dedupS r)
  end.
(* lookups of a snapshot: every id of the pool, every lower-cased name of the pool, first occurrence order *)
Definition idpool (pool : list (string * N)) : list N := dedupN (map snd pool).
Definition namepool (pool : list (string * N)) : list string := dedupS (map (fun x => lower (fst x)) pool).

(* the only accepted behaviour: the code as it is now (= the specification) *)
Definition variants (on kk : bool) : list (cfg * verdict) := [ (impl_cfg on kk, VOk) ].

Fixpoint first_match (f : cfg -> bool) (vs : list (cfg * verdict)) : option verdict :=
  match vs with
  | [] => None
  | (c, v) :: r => if f c then Some v else first_match f r
  end.

(* ---------- sequential histories ---------- *)

Fixpoint replay (c : cfg) (pl : list player) (idp : list N) (nmp : list string)
         (t : N) (s : state) (hist : list (op * out)) : bool :=
  match hist with
  | [] => true
  | (o, obs) :: r =>
      let '(s1, m) := step c pl idp nmp t s o in
      out_eqb m obs && replay c pl idp nmp (t + 1) s1 r
  end.

(* The property's predicate on what the implementation showed (no model state involved):
   every snapshot is internally consistent, and every player that the implementation reported
   as registered and whose own removal (its DisconnectEvent, its Disconnect call, a bare unregister
   of itself) has not been seen is still found by id, and with kick off by name. *)
Definition somes (l : list (option N)) : list N :=
  flat_map (fun o => match o with Some x => [x] | None => [] end) l.

Fixpoint index_ofN (x : N) (l : list N) : nat :=
  match l with [] => 0 | y :: r => if x =? y then 0%nat else S (index_ofN x r) end.
Fixpoint index_ofS (x : string) (l : list string) : nat :=
  match l with [] => 0%nat | y :: r => if String.eqb x y then 0%nat else S (index_ofS x r) end.

Definition snap_ok (kk : bool) (pl : list player) (idp : list N) (nmp : list string)
           (live : list N) (r : res) : bool :=
  match r with
  | RSnap byid byname all n =>
      let dflt := mkP 0 "" 0 in
      (* count_eq and Players() = the by-id view *)
      (n =? N.of_nat (List.length (somes byid)))
      && list_eqb N.eqb all (sortN (somes byid))
      (* every entry sits under its own id / lower-case name *)
      && forallb (fun io => match snd io with
                            | Some h => p_id (nth (N.to_nat h) pl dflt) =? fst io
                            | None => true end) (combine idp byid)
      && forallb (fun no => match snd no with
                            | Some h => String.eqb (lname (nth (N.to_nat h) pl dflt)) (fst no)
                            | None => true end) (combine nmp byname)
      (* kick off: both indices describe the same set *)
      && (kk || list_eqb N.eqb (sortN (somes byname)) (sortN (somes byid)))
      (* registered and not yet removed by its own disconnect => findable *)
      && forallb (fun h =>
                    let p := nth (N.to_nat h) pl dflt in
                    opt_eqb N.eqb (nth (index_ofN (p_id p) idp) byid None) (Some h)
                    && (kk || opt_eqb N.eqb (nth (index_ofS (lname p) nmp) byname None) (Some h)))
                 live
  | _ => true
  end.

Definition removeN (x : N) (l : list N) : list N := filter (fun y => negb (x =? y)) l.

Definition live_after (live : list N) (o : op) (obs : out) : list N :=
  let live1 := fold_left (fun l e => removeN (fst e) l) (snd obs) live in
  match o, fst obs with
  | OReg h, RBool true => h :: removeN h live1
  | OLogin h, RBool true => h :: removeN h live1
  | OUnreg h, _ => removeN h live1
  | ODisc h, _ => removeN h live1
  | _, _ => live1
  end.

Fixpoint holds_seq (kk : bool) (pl : list player) (idp : list N) (nmp : list string)
         (live : list N) (hist : list (op * out)) : bool :=
  match hist with
  | [] => true
  | (o, obs) :: r =>
      let live1 := live_after live o obs in
      snap_ok kk pl idp nmp live1 (fst obs) && holds_seq kk pl idp nmp live1 r
  end.

(* ---------- concurrent histories ---------- *)

Definition lstate : Type := state * N.
Definition step_lin (c : cfg) (pl : list player) (idp : list N) (nmp : list string)
           (st : lstate) (o : op) : lstate * out :=
  let '(s1, r) := step c pl idp nmp (snd st) (fst st) o in ((s1, snd st + 1), r).

Fixpoint final_along (c : cfg) (pl : list player) (idp : list N) (nmp : list string)
         (h : list (call op out)) (order : list nat) (st : lstate) : lstate :=
  match order with
  | [] => st
  | i :: r =>
      match nth_error h i with
      | Some cl => final_along c pl idp nmp h r (fst (step_lin c pl idp nmp st (c_op cl)))
      | None => st
      end
  end.

(* the proposed order is a valid linearization of the completed calls, and calls were left
   hanging exactly when the model says muP is leaked at the end *)
Definition lin_ok (c : cfg) (pl : list player) (idp : list N) (nmp : list string)
           (h : list (call op out)) (order : list nat) (hung : bool) : bool :=
  valid_linearization (step_lin c pl idp nmp) out_eqb (init, 0) h order
  && Bool.eqb hung (leaked (fst (final_along c pl idp nmp h order (init, 0)))).

(* ---------- racing logins ---------- *)

(* goroutine i runs the real login flow for player logins[i]; players in pre are registered first *)
Definition race_threads (c : cfg) (pl : list player) (logins : list N) : list (list act) :=
  let dflt := mkP 0 "" 0 in
  map (fun th => login_thread c 1 (fst th) (nth (N.to_nat (snd th)) pl dflt))
      (combine (map N.of_nat (seq 0 (List.length logins))) logins).

Definition drop_nops (l : list act) : list act :=
  filter (fun a => match a with ANop => false | _ => true end) l.

Definition race_start (c : cfg) (pl : list player) (pre : list N) : state :=
  fold_left (fun s h => insert (nth (N.to_nat h) pl (mkP 0 "" 0)) s) pre init.

(* what the harness can see of one finished login goroutine *)
Definition login_result (s : state) (t : N) : res :=
  match get_local t (locals s) with
  | Some (LEnd b) => RBool b
  | _ => RHang
  end.

Definition race_outcome (c : cfg) (pl : list player) (idp : list N) (nmp : list string)
           (n : nat) (s : state) : list res * res :=
  (map (fun t => login_result s (N.of_nat t)) (seq 0 n),
   fst (snd (step c pl idp nmp 1000 s OSnap))).

Definition race_ok (c : cfg) (pl : list player) (idp : list N) (nmp : list string)
           (pre logins : list N) (results : list res) (final : res) : bool :=
  let ts := compile c (map drop_nops (race_threads c pl logins)) in
  existsb (fun r =>
             let '(rs, fin) := race_outcome c pl idp nmp (List.length logins) (fst (fst r)) in
             list_eqb res_eqb rs results && res_eqb fin final)
          (outcomes ts (race_start c pl pre)).

(* property predicate on a race observation: nobody hangs, the final snapshot is consistent and
   every pre-registered player whose UUID and (kick off) name nobody else logged in with is still there *)
Definition holds_race (kk : bool) (pl : list player) (idp : list N) (nmp : list string)
           (pre logins : list N) (results : list res) (final : res) : bool :=
  forallb (fun r => negb (res_eqb r RHang)) (final :: results)
  && snap_ok kk pl idp nmp (if kk then [] else pre) final.

(* ---------- kick-existing races ---------- *)

Definition kev_event (pl : list player) (e : kev) : event :=
  let dflt := mkP 0 "" 0 in
  match e with
  | KReg h => EvReg (nth (N.to_nat h) pl dflt)
  | KTear h st => EvTeardown (nth (N.to_nat h) pl dflt) st
  end.

Fixpoint nodupN (l : list N) : bool :=
  match l with
  | [] => true
  | x :: r => negb (existsb (N.eqb x) r) && nodupN r
  end.

(* at quiescence: every live session is the registered one of its UUID (so at most one live session
   per UUID), every registered player is live, and the lookups are consistent *)
Definition quiesce_ok (pl : list player) (idp : list N) (nmp : list string) (live : list N) (final : res) : bool :=
  match final with
  | RSnap byid _ _ _ =>
      snap_ok true pl idp nmp live final
      && forallb (fun h => existsb (N.eqb h) live) (somes byid)
      && nodupN (map (fun h => p_id (nth (N.to_nat h) pl (mkP 0 "" 0))) live)
  | _ => false
  end.

(* an exact log must also be a trace of the model: a registration only happens under a free UUID
   (the re-check of the kick loop), a teardown is the conditional unregister; final states agree *)
Fixpoint replay_log (c : cfg) (pl : list player) (s : state) (log : list kev) : option state :=
  match log with
  | [] => Some s
  | KReg h :: r =>
      let p := nth (N.to_nat h) pl (mkP 0 "" 0) in
      match get_id (p_id p) s with
      | None => replay_log c pl (insert p s) r
      | Some _ => None
      end
  | KTear h _ :: r =>
      replay_log c pl (fst (unregister c (nth (N.to_nat h) pl (mkP 0 "" 0)) s)) r
  end.

(* ---------- the judge ---------- *)

Definition judge (c : case) : verdict :=
  match c with
  | CSeq on kk pool hist =>
      let pl := mk_pool 0 pool in
      let idp := idpool pool in
      let nmp := namepool pool in
      let ok := holds_seq kk pl idp nmp [] hist in
      match first_match (fun c => replay c pl idp nmp 0 init hist) (variants on kk) with
      | Some VOk => if ok then VOk else VViolation
      | Some v => v
      | None => if ok then VMismatch else VViolation
      end
  | CLin on pool h order hung =>
      let pl := mk_pool 0 pool in
      let idp := idpool pool in
      let nmp := namepool pool in
      match first_match (fun c => lin_ok c pl idp nmp h order hung) (variants on false) with
      | Some v => v
      | None => VViolation          (* not linearizable against the registry specification *)
      end
  | CRace on kk pool pre logins results final =>
      let pl := mk_pool 0 pool in
      let idp := idpool pool in
      let nmp := namepool pool in
      let ok := holds_race kk pl idp nmp pre logins results final in
      match first_match (fun c => race_ok c pl idp nmp pre logins results final) (variants on kk) with
      | Some VOk => if ok then VOk else VViolation
      | Some v => v
      | None => if ok then VMismatch else VViolation
      end
  | CKick on pool exact log live final =>
      let pl := mk_pool 0 pool in
      let idp := idpool pool in
      let nmp := namepool pool in
      let c := impl_cfg on true in
      if (negb exact || order_ok [] (map (kev_event pl) log)) && quiesce_ok pl idp nmp live final
      then (if exact
            then match replay_log c pl init log with
                 | Some s => if res_eqb (fst (snd (step c pl idp nmp 0 s OSnap))) final then VOk else VMismatch
                 | None => VMismatch
                 end
            else VOk)
      else VViolation
  end.
