(* C08 - per-case judge. One case = one client connection driven through a real proxy:
   configuration, the packets the fake client sent (with ground truth about their RSA contents,
   computed by the harness with the proxy's private key), and per packet what was observed. *)
From Coq Require Import List NArith Bool.
From Verif Require Import Base.Hex Base.Verdict Base.Sha1 Model.ServerId Model.Login.
Import ListNotations.

(* observation for one packet sent *)
Record obs := mkObs {
  frames : list out;      (* frames the client read afterwards (OClose last if the proxy closed) *)
  enc_on : bool;          (* they were read through the client's AES/CFB8 stream (client secret) *)
  joins : nat;            (* AuthenticateJoin calls recorded during this step *)
  registered : bool       (* evidence that the player was registered during this step
                             (PostLogin with Proxy.Player(id) <> nil, player count > 0, or a
                             DisconnectEvent whose status says it had been registered) *)
}.

Record case := mk {
  conf : cfg;
  ops : list op;
  observed : list obs;
  secret : bytes;                     (* the 16-byte secret the client uses for "good" responses *)
  pubkey : bytes;                     (* the proxy's public key (DER) as advertised *)
  name : bytes;                       (* the valid user name the client logs in with *)
  join_args : list (bytes * bytes)    (* (serverId, username) that reached the session server *)
}.

Definition beq_frames (a b : list out) : bool :=
  (Nat.eqb (length a) (length b)) && forallb (fun p => out_eqb (fst p) (snd p)) (combine a b).

(* model -> the same observables *)
Definition project (os : list out) : list out * nat * bool :=
  (filter visible os, length (filter (out_eqb OJoin) os), existsb (out_eqb ORegister) os).

Definition obs_matches (o : obs) (os : list out) : bool :=
  let '(f, j, r) := project os in
  beq_frames (frames o) f && Nat.eqb (joins o) j && Bool.eqb (registered o) r.

Fixpoint all_match (obs_ : list obs) (oss : list (list out)) : bool :=
  match obs_, oss with
  | [], [] => true
  | o :: r, os :: rr => obs_matches o os && all_match r rr
  | _, _ => false
  end.

(* ---- the property's own predicate, evaluated on the observation --------------------------------- *)

Definition has (x : out) (l : list out) : bool := existsb (out_eqb x) l.
Definition saw_success (o : obs) : bool := existsb is_success (frames o).
Definition admits (o : obs) : bool := saw_success o || registered o.
Definition quiet_obs (o : obs) : bool :=
  match frames o with [] => true | _ => false end && Nat.eqb (joins o) 0 && negb (registered o).
Definition only_close (o : obs) : bool :=
  beq_frames (frames o) [OClose] && Nat.eqb (joins o) 0 && negb (registered o).

Inductive expect := XLogin | XWait | XEnc | XAck | XNone.
(* XWait: an in-order login start was answered with login plugin messages only; the login continues
   when the client has answered them. A further login start is out of order. *)

(* what must have happened before an admission: st_req = an in-order, acceptable login start was
   answered by an encryption request and nothing but plugin responses came in between *)
Record track := mkT { x : expect; open : bool; chain_ready : bool; total_joins : nat; pending_good : bool }.
(* pending_good: the login start that is waiting in XWait was an acceptable one *)

Definition is_plugin_msg (o : out) : bool := match o with OPluginMsg _ => true | _ => false end.

Definition step_ok (c : cfg) (t : track) (o : op) (ob : obs) : bool * track :=
  if negb (open t) then (quiet_obs ob, t) else
  let in_ord :=
    match o with
    | PluginResp _ => has_plugin c
    | Unknown => false
    | LoginStart _ _ => match x t with XLogin => true | _ => false end
    | EncResp _ _ _ => match x t with XEnc => true | _ => false end
    | LoginAck => match x t with XAck => true | _ => false end
    end in
  if negb in_ord then (only_close ob, mkT XNone false false (total_joins t) false) else
  let closed_now := has OClose (frames ob) in
  let tj := (total_joins t + joins ob)%nat in
  let got_req := has OEncRequest (frames ob) in
  (* admission that does not go through an encryption response: only outside effective online mode
     (or with a profile-providing transport), for an acceptable login start, never with the session identity *)
  let early_ok (good : bool) :=
    if effective_online c && negb (provider c) then negb (admits ob)
    else implb (admits ob) (good && negb (has (OSuccess USession) (frames ob))) in
  let after_success := if has_ack c then XAck else XNone in
  match o with
  | PluginResp _ =>
      match x t with
      | XWait =>
          let nx := if closed_now then XNone else if got_req then XEnc
                    else if saw_success ob then after_success else XWait in
          (early_ok (pending_good t),
           mkT nx (negb closed_now) (got_req && pending_good t && negb closed_now) tj (pending_good t))
      | _ => (negb (admits ob) && negb got_req, mkT (x t) (negb closed_now) (chain_ready t) tj false)
      end
  | LoginStart _ _ =>
      let waits := existsb is_plugin_msg (frames ob) in
      let nx := if closed_now then XNone else if got_req then XEnc
                else if saw_success ob then after_success else if waits then XWait else XNone in
      (early_ok (good_login c o),
       mkT nx (negb closed_now) (got_req && good_login c o && negb closed_now) tj (good_login c o))
  | EncResp _ _ _ =>
      let ok :=
        implb (admits ob)
          (chain_ready t && good_enc o && match outcome c with SProfile => true | _ => false end
           && saw_success ob && enc_on ob && has (OSuccess USession) (frames ob)
           && Nat.eqb (joins ob) 1 && Nat.eqb tj 1) in
      let nx := if closed_now then XNone
                else if saw_success ob then after_success else XNone in
      (ok, mkT nx (negb closed_now) false tj false)
  | LoginAck => (negb (saw_success ob), mkT XNone (negb closed_now) false tj false)
  | Unknown => (false, t)
  end.

Fixpoint holds_from (c : cfg) (t : track) (ops_ : list op) (obs_ : list obs) : bool :=
  match ops_, obs_ with
  | [], [] => true
  | o :: r, ob :: rr => let '(ok, t') := step_ok c t o ob in ok && holds_from c t' r rr
  | _, _ => false
  end.

Definition bytes_pair_eqb (a b : bytes * bytes) : bool := beq_bytes (fst a) (fst b) && beq_bytes (snd a) (snd b).

(* the join, if any, was for serverId (secret, advertised key) (Java's signed SHA-1 hex, C09) and the
   client's user name *)
Definition join_args_ok (c : case) : bool :=
  match join_args c with
  | [] => true
  | [a] => bytes_pair_eqb a (server_id (secret c) (pubkey c), name c)
  | _ => false
  end.

Definition holds_C08 (c : case) : bool :=
  holds_from (conf c) (mkT XLogin true false 0 false) (ops c) (observed c) && join_args_ok c.

Definition judge (c : case) : verdict :=
  if holds_C08 c
  then (if all_match (observed c) (outs (conf c) (ops c)) then VOk else VMismatch)
  else VViolation.
