(* C16 - per-case judge.  Baseline: /repo with the fixes e5fee55 (C16-1) and 8f6edb6 (C16-2); both
   findings are "fixed", so a recurrence is a violation, never a known finding.

   Seq: one sequential history through a real proxy (harness/cmd/c16): client family, number of
   backends, the try list, the script of every backend (behaviour per accepted connection), the
   operations, and what was observed after the login and after every operation.
     - holds_P = Switch.history_ok on the OBSERVED history (the property's own predicates),
     - the observation must equal Switch.impl_run (today's code, which is the specification).

   Con: one burst of concurrent Connect calls issued from a quiescent state (player on server 0,
   3 healthy backends), every call with its result and logical-clock interval, and the final
   observation.  Base/Lin.v searches and validates a linearization against the atomic specification
   Switch.lin_step, after the direct check that no two backend connections of the burst were being
   logged in at the same time; a burst failing either falsifies the property (two attempts at once, a refusal with a
   side effect, or an inconsistent final state). *)
From Coq Require Import List Arith Bool ZArith.
From Verif Require Import Base.Verdict Base.Lin Model.Switch.
Import ListNotations.

Record req := mkReq { q_t : nat; q_res : res; q_inv : Z; q_ret : Z }.

Inductive case :=
| Seq (f : family) (n : nat) (stall : option nat) (try : list nat) (scr : list (list behaviour))
      (ops : list op) (observed : list obs)
| Con (f : family) (calls : list req) (attempts : list (Z * Z)) (final : obs).
  (* attempts: for every backend connection opened during the burst, the interval (logical stamps from
     the backends' clocks) from its acceptance to the moment JoinGame was sent (or it ended) *)

Definition judge_seq f n try scr ops observed : verdict :=
  let e := mkEnv f try scr in
  let holds := history_ok e n ops observed in
  if obss_eqb observed (impl_run e n ops) then (if holds then VOk else VMismatch)
  else if holds then VMismatch
  else VViolation.

(* ----- concurrent bursts ----- *)

Definition started (q : req) : bool :=
  match q_res q with RInProgress | RAlready => false | _ => true end.

Fixpoint calls_of (k : nat) (qs : list req) : list (call lop lres) :=
  match qs with
  | [] => []
  | q :: r =>
    (if started q
     then [mkCall (LBegin k (q_t q)) LStarted (q_inv q) (q_ret q);
           mkCall (LEnd k) (LRes (q_res q)) (q_inv q) (q_ret q)]
     else [mkCall (LBegin k (q_t q)) (LRes (q_res q)) (q_inv q) (q_ret q)])
    ++ calls_of (S k) r
  end.

Definition max_ret (qs : list req) : Z := fold_right (fun q m => Z.max (q_ret q) m) 0%Z qs.

Definition history_of (qs : list req) (final : obs) : list (call lop lres) :=
  calls_of 0 qs ++ [mkCall (LObserve 3) (LObs final) (max_ret qs + 1)%Z (max_ret qs + 2)%Z].

(* the quiescent start state: logged in on server 0 *)
Definition start_state : lst :=
  mkLst start_st [].

Definition overlap (a b : req) : bool := (q_inv a <? q_ret b)%Z && (q_inv b <? q_ret a)%Z.

Fixpoint two_started_overlap (qs : list req) : bool :=
  match qs with
  | [] => false
  | q :: r => (started q && existsb (fun x => started x && overlap q x) r) || two_started_overlap r
  end.

(* at most one connection attempt in flight: no two backend connections of the burst were in their
   login phase at the same time *)
Fixpoint disjoint (l : list (Z * Z)) : bool :=
  match l with
  | [] => true
  | (a, b) :: r => forallb (fun x => (b <? fst x)%Z || (snd x <? a)%Z) r && disjoint r
  end.

Definition judge_con f calls attempts final : verdict :=
  let e := mkEnv f [0] [] in
  let h := history_of calls final in
  if negb (disjoint attempts) then VViolation
  else if check_history (lin_step e) lres_eqb (S (length h)) start_state h then VOk
  else VViolation.

Definition judge (c : case) : verdict :=
  match c with
  | Seq f n _ try scr ops observed => judge_seq f n try scr ops observed
  | Con f calls attempts final => judge_con f calls attempts final
  end.
