(* C03 — per-case judge used by generated case files.
   One case = one primitive (op), one generated value or length prefix, and what the real
   util.WriteX / util.ReadX were observed to do on it.  The models evaluated here are the
   definitions of Model/Prim.v for the code as it is now (impl_X / unprefixed), the ones the
   theorems of Properties/C03.v are about; this file only dispatches on the primitive and injects
   typed values into one universal value type. *)
From Coq Require Import List NArith ZArith Bool.
From Verif Require Import Base.Hex Base.Verdict Model.Prim.
Import ListNotations.
Open Scope N_scope.

(* run of n equal bytes: how the harness prints the long constant stretches of big values *)
Definition rep (n b : N) : bytes := repeat b (N.to_nat n).

(* ---------- universal values ---------- *)

Inductive val := VZ (z : Z) | VBool (b : bool) | VBy (b : bytes) | VL (l : list val).

Fixpoint val_eqb (a b : val) : bool :=
  match a, b with
  | VZ x, VZ y => Z.eqb x y
  | VBool x, VBool y => Bool.eqb x y
  | VBy x, VBy y => beq_bytes x y
  | VL x, VL y =>
    (fix go (x y : list val) : bool :=
       match x, y with
       | [], [] => true
       | a :: x', b :: y' => val_eqb a b && go x' y'
       | _, _ => false
       end) x y
  | _, _ => false
  end.

(* ---------- primitives ---------- *)

Inductive op :=
| OVarInt                       (* WriteVarInt / ReadVarInt *)
| OBool | OU8 | OI8
| OU (w : N)                    (* WriteUint16/32/64, WriteFloat32/64 (bit patterns) / ReadUintK, ReadFloatK; w = 2,4,8 *)
| OI (w : N)                    (* WriteInt16/32/64, WriteInt / ReadIntK, ReadInt *)
| OUUID | OUUIDInts
| OString (max : Z)             (* WriteString / ReadStringMax max *)
| OBytes (max : Z)              (* WriteBytes / ReadBytesLen max *)
| OBytes17 (ext : bool)         (* WriteBytes17 _ ext / ReadBytes17 *)
| OFShort                       (* WriteExtendedForgeShort / ReadExtendedForgeShort *)
| OStrings | OVarInts | OProps | OUTF | OKey | OKeys | OMinKey.

(* value injections *)
Definition as_z (v : val) : option Z := match v with VZ z => Some z | _ => None end.
Definition as_by (v : val) : option bytes := match v with VBy b => Some b | _ => None end.
Definition as_key (v : val) : option key := match v with VL [VBy a; VBy b] => Some (a, b) | _ => None end.
Definition as_prop (v : val) : option property :=
  match v with VL [VBy a; VBy b; VBy c] => Some (a, (b, c)) | _ => None end.
Fixpoint all_some {A} (l : list (option A)) : option (list A) :=
  match l with
  | [] => Some []
  | None :: _ => None
  | Some a :: r => match all_some r with None => None | Some r' => Some (a :: r') end
  end.
Definition as_list {A} (f : val -> option A) (v : val) : option (list A) :=
  match v with VL l => all_some (map f l) | _ => None end.

Definition of_key (k : key) : val := VL [VBy (fst k); VBy (snd k)].
Definition of_prop (p : property) : val := VL [VBy (fst p); VBy (fst (snd p)); VBy (snd (snd p))].

Definition nat_of_w (w : N) : nat := N.to_nat w.

(* WriteX: None when the value has the wrong shape for the op (harness error) *)
Definition enc (o : op) (v : val) : option (res bytes) :=
  match o with
  | OVarInt => option_map (fun z => Ok (write_varint z)) (as_z v)
  | OBool => match v with VBool b => Some (Ok (write_bool b)) | _ => None end
  | OU8 => option_map (fun z => Ok (write_uint8 (Z.to_N z))) (as_z v)
  | OI8 => option_map (fun z => Ok (write_int8 z)) (as_z v)
  | OU w => option_map (fun z => Ok (write_uint (nat_of_w w) (Z.to_N z))) (as_z v)
  | OI w => option_map (fun z => Ok (write_int (nat_of_w w) z)) (as_z v)
  | OUUID => option_map (fun b => Ok (write_uuid b)) (as_by v)
  | OUUIDInts => option_map (fun b => Ok (write_uuid_ints b)) (as_by v)
  | OString _ => option_map (fun b => Ok (write_string b)) (as_by v)
  | OBytes _ => option_map (fun b => Ok (write_bytes b)) (as_by v)
  | OBytes17 ext => option_map (fun b => write_bytes17 ext b) (as_by v)
  | OFShort => option_map (fun z => Ok (impl_write_fshort (Z.to_N z))) (as_z v)
  | OStrings => option_map (fun l => Ok (write_strings l)) (as_list as_by v)
  | OVarInts => option_map (fun l => Ok (write_varint_array l)) (as_list as_z v)
  | OProps => option_map (fun l => Ok (write_properties l)) (as_list as_prop v)
  | OUTF => option_map (fun b => Ok (write_utf b)) (as_by v)
  | OKey => option_map write_key (as_key v)
  | OKeys => option_map write_key_array (as_list as_key v)
  | OMinKey => option_map (fun k => Ok (write_minimal_key k)) (as_key v)
  end.

Definition dec (o : op) : dec_t val :=
  match o with
  | OVarInt => dmap VZ read_varint
  | OBool => dmap VBool read_bool
  | OU8 => dmap (fun n => VZ (Z.of_N n)) read_uint8
  | OI8 => dmap VZ read_int8
  | OU w => dmap (fun n => VZ (Z.of_N n)) (impl_read_uint w)
  | OI w => dmap VZ (read_int w)
  | OUUID => dmap VBy read_uuid
  | OUUIDInts => dmap VBy impl_read_uuid_ints
  | OString max => dmap VBy (read_string_max max)
  | OBytes max => dmap VBy (impl_read_bytes_len max)
  | OBytes17 _ => dmap VBy impl_read_bytes17
  | OFShort => dmap (fun n => VZ (Z.of_N n)) impl_read_fshort
  | OStrings => dmap (fun l => VL (map VBy l)) read_string_array
  | OVarInts => dmap (fun l => VL (map VZ l)) read_varint_array
  | OProps => dmap (fun l => VL (map of_prop l)) impl_read_properties
  | OUTF => dmap VBy impl_read_utf
  | OKey => dmap of_key read_key
  | OKeys => dmap (fun l => VL (map of_key l)) read_key_array
  | OMinKey => dmap of_key impl_read_minimal_key
  end.

(* ---------- domains of the encoders (the dom_T of the theorems, decidable form) ---------- *)

Definition in_range (lo hi : Z) (z : Z) : bool := ((lo <=? z) && (z <? hi))%Z.
Definition wf16 (b : bytes) : bool := (length b =? 16)%nat && wf_bytesb b.
Definition dom_str (max : Z) (b : bytes) : bool := (Z.of_N (len b) <=? max * 4)%Z && (Z.of_N (len b) <? 2 ^ 31)%Z.
Definition dom_key (k : key) : bool :=
  validate_key k && negb (beq_bytes (fst k) []) && dom_str default_max (key_string k).
Definition opt_all {A} (f : A -> bool) (o : option (list A)) : bool :=
  match o with Some l => forallb f l && (Z.of_nat (length l) <? 2 ^ 31)%Z | None => false end.
Definition opt_one {A} (f : A -> bool) (o : option A) : bool := match o with Some a => f a | None => false end.

Definition in_dom (o : op) (v : val) : bool :=
  match o with
  | OVarInt => opt_one (in_range (- 2 ^ 31) (2 ^ 31)) (as_z v)
  | OBool => match v with VBool _ => true | _ => false end
  | OU8 => opt_one (in_range 0 256) (as_z v)
  | OI8 => opt_one (in_range (-128) 128) (as_z v)
  | OU w => opt_one (in_range 0 (2 ^ (8 * Z.of_N w))) (as_z v)
  | OI w => opt_one (in_range (- 2 ^ (8 * Z.of_N w - 1)) (2 ^ (8 * Z.of_N w - 1))) (as_z v)
  | OUUID | OUUIDInts => opt_one wf16 (as_by v)
  | OString max => opt_one (dom_str max) (as_by v)
  | OBytes max => opt_one (fun b => (Z.of_N (len b) <=? max)%Z && (Z.of_N (len b) <? 2 ^ 31)%Z) (as_by v)
  | OBytes17 ext => opt_one (fun b => len b <=? (if ext then forge_max else 32767)) (as_by v)
  | OFShort => opt_one (in_range 0 (2 ^ 23)) (as_z v)
  | OStrings => opt_all (dom_str default_max) (as_list as_by v)
  | OVarInts => opt_all (in_range (- 2 ^ 31) (2 ^ 31)) (as_list as_z v)
  | OProps => opt_all (fun p => dom_str default_max (fst p) && dom_str default_max (fst (snd p))
                                && dom_str default_max (snd (snd p))) (as_list as_prop v)
  | OUTF => opt_one (fun b => len b <? 65536) (as_by v)
  | OKey => opt_one dom_key (as_key v)
  | OKeys => opt_all dom_key (as_list as_key v)
  | OMinKey => opt_one dom_key (as_key v)
  end.

(* ---------- cases ---------- *)

Inductive kind :=
| KRound (rest : bytes)          (* ReadX on (WriteX v ++ rest) *)
| KPrefix (k : N)                (* ReadX on the first k bytes of WriteX v, k < length *)
| KLen (l : Z) (tail : bytes)    (* ReadX on (length prefix l ++ tail) *)
| KRaw (input : bytes).          (* ReadX on arbitrary bytes: no claim of the property, model agreement only *)

Inductive obs :=
| ObsOk (v : val) (consumed : N)
| ObsErr
| ObsPanic.

Record case := mk {
  c_op : op;
  c_kind : kind;
  c_val : val;                   (* the value written (ignored for KLen) *)
  c_enc : option bytes;          (* what WriteX produced; None = it returned an error *)
  c_dec : obs                    (* what ReadX did on the input determined by kind and c_enc *)
}.

(* the length prefix as the format of the op writes it *)
Definition len_header (o : op) (l : Z) : bytes :=
  match o with
  | OBytes17 _ => spec_write_fshort (Z.to_N l)
  | _ => write_varint l
  end.

(* the bytes handed to ReadX; None = the case is malformed *)
Definition input_of (c : case) : option bytes :=
  match c_kind c, c_enc c with
  | KRound rest, Some e => Some (e ++ rest)
  | KRound rest, None => Some rest
  | KPrefix k, Some e => if k <? len e then Some (take k e) else None
  | KPrefix _, None => None
  | KLen l tail, _ => Some (len_header (c_op c) l ++ tail)
  | KRaw input, _ => Some input
  end.

Definition obs_eqb (a b : obs) : bool :=
  match a, b with
  | ObsOk v n, ObsOk w m => val_eqb v w && (n =? m)
  | ObsErr, ObsErr => true
  | ObsPanic, ObsPanic => true
  | _, _ => false
  end.

Definition to_obs (input : bytes) (r : res (val * bytes)) : obs :=
  match r with
  | Ok (v, rest) => ObsOk v (len input - len rest)
  | Err EPanic => ObsPanic
  | Err _ => ObsErr
  end.

Definition enc_agrees (c : case) : bool :=
  match c_kind c with
  | KLen _ _ | KRaw _ => true
  | _ => match enc (c_op c) (c_val c), c_enc c with
         | Some (Ok e), Some e' => beq_bytes e e'
         | Some (Err _), None => true
         | _, _ => false
         end
  end.

Definition agrees (c : case) (input : bytes) : bool :=
  enc_agrees c && obs_eqb (c_dec c) (to_obs input (dec (c_op c) input)).

(* ---------- the property's predicate on one observation ---------- *)

(* the largest acceptable length prefix; None = only negative prefixes are rejected outright *)
Definition limit (o : op) : option Z :=
  match o with
  | OString max => Some (max * 4)%Z
  | OBytes max => Some max
  | OBytes17 _ => Some (Z.of_N forge_max)
  | _ => None
  end.
Definition bad_len (o : op) (l : Z) : bool :=
  (l <? 0)%Z || match limit o with Some m => (m <? l)%Z | None => false end.

Definition holds (c : case) : bool :=
  match c_kind c with
  | KRound _ =>
    if in_dom (c_op c) (c_val c) then
      match c_enc c, c_dec c with
      | Some e, ObsOk v n => val_eqb v (c_val c) && (n =? len e)
      | _, _ => false
      end
    else true
  | KPrefix _ =>
    if in_dom (c_op c) (c_val c) then match c_dec c with ObsErr => true | _ => false end else true
  | KLen l _ =>
    if bad_len (c_op c) l then match c_dec c with ObsErr => true | _ => false end else true
  | KRaw _ => true
  end.

(* ---------- verdict ---------- *)

(* Findings C03-1..5 are repaired in /repo: there is no tolerated deviation any more.  A case on
   which the property's predicate is false is a violation (a recurrence of a repaired defect
   included); the model is the model of today's code. *)
Definition judge (c : case) : verdict :=
  match input_of c with
  | None => VMismatch
  | Some input =>
    if holds c then (if agrees c input then VOk else VMismatch)
    else VViolation
  end.
