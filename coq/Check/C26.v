(* C26 — per-case judge.
   [mk]  dispatch layer: one plugin message through the public bungeecord.NewMessageResponder over fake
         Providers built from the proxy state of the case; observed = Process' result and the effects the
         fakes recorded, in order (EPanic appended if Process panicked).
   [mkA] adapter layer: one well-formed Forward through the real bungee.go adapter over a Proxy holding the
         state of the case (recording connections); observed = every write on every connection. *)
From Coq Require Import List NArith Bool.
From Verif Require Import Base.Hex Base.Verdict Model.Bungee.
Import ListNotations.
Open Scope N_scope.

Inductive case :=
| mk (st : pstate) (req : bytes) (oracle : list (bytes * option bytes)) (channel data : bytes)
     (handled : bool) (obs : list effect)
| mkA (st : pstate) (req : bytes) (target : bytes) (payload : bytes) (obs : list awrite)
| mkH (st : pstate) (req : bytes) (oracle : list (bytes * option bytes)) (channel : bytes)
      (datas : list bytes) (obs : list (bool * list effect))
    (* 2..3 requests through the SAME responder; the byte slices handed to the fake Providers are kept
       uncopied and read only after the last request *)
| mkA2 (st : pstate) (req : bytes) (target : bytes) (payloadA payloadB : bytes) (obs : list awrite).
    (* two Forward requests back to back through the real adapter while every player connection is
       blocked; the connections are released afterwards and serialise what they were given *)

Definition bools : list bool := [false; true].
(* the trees the judge recognises: findings 1 and 6 are repaired in the code (a recurrence is a violation),
   2, 3 and 4 are open and may be repaired independently *)
Definition all_flags : list flags :=
  flat_map (fun b => flat_map (fun c => map (fun d => mkF true b c d true) bools) bools) bools.

(* ---------- adapter layer ---------- *)
Definition beq_awrite (a b : awrite) : bool :=
  beq_bytes (w_player a) (w_player b) && Bool.eqb (w_client a) (w_client b) &&
  beq_bytes (w_channel a) (w_channel b) && beq_bytes (w_data a) (w_data b).
Definition same_writes (a b : list awrite) : bool :=
  (N.of_nat (length a) =? N.of_nat (length b)) &&
  forallb (fun x => existsb (beq_awrite x) b) a && forallb (fun x => existsb (beq_awrite x) a) b.

(* the servers a Forward towards [target] addresses (processForwardToServer) *)
Definition forward_targets (st : pstate) (req : player) (target : bytes) : list bytes :=
  if eq_fold target s_ALL || eq_fold target s_ONLINE then
    map s_name (filter (fun sv => negb (beq_bytes (s_name sv) (cur_server_name req))) (servers st))
  else match find_server (servers st) target with Some sv => [s_name sv] | None => [] end.

Definition on_server (st : pstate) (sv : bytes) (w : awrite) : bool :=
  existsb (fun p => beq_bytes (p_name p) (w_player w)) (players_on st sv).

(* "each target server receives a forwarded payload once": no client ever sees it, every addressed
   server with at least one player gets exactly one copy on one of its backend connections, unchanged
   and with the length-prefixed channel, and nothing else is written anywhere *)
Definition holds_adapter (st : pstate) (req : player) (target payload : bytes) (obs : list awrite) : bool :=
  match prepare_forward all_fixed payload with
  | FSome fw =>
    let tg := filter (fun sv => match players_on st sv with [] => false | _ => true end) (forward_targets st req target) in
    forallb (fun w => negb (w_client w) && beq_bytes (w_data w) fw &&
                      (beq_bytes (w_channel w) s_BungeeCord || beq_bytes (w_channel w) s_bungeecord_main)) obs &&
    forallb (fun sv => N.of_nat (length (filter (on_server st sv) obs)) =? 1) tg &&
    (N.of_nat (length obs) =? N.of_nat (length tg))
  | _ => match obs with [] => true | _ => false end
  end.

Definition impl_adapter (F : flags) (st : pstate) (req : player) (target payload : bytes) : list awrite :=
  match prepare_forward F payload with
  | FSome fw => flat_map (fun sv => impl_adapter_forward st sv fw) (forward_targets st req target)
  | _ => []
  end.

Definition judge_dispatch (st : pstate) (req : player) (oracle : list (bytes * option bytes))
           (ch data : bytes) (o : bool * list effect) : verdict :=
  if beq_result o (spec_bungee st req oracle ch data) then VOk
  else match find (fun F => beq_result o (model F st req oracle ch data)) all_flags with
       | None => VViolation
       | Some F =>
         match read_utf data with
         | None => VViolation
         | Some (name, a) =>
           let s := parse_sub name in
           (* the recorded defect that explains the difference: the highest-numbered unrepaired one in whose trigger class the request lies *)
           if negb (f4 F) && trigger4 oracle s a then VKnown 4
           else if negb (f3 F) && trigger3 st s a then VKnown 3
           else if negb (f2 F) && trigger2 st s a then VKnown 2
           else VViolation
         end
       end.

Definition worse (a b : verdict) : verdict :=
  match a, b with
  | VViolation, _ | _, VViolation => VViolation
  | VMismatch, _ | _, VMismatch => VMismatch
  | VKnown k, _ => VKnown k
  | VOk, x => x
  end.

Fixpoint judge_history (st : pstate) (req : player) (oracle : list (bytes * option bytes)) (ch : bytes)
         (ds : list bytes) (obs : list (bool * list effect)) : verdict :=
  match ds, obs with
  | [], [] => VOk
  | d :: ds', o :: obs' => worse (judge_dispatch st req oracle ch d o) (judge_history st req oracle ch ds' obs')
  | _, _ => VViolation
  end.

Definition has_data (d : bytes) (w : awrite) : bool := beq_bytes (w_data w) d.

Definition judge (c : case) : verdict :=
  match c with
  | mk st reqn oracle ch data h obs =>
    match find_player (players st) reqn with
    | None => VMismatch
    | Some req => judge_dispatch st req oracle ch data (h, obs)
    end
  | mkH st reqn oracle ch ds obs =>
    match find_player (players st) reqn with
    | None => VMismatch
    | Some req => judge_history st req oracle ch ds obs
    end
  | mkA st reqn target payload obs =>
    match find_player (players st) reqn with
    | None => VMismatch
    | Some req =>
      if holds_adapter st req target payload obs then VOk
      else if same_writes obs (impl_adapter current st req target payload)
      then VKnown 5 else VViolation
    end
  | mkA2 st reqn target pa pb obs =>
    match find_player (players st) reqn with
    | None => VMismatch
    | Some req =>
      match prepare_forward all_fixed pa, prepare_forward all_fixed pb with
      | FSome fa, FSome fb =>
        (* each addressed server gets A once and B once, and nothing else is written *)
        if holds_adapter st req target pa (filter (has_data fa) obs) &&
           holds_adapter st req target pb (filter (has_data fb) obs) &&
           (N.of_nat (length (filter (has_data fa) obs)) + N.of_nat (length (filter (has_data fb) obs)) =? N.of_nat (length obs)) &&
           negb (beq_bytes fa fb)
        then VOk
        else if same_writes obs (impl_adapter current st req target pa ++ impl_adapter current st req target pb)
        then VKnown 5 else VViolation
      | _, _ => VMismatch
      end
    end
  end.
