(* C04 - per-case judge.
   A case is one observed triple for one registered packet type at one (protocol, direction):
     bytes1 = Encode(v);  Decode(bytes1) -> packet or error, with the bytes left unread;
     bytes2 = Encode(Decode(bytes1));  plus field dumps of v and of the decoded packet.
   holds_C04 is the property's predicate on the observation; for fragment types the layout model
   (Gen.PacketLayouts, translated from the Go source) must reproduce bytes1 from the field values
   and decode them back. *)
From Coq Require Import List NArith ZArith String Bool.
From Verif Require Import Base.Hex Base.Verdict Model.Layout Model.LayoutPrims Model.AvailCmds Gen.PacketLayouts.
Import ListNotations.
Open Scope Z_scope.

(* ---------- field dumps (reflection over the Go struct, harness/cmd/c04) ---------- *)
Inductive fval :=
| FZ (z : Z)                           (* integer kinds, float bit patterns, time.Time as UnixMilli *)
| FB (b : bool)
| FBy (b : bytes)                      (* string, []byte *)
| FU (b : bytes)                       (* uuid.UUID *)
| FO (o : option fval)                 (* pointer / interface: nil or value *)
| FL (l : list fval)                   (* slice *)
| FS (fields : list (string * fval))   (* struct (embedded structs flattened) *)
| FX.                                  (* a kind the dump does not carry *)

Fixpoint assoc (k : string) (l : list (string * fval)) : option fval :=
  match l with
  | [] => None
  | (k', v) :: r => if String.eqb k k' then Some v else assoc k r
  end.

(* pointers are transparent for navigation *)
Fixpoint deref (fuel : nat) (v : fval) : fval :=
  match fuel, v with
  | S f, FO (Some x) => deref f x
  | _, _ => v
  end.

Fixpoint nav (p : list string) (v : fval) : option fval :=
  match p with
  | [] => Some v
  | k :: r =>
      match deref 4 v with
      | FS fs => match assoc k fs with Some x => nav r x | None => None end
      | _ => None
      end
  end.

(* bindings: the root value under [], the current element of a repeated field p under p ++ ["#"] *)
Definition binds := list (list string * fval).

Fixpoint strip_prefix (pre p : list string) : option (list string) :=
  match pre, p with
  | [], _ => Some p
  | x :: pre', y :: p' => if String.eqb x y then strip_prefix pre' p' else None
  | _, [] => None
  end.

(* innermost binding first *)
Fixpoint lookup (bs : binds) (p : list string) : option fval :=
  match bs with
  | [] => None
  | (pre, v) :: r =>
      match strip_prefix pre p with
      | Some rest => nav rest v
      | None => lookup r p
      end
  end.

Definition all_zero (b : bytes) : bool := forallb (fun x => (x =? 0)%N) b.

(* "present / non-zero" as the Go predicates p.F != nil, len(p.F) > 0, p.F != "", p.F != uuid.Nil *)
Definition has (v : option fval) : bool :=
  match v with
  | Some (FO (Some _)) => true
  | Some (FBy b) => negb (match b with [] => true | _ => false end)
  | Some (FU u) => negb (all_zero u)
  | Some (FZ z) => negb (z =? 0)
  | Some (FL l) => negb (match l with [] => true | _ => false end)
  | Some (FB b) => b
  | _ => false
  end.

(* ---- pure normalisers named in layouts (FFun) ---- *)
Definition contains_colon (s : bytes) : bool := existsb (fun c => (c =? 58)%N) s.
Definition lower (c : N) : N := if ((65 <=? c) && (c <=? 90))%N then (c + 32)%N else c.
(* plugin.TransformLegacyToModernChannel; InvalidIdentifierRegex = [^a-z0-9\-_]* removed after lower-casing *)
Definition chan_ok (c : N) : bool :=
  ((97 <=? c) && (c <=? 122) || (48 <=? c) && (c <=? 57) || (c =? 45) || (c =? 95) || (c =? 92))%N.
Definition transform_channel (s : bytes) : bytes :=
  if contains_colon s then s
  else if beq_bytes s (tx "REGISTER") then tx "minecraft:register"
  else if beq_bytes s (tx "UNREGISTER") then tx "minecraft:unregister"
  else if beq_bytes s (tx "MC|Brand") then tx "minecraft:brand"
  else if beq_bytes s (tx "BungeeCord") then tx "bungeecord:main"
  else (tx "legacy:" ++ filter chan_ok (map lower s))%list.

Definition apply_fun (fn : string) (v : fval) : option fval :=
  if String.eqb fn "TransformLegacyToModernChannel" then
    match v with FBy s => Some (FBy (transform_channel s)) | _ => None end
  else None.

Fixpoint eval_bool (bs : binds) (f : fexpr) : option bool :=
  match f with
  | FPath p => match lookup bs p with Some v => match deref 4 v with FB b => Some b | _ => None end | None => None end
  | FHas p => Some (has (lookup bs p))
  | FNeg g => match eval_bool bs g with Some b => Some (negb b) | None => None end
  | _ => None
  end.

Definition atom_of (v : fval) : option atom :=
  match deref 4 v with
  | FZ z => Some (AZ z)
  | FB b => Some (ABool b)
  | FBy b => Some (ABytes b)
  | FU b => Some (ABytes b)
  | _ => None
  end.

Definition eval_atom (bs : binds) (f : fexpr) : option atom :=
  match f with
  | FPath p => match lookup bs p with Some v => atom_of v | None => None end
  | FFun fn p => match lookup bs p with
                 | Some v => match apply_fun fn (deref 4 v) with Some w => atom_of w | None => None end
                 | None => None
                 end
  | FHas _ | FNeg _ => match eval_bool bs f with Some b => Some (ABool b) | None => None end
  | FAnon => None
  end.

Fixpoint all_some {A} (l : list (option A)) : option (list A) :=
  match l with
  | [] => Some []
  | Some x :: r => match all_some r with Some t => Some (x :: t) | None => None end
  | None :: _ => None
  end.

Definition path_of (f : fexpr) : option (list string) :=
  match f with FPath p => Some p | _ => None end.

(* the value tree a field dump denotes under a layout at a context *)
Fixpoint tree (l : L) (c : ctx) (bs : binds) : option value :=
  match l with
  | Layout.LEnd => Some VUnit
  | Layout.LPrim f _ => match eval_atom bs f with Some a => Some (VAtom a) | None => None end
  | Layout.LSeq a b =>
      match tree a c bs, tree b c bs with
      | Some x, Some y => Some (VPair x y)
      | _, _ => None
      end
  | Layout.LVer g a b => if eval_guard g c then tree a c bs else tree b c bs
  | Layout.LOpt f a b =>
      match eval_bool bs f with
      | Some true => match tree a c bs with Some x => Some (VFlag true x) | None => None end
      | Some false => match tree b c bs with Some x => Some (VFlag false x) | None => None end
      | None => None
      end
  | Layout.LRep f _ a =>
      match path_of f with
      | None => None
      | Some p =>
          match lookup bs p with
          | Some v =>
              match deref 4 v with
              | FL elems =>
                  match all_some (map (fun e => tree a c (((p ++ ["#"%string])%list, e) :: bs)) elems) with
                  | Some vs => Some (VList vs)
                  | None => None
                  end
              | FO None => Some (VList [])
              | _ => None
              end
          | None => None
          end
      end
  | Layout.LRest f _ =>
      match eval_atom bs f with
      | Some (ABytes b) => Some (VAtom (ABytes b))
      | _ => None
      end
  | Layout.LConst _ _ => Some VUnit
  | Layout.LTag f _ a =>
      match eval_atom bs f with
      | Some (AZ z) => match tree a (set_tag c z) bs with Some x => Some (VPair (VAtom (AZ z)) x) | None => None end
      | _ => None
      end
  | Layout.LSel k a b => if ctag c =? k then tree a c bs else tree b c bs
  | Layout.LFail => None
  end.

(* ---------- structural equality of value trees ---------- *)
Fixpoint value_eqb (a b : value) : bool :=
  match a, b with
  | VUnit, VUnit => true
  | VAtom x, VAtom y => atom_eqb x y
  | VPair x1 y1, VPair x2 y2 => value_eqb x1 x2 && value_eqb y1 y2
  | VFlag f1 x1, VFlag f2 x2 => Bool.eqb f1 f2 && value_eqb x1 x2
  | VList l1, VList l2 =>
      (fix go (l1 l2 : list value) : bool :=
         match l1, l2 with
         | [], [] => true
         | x :: r1, y :: r2 => value_eqb x y && go r1 r2
         | _, _ => false
         end) l1 l2
  | _, _ => false
  end.

(* ---------- cases ---------- *)
Inductive outcome :=
| DecOk (left : N)        (* Decode returned nil; bytes left unread *)
| DecEOF (left : N)       (* Decode returned io.EOF / io.ErrUnexpectedEOF *)
| DecErr.                 (* any other error *)

Record case := mk {
  tname : string;          (* reflect type name, e.g. "packet.Handshake" *)
  cv : Z;                  (* protocol *)
  cb : bool;               (* clientbound *)
  env1 : fval;             (* dump of the value given to Encode (FX when not dumped) *)
  bytes1 : bytes;          (* Encode(v) *)
  dec : outcome;           (* Decode(bytes1) through bytes.Reader, as decodePayload does *)
  env2 : fval;             (* dump of the decoded packet (FX when not dumped / decode failed) *)
  bytes2 : option bytes;   (* Encode(decoded) when decoding succeeded *)
  (* AvailableCommands only: the command graph handed to Encode and the graph Decode built, as node tables
     (numbered by the harness's own walk from the root: children by name, then the redirect) *)
  cmds : option ((list node * N) * option (list node * N))
}.

Fixpoint find_entry (n : string) (es : list entry) : option entry :=
  match es with
  | [] => None
  | e :: r =>
      match e with
      | Fragment m _ _ _ => if String.eqb n m then Some e else find_entry n r
      | Opaque m _ _ => if String.eqb n m then Some e else find_entry n r
      end
  end.

Definition bytes_roundtrip (c : case) : bool :=
  match dec c, bytes2 c with
  | DecOk 0%N, Some b2 => beq_bytes b2 (bytes1 c)
  | _, _ => false
  end.

(* All four findings once recorded for C04 are repaired in the code (known_findings.jsonl: fixed) - Handshake port
   sign 84c239a, empty trailing byte array 4d8a5a4, 1.7 one-byte array length 6e760d1, tab-complete tooltip leak
   a6ee6ec.  The judge knows no exception any more: a recurrence of any of them is a violation. *)
(* AvailableCommands: the decoded GRAPH must equal the original one (the byte comparison cannot see a node that
   was never serialised); the reference wire decoder must see the same graph in the bytes *)
Definition judge_cmds (c : case) (orig : list node * N) (dec : option (list node * N)) : verdict :=
  if negb (bytes_roundtrip c) then VViolation else
  match dec with
  | None => VViolation
  | Some (dt, dr) =>
      if negb (same_graph (fst orig) (snd orig) dt dr) then VViolation
      else match decode_wire (cv c) (bytes1 c) with
           | None => VMismatch
           | Some (wt, wr) => if same_graph wt wr (fst orig) (snd orig) then VOk else VMismatch
           end
  end.

Definition judge_packet (c : case) : verdict :=
  let ctx := mkctx (cv c) (cb c) in
  match find_entry (tname c) packets with
  | None => VMismatch                       (* a registered type the translator did not see *)
  | Some (Opaque _ _ _) => if bytes_roundtrip c then VOk else VViolation
  | Some (Fragment _ enc decl _) =>
      match tree enc ctx [([], env1 c)] with
      | None => VMismatch                   (* dump does not fit the layout: translator / harness disagree *)
      | Some t1 =>
          let model_enc := match enc_L LP enc ctx t1 with Ok b => beq_bytes b (bytes1 c) | Err _ => false end in
          let model_dec := match dec_L LP decl ctx (bytes1 c) with
                           | Ok (t, []) => value_eqb t t1
                           | _ => false end in
          let values_same := match tree decl ctx [([], env2 c)] with
                             | Some t2 => value_eqb t2 t1
                             | None => false end in
          if bytes_roundtrip c && values_same then
            (if model_enc && model_dec then VOk else VMismatch)
          else if negb model_enc then VMismatch      (* cannot even explain the encoding: model problem first *)
          else VViolation
      end
  end.

Definition judge (c : case) : verdict :=
  match cmds c with
  | Some (orig, dec) => judge_cmds c orig dec
  | None => judge_packet c
  end.
