(* C15 - per-case judge.  One case = one direction of one end-to-end run: the payload stream the
   harness sent on one side of a real proxy (player in play) and the stream that arrived on the other.

   Transport: every payload travels as a "repr": the payload itself when it is at most 40 bytes long,
   otherwise its first 8 bytes followed by its SHA-256 (computed by the harness); in both cases followed
   by the payload length as 4 big-endian bytes.  The packet id VarInt is inside the first 5 bytes, so
   the model's dispatch (Model.Relay.relay_payloads) runs on reprs exactly as on payloads.  All reprs of
   a side are concatenated into one blob; [*_lens] holds the payload lengths. *)
From Coq Require Import List NArith ZArith Bool.
From Verif Require Import Base.Hex Base.Verdict Base.VarInt Model.Relay.
Import ListNotations.
Open Scope N_scope.

Inductive case :=
| mk (ver : N)                 (* protocol number of the client *)
     (serverbound : bool)      (* true: client -> backend, false: backend -> client *)
     (ta : Z)                  (* compression threshold of the sending side's connection (-1 = off) *)
     (tb : Z)                  (* threshold of the receiving side's connection *)
     (known : table)           (* ids gate's registry knows for (Play, direction, ver) and what the handler does *)
     (sent_lens : list N) (sent_blob : bytes)
     (recv_lens : list N) (recv_blob : bytes)
(* A long stream through one proxy process (tens of thousands of packets), compared in Go packet by
   packet on (index, length, SHA-256); only a summary travels: the distinct packet ids that were used
   (checked here to be pass-through), the counts, a running SHA-256 over all (index, length, digest)
   triples of each side, and - if the streams differ - the index of the first differing packet with
   the expected / received lengths and leading bytes (for the replay). *)
| long (ver : N) (serverbound : bool) (ta tb : Z) (known : table) (ids : list N)
       (n_sent n_recv : N) (digest_sent digest_recv : bytes)
       (first_diff : option N) (exp_len act_len : N) (exp_head act_head : bytes).

Definition rlen (n : N) : nat := N.to_nat ((if n <=? 40 then n else 40) + 4).

Fixpoint split (lens : list N) (blob : bytes) : option (list bytes) :=
  match lens with
  | [] => match blob with [] => Some [] | _ => None end
  | n :: r =>
    let k := rlen n in
    if Nat.ltb (length blob) k then None
    else match split r (skipn k blob) with
         | Some l => Some (firstn k blob :: l)
         | None => None
         end
  end.

Fixpoint beq_list (a b : list bytes) : bool :=
  match a, b with
  | [], [] => true
  | x :: a', y :: b' => beq_bytes x y && beq_list a' b'
  | _, _ => false
  end.

(* the harness only sends packets whose fate the model fixes: pass-through ones and swallowed ones *)
Definition in_model (t : table) (p : bytes) : bool :=
  match classify t p with
  | None | Some KForward | Some KDrop => true
  | Some KIntercept => false
  end.

Definition judge_run (known : table) (sent_lens : list N) (sent_blob : bytes)
           (recv_lens : list N) (recv_blob : bytes) : verdict :=
  match split sent_lens sent_blob, split recv_lens recv_blob with
  | Some s, Some r =>
    if forallb (in_model known) s then
      (* the model: dispatch of Model.Relay with handlers that write nothing (KDrop) *)
      let expected := relay_payloads known (fun _ => []) s in
      if beq_list expected r then VOk else VViolation
    else VMismatch
  | _, _ => VMismatch
  end.

(* every id of the long stream is pass-through, so the model's relay is the identity on it
   (Properties.C15.C15_dispatch_identity): received must equal sent *)
Definition judge_long (known : table) (ids : list N) (n_sent n_recv : N)
           (digest_sent digest_recv : bytes) (first_diff : option N) : verdict :=
  if forallb (fun id => match lookup id known with None | Some KForward => true | _ => false end) ids then
    match first_diff with
    | None => if (n_sent =? n_recv) && beq_bytes digest_sent digest_recv then VOk else VViolation
    | Some _ => VViolation
    end
  else VMismatch.

Definition judge (c : case) : verdict :=
  match c with
  | mk _ _ _ _ known sl sb rl rb => judge_run known sl sb rl rb
  | long _ _ _ _ known ids ns nr ds dr fd _ _ _ _ => judge_long known ids ns nr ds dr fd
  end.
