(* C15 - per-case judge.  One case = one direction of one end-to-end run: the payload stream the
   harness sent on one side of a real proxy (player in play) and the stream that arrived on the other.

   Transport: every payload travels as a "repr": the payload itself when it is at most 40 bytes long,
   otherwise its first 8 bytes followed by its SHA-256 (computed by the harness); in both cases followed
   by the payload length as 4 big-endian bytes.  The packet id VarInt is inside the first 5 bytes, so
   the model's dispatch (Model.Relay.relay_payloads) runs on reprs exactly as on payloads.  All reprs of
   a side are concatenated into one blob; [*_lens] holds the payload lengths. *)
From Coq Require Import List NArith ZArith Bool.
From Verif Require Import Base.Hex Base.Verdict Base.VarInt Model.Relay.
Import ListNotations.
Open Scope N_scope.

Record case := mk {
  ver : N;                 (* protocol number of the client *)
  serverbound : bool;      (* true: client -> backend, false: backend -> client *)
  ta : Z;                  (* compression threshold of the sending side's connection (-1 = off) *)
  tb : Z;                  (* threshold of the receiving side's connection *)
  known : table;           (* ids gate's registry knows for (Play, direction, ver) and what the handler does *)
  sent_lens : list N; sent_blob : bytes;
  recv_lens : list N; recv_blob : bytes
}.

Definition rlen (n : N) : nat := N.to_nat ((if n <=? 40 then n else 40) + 4).

Fixpoint split (lens : list N) (blob : bytes) : option (list bytes) :=
  match lens with
  | [] => match blob with [] => Some [] | _ => None end
  | n :: r =>
    let k := rlen n in
    if Nat.ltb (length blob) k then None
    else match split r (skipn k blob) with
         | Some l => Some (firstn k blob :: l)
         | None => None
         end
  end.

Fixpoint beq_list (a b : list bytes) : bool :=
  match a, b with
  | [], [] => true
  | x :: a', y :: b' => beq_bytes x y && beq_list a' b'
  | _, _ => false
  end.

(* the harness only sends packets whose fate the model fixes: pass-through ones and swallowed ones *)
Definition in_model (t : table) (p : bytes) : bool :=
  match classify t p with
  | None | Some KForward | Some KDrop => true
  | Some KIntercept => false
  end.

Definition judge (c : case) : verdict :=
  match split (sent_lens c) (sent_blob c), split (recv_lens c) (recv_blob c) with
  | Some s, Some r =>
    if forallb (in_model (known c)) s then
      (* the model: dispatch of Model.Relay with handlers that write nothing (KDrop) *)
      let expected := relay_payloads (known c) (fun _ => []) s in
      if beq_list expected r then VOk else VViolation
    else VMismatch
  | _, _ => VMismatch
  end.
