(* C16 - model of server switching for one player.

   Go code mirrored (pkg/edition/java/proxy):
     switch.go   connectionRequest.checkServer / internalConnect / connect / ConnectWithIndication /
                 resetIfInFlightIs, connectedPlayer.handleConnectionErr(2) / handleKickEvent /
                 handleDisconnectWithReason
     player.go   connectedPlayer.nextServerToTry / setConnectedServer / teardown
     server.go   serverConnection.connect / disconnect
     session_backend_login.go       handleServerLoginSuccess (1.20.2+: doSwitch at login success),
                                    handleDisconnect, Disconnected
     session_backend_config.go      Disconnect case (disconnect() first, so the request sees the
                                    "unexpectedly disconnected" error, not the kick)
     session_backend_transition.go  handleJoinGame (old connection disconnected, list add, setConnectedServer),
                                    handleDisconnect
     session_backend_play.go        Activated (players.add) / Disconnected (players.remove, failover) /
                                    handleDisconnect
     session_client_play.go         doSwitch
     session_client_auth.go         connectToInitialServer

   Part 1: atomic steps on the player state.
   Baseline: /repo after the fix commits e5fee55 (C16-1: checkAndSetInFlight - the last check and
   setInFlightConnection share one critical section) and 8f6edb6 (C16-2: connect() no longer calls
   resetInFlightConnection after a refusal).
   Part 2: sequential semantics of one history of operations (what the E2E harness runs).  [spec_run]
           is what the property demands (refusals have no side effects), [impl_run] is today's code
           (the same function: the repaired connect() has no reset any more), [prefix_run] is the code
           BEFORE 8f6edb6 (a raw Connect refused as InProgress / AlreadyConnected cleared the in-flight
           slot).
   Part 3: small-step request threads for Base/Conc.v (all schedules) and the step functions for
           Base/Lin.v (concurrent histories): spec_request (check and set in one critical section),
           impl_request (today's code: two unlocked preliminary checkServer calls, then
           checkAndSetInFlight), prefix_request (the code BEFORE e5fee55 / 8f6edb6: check and set in
           separate critical sections, reset after a refusal).
   Executable definitions only; proofs are in Proofs/C16.v. *)
From Coq Require Import List Arith Bool ZArith.
Import ListNotations.

(* ---------- vocabulary ---------- *)

(* what a backend does with one connection attempt *)
Inductive behaviour := BAccept | BRefuse | BKickLogin | BKickConfig | BKickPlay | BStall.

(* client family: before 1.20.2 / with the configuration phase *)
Inductive family := FamA | FamB.

Inductive res :=
| RSuccess | RAlready | RInProgress | RCanceled | RKicked   (* ConnectionResult statuses *)
| RErr                                                       (* Connect returned an error *)
| RTrue | RFalse                                             (* ConnectWithIndication *)
| RSkipped                                                   (* operation not applicable (player gone / no current server) *)
| RNone.                                                     (* operation without a result (login, kick, drop) *)

Definition res_eqb (a b : res) : bool :=
  match a, b with
  | RSuccess, RSuccess | RAlready, RAlready | RInProgress, RInProgress | RCanceled, RCanceled
  | RKicked, RKicked | RErr, RErr | RTrue, RTrue | RFalse, RFalse | RSkipped, RSkipped | RNone, RNone => true
  | _, _ => false
  end.

(* a backend connection: server index and the number of the attempt on that server *)
Record conn := mkConn { c_srv : nat; c_no : nat }.
Definition conn_eqb (a b : conn) : bool := (c_srv a =? c_srv b) && (c_no a =? c_no b).

Definition oconn_eqb (a b : option conn) : bool :=
  match a, b with
  | Some x, Some y => conn_eqb x y
  | None, None => true
  | _, _ => false
  end.

Record st := mkSt {
  cur : option conn;        (* connectedPlayer.connectedServer_ *)
  flight : option conn;     (* connectedPlayer.connInFlight *)
  lists : list nat;         (* servers whose players set contains the player *)
  opened : list conn;       (* backend connections that are open *)
  tryi : nat;               (* connectedPlayer.tryIndex *)
  alive : bool;             (* client connection not closed (Player.Active) *)
  attempts : list nat       (* per server: connections accepted so far *)
}.

Definition init_st : st := mkSt None None [] [] 0 true [].

Record env := mkEnv {
  fam : family;
  try_list : list nat;                 (* config.Try as server indices; every entry is registered *)
  scripts : list (list behaviour)      (* per server, per attempt; missing = accept *)
}.

Definition script (e : env) (t n : nat) : behaviour := nth n (nth t (scripts e) []) BAccept.

(* ---------- Part 1: atomic steps ---------- *)

Definition set_cur (c : option conn) (s : st) : st :=
  mkSt c (flight s) (lists s) (opened s) (tryi s) (alive s) (attempts s).
Definition set_flight (f : option conn) (s : st) : st :=
  mkSt (cur s) f (lists s) (opened s) (tryi s) (alive s) (attempts s).
Definition set_tryi (i : nat) (s : st) : st :=
  mkSt (cur s) (flight s) (lists s) (opened s) i (alive s) (attempts s).

Definition remove_conn (c : conn) (l : list conn) : list conn := filter (fun x => negb (conn_eqb x c)) l.
Definition remove_nat (n : nat) (l : list nat) : list nat := filter (fun x => negb (x =? n)) l.
Definition add_nat (n : nat) (l : list nat) : list nat := if existsb (Nat.eqb n) l then l else n :: l.

Fixpoint bump (t : nat) (l : list nat) : list nat :=
  match t, l with
  | O, [] => [1]
  | O, n :: r => S n :: r
  | S t', [] => 0 :: bump t' []
  | S t', n :: r => n :: bump t' r
  end.

(* serverConnection.dial succeeded: the backend accepted a new connection *)
Definition open_conn (t : nat) (s : st) : st * conn :=
  let c := mkConn t (nth t (attempts s) 0) in
  (mkSt (cur s) (flight s) (lists s) (c :: opened s) (tryi s) (alive s) (bump t (attempts s)), c).

(* serverConnection.disconnect on a connection that is not in play (login / configuration / transition
   handler): the socket is closed, no list is touched *)
Definition close_plain (c : conn) (s : st) : st :=
  mkSt (cur s) (flight s) (lists s) (remove_conn c (opened s)) (tryi s) (alive s) (attempts s).

(* serverConnection.disconnect on a connection whose backendPlaySessionHandler is active:
   closeKnown runs Disconnected() synchronously, which removes the player from the server's list *)
Definition close_joined (c : conn) (s : st) : st :=
  mkSt (cur s) (flight s) (remove_nat (c_srv c) (lists s)) (remove_conn c (opened s)) (tryi s) (alive s) (attempts s).

(* checkServer: None = may proceed *)
Definition check_server (s : st) (t : nat) : option res :=
  match flight s with
  | Some _ => Some RInProgress
  | None =>
    match cur s with
    | Some c => if c_srv c =? t then Some RAlready else None
    | None => None
    end
  end.

(* handleJoinGame ... setConnectedServer: the existing connection is taken out of connectedServer_ and
   disconnected, the new play handler adds the player to its server's list, then the new connection
   becomes current (tryIndex reset, in-flight slot cleared if it is this connection) *)
Definition join (c : conn) (s : st) : st :=
  let s1 := match cur s with
            | Some ex => close_joined ex (set_cur None s)
            | None => s
            end in
  mkSt (Some c)
       (if oconn_eqb (flight s1) (Some c) then None else flight s1)
       (add_nat (c_srv c) (lists s1)) (opened s1) 0 (alive s1) (attempts s1).

(* clientPlaySessionHandler.doSwitch (1.20.2+, at the new backend's login success):
   setConnectedServer(nil) (which also resets tryIndex), existing.disconnect() *)
Definition do_switch (s : st) : st :=
  match cur s with
  | Some ex => close_joined ex (set_tryi 0 (set_cur None s))
  | None => s
  end.

Inductive outcome := OutSuccess | OutErr | OutKicked.

(* resetIfInFlightIs(conn) *)
Definition reset_if_flight (c : conn) (s : st) : st :=
  if oconn_eqb (flight s) (Some c) then set_flight None s else s.

(* internalConnect after the checks: setInFlightConnection; conn.connect(ctx) up to its result;
   deferred resetIfInFlightIs.  The backend's script decides how far the attempt gets. *)
Definition attempt (e : env) (t : nat) (s : st) : st * outcome :=
  let '(s1, c) := open_conn t s in
  let s2 := set_flight (Some c) s1 in
  let sw (x : st) := match fam e with FamB => do_switch x | FamA => x end in
  match script e t (c_no c) with
  | BRefuse => (reset_if_flight c (close_plain c s2), OutErr)       (* closed before login: Disconnected() -> error *)
  | BStall => (reset_if_flight c (close_plain c s2), OutErr)        (* context deadline -> error, disconnect *)
  | BKickLogin => (reset_if_flight c (close_plain c s2), OutKicked)
  | BKickConfig =>
    match fam e with
    | FamB => (reset_if_flight c (close_plain c (sw s2)), OutErr)   (* config handler: disconnect() first -> error wins *)
    | FamA => (reset_if_flight c (close_plain c s2), OutKicked)     (* no configuration phase: a play kick *)
    end
  | BKickPlay => (reset_if_flight c (close_plain c (sw s2)), OutKicked)
  | BAccept => (reset_if_flight c (join c (sw s2)), OutSuccess)
  end.

Definition res_of (o : outcome) : res :=
  match o with OutSuccess => RSuccess | OutErr => RErr | OutKicked => RKicked end.

Definition srv_is (o : option conn) (x : nat) : bool :=
  match o with Some c => c_srv c =? x | None => false end.
Definition onat_is (o : option nat) (x : nat) : bool :=
  match o with Some y => y =? x | None => false end.

(* nextServerToTry(current): scan serversToTry from tryIndex, skip the connected, the in-flight and the
   given server; the first other entry becomes tryIndex and is returned *)
Fixpoint scan (l : list nat) (i : nat) (excl : nat -> bool) : option (nat * nat) :=
  match l with
  | [] => None
  | x :: r => if excl x then scan r (S i) excl else Some (i, x)
  end.

Definition next_server_to_try (e : env) (s : st) (current : option nat) : st * option nat :=
  let excl x := srv_is (cur s) x || srv_is (flight s) x || onat_is current x in
  match scan (skipn (tryi s) (try_list e)) (tryi s) excl with
  | Some (i, x) => (set_tryi i s, Some x)
  | None => (s, None)
  end.

(* Player.Disconnect -> connection closed -> teardown: in-flight and current connections disconnected *)
Definition kill (s : st) : st :=
  let s1 := match flight s with Some c => close_plain c s | None => s end in
  let s2 := match cur s1 with Some c => close_joined c s1 | None => s1 end in
  mkSt None None (lists s2) (opened s2) (tryi s2) false (attempts s2).

(* handleConnectionErr2(rs, safe = true) + handleKickEvent, entered after a failed attempt on rs or
   after the current backend rs kicked / lost the player.  Fuel bounds the walk through the try list
   (the cursor only moves forward, so length try_list + 1 is enough). *)
Fixpoint recover (fuel : nat) (e : env) (rs : nat) (s : st) : st :=
  match fuel with
  | O => s
  | S f =>
    if negb (alive s) then s
    else
      let kicked_from_current := match cur s with None => true | Some c => c_srv c =? rs end in
      if kicked_from_current then
        let '(s1, nx) := next_server_to_try e s (Some rs) in
        match nx with
        | None => kill (set_cur None (set_flight None s1))           (* DisconnectPlayerKickResult *)
        | Some t =>                                                   (* RedirectPlayerKickResult *)
          let s2 := set_cur None (set_flight None s1) in
          match check_server s2 t with
          | Some _ => s2
          | None =>
            let '(s3, o) := attempt e t s2 in
            match o with
            | OutSuccess => s3
            | _ => recover f e t s3
            end
          end
        end
      else set_flight None s                                          (* NotifyKickResult: a chat message *)
  end.

Definition fuel_of (e : env) : nat := S (S (length (try_list e))).

(* ---------- Part 2: one history ---------- *)

Inductive op :=
| OConnect (t : nat)                    (* CreateConnectionRequest(t).Connect(ctx) *)
| OConnectInd (t : nat)                 (* ... .ConnectWithIndication(ctx) *)
| OKick                                 (* the current backend sends Disconnect in play *)
| ODrop                                 (* the current backend closes the connection *)
| ODuring (z : nat) (inner : list (bool * nat))
  (* Connect(z) to a backend that never answers; while it is in flight the inner requests are issued
     one after the other (true = ConnectWithIndication); then the outer request times out *)
| OConnectSnap (prev : option nat) (t : nat).
  (* Connect() on a request OBJECT that was created earlier: [prev] is the snapshot the object
     carries (connectionRequest.previousServer = the player's server when CreateConnectionRequest
     ran, None before the first join).  The code uses it for events and logging only; what happens
     is decided by the player's state when the request runs. *)

Record obs := mkObs {
  o_res : list res;
  o_cur : option nat;
  o_lists : list bool;       (* per server: Players() contains the player *)
  o_open : list nat;         (* per server: open backend connections *)
  o_alive : bool
}.

Definition count_srv (x : nat) (l : list conn) : nat := length (filter (fun c => c_srv c =? x) l).

Definition observe (n : nat) (rs : list res) (s : st) : obs :=
  mkObs rs (option_map c_srv (cur s))
        (map (fun x => existsb (Nat.eqb x) (lists s)) (seq 0 n))
        (map (fun x => count_srv x (opened s)) (seq 0 n))
        (alive s).

(* [strict] = true: a refused request has no side effect (the specification, and the code since
   8f6edb6); false: the code before that fix (connect() reset the in-flight slot on every unsuccessful
   status). *)
Definition connect_raw (strict : bool) (e : env) (t : nat) (s : st) : st * res :=
  match check_server s t with
  | Some r => (if strict then s else set_flight None s, r)
  | None => let '(s1, o) := attempt e t s in (s1, res_of o)
  end.

Definition connect_ind (e : env) (t : nat) (s : st) : st * res :=
  match check_server s t with
  | Some _ => (s, RFalse)                       (* a chat message, nothing else *)
  | None =>
    let '(s1, o) := attempt e t s in
    match o with
    | OutSuccess => (s1, RTrue)
    | _ => (recover (fuel_of e) e t s1, RFalse)
    end
  end.

(* connectToInitialServer *)
Definition login (e : env) (s : st) : st :=
  let '(s1, nx) := next_server_to_try e s None in
  match nx with
  | None => kill s1
  | Some t => fst (connect_ind e t s1)
  end.

Fixpoint run_inner (strict : bool) (e : env) (inner : list (bool * nat)) (s : st) : st * list res :=
  match inner with
  | [] => (s, [])
  | (ind, t) :: r =>
    let '(s1, x) := if ind then connect_ind e t s else connect_raw strict e t s in
    let '(s2, xs) := run_inner strict e r s1 in
    (s2, x :: xs)
  end.

Definition step (strict : bool) (e : env) (o : op) (s : st) : st * list res :=
  if negb (alive s) then (s, [RSkipped])
  else
    match o with
    | OConnect t | OConnectSnap _ t => let '(s1, r) := connect_raw strict e t s in (s1, [r])
    | OConnectInd t => let '(s1, r) := connect_ind e t s in (s1, [r])
    | OKick | ODrop =>
      match cur s with
      | None => (s, [RSkipped])
      | Some c => (recover (fuel_of e) e (c_srv c) (close_joined c s), [RNone])
      end
    | ODuring z inner =>
      match check_server s z with
      | Some r => (if strict then s else set_flight None s, [r])
      | None =>
        let '(s1, c) := open_conn z s in
        let s2 := set_flight (Some c) s1 in
        let '(s3, rs) := run_inner strict e inner s2 in
        (* the outer request: context deadline exceeded -> error, its connection is disconnected *)
        (reset_if_flight c (close_plain c s3), rs ++ [RErr])
      end
    end.

Fixpoint run_ops (strict : bool) (e : env) (n : nat) (ops : list op) (s : st) : list obs :=
  match ops with
  | [] => []
  | o :: r => let '(s1, rs) := step strict e o s in observe n rs s1 :: run_ops strict e n r s1
  end.

(* the whole history: login, then the operations *)
Definition run (strict : bool) (e : env) (n : nat) (ops : list op) : list obs :=
  let s0 := login e init_st in
  observe n [RNone] s0 :: run_ops strict e n ops s0.

(* A variant that is NOT the code: handleJoinGame keyed on the request's snapshot instead of on
   connectedServer_ (the existing connection is only taken out and disconnected when the snapshot is
   not None).  Kept to state what "depends on the creation time" would mean (Proofs: keyed_refuted). *)
Definition join_keyed (prev : option nat) (c : conn) (s : st) : st :=
  match prev with
  | Some _ => join c s
  | None =>
    mkSt (Some c) (if oconn_eqb (flight s) (Some c) then None else flight s)
         (add_nat (c_srv c) (lists s)) (opened s) 0 (alive s) (attempts s)
  end.

(* a healthy switch of a pre-1.20.2 client with that variant *)
Definition connect_keyed (prev : option nat) (t : nat) (s : st) : st * res :=
  match check_server s t with
  | Some r => (s, r)
  | None =>
    let '(s1, c) := open_conn t s in
    (reset_if_flight c (join_keyed prev c (set_flight (Some c) s1)), RSuccess)
  end.

Definition spec_run : env -> nat -> list op -> list obs := run true.
(* today's code: connectionRequest.connect no longer touches the slot after a refusal *)
Definition impl_run : env -> nat -> list op -> list obs := run true.
(* the code before fix 8f6edb6 *)
Definition prefix_run : env -> nat -> list op -> list obs := run false.

(* ---------- the property's own predicates on observations ---------- *)

Definition total (l : list nat) : nat := fold_right Nat.add 0 l.

Fixpoint bools_eqb (a b : list bool) : bool :=
  match a, b with
  | [], [] => true
  | x :: a', y :: b' => Bool.eqb x y && bools_eqb a' b'
  | _, _ => false
  end.
Fixpoint nats_eqb (a b : list nat) : bool :=
  match a, b with
  | [], [] => true
  | x :: a', y :: b' => (x =? y) && nats_eqb a' b'
  | _, _ => false
  end.
Fixpoint ress_eqb (a b : list res) : bool :=
  match a, b with
  | [], [] => true
  | x :: a', y :: b' => res_eqb x y && ress_eqb a' b'
  | _, _ => false
  end.
Definition onat_eqb (a b : option nat) : bool :=
  match a, b with Some x, Some y => x =? y | None, None => true | _, _ => false end.

(* exactly one live backend when connected, none otherwise; the player is in the list of exactly its
   current server; a player that is gone has no server *)
Definition state_ok (n : nat) (o : obs) : bool :=
  (length (o_lists o) =? n) && (length (o_open o) =? n) &&
  bools_eqb (o_lists o) (map (fun x => onat_is (o_cur o) x) (seq 0 n)) &&
  nats_eqb (o_open o) (map (fun x => if onat_is (o_cur o) x then 1 else 0) (seq 0 n)) &&
  (o_alive o || match o_cur o with None => true | Some _ => false end).

Definition same_state (a b : obs) : bool :=
  onat_eqb (o_cur a) (o_cur b) && bools_eqb (o_lists a) (o_lists b) &&
  nats_eqb (o_open a) (o_open b) && Bool.eqb (o_alive a) (o_alive b).

Definition obs_eqb (a b : obs) : bool := ress_eqb (o_res a) (o_res b) && same_state a b.

Fixpoint obss_eqb (a b : list obs) : bool :=
  match a, b with
  | [], [] => true
  | x :: a', y :: b' => obs_eqb x y && obss_eqb a' b'
  | _, _ => false
  end.

Definition in_try (e : env) (o : option nat) : bool :=
  match o with Some x => existsb (Nat.eqb x) (try_list e) | None => false end.

(* what one operation may do, judged on the observation before and after it *)
Definition op_ok (e : env) (o : op) (before after : obs) : bool :=
  match o with
  | OConnect t | OConnectSnap _ t =>
    match o_res after with
    | [RSuccess] => onat_is (o_cur after) t
    | [RAlready] => onat_is (o_cur before) t && same_state before after
    | [RInProgress] => false                      (* nothing is in flight between two operations *)
    | [RErr] | [RKicked] =>
      (* raw Connect: the caller handles the failure.  Before the switch point nothing changes; a
         1.20.2+ client that already left its server for the configuration phase has no server *)
      same_state before after ||
      (match fam e with FamB => true | FamA => false end &&
       match o_cur after with None => o_alive after | Some _ => false end)
    | [RSkipped] => negb (o_alive before) && same_state before after
    | _ => false
    end
  | OConnectInd t =>
    match o_res after with
    | [RTrue] => onat_is (o_cur after) t
    | [RFalse] =>
      (* refused (already connected) or failed: previous server, or a fallback from the try list, or no
         fallback left and the player is disconnected *)
      same_state before after || in_try e (o_cur after) || negb (o_alive after)
    | [RSkipped] => negb (o_alive before) && same_state before after
    | _ => false
    end
  | OKick | ODrop =>
    match o_res after with
    | [RNone] => in_try e (o_cur after) || negb (o_alive after)
    | [RSkipped] => same_state before after
    | _ => false
    end
  | ODuring z inner =>
    (* every request issued while another one is in flight is reported as such, without side effects *)
    (ress_eqb (o_res after)
              (map (fun x : bool * nat => if fst x then RFalse else RInProgress) inner ++ [RErr])
     && same_state before after)
    || (match o_res after with
        | [RSkipped] => negb (o_alive before) && same_state before after
        | [RAlready] => onat_is (o_cur before) z && same_state before after
        | _ => false
        end)
  end.

Fixpoint ops_ok (e : env) (n : nat) (ops : list op) (prev : obs) (os : list obs) : bool :=
  match ops, os with
  | [], [] => true
  | o :: r, x :: xs => state_ok n x && op_ok e o prev x && ops_ok e n r x xs
  | _, _ => false
  end.

(* holds_P for a sequential history: the first observation is the login *)
Definition history_ok (e : env) (n : nat) (ops : list op) (os : list obs) : bool :=
  match os with
  | [] => false
  | l :: rest =>
    state_ok n l &&
    (in_try e (o_cur l) || negb (o_alive l)) &&
    ops_ok e n ops l rest
  end.

(* ---------- Part 3: requests as threads of atomic actions (Base/Conc.v) ---------- *)

(* Per request: a program counter and the request's local variables.
   pc: 0 not started, 1 passed an unlocked checkServer (holds nothing yet), 2 in-flight slot taken and
   backend dialled, 3 handleJoinGame took the existing connection, 4 finished, 5 refused - result
   known, connect() has not yet run its reset (pre-fix code only). *)
Record local := mkLocal {
  l_pc : nat;
  l_conn : option conn;        (* the connection of this request *)
  l_existing : option conn     (* handleJoinGame's existingConn *)
}.
Definition local0 : local := mkLocal 0 None None.

(* shared state: the player state, the locals, and a ghost list of the requests that own a running
   attempt (started, not finished) *)
Record cst := mkCst { c_st : st; c_loc : nat -> local; c_active : list nat }.

Definition upd (k : nat) (x : local) (f : nat -> local) : nat -> local :=
  fun j => if j =? k then x else f j.

Definition act := cst -> cst * list (nat * res).

(* checkServer without taking the slot; internalConnect calls it twice (before and after the
   pre-connect event).  A refusal ends the request (today's code: nothing else happens). *)
Definition a_check (k t : nat) : act := fun c =>
  let pc := l_pc (c_loc c k) in
  if (pc =? 0) || (pc =? 1) then
    match check_server (c_st c) t with
    | Some r => (mkCst (c_st c) (upd k (mkLocal 4 None None) (c_loc c)) (c_active c), [(k, r)])
    | None => (mkCst (c_st c) (upd k (mkLocal 1 None None) (c_loc c)) (c_active c), [])
    end
  else (c, []).

(* checkAndSetInFlight (today's code) = the specification's admission: checkServer and
   setInFlightConnection in one critical section, then the backend is dialled *)
Definition a_check_set (k t : nat) : act := fun c =>
  let pc := l_pc (c_loc c k) in
  if (pc =? 0) || (pc =? 1) then
    match check_server (c_st c) t with
    | Some r => (mkCst (c_st c) (upd k (mkLocal 4 None None) (c_loc c)) (c_active c), [(k, r)])
    | None =>
      let '(s1, cn) := open_conn t (c_st c) in
      (mkCst (set_flight (Some cn) s1) (upd k (mkLocal 2 (Some cn) None) (c_loc c)) (k :: c_active c), [])
    end
  else (c, []).

(* ----- the code BEFORE the fixes ----- *)

(* pre-fix checkServer: a refusal leaves the request at pc 5 (connect() will still run its reset) *)
Definition prefix_check (k t : nat) : act := fun c =>
  let pc := l_pc (c_loc c k) in
  if (pc =? 0) || (pc =? 1) then
    match check_server (c_st c) t with
    | Some r => (mkCst (c_st c) (upd k (mkLocal 5 None None) (c_loc c)) (c_active c), [(k, r)])
    | None => (mkCst (c_st c) (upd k (mkLocal 1 None None) (c_loc c)) (c_active c), [])
    end
  else (c, []).

(* pre-fix setInFlightConnection (its own critical section, no check) + dial *)
Definition prefix_set (k t : nat) : act := fun c =>
  if l_pc (c_loc c k) =? 1 then
    let '(s1, cn) := open_conn t (c_st c) in
    (mkCst (set_flight (Some cn) s1) (upd k (mkLocal 2 (Some cn) None) (c_loc c)) (k :: c_active c), [])
  else (c, []).

(* pre-fix connect(): resetInFlightConnection after a refusal *)
Definition prefix_refused_reset (k : nat) : act := fun c =>
  if l_pc (c_loc c k) =? 5 then
    (mkCst (set_flight None (c_st c)) (upd k (mkLocal 4 None None) (c_loc c)) (c_active c), [])
  else (c, []).

(* handleJoinGame, first critical section: existingConn := connectedServer_; connectedServer_ = nil *)
Definition a_join1 (k : nat) : act := fun c =>
  let l := c_loc c k in
  if l_pc l =? 2 then
    (mkCst (set_cur None (c_st c)) (upd k (mkLocal 3 (l_conn l) (cur (c_st c))) (c_loc c)) (c_active c), [])
  else (c, []).

(* existingConn.disconnect(); players.add (Activated); setConnectedServer; result Success *)
Definition join_finish (cn : conn) (ex : option conn) (s : st) : st :=
  let s1 := match ex with Some x => close_joined x s | None => s end in
  mkSt (Some cn) (if oconn_eqb (flight s1) (Some cn) then None else flight s1)
       (add_nat (c_srv cn) (lists s1)) (opened s1) 0 (alive s1) (attempts s1).

Definition a_join2 (k : nat) : act := fun c =>
  let l := c_loc c k in
  if l_pc l =? 3 then
    match l_conn l with
    | Some cn =>
      (mkCst (join_finish cn (l_existing l) (c_st c)) (upd k (mkLocal 4 (Some cn) None) (c_loc c))
             (filter (fun x => negb (x =? k)) (c_active c)), [(k, RSuccess)])
    | None => (c, [])
    end
  else (c, []).

(* one Connect(t) request against a healthy backend, client family A *)
Definition spec_request (k t : nat) : list act :=
  [a_check_set k t; a_join1 k; a_join2 k].
(* today's code: checkServer, event, checkServer, checkAndSetInFlight, ... *)
Definition impl_request (k t : nat) : list act :=
  [a_check k t; a_check k t; a_check_set k t; a_join1 k; a_join2 k].
(* the code before e5fee55 / 8f6edb6 *)
Definition prefix_request (k t : nat) : list act :=
  [prefix_check k t; prefix_check k t; prefix_set k t; prefix_refused_reset k; a_join1 k; a_join2 k].

Fixpoint requests (mk : nat -> nat -> list act) (k : nat) (ts : list nat) : list (list act) :=
  match ts with
  | [] => []
  | t :: r => mk k t :: requests mk (S k) r
  end.

(* a quiescent start: logged in on server 0 *)
Definition start_st : st := mkSt (Some (mkConn 0 0)) None [0] [mkConn 0 0] 0 true [1].
Definition start_cst : cst := mkCst start_st (fun _ => local0) [].

(* ---------- step functions for Base/Lin.v: the atomic specification of a request burst ---------- *)

(* A Connect call that was let in is recorded as two calls (begin, end) carrying the same real-time
   interval; a refused call as one. *)
Inductive lop :=
| LBegin (k t : nat)
| LEnd (k : nat)
| LObserve (n : nat).

Inductive lres :=
| LStarted
| LRes (r : res)
| LObs (o : obs)
| LBad.

Record lst := mkLst { l_st : st; l_pending : list (nat * conn) }.

Fixpoint pending_of (k : nat) (l : list (nat * conn)) : option conn :=
  match l with
  | [] => None
  | (k', c) :: r => if k =? k' then Some c else pending_of k r
  end.

Definition lin_step (e : env) (s : lst) (o : lop) : lst * lres :=
  match o with
  | LBegin k t =>
    match check_server (l_st s) t with
    | Some r => (s, LRes r)
    | None =>
      let '(s1, c) := open_conn t (l_st s) in
      (mkLst (set_flight (Some c) s1) ((k, c) :: l_pending s), LStarted)
    end
  | LEnd k =>
    match pending_of k (l_pending s) with
    | None => (s, LBad)
    | Some c =>
      if oconn_eqb (flight (l_st s)) (Some c) then
        let sw (x : st) := match fam e with FamB => do_switch x | FamA => x end in
        (mkLst (reset_if_flight c (join c (sw (l_st s)))) (l_pending s), LRes RSuccess)
      else (s, LBad)
    end
  | LObserve n => (s, LObs (observe n [RNone] (l_st s)))
  end.

Definition lres_eqb (a b : lres) : bool :=
  match a, b with
  | LStarted, LStarted => true
  | LRes x, LRes y => res_eqb x y
  | LObs x, LObs y => obs_eqb x y
  | _, _ => false
  end.
