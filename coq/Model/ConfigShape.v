(* C37 — the shape of the validators' source text that Model/ConfigValidate.v was transcribed from: every
   error site, warning site, validator call, return and continue of gate/config Validate, java/config Validate,
   validateProxyProtocol, validateBackendFloodgate, validateVia, lite/config Validate and bedrock/config Validate
   in source order, as (function, guard path with the conditions as source text, kind, clause id).
   The translator (translator/configshape.go) regenerates the same list from /repo on every run into
   Gen/ConfigShape.v; Proofs/C37_shape.v proves it equal to expected_sites true true.  The two booleans select
   the source with fix commit d6c5881 (ops comparison) and ad3d3c8 (forced-host keys); today's code has both,
   false/false is the pre-fix text. *)
From Coq Require Import List String.
Import ListNotations.
Open Scope string_scope.

Definition expected_sites (fix1 fix2 : bool) : list (string * string * string * string) :=
  [
   ("gate.Validate", "if c == nil", "e", "NilConfig");
   ("gate.Validate", "if c == nil", "return", "");
   ("gate.Validate", "if c.HealthService.Enabled > if err := validation.ValidHostPort(c.HealthService.Bind); err != nil", "e", "HealthBind");
   ("gate.Validate", "", "call", "c.Config.Validate");
   ("gate.Validate", "if c.Config.Bedrock.Enabled", "call", "bedrockConfig.Validate");
   ("gate.Validate", "if c.API.Enabled", "call", "c.API.Config.Validate");
   ("gate.Validate", "", "return", "");
   ("java.Validate", "if c == nil", "e", "NilConfig");
   ("java.Validate", "if c == nil", "return", "");
   ("java.Validate", "if strings.TrimSpace(c.Bind) == """"", "e", "BindEmpty");
   ("java.Validate", "else > if err := validation.ValidHostPort(c.Bind); err != nil", "e", "BindInvalid")
  ]
  ++
  [if fix1 then ("java.Validate", "range []QuotaSettings{c.Quota.Connections, c.Quota.Logins} > if quota.Enabled > if !(quota.OPS > 0)", "e", "QuotaOps")
   else ("java.Validate", "range []QuotaSettings{c.Quota.Connections, c.Quota.Logins} > if quota.Enabled > if quota.OPS <= 0", "e", "QuotaOps")]
  ++
  [
   ("java.Validate", "range []QuotaSettings{c.Quota.Connections, c.Quota.Logins} > if quota.Enabled > if quota.Burst < 1", "e", "QuotaBurst");
   ("java.Validate", "range []QuotaSettings{c.Quota.Connections, c.Quota.Logins} > if quota.Enabled > if quota.MaxEntries < 1", "e", "QuotaMaxEntries");
   ("java.Validate", "if pl := c.PacketLimiter; (pl.PacketsPerSecond > 0 || pl.BytesPerSecond > 0) && pl.Interval <= 0", "w", "WOther");
   ("java.Validate", "", "call", "validateProxyProtocol");
   ("java.Validate", "", "call", "validateBackendFloodgate");
   ("java.Validate", "if c.Lite.Enabled", "call", "warnLiteIgnoredSettings");
   ("java.Validate", "if c.Lite.Enabled", "call", "c.Lite.Validate");
   ("java.Validate", "if c.Lite.Enabled", "return", "");
   ("java.Validate", "", "call", "validateVia");
   ("java.Validate", "if !c.OnlineMode", "w", "WOther");
   ("java.Validate", "switch c.Forwarding.Mode case NoneForwardingMode", "w", "WForwardingNone");
   ("java.Validate", "switch c.Forwarding.Mode default", "e", "ForwardingMode");
   ("java.Validate", "if len(c.Servers) == 0", "w", "WNoServers");
   ("java.Validate", "range c.Servers > if !validation.ValidServerName(name)", "e", "ServerName");
   ("java.Validate", "range c.Servers > if err := validation.ValidHostPort(addr); err != nil", "e", "ServerAddr");
   ("java.Validate", "range c.Try > if _, ok := c.Servers[name]; !ok", "e", "TryUnknown");
   ("java.Validate", "range c.ForcedHosts > range servers > if _, ok := c.Servers[name]; !ok", "e", "ForcedUnknown")
  ]
  ++
  (if fix2 then [("java.Validate", "range c.ForcedHosts > if other, ok := forcedHostKeys[lower]; ok", "e", "ForcedCaseDup");
   ("java.Validate", "range c.ForcedHosts > if other, ok := forcedHostKeys[lower]; ok", "branch", "continue")] else [])
  ++
  [
   ("java.Validate", "if c.Compression.Level < -1 || c.Compression.Level > 9", "e", "CompressionLevel");
   ("java.Validate", "else > if c.Compression.Level == 0", "w", "WLevelZero");
   ("java.Validate", "if c.Compression.Threshold < -1", "e", "CompressionThreshold");
   ("java.Validate", "else > if c.Compression.Threshold == 0", "w", "WThresholdZero");
   ("java.Validate", "", "return", "");
   ("java.validateProxyProtocol", "if err != nil", "e", "TrustedProxies");
   ("java.validateProxyProtocol", "if err != nil", "return", "");
   ("java.validateProxyProtocol", "if !c.ProxyProtocol", "return", "");
   ("java.validateProxyProtocol", "range trusted > if prefix.Bits() == 0", "w", "WOther");
   ("java.validateBackendFloodgate", "if !backendFloodgate.Enabled", "return", "");
   ("java.validateBackendFloodgate", "if !c.Bedrock.Enabled", "e", "BFNeedsBedrock");
   ("java.validateBackendFloodgate", "if len(backendFloodgate.AllowedServers) == 0", "e", "BFNoServers");
   ("java.validateBackendFloodgate", "range backendFloodgate.AllowedServers > if !validation.ValidServerName(name)", "e", "BFBadName");
   ("java.validateBackendFloodgate", "range backendFloodgate.AllowedServers > if !validation.ValidServerName(name)", "branch", "continue");
   ("java.validateBackendFloodgate", "range backendFloodgate.AllowedServers > if _, ok := seen[normalized]; ok", "e", "BFDuplicate");
   ("java.validateBackendFloodgate", "range backendFloodgate.AllowedServers > if _, ok := seen[normalized]; ok", "branch", "continue");
   ("java.validateBackendFloodgate", "range backendFloodgate.AllowedServers > if _, ok := servers[normalized]; !ok", "e", "BFUnregistered");
   ("java.validateBackendFloodgate", "switch c.Forwarding.Mode case LegacyForwardingMode, BungeeGuardForwardingMode", "e", "BFFwdIncompatible");
   ("java.validateBackendFloodgate", "switch c.Forwarding.Mode default", "e", "BFFwdUnknown");
   ("java.validateBackendFloodgate", "if bedrockConfig.FloodgateKeyPath == """"", "e", "BFKey");
   ("java.validateBackendFloodgate", "if bedrockConfig.FloodgateKeyPath == """"", "return", "");
   ("java.validateBackendFloodgate", "if _, err := os.ReadFile(bedrockConfig.FloodgateKeyPath); err != nil > if os.IsNotExist(err) && bedrockConfig.GetManaged().Enabled", "return", "");
   ("java.validateBackendFloodgate", "if _, err := os.ReadFile(bedrockConfig.FloodgateKeyPath); err != nil", "e", "BFKey");
   ("java.validateVia", "if !c.Via.Enabled", "return", "");
   ("java.validateVia", "switch c.Via.Mode default", "e", "ViaMode");
   ("java.validateVia", "if c.Via.Bind != """" > if err := validation.ValidHostPort(c.Via.Bind); err != nil", "e", "ViaBind");
   ("lite.Validate", "if len(c.Routes) == 0", "e", "LiteNoRoutes");
   ("lite.Validate", "if len(c.Routes) == 0", "return", "");
   ("lite.Validate", "range c.Routes > if len(ep.Host) == 0", "e", "RouteNoHost");
   ("lite.Validate", "range c.Routes > if len(ep.Backend) == 0", "e", "RouteNoBackend");
   ("lite.Validate", "range c.Routes > if !slices.Contains(allowedStrategies, ep.Strategy) && ep.Strategy != """"", "e", "RouteStrategy");
   ("lite.Validate", "range c.Routes > range ep.Host > range ep.Backend > if len(paramIndices) > 0 > if maxParam > wildcardCount", "w", "WOther");
   ("lite.Validate", "range c.Routes > range ep.Host > range ep.Backend > if len(paramIndices) > 0 > if wildcardCount == 0", "w", "WOther");
   ("lite.Validate", "range c.Routes > range ep.Host > range ep.Backend > if err != nil > if !containsParameters(addr)", "e", "RouteBackendParse");
   ("lite.Validate", "", "return", "");
   ("bedrock.Validate", "if c.FloodgateKeyPath != """" > if _, err := os.Stat(c.FloodgateKeyPath); os.IsNotExist(err) > if managed.Enabled", "w", "WOther");
   ("bedrock.Validate", "if c.FloodgateKeyPath != """" > if _, err := os.Stat(c.FloodgateKeyPath); os.IsNotExist(err) > else", "w", "WOther");
   ("bedrock.Validate", "else", "w", "WOther");
   ("bedrock.Validate", "if c.GeyserListenAddr == """"", "e", "BedGeyserAddr");
   ("bedrock.Validate", "if c.UsernameFormat != """" && !strings.Contains(c.UsernameFormat, ""%s"")", "e", "BedUsernameFormat");
   ("bedrock.Validate", "if c.BackendFloodgate.Enabled > if len(c.BackendFloodgate.AllowedServers) == 0", "e", "BedBFNoServers");
   ("bedrock.Validate", "if c.BackendFloodgate.Enabled > range c.BackendFloodgate.AllowedServers > if !validation.ValidServerName(name)", "e", "BedBFBadName");
   ("bedrock.Validate", "if c.BackendFloodgate.Enabled > range c.BackendFloodgate.AllowedServers > if !validation.ValidServerName(name)", "branch", "continue");
   ("bedrock.Validate", "if c.BackendFloodgate.Enabled > range c.BackendFloodgate.AllowedServers > if _, ok := seen[normalized]; ok", "e", "BedBFDuplicate");
   ("bedrock.Validate", "if c.BackendFloodgate.Enabled > range c.BackendFloodgate.AllowedServers > if _, ok := seen[normalized]; ok", "branch", "continue");
   ("bedrock.Validate", "if managed.Enabled > switch managed.Engine default", "e", "BedManagedEngine");
   ("bedrock.Validate", "if managed.Enabled > if managed.Mode != """" && managed.Mode != ""embedded"" && managed.Mode != ""subprocess""", "e", "BedManagedMode");
   ("bedrock.Validate", "if managed.Enabled > if managed.JarURL == """"", "w", "WOther");
   ("bedrock.Validate", "if managed.Enabled > if managed.JavaPath == """"", "w", "WOther");
   ("bedrock.Validate", "if managed.Enabled > if managed.DataDir == """"", "w", "WOther");
   ("bedrock.Validate", "", "return", "")
  ].

(* ids of the error sites, in source order *)
Definition error_ids (l : list (string * string * string * string)) : list string :=
  map (fun s => snd s) (filter (fun s => String.eqb (snd (fst s)) "e") l).
