(* C10 - offline identities and the login username filter. Executable definitions only.
   Mirrors pkg/util/uuid/uuid.go OfflinePlayerUUID, the regular expression playerNameRegex of
   pkg/edition/java/proxy/session_client_initial_login.go (through a small reference regexp matcher
   for the sub-language used) and the part of packet.ServerLogin.Decode that sees the name first. *)
From Coq Require Import List NArith Bool.
From Verif Require Import Base.Hex Base.Md5.
Import ListNotations.
Open Scope N_scope.

(* ---- UUID -------------------------------------------------------------------------------------- *)

(* "OfflinePlayer:" *)
Definition offline_prefix : bytes := [79;102;102;108;105;110;101;80;108;97;121;101;114;58].

(* uuid[6] = (uuid[6] & 0x0f) | 0x30 ; uuid[8] = (uuid[8] & 0x3f) | 0x80 *)
Definition set_version3 (b : N) : N := N.lor (N.land b 15) 48.
Definition set_variant (b : N) : N := N.lor (N.land b 63) 128.

Fixpoint upd (n : nat) (f : N -> N) (l : bytes) : bytes :=
  match l, n with
  | [], _ => []
  | x :: r, O => f x :: r
  | x :: r, S k => x :: upd k f r
  end.

Definition v3bits (d : bytes) : bytes := upd 8 set_variant (upd 6 set_version3 d).

(* uuid.OfflinePlayerUUID *)
Definition offline_uuid (name : bytes) : bytes := v3bits (md5 (offline_prefix ++ name)).

(* bit k (0 = most significant bit of byte 0 ... 127) of a 16-byte value *)
Definition uuid_bit (u : bytes) (k : nat) : bool :=
  N.testbit (nth (Nat.div k 8) u 0) (N.of_nat (7 - Nat.modulo k 8)).

(* ---- a reference matcher for the regexp sub-language in use ---------------------------------------
   Regular expressions over bytes: empty language, empty string, one byte of a class, sequence,
   alternative, and the bounded repetition of a class  [class]{lo,hi}. Matching is by Brzozowski
   derivatives; `re_match` is the ANCHORED match (Go: ^...$ without the m flag, i.e. \A...\z:
   the whole input, a trailing newline is not skipped). Go's regexp works on UTF-8 runes; the class
   used here contains ASCII only, so a string matches rune-wise iff it matches byte-wise (any
   non-ASCII or invalid byte belongs to a rune outside the class). *)
Inductive re :=
| RNone | REps
| RChar (p : N -> bool)
| RSeq (a b : re) | RAlt (a b : re)
| RRepC (p : N -> bool) (lo hi : nat).

Fixpoint nullable (r : re) : bool :=
  match r with
  | RNone => false | REps => true | RChar _ => false
  | RSeq a b => nullable a && nullable b
  | RAlt a b => nullable a || nullable b
  | RRepC _ lo _ => Nat.eqb lo 0
  end.

Fixpoint deriv (c : N) (r : re) : re :=
  match r with
  | RNone => RNone | REps => RNone
  | RChar p => if p c then REps else RNone
  | RSeq a b => RAlt (RSeq (deriv c a) b) (if nullable a then deriv c b else RNone)
  | RAlt a b => RAlt (deriv c a) (deriv c b)
  | RRepC p lo hi =>
      match hi with
      | O => RNone
      | S hi' => if p c then RRepC p (pred lo) hi' else RNone
      end
  end.

Fixpoint re_match (r : re) (s : bytes) : bool :=
  match s with
  | [] => nullable r
  | c :: s' => re_match (deriv c r) s'
  end.

(* [A-Za-z0-9_] *)
Definition in_class (b : N) : bool :=
  ((65 <=? b) && (b <=? 90)) || ((97 <=? b) && (b <=? 122)) || ((48 <=? b) && (b <=? 57)) || (b =? 95).

(* playerNameRegex = ^[A-Za-z0-9_]{2,16}$ *)
Definition name_re : re := RRepC in_class 2 16.
Definition name_matches (s : bytes) : bool := re_match name_re s.

(* the length/alphabet predicate of the property text *)
Definition name_ok (s : bytes) : bool :=
  Nat.leb 2 (length s) && Nat.leb (length s) 16 && forallb in_class s.

(* ---- what the login path does with a name (offline mode, no pre-login handler) ---------------------
   ServerLogin.Decode: util.ReadStringMax (rd, 16) accepts up to 64 BYTES; a longer or an empty
   name is a decode error and the connection is closed without a message. Otherwise
   handleServerLogin tests the regexp: no match -> Disconnect packet; match -> the login goes on
   and login success announces profile.NewOffline(name).ID = OfflinePlayerUUID(name). *)
Inductive login_result :=
| Accepted (uuid : bytes) (name : bytes)   (* login success seen, with these contents *)
| Disconnected                             (* a Disconnect packet, then close *)
| ClosedSilently                           (* close without any packet *)
| Unexpected.                              (* anything else (never produced by the model) *)

Definition login_result_of (name : bytes) : login_result :=
  if (Nat.eqb (length name) 0) || Nat.ltb 64 (length name) then ClosedSilently
  else if name_matches name then Accepted (offline_uuid name) name
  else Disconnected.

Definition is_accepted (r : login_result) : bool := match r with Accepted _ _ => true | _ => false end.

Definition beq_result (a b : login_result) : bool :=
  match a, b with
  | Accepted u n, Accepted v m => beq_bytes u v && beq_bytes n m
  | Disconnected, Disconnected => true
  | ClosedSilently, ClosedSilently => true
  | _, _ => false
  end.

(* the property's predicate on an observed login: admitted iff the name is valid, and then with
   vanilla's offline UUID and the unchanged name *)
Definition holds_login (name : bytes) (r : login_result) : bool :=
  match r with
  | Accepted u n => name_ok name && beq_bytes u (offline_uuid name) && beq_bytes n name
  | Disconnected | ClosedSilently => negb (name_ok name)
  | Unexpected => false
  end.
