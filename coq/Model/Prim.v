(* C03 — model of the primitive field codecs of pkg/edition/java/proto/util (reader.go / writer.go).
   Executable definitions only; proofs are in Proofs/C03*.v.

   The reader is a bytes.Reader (that is what the real decode path passes); its state is the list of
   bytes not yet consumed.  Three Go read calls are distinguished because they behave differently on
   short input:
     rd_byte  = bytes.Reader.ReadByte            (io.EOF at end of input)
     rd_read  = ONE call of bytes.Reader.Read(b) (io.EOF at end of input even when len b = 0;
                                                  otherwise copies min(len b, available) and returns nil)
     rd_full  = io.ReadFull(rd, b)               (nil for len b = 0; io.EOF / io.ErrUnexpectedEOF when short)
   Naming.  Every definition transcribes the code AS IT IS NOW (after the fix commits 2257945,
   4d8a5a4, 6e760d1, 94741d1, 23e030f that repaired findings C03-1..5).  Where a reader or writer was
   changed by one of those commits, today's code is impl_X and the code before the commit is kept as
   old_X, a clearly labelled PRE-FIX variant used only by the historical lemmas (old_X refuted on a
   concrete input, old_X = impl_X off the trigger).  spec_X exists only where the property's format
   is written independently of the code (the extended Forge short, arithmetic instead of bit
   operations); Proofs show impl_X = spec_X there.
   Allocation: for every reader that calls make() with a size taken from the input, len_T is the
   transcription of the reader up to that make() and returns the size; the reader itself is
   len_T followed by the body read, so an error of len_T is an error before allocation. *)
From Coq Require Import List NArith ZArith Bool.
From Verif Require Import Base.Hex.
From Verif Require Base.VarInt.
Import ListNotations.
Open Scope N_scope.

(* ---------- results ---------- *)

Inductive perr :=
| EEOF | EUnexpectedEOF          (* io.EOF, io.ErrUnexpectedEOF *)
| ETooBig                        (* "VarInt is too big" *)
| ENegLen | EOverLimit           (* length prefix negative / above the limit: returned BEFORE make() *)
| EInvalid                       (* invalid resource key *)
| EPanic.                        (* runtime panic (makeslice: cap out of range) *)

Inductive res (A : Type) := Ok (a : A) | Err (e : perr).
Arguments Ok {A}. Arguments Err {A}.

Definition dec_t (A : Type) := bytes -> res (A * bytes).

Definition bind {A B} (d : res (A * bytes)) (k : A -> bytes -> res (B * bytes)) : res (B * bytes) :=
  match d with Err e => Err e | Ok (a, r) => k a r end.

Definition dmap {A B} (f : A -> B) (d : dec_t A) : dec_t B :=
  fun s => bind (d s) (fun a r => Ok (f a, r)).

Definition dec_pair {A B} (da : dec_t A) (db : dec_t B) : dec_t (A * B) :=
  fun s => bind (da s) (fun a r => bind (db r) (fun b r' => Ok ((a, b), r'))).

(* ---------- bytes.Reader ---------- *)

Definition len (s : bytes) : N := N.of_nat (length s).
Definition take (n : N) (s : bytes) : bytes := firstn (N.to_nat n) s.
Definition drop (n : N) (s : bytes) : bytes := skipn (N.to_nat n) s.
Definition zeros (n : N) : bytes := repeat 0 (N.to_nat n).

Definition rd_byte : dec_t N := fun s =>
  match s with [] => Err EEOF | b :: r => Ok (b, r) end.

(* buf := make([]byte, n) (zeroed); _, err = rd.Read(buf) *)
Definition rd_read (n : N) : dec_t bytes := fun s =>
  match s with
  | [] => Err EEOF
  | _ => if n <=? len s then Ok (take n s, drop n s) else Ok (s ++ zeros (n - len s), [])
  end.

(* buf := make([]byte, n); _, err = io.ReadFull(rd, buf) *)
Definition rd_full (n : N) : dec_t bytes := fun s =>
  if n =? 0 then Ok ([], s)
  else if n <=? len s then Ok (take n s, drop n s)
  else Err (match s with [] => EEOF | _ => EUnexpectedEOF end).

(* ---------- big-endian fixed width (encoding/binary.BigEndian) ---------- *)

Fixpoint be_enc (k : nat) (x : N) : bytes :=          (* PutUintK: the low k bytes of x *)
  match k with O => [] | S k' => be_enc k' (x / 256) ++ [x mod 256] end.

Definition be_val (bs : bytes) : N := fold_left (fun a b => a * 256 + b) bs 0.

Definition to_signed (bits : N) (u : N) : Z :=        (* intK(uintK) *)
  if u <? 2 ^ (bits - 1) then Z.of_N u else (Z.of_N u - Z.of_N (2 ^ bits))%Z.
Definition of_signed (bits : N) (z : Z) : N :=        (* uintK(int), two's complement truncation *)
  Z.to_N (z mod Z.of_N (2 ^ bits)).

(* ReadUint8 / ReadByte: the reader is an io.ByteReader, so br.ReadByte() *)
Definition read_uint8 : dec_t N := rd_byte.
Definition write_uint8 (x : N) : bytes := [x mod 256].

(* ReadBool: uval != 0.  WriteBool: 1 / 0 *)
Definition read_bool : dec_t bool := dmap (fun b => negb (b =? 0)) read_uint8.
Definition write_bool (b : bool) : bytes := [if b then 1 else 0].

(* ReadUint16/32/64: var buf [w]byte; _, err = io.ReadFull(reader, buf[:w]); BigEndian.UintK(buf) *)
Definition impl_read_uint (w : N) : dec_t N := fun s => bind (rd_full w s) (fun buf r => Ok (be_val buf, r)).
(* PRE-FIX (before 2257945, finding C03-1): _, err = reader.Read(buf[:w]) *)
Definition old_read_uint (w : N) : dec_t N := fun s => bind (rd_read w s) (fun buf r => Ok (be_val buf, r)).
Definition write_uint (w : nat) (x : N) : bytes := be_enc w x.

(* ReadInt8/16/32/64, ReadInt: signed view of the unsigned read.  ReadFloat32/64 are the unsigned
   reads (math.FloatKfrombits is the identity on bit patterns). *)
Definition read_int8 : dec_t Z := dmap (to_signed 8) read_uint8.
Definition write_int8 (z : Z) : bytes := write_uint8 (of_signed 8 z).
Definition read_int (w : N) : dec_t Z := dmap (to_signed (8 * w)) (impl_read_uint w).
Definition write_int (w : nat) (z : Z) : bytes := be_enc w (of_signed (8 * N.of_nat w) z).

(* ---------- VarInt (WriteVarIntN / ReadVarIntReturnN, io.ByteReader branch) ---------- *)

Definition write_varint (v : Z) : bytes := VarInt.enc (of_signed 32 v).       (* uval := uint32(val) *)
Definition read_varint : dec_t Z := fun s =>
  match VarInt.dec s with
  | VarInt.Ok (u, _, r) => Ok (to_signed 32 u, r)                             (* int(int32(val)) *)
  | VarInt.Err VarInt.ErrShort => Err EEOF
  | VarInt.Err VarInt.ErrTooBig => Err ETooBig
  end.
(* ReadVarIntReturnN's n *)
Definition read_varint_n : dec_t (Z * N) := fun s =>
  match VarInt.dec s with
  | VarInt.Ok (u, n, r) => Ok ((to_signed 32 u, n), r)
  | VarInt.Err VarInt.ErrShort => Err EEOF
  | VarInt.Err VarInt.ErrTooBig => Err ETooBig
  end.

(* ---------- UUID ---------- *)

(* WriteUUID: WriteUint64(BigEndian.Uint64(uuid[:8])); WriteUint64(BigEndian.Uint64(uuid[8:])) *)
Definition write_uuid (u : bytes) : bytes :=
  be_enc 8 (be_val (firstn 8 u)) ++ be_enc 8 (be_val (skipn 8 u)).
(* ReadUUID: io.ReadFull of 16 bytes; uuid.FromBytes cannot fail on 16 bytes *)
Definition read_uuid : dec_t bytes := rd_full 16.

(* WriteUUIDIntArray: four WriteUint32 of msb>>32, msb, lsb>>32, lsb *)
Definition write_uuid_ints (u : bytes) : bytes :=
  let msb := be_val (firstn 8 u) in let lsb := be_val (skipn 8 u) in
  be_enc 4 (msb / 2 ^ 32) ++ be_enc 4 msb ++ be_enc 4 (lsb / 2 ^ 32) ++ be_enc 4 lsb.
(* ReadUUIDIntArray: four ReadInt; msb := int64(hi)<<32 | int64(lo)&0xFFFFFFFF, as uint64 that is
   hi * 2^32 + lo on the unsigned 32-bit patterns; then uuid.FromBytes(msb bytes ++ lsb bytes) *)
Definition read_uuid_ints_with (ru : N -> dec_t N) : dec_t bytes := fun s =>
  bind (ru 4 s) (fun a r1 =>
  bind (ru 4 r1) (fun b r2 =>
  bind (ru 4 r2) (fun c r3 =>
  bind (ru 4 r3) (fun d r4 =>
  Ok (be_enc 8 (a * 2 ^ 32 + b) ++ be_enc 8 (c * 2 ^ 32 + d), r4))))).
Definition impl_read_uuid_ints : dec_t bytes := read_uuid_ints_with impl_read_uint.
Definition old_read_uuid_ints : dec_t bytes := read_uuid_ints_with old_read_uint.    (* PRE-FIX, C03-1 *)

(* ---------- strings and byte arrays ---------- *)

Definition default_max : Z := 65536.   (* DefaultMaxStringSize = bufio.MaxScanTokenSize *)

(* ReadStringMax up to its make([]byte, length): the returned N is the allocation size *)
Definition len_string (max : Z) : dec_t N := fun s =>
  bind (read_varint s) (fun l r =>
    if (l <? 0)%Z then Err ENegLen
    else if (max * 4 <? l)%Z then Err EOverLimit
    else Ok (Z.to_N l, r)).
Definition read_string_max (max : Z) : dec_t bytes := fun s => bind (len_string max s) (fun n r => rd_full n r).
Definition read_string : dec_t bytes := read_string_max default_max.
(* WriteString = WriteBytes: WriteVarInt(len b); Write(b) *)
Definition write_string (v : bytes) : bytes := write_varint (Z.of_N (len v)) ++ v.

(* ReadBytesLen up to its make *)
Definition len_bytes (max : Z) : dec_t N := fun s =>
  bind (read_varint s) (fun l r =>
    if (l <? 0)%Z then Err ENegLen
    else if (max <? l)%Z then Err EOverLimit
    else Ok (Z.to_N l, r)).
(* bytes = make([]byte, length); _, err = io.ReadFull(rd, bytes) *)
Definition impl_read_bytes_len (max : Z) : dec_t bytes := fun s => bind (len_bytes max s) (fun n r => rd_full n r).
(* PRE-FIX (before 4d8a5a4, finding C03-2): _, err = rd.Read(bytes) *)
Definition old_read_bytes_len (max : Z) : dec_t bytes := fun s => bind (len_bytes max s) (fun n r => rd_read n r).
Definition write_bytes : bytes -> bytes := write_string.

(* ---------- 1.7 arrays: extended Forge short + bytes ---------- *)

(* WriteExtendedForgeShort: low := n & 0x7FFF; high := (n & 0x7F8000) >> 15; if high != 0 { low |= 0x8000 };
   WriteUint16(uint16(low)); if high != 0 { Write([]byte{byte(high)}) } *)
Definition impl_write_fshort (n : N) : bytes :=
  let low := N.land n 32767 in
  let high := N.shiftr (N.land n 8355840) 15 in          (* 0x7F8000 *)
  let low := if high =? 0 then low else N.lor low 32768 in
  be_enc 2 low ++ (if high =? 0 then [] else [high mod 256]).
(* ReadExtendedForgeShort: low := ReadUint16; if low&0x8000 != 0 { low &= 0x7FFF; high := ReadUint8 };
   return ((high & 0xFF) << 15) | low.  The part after the ReadUint16: *)
Definition impl_fshort_tail (low : N) (r : bytes) : res (N * bytes) :=
  if N.land low 32768 =? 0 then Ok (low, r)
  else bind (rd_byte r) (fun high r' =>
    Ok (N.lor (N.shiftl (N.land high 255) 15) (N.land low 32767), r')).
Definition read_fshort_with (ru : N -> dec_t N) : dec_t N := fun s => bind (ru 2 s) impl_fshort_tail.
Definition impl_read_fshort : dec_t N := read_fshort_with impl_read_uint.

(* the format (Forge / Velocity writeExtendedForgeShort), stated arithmetically: 2-byte big-endian
   short whose top bit announces a third byte carrying bits 15..22 *)
Definition spec_write_fshort (n : N) : bytes :=
  let low := n mod 32768 in
  let high := (n / 32768) mod 256 in
  if high =? 0 then be_enc 2 low else be_enc 2 (low + 32768) ++ [high].
Definition spec_fshort_tail (low : N) (r : bytes) : res (N * bytes) :=
  if low <? 32768 then Ok (low, r)
  else bind (rd_byte r) (fun high r' => Ok ((high mod 256) * 32768 + (low - 32768), r')).
Definition spec_read_fshort : dec_t N := fun s => bind (impl_read_uint 2 s) spec_fshort_tail.

(* PRE-FIX (before 6e760d1, finding C03-3): WriteInt8(int8(low)) kept one byte of the short ... *)
Definition old_write_fshort (n : N) : bytes :=
  let low := N.land n 32767 in
  let high := N.shiftr (N.land n 8355840) 15 in
  let low := if high =? 0 then low else N.lor low 32768 in
  (low mod 256) :: (if high =? 0 then [] else [high mod 256]).
(* ... and the reader did ReadUint8, then tested bit 15 of an 8-bit value *)
Definition old_read_fshort : dec_t N := fun s => bind (rd_byte s) impl_fshort_tail.

Definition forge_max : N := 2097050.     (* ForgeMaxArrayLength = math.MaxInt32 & 0x1FFF9A *)

(* WriteBytes17(wr, b, allowExtended) *)
Definition write_bytes17_with (wfs : N -> bytes) (ext : bool) (v : bytes) : res bytes :=
  if (if ext then forge_max <? len v else 32767 <? len v) then Err EOverLimit
  else Ok (wfs (len v) ++ v).
Definition write_bytes17 : bool -> bytes -> res bytes := write_bytes17_with impl_write_fshort.
(* ReadBytes17 up to its make *)
Definition len_bytes17_with (rfs : dec_t N) : dec_t N := fun s =>
  bind (rfs s) (fun n r => if forge_max <? n then Err EOverLimit else Ok (n, r)).
Definition len_bytes17 : dec_t N := len_bytes17_with impl_read_fshort.
(* b := make([]byte, length); _, err = io.ReadFull(rd, b) *)
Definition impl_read_bytes17 : dec_t bytes := fun s => bind (len_bytes17 s) (fun n r => rd_full n r).
(* PRE-FIX variants: one-byte short (C03-3) and/or a single rd.Read of the body (C03-2) *)
Definition old_write_bytes17 : bool -> bytes -> res bytes := write_bytes17_with old_write_fshort.
Definition old_read_bytes17 : dec_t bytes := fun s =>
  bind (len_bytes17_with old_read_fshort s) (fun n r => rd_read n r).

(* ---------- counted sequences (ReadStringArray, ReadVarIntArray, ReadIntArray, ReadKeyArray,
   ReadProperties): VarInt count, then count elements.  The Go loops run until the first error;
   every element read consumes at least one byte, so fuel = 1 + remaining bytes is never exhausted
   before an element read fails with io.EOF. ---------- *)

Fixpoint read_n {A} (d : dec_t A) (fuel : nat) (n : N) (s : bytes) : res (list A * bytes) :=
  if n =? 0 then Ok ([], s)
  else match fuel with
       | O => Err EEOF
       | S f => bind (d s) (fun a r => bind (read_n d f (n - 1) r) (fun l r' => Ok (a :: l, r')))
       end.

Definition max_pre_alloc : Z := 32768.

(* the part before make(..., 0, min(length, MaxPreAllocSize)); returns (count, capacity allocated).
   neg = what a negative count leads to: an error value, or the makeslice panic *)
Definition len_counted (neg : perr) : dec_t (Z * Z) := fun s =>
  bind (read_varint s) (fun l r => if (l <? 0)%Z then Err neg else Ok ((l, Z.min l max_pre_alloc), r)).
Definition read_counted {A} (neg : perr) (d : dec_t A) : dec_t (list A) := fun s =>
  bind (len_counted neg s) (fun lc r => read_n d (S (length r)) (Z.to_N (fst lc)) r).
Definition write_counted {A} (e : A -> bytes) (vs : list A) : bytes :=
  write_varint (Z.of_nat (length vs)) ++ concat (map e vs).

Definition read_string_array : dec_t (list bytes) := read_counted ENegLen read_string.
Definition write_strings : list bytes -> bytes := write_counted write_string.
Definition read_varint_array : dec_t (list Z) := read_counted ENegLen read_varint.   (* = ReadIntArray *)
Definition write_varint_array : list Z -> bytes := write_counted write_varint.

(* ---------- profile properties ---------- *)

Definition property := (bytes * (bytes * bytes))%type.    (* name, value, signature ("" = none) *)
Definition write_sig (sg : bytes) : bytes :=
  match sg with [] => write_bool false | _ => write_bool true ++ write_string sg end.
Definition read_sig : dec_t bytes := fun s =>
  bind (read_bool s) (fun has r => if has then read_string r else Ok ([], r)).
Definition write_property (p : property) : bytes :=
  write_string (fst p) ++ write_string (fst (snd p)) ++ write_sig (snd (snd p)).
Definition read_property : dec_t property := dec_pair read_string (dec_pair read_string read_sig).
(* ReadProperties: if size < 0 { return error } *)
Definition impl_read_properties : dec_t (list property) := read_counted ENegLen read_property.
(* PRE-FIX (before 94741d1, finding C03-4): no "size < 0" test, make(..., 0, min(size, 32768)) panicked *)
Definition old_read_properties : dec_t (list property) := read_counted EPanic read_property.
Definition write_properties : list property -> bytes := write_counted write_property.

(* ---------- ReadUTF / WriteUTF (java.io.DataOutput style) ---------- *)

Definition write_utf (v : bytes) : bytes := be_enc 2 (len v) ++ v.     (* uint16(len(s)) *)
Definition read_utf_with (ru : N -> dec_t N) : dec_t bytes := fun s => bind (ru 2 s) (fun n r => rd_full n r).
Definition impl_read_utf : dec_t bytes := read_utf_with impl_read_uint.
Definition old_read_utf : dec_t bytes := read_utf_with old_read_uint.                (* PRE-FIX, C03-1 *)

(* ---------- resource keys ---------- *)

Definition key := (bytes * bytes)%type.                   (* namespace, value *)
Definition minecraft : bytes := [109; 105; 110; 101; 99; 114; 97; 102; 116].
Definition colon : N := 58.

(* key.namespaceCharValid / valueCharValid: the Go loops range over runes; every byte >= 0x80 belongs
   to a rune >= 0x80 or decodes to U+FFFD, which are invalid, so a byte-wise test is exact *)
Definition ns_char (c : N) : bool :=
  (c =? 95) || (c =? 45) || (c =? 46) || ((97 <=? c) && (c <=? 122)) || ((48 <=? c) && (c <=? 57)).
Definition val_char (c : N) : bool := ns_char c || (c =? 47).

Definition key_string (k : key) : bytes := fst k ++ colon :: snd k.          (* "%s:%s" *)
Definition validate_key (k : key) : bool :=                                  (* ValidateKey *)
  negb (beq_bytes (fst k) [46; 46]) && forallb ns_char (fst k) && forallb val_char (snd k).

(* strings.IndexByte(str, ':') as a split *)
Fixpoint split_colon (s : bytes) : option (bytes * bytes) :=
  match s with
  | [] => None
  | c :: r => if c =? colon then Some ([], r)
              else match split_colon r with None => None | Some (a, b) => Some (c :: a, b) end
  end.
Definition parse_identifier_key (s : bytes) : key :=
  match split_colon s with
  | None => (minecraft, s)
  | Some ([], v) => (minecraft, v)
  | Some (ns, v) => (ns, v)
  end.

Definition write_key (k : key) : res bytes :=
  if validate_key k then Ok (write_string (key_string k)) else Err EInvalid.
Definition read_key : dec_t key := fun s =>
  bind (read_string s) (fun str r =>
    let k := parse_identifier_key str in if validate_key k then Ok (k, r) else Err EInvalid).

(* WriteKeyArray stops at the first invalid key *)
Fixpoint write_keys_body (ks : list key) : res bytes :=
  match ks with
  | [] => Ok []
  | k :: r => match write_key k with
              | Err e => Err e
              | Ok b => match write_keys_body r with Err e => Err e | Ok b' => Ok (b ++ b') end
              end
  end.
Definition write_key_array (ks : list key) : res bytes :=
  match write_keys_body ks with Err e => Err e | Ok b => Ok (write_varint (Z.of_nat (length ks)) ++ b) end.
Definition read_key_array : dec_t (list key) := read_counted ENegLen read_key.

(* key.Minimal / WriteMinimalKey (no validation) *)
Definition key_minimal (k : key) : bytes := if beq_bytes (fst k) minecraft then snd k else key_string k.
Definition write_minimal_key (k : key) : bytes := write_string (key_minimal k).
(* ReadMinimalKey: parseIdentifierKey(str), the inverse of key.Minimal: an explicit namespace is kept *)
Definition impl_read_minimal_key : dec_t key := fun s => bind (read_string s) (fun str r => Ok (parse_identifier_key str, r)).
(* PRE-FIX (before 23e030f, finding C03-5): key.New(MinecraftNamespace, str) *)
Definition old_read_minimal_key : dec_t key := fun s => bind (read_string s) (fun str r => Ok ((minecraft, str), r)).
