(* C42 — model of pkg/internal/future/future.go (type Future, ThenAccept, ThenCompose, Complete).
   Executable definitions only; proofs are in Proofs/C42.v.

   Granularity.  Every method of Future locks f.mu for its whole body and runs callbacks while
   holding it.  A callback may call into ANOTHER future (ThenCompose's closure does:
   callback(value).ThenAccept(func(u) { out.Complete(u) })), which takes that future's mutex
   while the first one is still held.  A method call is therefore not one indivisible step
   with respect to other futures; what is indivisible is each critical-section entry.  The
   model is a small-step machine: one [tick] of a goroutine executes the next frame of its
   call stack; a frame that needs a mutex that is held is a no-op (the goroutine is blocked).
   The "method = one atomic action" view is the derived [call] (run one goroutine until its
   stack is empty) and is what sequential histories and the linearizability check use.

   Values and callback tags are N, future identities are indices into a fixed heap (nat). *)
From Coq Require Import List NArith Bool Arith.
Import ListNotations.

Definition fid := nat.

(* The user function handed to ThenCompose (it returns a future):
     UExisting g        func(v) *Future { return g }
     UCompleting g add  func(v) *Future { g.Complete(v + add); return g }            *)
Inductive ucb :=
| UExisting (g : fid)
| UCompleting (g : fid) (add : N).

Definition inner (u : ucb) : fid :=
  match u with UExisting g => g | UCompleting g _ => g end.

(* Closures stored in Future.callback:
     CLog c            a user callback that records (c, value)
     CCompose u out    the closure ThenCompose registers on f
     CForward out      the closure ThenCompose's closure registers on the inner future:
                       func(u) { out.Complete(u) }                                     *)
Inductive cb :=
| CLog (c : N)
| CCompose (u : ucb) (out : fid)
| CForward (out : fid).

(* API calls.  ThenCompose names the future it returns ([out], allocated inside the call in Go;
   here the heap is allocated up front and [out] is an index nobody used before). *)
Inductive op :=
| ThenAccept (f : fid) (c : N)
| Complete (f : fid) (v : N)
| ThenCompose (f : fid) (u : ucb) (out : fid).

(* Call-stack frames of one goroutine. *)
Inductive frame :=
| FAccept (f : fid) (k : cb)          (* about to enter f.ThenAccept(k): needs f.mu *)
| FComplete (f : fid) (v : N)         (* about to enter f.Complete(v): needs f.mu *)
| FRun (f : fid) (k : cb) (v : N)     (* inside f's critical section: invoke k(v) *)
| FUnlock (f : fid).                  (* deferred f.mu.Unlock() *)

(* Future: value+completed flag as an option, the callback slice, and whether mu is held. *)
Record fut := mkFut { value : option N; cbs : list cb; locked : bool }.
Definition fresh : fut := mkFut None [] false.

Record state := mkSt { heap : list fut; stacks : list (list frame) }.

Inductive event :=
| ESet (f : fid) (v : N)              (* f.value = v; f.completed = true *)
| ERun (f : fid) (c : N) (v : N).     (* the CLog c callback registered on f ran with v *)

Fixpoint upd {A : Type} (l : list A) (i : nat) (x : A) : list A :=
  match l, i with
  | [], _ => []
  | _ :: r, O => x :: r
  | a :: r, S j => a :: upd r j x
  end.

Definition start_frame (o : op) : frame :=
  match o with
  | ThenAccept f c => FAccept f (CLog c)
  | Complete f v => FComplete f v
  | ThenCompose f u out => FAccept f (CCompose u out)      (* out := New(); f.ThenAccept(closure) *)
  end.

(* body of ThenCompose's closure: callback(value).ThenAccept(func(u) { out.Complete(u) }) *)
Definition compose_frames (u : ucb) (out : fid) (v : N) : list frame :=
  match u with
  | UExisting g => [FAccept g (CForward out)]
  | UCompleting g add => [FComplete g (v + add)%N; FAccept g (CForward out)]
  end.

Definition set_stack (s : state) (t : nat) (st : list frame) : state :=
  mkSt (heap s) (upd (stacks s) t st).
Definition set_fut (s : state) (f : fid) (fu : fut) : state :=
  mkSt (upd (heap s) f fu) (stacks s).

(* One step of goroutine t. *)
Definition tick (t : nat) (s : state) : state * list event :=
  match nth_error (stacks s) t with
  | None | Some [] => (s, [])
  | Some (fr :: rest) =>
    match fr with
    | FAccept f k =>
      match nth_error (heap s) f with
      | None => (s, [])                                        (* no such future (nil receiver): never generated; stays put *)
      | Some fu =>
        if locked fu then (s, [])                              (* blocked on f.mu *)
        else match value fu with
             | Some v =>                                       (* completed: callback(f.value) under the lock *)
               (set_stack (set_fut s f (mkFut (value fu) (cbs fu) true)) t
                          (FRun f k v :: FUnlock f :: rest), [])
             | None =>                                         (* append(f.callback, callback) *)
               (set_stack (set_fut s f (mkFut None (cbs fu ++ [k]) false)) t rest, [])
             end
      end
    | FComplete f v =>
      match nth_error (heap s) f with
      | None => (s, [])
      | Some fu =>
        if locked fu then (s, [])
        else match value fu with
             | Some _ => (set_stack s t rest, [])              (* already completed: return *)
             | None =>                                         (* set, then range over f.callback *)
               (set_stack (set_fut s f (mkFut (Some v) (cbs fu) true)) t
                          (map (fun k => FRun f k v) (cbs fu) ++ FUnlock f :: rest),
                [ESet f v])
             end
      end
    | FRun f (CLog c) v => (set_stack s t rest, [ERun f c v])
    | FRun f (CCompose u out) v => (set_stack s t (compose_frames u out v ++ rest), [])
    | FRun f (CForward out) v => (set_stack s t (FComplete out v :: rest), [])
    | FUnlock f =>
      match nth_error (heap s) f with
      | None => (set_stack s t rest, [])
      | Some fu => (set_stack (set_fut s f (mkFut (value fu) (cbs fu) false)) t rest, [])
      end
    end
  end.

(* goroutine t cannot move: its next frame needs a mutex that is held *)
Definition blocked (t : nat) (s : state) : bool :=
  match nth_error (stacks s) t with
  | Some (FAccept f _ :: _) | Some (FComplete f _ :: _) =>
    match nth_error (heap s) f with Some fu => locked fu | None => true end
  | _ => false
  end.

Inductive outcome := Done | Stuck | OutOfFuel.

(* run goroutine t alone until its stack is empty or it blocks (nobody else runs, so blocked
   means blocked for ever: a hang) *)
Fixpoint drain (fuel : nat) (t : nat) (s : state) : state * list event * outcome :=
  match fuel with
  | O => (s, [], OutOfFuel)
  | S n =>
    match nth_error (stacks s) t with
    | None | Some [] => (s, [], Done)
    | Some (_ :: _) =>
      if blocked t s then (s, [], Stuck)
      else let '(s1, e1) := tick t s in
           let '(s2, e2, o) := drain n t s1 in
           (s2, e1 ++ e2, o)
    end
  end.

Definition call_fuel : nat := 600.

(* One whole API call executed by a new goroutine with nobody interleaving: the sequential
   specification ("method = one atomic action"). *)
Definition call (s : state) (o : op) : state * (list event * outcome) :=
  let t := length (stacks s) in
  let '(s', ev, oc) := drain call_fuel t (mkSt (heap s) (stacks s ++ [[start_frame o]])) in
  (s', (ev, oc)).

Definition init (nfut : nat) (progs : list (list op)) : state :=
  mkSt (repeat fresh nfut) (map (map start_frame) progs).

(* sequential history: the calls one after the other *)
Fixpoint calls (s : state) (os : list op) : state * list (list event * outcome) :=
  match os with
  | [] => (s, [])
  | o :: r => let '(s1, x) := call s o in
              let '(s2, xs) := calls s1 r in (s2, x :: xs)
  end.

(* ---------- observers used to state the property (Properties/C42.v) ---------- *)

(* f's current value (None = not completed) *)
Definition value_of (s : state) (f : fid) : option N :=
  match nth_error (heap s) f with Some fu => value fu | None => None end.

(* values written into f by completions that took effect, oldest first *)
Definition completions (f : fid) (evs : list event) : list N :=
  flat_map (fun e => match e with ESet f' v => if Nat.eqb f f' then [v] else [] | _ => [] end) evs.

(* how often the log callback tagged c registered on f has run *)
Definition runs_count (f : fid) (c : N) (evs : list event) : nat :=
  length (filter (fun e => match e with ERun f' c' _ => Nat.eqb f f' && N.eqb c c' | _ => false end) evs).

(* how often the programs register it *)
Definition registrations (f : fid) (c : N) (progs : list (list op)) : nat :=
  length (filter (fun o => match o with ThenAccept f' c' => Nat.eqb f f' && N.eqb c c' | _ => false end)
                 (concat progs)).

(* every goroutine has returned from all its calls *)
Definition quiescent (s : state) : bool :=
  forallb (fun st => match st with [] => true | _ :: _ => false end) (stacks s).

(* the ThenCompose calls of the programs as (f, user function, result future) *)
Definition composes (progs : list (list op)) : list (fid * ucb * fid) :=
  flat_map (fun o => match o with ThenCompose f u out => [(f, u, out)] | _ => [] end) (concat progs).
Definition outs (progs : list (list op)) : list fid := map snd (composes progs).
