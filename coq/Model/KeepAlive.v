(* C18 — model of the keep-alive bookkeeping in pkg/edition/java/proxy/session_client_play.go
   (recordBackendKeepAlive, forwardKeepAlive, sendKeepAliveToBackend, consumePendingKeepAlive)
   over serverConnection.pendingPings (server.go; an lru.SyncCache of capacity 64).
   Executable definitions only; proofs are in Proofs/C18.v.

   Granularity.  recordBackendKeepAlive and consumePendingKeepAlive each run under
   serverConn.mu (Get+Delete in ONE critical section).  forwardKeepAlive is not one critical
   section: it reads the player's connected server, consumes there, looks at that backend's
   connection/state and writes, and only on a miss repeats all that for the in-flight
   connection.  Each of these steps is one [action] below; a client reply is a thread of six
   actions, so the "all schedules" theorems cover replies interleaved with each other, with
   backend keep-alives and with state changes.  [step_op] runs a whole call at once (the
   sequential specification used for histories and for the linearizability check). *)
From Coq Require Import List ZArith Bool Arith.
From Verif Require Import Base.Lru.
Import ListNotations.

Definition capacity : nat := 64.                  (* pendingKeepAliveCapacity *)

(* protocol state of a backend connection (state.Registry) *)
Inductive pstate := PHandshake | PStatus | PLogin | PConfig | PPlay.

(* serverConn.conn(): nil, closed (netmc.Closed), or open in some state *)
Inductive cstat := CNil | CClosed | COpen (st : pstate).

Definition pend_t := lru (K := Z) (V := unit).

Record sconn := mkConn { pend : pend_t; stat : cstat }.

(* goroutine-local variables of one forwardKeepAlive call *)
Record rlocal := mkLocal {
  target : option nat;        (* the serverConnection it is looking at (nil = None) *)
  tok : option (nat * Z);     (* consumed a pending id there and has not written yet *)
  fin : bool                  (* sendKeepAliveToBackend returned true *)
}.
Definition local0 : rlocal := mkLocal None None false.

Record state := mkSt {
  conns : list sconn;
  current : option nat;       (* player.connectedServer_ *)
  inflight : option nat;      (* player.connInFlight *)
  locals : list rlocal
}.

Inductive event :=
| ERec (c : nat) (id : Z) (fresh : bool)     (* backend c sent keep-alive id; fresh = id was not pending *)
| EWrite (c : nat) (id : Z) (st : pstate).   (* KeepAlive id written to backend c, which was in state st *)

Fixpoint upd {A : Type} (l : list A) (i : nat) (x : A) : list A :=
  match l, i with
  | [], _ => []
  | _ :: r, O => x :: r
  | a :: r, S j => a :: upd r j x
  end.

Definition get_local (s : state) (r : nat) : rlocal := nth r (locals s) local0.
Definition set_local (s : state) (r : nat) (x : rlocal) : state :=
  mkSt (conns s) (current s) (inflight s) (upd (locals s) r x).
Definition set_conn (s : state) (c : nat) (x : sconn) : state :=
  mkSt (upd (conns s) c x) (current s) (inflight s) (locals s).

Definition forwardable (st : cstat) : option pstate :=
  match st with
  | COpen PConfig => Some PConfig
  | COpen PPlay => Some PPlay
  | _ => None
  end.

(* ---------- atomic actions ---------- *)

(* recordBackendKeepAlive(serverConn c, id): pendingPings.Set(id, now) under serverConn.mu *)
Definition a_record (c : nat) (id : Z) (s : state) : state * list event :=
  match nth_error (conns s) c with
  | None => (s, [])
  | Some sc =>
    (set_conn s c (mkConn (Lru.set Z.eqb capacity id tt (pend sc)) (stat sc)),
     [ERec c id (negb (Lru.mem Z.eqb id (pend sc)))])
  end.

(* serverConn := player.connectedServer() — start of forwardKeepAlive *)
Definition a_pick_current (r : nat) (s : state) : state * list event :=
  (set_local s r (mkLocal (current s) None false), []).

(* consumePendingKeepAlive(serverConn, id): Get, and Delete on a hit, in one critical section.
   serverConn == nil returns false before that. *)
Definition a_consume (r : nat) (id : Z) (s : state) : state * list event :=
  let l := get_local s r in
  if fin l then (s, []) else
  match target l with
  | None => (s, [])
  | Some c =>
    match nth_error (conns s) c with
    | None => (s, [])
    | Some sc =>
      match Lru.get Z.eqb id (pend sc) with
      | (Some _, p') =>
          (set_local (set_conn s c (mkConn (Lru.remove Z.eqb id p') (stat sc))) r
                     (mkLocal (target l) (Some (c, id)) false), [])
      | (None, _) => (s, [])
      end
    end
  end.

(* rest of sendKeepAliveToBackend after a hit: if the backend connection is there, not closed and
   in CONFIG or PLAY, write the packet; return true either way *)
Definition a_write (r : nat) (s : state) : state * list event :=
  let l := get_local s r in
  match tok l with
  | None => (s, [])
  | Some (c, id) =>
    (set_local s r (mkLocal (target l) None true),
     match nth_error (conns s) c with
     | Some sc => match forwardable (stat sc) with Some st => [EWrite c id st] | None => [] end
     | None => []
     end)
  end.

(* connInFlight := player.connectionInFlight() — only reached when the first attempt returned false *)
Definition a_pick_inflight (r : nat) (s : state) : state * list event :=
  let l := get_local s r in
  if fin l then (s, []) else (set_local s r (mkLocal (inflight s) (tok l) false), []).

(* environment changes (server switch machinery, backend state transitions, disconnects) *)
Definition a_set_stat (c : nat) (st : cstat) (s : state) : state * list event :=
  match nth_error (conns s) c with
  | None => (s, [])
  | Some sc => (set_conn s c (mkConn (pend sc) st), [])
  end.
Definition a_set_current (c : option nat) (s : state) : state * list event :=
  (mkSt (conns s) c (inflight s) (locals s), []).
Definition a_set_inflight (c : option nat) (s : state) : state * list event :=
  (mkSt (conns s) (current s) c (locals s), []).

(* forwardKeepAlive(id) by goroutine r: the six steps in program order *)
Definition reply_thread (r : nat) (id : Z) : list (state -> state * list event) :=
  [a_pick_current r; a_consume r id; a_write r; a_pick_inflight r; a_consume r id; a_write r].

(* ---------- whole calls: the sequential specification ---------- *)

Inductive op :=
| BackendKA (c : nat) (id : Z)
| ClientReply (id : Z)
| SetStat (c : nat) (st : cstat)
| SetCurrent (c : option nat)
| SetInFlight (c : option nat).

Fixpoint run_actions (acts : list (state -> state * list event)) (s : state) : state * list event :=
  match acts with
  | [] => (s, [])
  | a :: r => let '(s1, e1) := a s in let '(s2, e2) := run_actions r s1 in (s2, e1 ++ e2)
  end.

Definition step_op (s : state) (o : op) : state * list event :=
  match o with
  | BackendKA c id => a_record c id s
  | ClientReply id => run_actions (reply_thread 0 id) s
  | SetStat c st => a_set_stat c st s
  | SetCurrent c => a_set_current c s
  | SetInFlight c => a_set_inflight c s
  end.

Fixpoint run_ops (s : state) (os : list op) : state * list (list event) :=
  match os with
  | [] => (s, [])
  | o :: r => let '(s1, e) := step_op s o in let '(s2, es) := run_ops s1 r in (s2, e :: es)
  end.

(* n server connections with nothing pending and the given connection status; r local slots *)
Definition init (stats : list cstat) (cur inf : option nat) (nlocals : nat) : state :=
  mkSt (map (fun st => mkConn [] st) stats) cur inf (repeat local0 nlocals).

(* ---------- observers used in the statements ---------- *)

Definition pending (s : state) (c : nat) (id : Z) : bool :=
  match nth_error (conns s) c with Some sc => Lru.mem Z.eqb id (pend sc) | None => false end.

Definition count_writes (c : nat) (id : Z) (evs : list event) : nat :=
  length (filter (fun e => match e with EWrite c' id' _ => Nat.eqb c c' && Z.eqb id id' | _ => false end) evs).

Definition count_fresh (c : nat) (id : Z) (evs : list event) : nat :=
  length (filter (fun e => match e with ERec c' id' true => Nat.eqb c c' && Z.eqb id id' | _ => false end) evs).
