(* C13 — model of pkg/edition/java/proxy/login_inbound.go (loginInboundConn:
   SendLoginPluginMessage, handleLoginPluginResponse, loginEventFired, clearOnAllMessagesHandled)
   and of the Modern Forge login relay's use of it (forge_login_relay.go: relayToClient,
   forgeRelayConsumer.OnMessageResponse).  Executable definitions only; proofs in Proofs/C13.v.

   Two variants: [Impl] is the code as it is (since fix commit 7206740: the completion callback
   onAllMessagesHandled is taken out of the struct, i.e. set to nil, inside the critical section
   that decides to run it, and loginEventFired with nothing queued runs it without storing it);
   [Prefix] is the PRE-fix code, kept for the record of finding C13-1: it never cleared the
   callback, so the callback ran again whenever a later response emptied the outstanding set.

   Granularity.  l.mu guards outstandingResponses, loginMessagesToSend, isLoginEventFired and
   onAllMessagesHandled; consumers, the callback and connection writes run without the lock.  Each
   critical section and each unlocked effect is one action below:
     SendLoginPluginMessage  = s_alloc (atomic counter) ; s_register (locked) ; s_write
     handleLoginPluginResponse = r_lookup (locked: find+delete) ; r_consume (the consumer) ;
                                 r_check (locked: done? callback?) ; r_complete (the callback)
     loginEventFired         = f_fire (locked: flag, callback, drain queue) ; f_flush
   Whole calls ([step_op]) run these in program order on local slot 0: the sequential
   specification.  A consumer that itself sends messages (CSendMore) does so inside r_consume. *)
From Coq Require Import List ZArith NArith Bool Arith.
Import ListNotations.

Inductive variant := Prefix (* pre-fix code, finding C13-1 *) | Impl (* the code as it is *).

Definition body := list N.                  (* bytes *)
Definition arg := option body.              (* what a consumer receives: Some data on success, nil on failure *)

(* MessageConsumer values the harness registers *)
Inductive consumer :=
| CPlain (tag : N)                          (* records (tag, argument) *)
| CSendMore (tag : N) (k : nat)             (* records, then sends k more messages with CPlain consumers *)
| CRelay (bid : Z)                          (* forgeRelayConsumer for backend message id bid *)
| CFail (tag : N).                          (* records (tag, argument), then returns an error: the message
                                               counts as answered all the same (the error is only joined
                                               into handleLoginPluginResponse's return value) *)

Record rlocal := mkLocal {
  l_id : Z;                                 (* send: id := sequenceCounter.Inc() *)
  l_fired : bool;                           (* send: fired := l.isLoginEventFired *)
  l_tok : option (Z * consumer * arg);      (* response: consumer taken from the map, not yet invoked *)
  l_hit : bool;                             (* response: the id was outstanding *)
  l_done : bool;                            (* response: done := len(outstanding) == 0 *)
  l_cb : bool;                              (* response/fire: there is a callback this call has to run *)
  l_msgs : list (Z * body)                  (* fire: drained queue *)
}.
Definition local0 : rlocal := mkLocal 0 false None false false false [].

Record state := mkSt {
  seqc : Z;                                 (* sequenceCounter *)
  outstanding : list (Z * consumer);        (* outstandingResponses (a map: keys unique) *)
  queue : list (Z * body);                  (* loginMessagesToSend *)
  fired : bool;                             (* isLoginEventFired *)
  on_all : bool;                            (* onAllMessagesHandled != nil *)
  proto_ok : bool;                          (* client protocol >= 1.13 *)
  locals : list rlocal
}.

Inductive event :=
| EReg (id : Z) (k : consumer)              (* outstandingResponses[id] = k *)
| EMsg (id : Z) (data : body)               (* LoginPluginMessage written (or buffered) to the client *)
| EFlush
| EErr                                      (* SendLoginPluginMessage returned an error *)
| EResp (id : Z) (a : arg)                  (* a client response entered handleLoginPluginResponse *)
| ECons (id : Z) (k : consumer) (a : arg)   (* consumer k, registered under id, invoked with a *)
| EBackend (id : Z) (bid : Z) (a : arg)     (* LoginPluginResponse{bid, a} written to the backend *)
| EFire
| ECompletion.                              (* the onAllMessagesHandled callback ran *)

Fixpoint upd {A : Type} (l : list A) (i : nat) (x : A) : list A :=
  match l, i with
  | [], _ => []
  | _ :: r, O => x :: r
  | a :: r, S j => a :: upd r j x
  end.

Definition get_local (s : state) (r : nat) : rlocal := nth r (locals s) local0.
Definition set_local (s : state) (r : nat) (x : rlocal) : state :=
  mkSt (seqc s) (outstanding s) (queue s) (fired s) (on_all s) (proto_ok s) (upd (locals s) r x).

(* map operations on outstandingResponses *)
Fixpoint mfind (id : Z) (m : list (Z * consumer)) : option consumer :=
  match m with
  | [] => None
  | (i, k) :: r => if Z.eqb id i then Some k else mfind id r
  end.
Fixpoint mremove (id : Z) (m : list (Z * consumer)) : list (Z * consumer) :=
  match m with
  | [] => []
  | (i, k) :: r => if Z.eqb id i then mremove id r else (i, k) :: mremove id r
  end.
Definition mset (id : Z) (k : consumer) (m : list (Z * consumer)) : list (Z * consumer) :=
  (id, k) :: mremove id m.

(* ---------- SendLoginPluginMessage ---------- *)

(* the part under the lock plus the write, for a message whose id is already allocated *)
Definition register_core (id : Z) (k : consumer) (data : body) (s : state) : state * bool :=
  let f := fired s in
  (mkSt (seqc s) (mset id k (outstanding s)) (if f then queue s else queue s ++ [(id, data)])
        f (on_all s) (proto_ok s) (locals s), f).

Definition s_alloc (r : nat) (s : state) : state * list event :=
  let id := (seqc s + 1)%Z in
  let l := get_local s r in
  (set_local (mkSt id (outstanding s) (queue s) (fired s) (on_all s) (proto_ok s) (locals s)) r
             (mkLocal id (l_fired l) (l_tok l) (l_hit l) (l_done l) (l_cb l) (l_msgs l)), []).

Definition s_register (r : nat) (k : consumer) (data : body) (s : state) : state * list event :=
  let l := get_local s r in
  let '(s1, f) := register_core (l_id l) k data s in
  (set_local s1 r (mkLocal (l_id l) f (l_tok l) (l_hit l) (l_done l) (l_cb l) (l_msgs l)),
   [EReg (l_id l) k]).

Definition s_write (r : nat) (data : body) (s : state) : state * list event :=
  let l := get_local s r in
  (s, if l_fired l then [EMsg (l_id l) data] else []).

(* a whole send executed in one go (used for the sends a consumer makes from inside) *)
Definition send_now (k : consumer) (data : body) (s : state) : state * list event :=
  let id := (seqc s + 1)%Z in
  let s0 := mkSt id (outstanding s) (queue s) (fired s) (on_all s) (proto_ok s) (locals s) in
  let '(s1, f) := register_core id k data s0 in
  (s1, EReg id k :: (if f then [EMsg id data] else [])).

Fixpoint send_more (n : nat) (tag : N) (s : state) : state * list event :=
  match n with
  | O => (s, [])
  | S m => let '(s1, e1) := send_now (CPlain (tag + 1)) [N.succ tag] s in
           let '(s2, e2) := send_more m (tag + 1) s1 in (s2, e1 ++ e2)
  end.

(* ---------- handleLoginPluginResponse ---------- *)

Definition r_lookup (r : nat) (id : Z) (a : arg) (s : state) : state * list event :=
  let l := get_local s r in
  match mfind id (outstanding s) with
  | None =>
      (set_local s r (mkLocal (l_id l) (l_fired l) None false false false (l_msgs l)), [EResp id a])
  | Some k =>
      (set_local (mkSt (seqc s) (mremove id (outstanding s)) (queue s) (fired s) (on_all s) (proto_ok s)
                       (locals s)) r
                 (mkLocal (l_id l) (l_fired l) (Some (id, k, a)) true false false (l_msgs l)),
       [EResp id a])
  end.

(* consumer.OnMessageResponse(data or nil) *)
Definition r_consume (r : nat) (s : state) : state * list event :=
  let l := get_local s r in
  match l_tok l with
  | None => (s, [])
  | Some (id, k, a) =>
      let s0 := set_local s r (mkLocal (l_id l) (l_fired l) None (l_hit l) (l_done l) (l_cb l) (l_msgs l)) in
      match k with
      | CPlain _ | CFail _ => (s0, [ECons id k a])
      | CRelay bid => (s0, [ECons id k a; EBackend id bid a])
      | CSendMore tag n => let '(s1, e1) := send_more n tag s0 in (s1, ECons id k a :: e1)
      end
  end.

Definition r_check (v : variant) (r : nat) (s : state) : state * list event :=
  let l := get_local s r in
  if l_hit l then
    let done := match outstanding s with [] => true | _ => false end in
    let cb := on_all s in
    let on' := match v with Prefix => cb | Impl => if done then false else cb end in
    (set_local (mkSt (seqc s) (outstanding s) (queue s) (fired s) on' (proto_ok s) (locals s)) r
               (mkLocal (l_id l) (l_fired l) (l_tok l) true done (done && cb) (l_msgs l)), [])
  else (s, []).

Definition r_complete (r : nat) (s : state) : state * list event :=
  let l := get_local s r in
  if l_hit l && l_done l && l_cb l
  then (set_local s r (mkLocal (l_id l) (l_fired l) (l_tok l) false false false (l_msgs l)), [ECompletion])
  else (s, []).

(* ---------- loginEventFired / clearOnAllMessagesHandled ---------- *)

Definition f_fire (v : variant) (r : nat) (s : state) : state * list event :=
  let l := get_local s r in
  let empty := match queue s with [] => true | _ => false end in
  let on' := match v with Prefix => true | Impl => negb empty end in
  (set_local (mkSt (seqc s) (outstanding s) [] true on' (proto_ok s) (locals s)) r
             (mkLocal (l_id l) (l_fired l) (l_tok l) false false empty (queue s)), [EFire]).

Definition f_flush (r : nat) (s : state) : state * list event :=
  let l := get_local s r in
  match l_msgs l with
  | [] => if l_cb l
          then (set_local s r (mkLocal (l_id l) (l_fired l) (l_tok l) (l_hit l) (l_done l) false []),
                [ECompletion])
          else (s, [])
  | ms => (set_local s r (mkLocal (l_id l) (l_fired l) (l_tok l) (l_hit l) (l_done l) false []),
           map (fun m => EMsg (fst m) (snd m)) ms ++ [EFlush])
  end.

Definition a_clear (s : state) : state * list event :=
  (mkSt (seqc s) (outstanding s) (queue s) (fired s) false (proto_ok s) (locals s), []).

(* ---------- whole calls ---------- *)

Inductive op :=
| OSend (k : consumer) (data : body)        (* SendLoginPluginMessage(channel, data, consumer) *)
| ORelay (bid : Z) (data : body)            (* relay.relayToClient(backend, {bid, "fml:loginwrapper", data}) *)
| OResponse (id : Z) (success : bool) (data : body)
| OFire
| OClear.

Fixpoint run_actions (acts : list (state -> state * list event)) (s : state) : state * list event :=
  match acts with
  | [] => (s, [])
  | a :: r => let '(s1, e1) := a s in let '(s2, e2) := run_actions r s1 in (s2, e1 ++ e2)
  end.

Definition send_thread (r : nat) (k : consumer) (data : body) : list (state -> state * list event) :=
  [s_alloc r; s_register r k data; s_write r data].
Definition response_thread (v : variant) (r : nat) (id : Z) (a : arg) : list (state -> state * list event) :=
  [r_lookup r id a; r_consume r; r_check v r; r_complete r].
Definition fire_thread (v : variant) (r : nat) : list (state -> state * list event) :=
  [f_fire v r; f_flush r].

Definition resp_arg (success : bool) (data : body) : arg := if success then Some data else None.

Definition do_send (k : consumer) (data : body) (s : state) : state * list event :=
  match data with
  | [] => (s, [EErr])                                   (* "missing contents" *)
  | _ => if proto_ok s then run_actions (send_thread 0 k data) s else (s, [EErr])
  end.

Definition step_op (v : variant) (s : state) (o : op) : state * list event :=
  match o with
  | OSend k data => do_send k data s
  | ORelay bid data => do_send (CRelay bid) (match data with [] => [0%N] | _ => data end) s
  | OResponse id ok data => run_actions (response_thread v 0 id (resp_arg ok data)) s
  | OFire => run_actions (fire_thread v 0) s
  | OClear => a_clear s
  end.

Fixpoint run_ops (v : variant) (s : state) (os : list op) : state * list (list event) :=
  match os with
  | [] => (s, [])
  | o :: r => let '(s1, e) := step_op v s o in let '(s2, es) := run_ops v s1 r in (s2, e :: es)
  end.

Definition init (pok : bool) (nlocals : nat) : state :=
  mkSt 0 [] [] false false pok (repeat local0 nlocals).

(* ---------- observers used in the statements ---------- *)

Definition consumer_eqb (a b : consumer) : bool :=
  match a, b with
  | CPlain x, CPlain y => N.eqb x y
  | CSendMore x n, CSendMore y m => N.eqb x y && Nat.eqb n m
  | CRelay x, CRelay y => Z.eqb x y
  | CFail x, CFail y => N.eqb x y
  | _, _ => false
  end.

Definition count_cons (id : Z) (evs : list event) : nat :=
  length (filter (fun e => match e with ECons i _ _ => Z.eqb id i | _ => false end) evs).
Definition count_reg (id : Z) (evs : list event) : nat :=
  length (filter (fun e => match e with EReg i _ => Z.eqb id i | _ => false end) evs).
Definition count_backend (id : Z) (evs : list event) : nat :=
  length (filter (fun e => match e with EBackend i _ _ => Z.eqb id i | _ => false end) evs).
Definition count_completion (evs : list event) : nat :=
  length (filter (fun e => match e with ECompletion => true | _ => false end) evs).
Definition count_fire (evs : list event) : nat :=
  length (filter (fun e => match e with EFire => true | _ => false end) evs).

Definition is_nil {A : Type} (l : list A) : bool := match l with [] => true | _ => false end.

(* histories of the login as the property describes it: sends and relays at any time, the event at
   most once, client responses only after it, the callback never cleared.  [f] = already fired. *)
Fixpoint adm (f : bool) (os : list op) : bool :=
  match os with
  | [] => true
  | OSend _ _ :: r | ORelay _ _ :: r => adm f r
  | OResponse _ _ _ :: r => f && adm f r
  | OFire :: r => negb f && adm true r
  | OClear :: _ => false
  end.
