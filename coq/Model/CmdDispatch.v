(* C22 — model of the per-protocol-family command handlers of
   pkg/edition/java/proxy/handle_cmd.go (handleLegacyCommand, handleKeyedCommand,
   handleSessionCommand, executeCommand) and of the part of go.minekube.com/brigodier
   (Dispatcher.ParseReader / parseNodes / Execute) they rely on, for command trees made of
   literal nodes with requirements and optional executors.
   Executable definitions only; proofs are in Proofs/C22.v. *)
From Coq Require Import List NArith Bool.
From Verif Require Import Base.Hex.
Import ListNotations.
Open Scope N_scope.

(* ---------- brigodier, literal trees ---------- *)

(* what a registered executor (brigodier.Command.Run) returns *)
Inductive run_result :=
| RunOk            (* nil *)
| RunErrForward    (* command.ErrForward *)
| RunErrSyntax     (* a *brigodier.CommandSyntaxError *)
| RunErrOther.     (* any other error *)

(* a literal command node: id (harness bookkeeping: which executor ran), literal, result of
   its requirement for this player (Node.CanUse), executor (Node.Command, nil-able), children *)
Inductive cnode := CNode (id : N) (name : bytes) (can_use : bool) (exec : option run_result) (children : list cnode).

Definition cn_id (c : cnode) := match c with CNode i _ _ _ _ => i end.
Definition cn_name (c : cnode) := match c with CNode _ n _ _ _ => n end.
Definition cn_use (c : cnode) := match c with CNode _ _ u _ _ => u end.
Definition cn_exec (c : cnode) := match c with CNode _ _ _ e _ => e end.
Definition cn_children (c : cnode) := match c with CNode _ _ _ _ l => l end.

Definition space : N := 32.

(* Node.RelevantNodes: the text from the cursor up to the next ArgumentSeparator or the end *)
Fixpoint take_word (s : bytes) : bytes :=
  match s with
  | [] => []
  | b :: r => if b =? space then [] else b :: take_word r
  end.

(* the literals map lookup (sibling names are distinct, so the first match is the match) *)
Fixpoint find_child (cs : list cnode) (w : bytes) : option cnode :=
  match cs with
  | [] => None
  | c :: r => if beq_bytes (cn_name c) w then Some c else find_child r w
  end.

(* what Dispatcher.Execute looks at: the context's Command (with the id of the node it came
   from), the unread rest of the input, and whether any node was matched (Range non-empty). *)
Record parsed := mkParsed { p_cmd : option (N * run_result); p_rest : bytes }.

Definition node_cmd (c : cnode) : option (N * run_result) :=
  match cn_exec c with Some r => Some (cn_id c, r) | None => None end.

(* parseNodes below a node [n] that has just been matched; [s] is the input after its literal
   (empty, or starting with a separator because the literal was found through take_word).
   - ctx.Command = child.Command()
   - no redirect: descends only if at least two characters are left (CanReadLen(2)), after
     skipping the separator;
   - below: the literal named by the next word if it exists and CanUse, otherwise the context
     so far with the reader left where it was. *)
Fixpoint parse_below (n : cnode) (s : bytes) {struct n} : parsed :=
  match n with
  | CNode id _ _ ex cs =>
    let here := match ex with Some r => Some (id, r) | None => None end in
    match s with
    | _ :: (_ :: _) as s1 =>
      let w := take_word s1 in
      (fix find (l : list cnode) : parsed :=
         match l with
         | [] => mkParsed here s1
         | c :: r =>
           if beq_bytes (cn_name c) w
           then (if cn_use c then parse_below c (skipn (length w) s1) else mkParsed here s1)
           else find r
         end) cs
    | _ => mkParsed here s
    end
  end.

(* first step of parseNodes at the root: "the command line names a registered proxy command
   the player may use" *)
Definition resolve_root (roots : list cnode) (line : bytes) : option cnode :=
  match find_child roots (take_word line) with
  | Some c => if cn_use c then Some c else None
  | None => None
  end.

(* outcome classes of executeCommand (handle_cmd.go) *)
Inductive outcome :=
| Ran           (* hasRun = true, err = nil *)
| Unknown       (* ErrDispatcherUnknownCommand: hasRun = false *)
| SyntaxError   (* CommandSyntaxError other than unknown command: message to the player, hasRun = true *)
| ErrForward    (* command.ErrForward: hasRun = false *)
| OtherError.   (* hasRun = false, err != nil: "An error occurred while running this command." *)

(* Dispatcher.Execute on the parse result + the error classification of executeCommand.
   Returns the outcome and the id of the executor that was invoked (if one was). *)
Definition dispatch (roots : list cnode) (line : bytes) : outcome * option N :=
  match resolve_root roots line with
  | None => (Unknown, None)                      (* nothing matched: Range empty, or empty input *)
  | Some c =>
    let p := parse_below c (skipn (length (take_word line)) line) in
    match p_rest p with
    | _ :: _ => (SyntaxError, None)              (* unread input after a matched node: unknown argument *)
    | [] =>
      match p_cmd p with
      | None => (Unknown, None)                  (* no executable node: foundCommand = false *)
      | Some (i, RunOk) => (Ran, Some i)
      | Some (i, RunErrForward) => (ErrForward, Some i)
      | Some (i, RunErrSyntax) => (SyntaxError, Some i)
      | Some (i, RunErrOther) => (OtherError, Some i)
      end
    end
  end.

(* "handled by the proxy": nothing is forwarded *)
Definition proxy_handles (o : outcome) : bool :=
  match o with Ran | SyntaxError | OtherError => true | Unknown | ErrForward => false end.

(* number of chat messages the proxy sends to the player for an outcome (executors used by
   the harness send none themselves) *)
Definition outcome_msgs (o : outcome) : N :=
  match o with SyntaxError | OtherError => 1 | _ => 0 end.

(* ---------- the handlers ---------- *)

Inductive family :=
| Legacy      (* < 1.19: chat.LegacyChat starting with "/" *)
| Keyed       (* 1.19 - 1.19.2: chat.KeyedPlayerCommand *)
| Session     (* 1.19.3+: chat.SessionPlayerCommand (carries a last-seen update) *)
| Unsigned.   (* 1.20.5+: chat.UnsignedPlayerCommand (carries none) *)

(* packets written to the backend connection, as the harness projects them *)
Inductive bpkt :=
| BLegacy (msg : bytes)                                   (* LegacyChat: Message (with the slash) *)
| BKeyed (orig : bool) (unsigned : bool) (cmd : bytes)    (* orig: the very packet the client sent *)
| BSession (orig : bool) (cmd : bytes) (off : N) (nsig : N)
| BUnsigned (cmd : bytes)
| BAck (off : N)
| BOther.

Record input := mkInput {
  i_fam : family;
  i_p1205 : bool;          (* player protocol >= 1.20.5 (what chat.Builder.ToServer emits for 1.19.3+) *)
  i_fka : bool;            (* config.ForceKeyAuthentication *)
  i_keyrev : N;            (* player's IdentifiedKey: 0 none, 1 GenericV1, 2 LinkedV2 *)
  i_signed : bool;         (* Keyed: not Unsigned; Session: ArgumentSignatures non-empty *)
  i_off : N;               (* Session: LastSeenMessages.Offset of the packet *)
  i_line : bytes;          (* the command line the client sent, without the leading slash *)
  i_denied : bool;         (* CommandExecuteEvent: not Allowed() *)
  i_forward : bool;        (* CommandExecuteEvent.Forward() *)
  i_cmd : bytes;           (* CommandExecuteEvent.Command(): i_line unless SetCommand changed it *)
  i_roots : list cnode     (* children of the proxy dispatcher's root *)
}.

Record result := mkResult {
  r_ran : option N;        (* executor invoked by the proxy *)
  r_backend : list bpkt;   (* packets the backend receives for this command *)
  r_disc : bool;           (* player disconnected ("illegal protocol state") *)
  r_msgs : N               (* chat messages sent to the player *)
}.

Definition slash : N := 47.

Definition strict_key (i : input) : bool := i_signed i && (i_keyrev i =? 2).

(* the packet a rewritten / unsigned command is rebuilt as: chat.Builder.ToServer *)
Definition rebuilt (i : input) (cmd : bytes) : bpkt :=
  match i_fam i with
  | Legacy => BLegacy (slash :: cmd)
  | Keyed => BKeyed false true cmd                (* NewKeyedPlayerCommand: Unsigned = true *)
  | Session | Unsigned => if i_p1205 i then BUnsigned cmd else BSession false cmd 0 0
  end.

Definition nothing (ran : option N) (msgs : N) : result := mkResult ran [] false msgs.

(* [fixed] = false is the code before the repair of finding C22-1 (commit 0268c73), kept for the record *)
Section Decide.
  Variable fixed : bool.

  (* handleLegacyCommand *)
  Definition decide_legacy (i : input) : result :=
    if i_denied i then nothing None 0
    else if i_forward i then mkResult None [BLegacy (slash :: i_cmd i)] false 0
    else
      let '(o, ran) := dispatch (i_roots i) (i_cmd i) in
      if proxy_handles o then nothing ran (outcome_msgs o)
      else mkResult ran [BLegacy (slash :: i_line i)] false 0.   (* packet.Message, not commandToRun *)

  (* handleKeyedCommand *)
  Definition keyed_rewrite_forward_branch (i : input) (ran : option N) : result :=
    (* inside "if e.Forward()": the strict-key case returns nil whether or not the player was
       disconnected (before the repair); the repaired version mirrors the "!hasRun" branch *)
    if strict_key i then
      if i_fka i then mkResult ran [] true 0
      else if fixed then mkResult ran [rebuilt i (i_cmd i)] false 0
      else mkResult ran [] false 0
    else mkResult ran [rebuilt i (i_cmd i)] false 0.

  Definition keyed_rewrite_unknown_branch (i : input) (ran : option N) : result :=
    if strict_key i && i_fka i then mkResult ran [] true 0
    else mkResult ran [rebuilt i (i_cmd i)] false 0.

  Definition decide_keyed (i : input) : result :=
    if i_denied i then
      mkResult None [] (negb (i_keyrev i =? 0) && strict_key i && i_fka i) 0
    else if i_forward i then
      if i_signed i && beq_bytes (i_cmd i) (i_line i)
      then mkResult None [BKeyed true false (i_line i)] false 0
      else keyed_rewrite_forward_branch i None
    else
      let '(o, ran) := dispatch (i_roots i) (i_cmd i) in
      if proxy_handles o then nothing ran (outcome_msgs o)
      else if beq_bytes (i_cmd i) (i_line i)
      then mkResult ran [BKeyed true (negb (i_signed i)) (i_line i)] false 0
      else keyed_rewrite_unknown_branch i ran.

  (* handleSessionCommand; [unsigned] = the packet was an UnsignedPlayerCommand.
     The chat queue is fresh (no held acknowledgements), so the "fixed packet" has the
     client's own offset. *)
  Definition consume (i : input) (ran : option N) (msgs : N) : result :=
    match i_fam i with
    | Unsigned => nothing ran msgs                      (* no last-seen update: nothing to pass on *)
    | _ =>
      (* a signed command disconnects the player only under ForceKeyAuthentication; otherwise it is
         consumed like any other and its last-seen offset is acknowledged (repair of C21-1, f72099c) *)
      if i_signed i && i_fka i then mkResult ran [] true msgs
      else if negb (i_off i =? 0) then mkResult ran [BAck (i_off i)] false msgs
      else nothing ran msgs
    end.

  Definition modify_command (i : input) (ran : option N) : result :=
    if i_signed i && i_fka i then mkResult ran [] true 0
    else mkResult ran [rebuilt i (i_cmd i)] false 0.

  Definition forward_command (i : input) (ran : option N) : result :=
    if beq_bytes (i_cmd i) (i_line i) then
      match i_fam i with
      | Unsigned => mkResult ran [BUnsigned (i_line i)] false 0
      | _ => mkResult ran [BSession true (i_line i) (i_off i) (if i_signed i then 1 else 0)] false 0
      end
    else modify_command i ran.

  Definition decide_session (i : input) : result :=
    if i_denied i then consume i None 0
    else if i_forward i then forward_command i None
    else
      let '(o, ran) := dispatch (i_roots i) (i_cmd i) in
      match o with
      | OtherError => nothing ran 1
      | Ran | SyntaxError => consume i ran (outcome_msgs o)
      | Unknown | ErrForward => forward_command i ran
      end.

  Definition decide (i : input) : result :=
    match i_fam i with
    | Legacy => decide_legacy i
    | Keyed => decide_keyed i
    | Session | Unsigned => decide_session i
    end.
End Decide.

(* today's code has finding C22-1 repaired: it is the specification model *)
Definition impl_decide := decide true.
Definition spec_decide := decide true.
Definition prefix_decide := decide false.

(* finding C22-1 (fixed by 0268c73): a 1.19-1.19.2 client with a LinkedV2 key sends a signed command, the
   event forwards it with a changed command line, ForceKeyAuthentication is off *)
Definition trigger1 (i : input) : bool :=
  match i_fam i with
  | Keyed => negb (i_denied i) && i_forward i && strict_key i && negb (i_fka i)
             && negb (beq_bytes (i_cmd i) (i_line i))
  | _ => false
  end.

(* ---------- the property as a decidable predicate on a result ---------- *)

(* the command line carried by a backend packet, if it is a command packet *)
Definition pkt_cmd (p : bpkt) : option bytes :=
  match p with
  | BLegacy (_ :: m) => Some m           (* Message minus the slash *)
  | BLegacy [] => Some []
  | BKeyed _ _ c => Some c
  | BSession _ c _ _ => Some c
  | BUnsigned c => Some c
  | BAck _ | BOther => None
  end.

Fixpoint cmd_packets (l : list bpkt) : list bytes :=
  match l with
  | [] => []
  | p :: r => match pkt_cmd p with Some c => c :: cmd_packets r | None => cmd_packets r end
  end.

Definition is_some {A} (o : option A) : bool := match o with Some _ => true | None => false end.

(* should the proxy run an executor for this input? (the "exactly when" side) *)
Definition should_run (i : input) : option N :=
  if i_denied i || i_forward i then None else snd (dispatch (i_roots i) (i_cmd i)).

(* does the proxy keep the command to itself? *)
Definition kept_by_proxy (i : input) : bool :=
  negb (i_denied i) && negb (i_forward i) && proxy_handles (fst (dispatch (i_roots i) (i_cmd i))).

Definition opt_N_eqb (a b : option N) : bool :=
  match a, b with Some x, Some y => x =? y | None, None => true | _, _ => false end.

Definition holds_C22 (i : input) (r : result) : bool :=
  (* executed by the proxy exactly when it resolves to a usable executor and the event neither
     denied nor forwarded it *)
  opt_N_eqb (r_ran r) (should_run i)
  && (if is_some (r_ran r) then is_some (resolve_root (i_roots i) (i_cmd i)) else true)
  (* a denied command never reaches the backend; one the proxy handled neither *)
  && (if i_denied i || kept_by_proxy i then match cmd_packets (r_backend r) with [] => true | _ => false end
      else
        (* otherwise exactly once, unchanged or as rewritten by the event - unless the player
           was disconnected for an illegal protocol state, which is only acceptable for a signed
           command under ForceKeyAuthentication *)
        if r_disc r then i_signed i && i_fka i && match cmd_packets (r_backend r) with [] => true | _ => false end
        else match cmd_packets (r_backend r) with
             | [c] => beq_bytes c (i_cmd i) || beq_bytes c (i_line i)
             | _ => false
             end).
