(* C21 — model of the secure-chat queue of a 1.19.3+ player:
   chatQueue / ChatState (pkg/edition/java/proxy/chat_queue.go), handleSessionChat
   (handle_chat.go), handleSessionCommand with consumeCommand / modifyCommand / forwardCommand
   (handle_cmd.go) and handleChatAcknowledgement (session_client_play.go).
   Executable definitions only; proofs are in Proofs/C21.v. *)
From Coq Require Import List NArith Bool.
Import ListNotations.
Open Scope N_scope.

(* lastSeenMessagesWindowSize = 20, minimumDelayedAckCount = lastSeenMessagesWindowSize *)
Definition window : N := 20.
Definition min_delayed : N := window.

(* how the proxy dealt with a command *)
Inductive outcome :=
| OForward     (* sent on unchanged: the event forwarded it, or the proxy does not know it / ErrForward *)
| ORewrite     (* the event changed the command line and it is sent on (forwarded or unknown) *)
| OConsumed    (* the proxy ran it (or answered a syntax error): hasRun *)
| ODenied.     (* the event denied it *)

(* what the client sends; [id] tags chat messages and commands so that packets can be traced *)
Inductive op :=
| Chat (id : N) (off : N) (modified : bool)              (* SessionPlayerChat, unsigned; PlayerChatEvent may change the text *)
| Cmd (id : N) (off : N) (signed : bool) (o : outcome)   (* SessionPlayerCommand: carries a last-seen update *)
| UCmd (id : N) (o : outcome)                            (* UnsignedPlayerCommand (1.20.5+): carries none *)
| Ack (off : N).                                         (* ChatAcknowledgement *)

(* what the backend receives *)
Inductive bp :=
| PChat (id : N) (off : N)      (* SessionPlayerChat with LastSeenMessages.Offset = off *)
| PCmd (id : N) (off : N)       (* SessionPlayerCommand with LastSeenMessages.Offset = off *)
| PUCmd (id : N)                (* UnsignedPlayerCommand: no last-seen update *)
| PAck (off : N)                (* ChatAcknowledgement *)
| POther.

Record config := mkCfg {
  c_fka : bool;       (* config.ForceKeyAuthentication *)
  c_p1205 : bool      (* player protocol >= 1.20.5: chat.Builder rebuilds commands as UnsignedPlayerCommand *)
}.

Record st := mkSt {
  delayed : N;        (* ChatState.delayedAckCount *)
  out : list bp;      (* packets written to the backend connection, oldest first *)
  disc : bool;        (* player disconnected ("illegal protocol state"): the read loop has ended *)
  lost1 : N;          (* bookkeeping, not observable: acknowledgements dropped through finding C21-1 *)
  lost2 : N;          (* ... through finding C21-2 *)
  hit2 : bool         (* bookkeeping: some command went through today's modifyCommand (finding C21-2) *)
}.

Definition init : st := mkSt 0 [] false 0 0 false.

Definition emit (s : st) (d : N) (ps : list bp) : st := mkSt d (out s ++ ps) (disc s) (lost1 s) (lost2 s) (hit2 s).

(* a ChatAcknowledgement for n messages, if n is not zero *)
Definition ack_of (n : N) : list bp := if n =? 0 then [] else [PAck n].

Section Step.
  Variable fixed1 : bool.    (* finding C21-1 repaired (consumeCommand forwards the acknowledgement of a signed command) *)
  Variable fixed2 : bool.    (* finding C21-2 repaired (modifyCommand keeps the last-seen update) *)
  Variable cfg : config.

  (* ChatState.AccumulateAckCount + chatQueue.HandleAcknowledgement *)
  Definition step_ack (s : st) (off : N) : st :=
    let d := delayed s + off in
    if window + min_delayed <=? d                 (* ackCountToForward = d - 20 >= lastSeenMessagesWindowSize *)
    then emit s min_delayed [PAck (d - min_delayed)]
    else emit s d [].

  (* consumeCommand(packet, hasLastSeenMessages = true) after UpdateFromMessage made the
     packet's offset [o'] = own offset + delayed and zeroed delayed *)
  Definition consume (s : st) (signed : bool) (o' : N) : st :=
    if signed then
      if c_fka cfg then mkSt 0 (out s) true (lost1 s) (lost2 s) (hit2 s)
      else if fixed1 then emit s 0 (ack_of o')
      else mkSt 0 (out s) false (lost1 s + o') (lost2 s) (hit2 s) (* returns nil: o' is gone *)
    else emit s 0 (ack_of o').

  (* modifyCommand: rebuilt through chat.Builder without the last-seen update *)
  Definition modify (s : st) (id : N) (signed : bool) (o' : N) : st :=
    if signed && c_fka cfg then mkSt 0 (out s) true (lost1 s) (lost2 s) (hit2 s)
    else if fixed2 then emit s 0 [PCmd id o']
    else mkSt 0 (out s ++ [if c_p1205 cfg then PUCmd id else PCmd id 0]) false (lost1 s) (lost2 s + o') true.

  Definition step (s : st) (x : op) : st :=
    if disc s then s else
    match x with
    | Ack off => step_ack s off
    | Chat id off _ =>
      (* UpdateFromMessage, then the packet itself or a rebuilt one; both carry the new last-seen *)
      emit s 0 [PChat id (off + delayed s)]
    | Cmd id off signed o =>
      let o' := off + delayed s in
      match o with
      | OForward => emit s 0 [PCmd id o']
      | ORewrite => modify s id signed o'
      | OConsumed | ODenied => consume s signed o'
      end
    | UCmd id o =>
      (* lastSeenMessages = nil: ChatState untouched *)
      match o with
      | OForward | ORewrite => emit s (delayed s) [PUCmd id]
      | OConsumed | ODenied => s
      end
    end.

  Definition run (ops : list op) : st := fold_left step ops init.
End Step.

(* today's code: C21-1 is repaired (commit f72099c), C21-2 is open *)
Definition impl_run := run true false.
Definition spec_run := run true true.
(* the code before the C21-1 repair, kept for the record of that finding *)
Definition prefix_run := run false false.

(* ---------- accounting ---------- *)

Definition op_off (x : op) : N :=
  match x with Chat _ off _ => off | Cmd _ off _ _ => off | UCmd _ _ => 0 | Ack off => off end.
Definition bp_off (p : bp) : N :=
  match p with PChat _ off => off | PCmd _ off => off | PAck off => off | PUCmd _ | POther => 0 end.

Fixpoint sum (l : list N) : N := match l with [] => 0 | x :: r => x + sum r end.

(* A: acknowledged by the client; F: acknowledged towards the backend *)
Definition A (ops : list op) : N := sum (map op_off ops).
Definition F (ps : list bp) : N := sum (map bp_off ps).

Definition op_id (x : op) : option N :=
  match x with Chat i _ _ => Some i | Cmd i _ _ _ => Some i | UCmd i _ => Some i | Ack _ => None end.
Definition bp_id (p : bp) : option N :=
  match p with PChat i _ => Some i | PCmd i _ => Some i | PUCmd i => Some i | PAck _ | POther => None end.

Fixpoint somes {X} (l : list (option X)) : list X :=
  match l with [] => [] | Some x :: r => x :: somes r | None :: r => somes r end.

Definition op_ids (ops : list op) : list N := somes (map op_id ops).
Definition bp_ids (ps : list bp) : list N := somes (map bp_id ps).

(* a is a subsequence of b *)
Fixpoint subseq (a b : list N) : bool :=
  match a, b with
  | [], _ => true
  | _ :: _, [] => false
  | x :: a', y :: b' => if x =? y then subseq a' b' else subseq a b'
  end.

(* does the packet carry a last-seen update? *)
Definition carries (p : bp) : bool := match p with PChat _ _ | PCmd _ _ => true | _ => false end.

(* the client's acknowledgements up to and including the op tagged [i] *)
Fixpoint A_upto (ops : list op) (i : N) : option N :=
  match ops with
  | [] => None
  | x :: r =>
    match op_id x with
    | Some j => if j =? i then Some (op_off x)
                else match A_upto r i with Some a => Some (op_off x + a) | None => None end
    | None => match A_upto r i with Some a => Some (op_off x + a) | None => None end
    end
  end.

(* catch-up, checked packet by packet: at every packet that carries a last-seen update the
   backend's count [f] equals the client's count up to the op that packet came from *)
Fixpoint caught_up (ops : list op) (f : N) (ps : list bp) : bool :=
  match ps with
  | [] => true
  | p :: r =>
    let f' := f + bp_off p in
    (if carries p then
       match bp_id p with
       | Some i => match A_upto ops i with Some a => a =? f' | None => false end
       | None => false
       end
     else true)
    && caught_up ops f' r
  end.

(* the property on what was observed after all [ops] were processed: packets in client order;
   F <= A; A - F < 40; nothing acknowledged is lost (A = F + held) and fewer than 40 are held;
   catch-up at every packet with a last-seen update.  After a disconnect only the order is left. *)
Definition holds_C21 (ops : list op) (ps : list bp) (held : N) (disconnected : bool) : bool :=
  subseq (bp_ids ps) (op_ids ops)
  && (disconnected
      || ((F ps <=? A ops) && (A ops - F ps <? 2 * window) && (A ops =? F ps + held) && (held <? 2 * window)
          && caught_up ops 0 ps)).

(* ---------- the queue under asynchronous completion ---------- *)

(* chatQueue.queueTask chains every task on the previous task's future (future.ThenCompose on
   cq.head): a task starts - runs its ChatState update and decides its packet - only when its
   predecessor has completed, and completes when its own packet has been written (or there is
   none).  Client packets arrive on the read loop at any time in between.
   [q_sent]: everything the client sent so far; [q_started]: tasks started so far, in order;
   [q_pend]: queued tasks not yet started; [q_busy]: a started task has not completed yet;
   [q_nvis]: how many packets of the started tasks have reached the backend connection. *)
Record qstate := mkQ {
  q_sent : list op;
  q_started : list op;
  q_pend : list op;
  q_busy : bool;
  q_nvis : nat
}.

Definition q_init : qstate := mkQ [] [] [] false 0.

Section Queue.
  Variable fixed1 fixed2 : bool.
  Variable cfg : config.

  (* the read loop hands the i-th packet to the queue *)
  Definition q_send (i : nat) (x : op) (q : qstate) : qstate :=
    if negb (Nat.eqb (length (q_sent q)) i) then q          (* program order of the read loop *)
    else if q_busy q
    then mkQ (q_sent q ++ [x]) (q_started q) (q_pend q ++ [x]) true (q_nvis q)
    else mkQ (q_sent q ++ [x]) (q_started q ++ [x]) (q_pend q) true (q_nvis q).

  (* the running task completes: its packet (if any) is on the wire, the next task starts *)
  Definition q_tick (q : qstate) : qstate :=
    if q_busy q then
      let n := length (out (run fixed1 fixed2 cfg (q_started q))) in
      match q_pend q with
      | [] => mkQ (q_sent q) (q_started q) [] false n
      | x :: r => mkQ (q_sent q) (q_started q ++ [x]) r true n
      end
    else q.

  (* what the backend has received so far *)
  Definition q_visible (q : qstate) : list bp := firstn (q_nvis q) (out (run fixed1 fixed2 cfg (q_started q))).
End Queue.
