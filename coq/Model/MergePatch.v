(* C36 — JSON Merge Patch.  Executable definitions only.

   impl_merge  mirrors  pkg/gate/config_merge_patch.go : applyMergePatch(target, patch any) any
   merge_rfc   is the pseudocode of RFC 7396 section 2
   go_apply    is what mergeConfigPatch does around it: json.Unmarshal of both documents into
               `any` (objects become map[string]any: duplicate keys collapse, last one wins)
               and then applyMergePatch.

   How Go values are represented (Base/Json.v):
   - map[string]any  = JObj with unique keys; list order stands for the (unspecified) map
     iteration order, Proofs/C36.v shows the result does not depend on it;
   - a nil interface = JNull (json.Unmarshal turns `null` into nil, `value == nil` in the code
     is exactly "the member is JSON null"); indexing a map with an absent key also yields nil,
     hence [get_or_null];
   - float64 numbers are opaque canonical literals (the merge never looks inside a number). *)
From Coq Require Import List NArith Bool.
From Verif Require Import Base.Hex Base.Json.
Import ListNotations.

Definition get_or_null (k : bytes) (m : obj) : json :=
  match obj_get k m with Some v => v | None => JNull end.

(* ---------- the code that exists ---------- *)
Section ImplLoop.
  Variable rec : json -> json -> json.

  (* body of `for key, value := range patchObject`:
       if value == nil { delete(targetObject, key); continue }
       targetObject[key] = applyMergePatch(targetObject[key], value)            *)
  Definition impl_step (acc : obj) (kv : bytes * json) : obj :=
    let (k, v) := kv in
    if is_null v then obj_del k acc
    else obj_set k (rec (get_or_null k acc) v) acc.

  Fixpoint impl_loop (ps : list (bytes * json)) (acc : obj) : obj :=
    match ps with
    | [] => acc
    | kv :: r => impl_loop r (impl_step acc kv)
    end.
End ImplLoop.

(* applyMergePatch: a patch that is not a map is returned as is; a target that is not a map is
   replaced by an empty map; then the loop above; the (mutated) target map is returned. *)
Fixpoint impl_merge (t p : json) {struct p} : json :=
  match p with
  | JObj ps => JObj (impl_loop impl_merge ps (members_of t))
  | _ => p
  end.

(* json.Unmarshal(currentJSON, &target); json.Unmarshal(patch, &patchValue); applyMergePatch *)
Definition go_apply (raw_target raw_patch : json) : json :=
  impl_merge (decode_last raw_target) (decode_last raw_patch).

(* ---------- RFC 7396, section 2 ----------
     define MergePatch(Target, Patch):
       if Patch is an Object:
         if Target is not an Object:
           Target = {} # Ignore the contents and set it to an empty Object
         for each Name/Value pair in Patch:
           if Value is null:
             if Name exists in Target:
               remove the Name/Value pair from Target
           else:
             Target[Name] = MergePatch(Target[Name], Value)
         return Target
       else:
         return Patch
   Target[Name] of an absent member is undefined: the target argument is an option. *)
Section RfcLoop.
  Variable rec : option json -> json -> json.

  Definition rfc_step (target : obj) (nv : bytes * json) : obj :=
    let (name, value) := nv in
    match value with
    | JNull => if obj_mem name target then obj_del name target else target
    | _ => obj_set name (rec (obj_get name target) value) target
    end.

  Fixpoint rfc_loop (ps : list (bytes * json)) (target : obj) : obj :=
    match ps with
    | [] => target
    | nv :: r => rfc_loop r (rfc_step target nv)
    end.
End RfcLoop.

Fixpoint merge_rfc (target : option json) (patch : json) {struct patch} : json :=
  match patch with
  | JObj ps =>
      JObj (rfc_loop merge_rfc ps
              (match target with Some (JObj m) => m | _ => [] end))
  | _ => patch
  end.

(* the property's reference for a pair of documents as sent on the wire: parse (a JSON parser
   keeps one member per name; Go keeps the last), then RFC 7396 *)
Definition spec_apply (raw_target raw_patch : json) : json :=
  merge_rfc (Some (decode_last raw_target)) (decode_last raw_patch).

(* ---------- the outer function's accept/reject clause ----------
   mergeConfigPatch accepts the merged document iff it strictly decodes as a configuration.
   The expected outcome is written from the property text for classes of patches applied to a
   valid configuration document; the class of a generated patch is known by construction. *)
Inductive patch_class :=
| PcUnknownField      (* introduces a member name the configuration schema does not have *)
| PcKnownWellTyped    (* sets a documented field to a value of its documented type *)
| PcKnownIllTyped     (* sets a documented field to a value of an incompatible JSON kind *)
| PcDeleteKnown       (* null for a documented field: the member disappears, defaults apply *)
| PcDeleteAbsent      (* null for a name the document does not have (e.g. a documented name in
                         another letter case): RFC 7396 names are exact, nothing changes *)
| PcEmptyObject       (* the patch is {}: nothing changes *)
| PcNonObject         (* the patch is a scalar or an array: the result is not a configuration *)
| PcNotJson.          (* the patch is not a JSON text *)

Definition spec_accepts (c : patch_class) : bool :=
  match c with
  | PcKnownWellTyped | PcDeleteKnown | PcDeleteAbsent | PcEmptyObject => true
  | PcUnknownField | PcKnownIllTyped | PcNonObject | PcNotJson => false
  end.

(* The document-level patch `null`.  RFC 7396: a non-object patch replaces the target, the
   result is JSON null - a document without any member.  The code hands it to the strict
   decoder, which accepts it and sets nothing: the candidate is the configuration in which no
   member is set (the zero configuration, all documented defaults absent), which the later
   Validate rejects.  What the property demands of an ACCEPTED null patch is therefore: the
   candidate carries nothing of the target, i.e. it re-encodes as the zero configuration does.
   [null_patch_candidate_ok rfc_result zero cand] *)
Definition null_patch_candidate_ok (rfc_result zero cand : json) : bool :=
  is_null rfc_result && json_eqb cand zero.
