(* C07 - reference layouts of the vanilla wire format, written from the protocol specification
   (wiki.vg protocol pages per version / the vanilla packet classes), NOT from gate's decoders.
   Each reference is a function of the context giving a guard-free layout over the concrete primitives;
   the reference decoder is dec_L of that layout.  Field names are those of gate's packet structs so that
   a reference can be compared with the layout translated from gate's Encode (Proofs/C07.v) and so that the
   judge can build the intended value from a field dump (Check/C07.v).
   Executable definitions only. *)
From Coq Require Import List NArith ZArith String Bool.
From Verif Require Import Base.Hex Model.Layout Model.LayoutPrims.
Import ListNotations.
Open Scope string_scope.
Open Scope Z_scope.

Definition VL := layout LP.
Definition fld (f : string) (p : lprim) : VL := @LPrim LP (FPath [f]) p.
Fixpoint seq (l : list VL) (tl : VL) : VL :=
  match l with [] => tl | x :: r => @LSeq LP x (seq r tl) end.
Definition fin : VL := @LEnd LP.
Definition rest_of (f : string) (lim : option N) : VL := @LRest LP (FPath [f]) lim.
Definition norep : repopts := mkrep None true 0.

(* protocol numbers *)
Definition v1_8 := 47. Definition v1_12_2 := 340. Definition v1_13 := 393. Definition v1_16 := 735.
Definition v1_7_6 := 5. Definition v1_19 := 759. Definition v1_19_1 := 760. Definition v1_19_3 := 761.
Definition v1_20_2 := 764. Definition v1_20_3 := 765. Definition v1_20_5 := 766. Definition v1_21 := 767.
Definition v1_21_2 := 768. Definition v1_21_4 := 769. Definition v26_2 := 776.

Definition ver_ge (c : ctx) (n : Z) : bool := n <=? cver c.

(* Handshake: VarInt protocol, String(255) address, Unsigned Short port, VarInt next state *)
Definition van_handshake (c : ctx) : VL :=
  seq [fld "ProtocolVersion" PVarInt; fld "ServerAddress" (PString 255); fld "Port" (PInt 2 false); fld "NextStatus" PVarInt] fin.

Definition van_status_request (c : ctx) : VL := fin.
Definition van_status_response (c : ctx) : VL := seq [fld "Status" (PString 32767)] fin.
Definition van_status_ping (c : ctx) : VL := seq [fld "RandomID" (PInt 8 true)] fin.

(* Keep alive: Int (1.7), VarInt (1.8 - 1.12.1), Long (1.12.2+) *)
Definition van_keepalive (c : ctx) : VL :=
  if ver_ge c v1_12_2 then seq [fld "RandomID" (PInt 8 true)] fin
  else if ver_ge c v1_8 then seq [fld "RandomID" PVarInt] fin
  else seq [fld "RandomID" (PInt 4 true)] fin.

Definition van_set_compression (c : ctx) : VL := seq [fld "Threshold" PVarInt] fin.
Definition van_transfer (c : ctx) : VL := seq [fld "Host" (PString 32767); fld "Port" PVarInt] fin.

(* Login plugin request / response: message id, channel identifier | success flag, then the rest of the packet *)
Definition van_login_plugin_request (c : ctx) : VL :=
  seq [fld "ID" PVarInt; fld "Channel" (PString 32767)] (rest_of "Data" (Some 1048576%N)).
Definition van_login_plugin_response (c : ctx) : VL :=
  seq [fld "ID" PVarInt; fld "Success" PBool] (rest_of "Data" (Some 1048576%N)).

(* Encryption request: server id String(20); 1.8+: VarInt-prefixed key and token, 1.20.5+: bool "should authenticate";
   1.7: short-prefixed arrays *)
Definition van_encryption_request (c : ctx) : VL :=
  if ver_ge c v1_8 then
    seq [fld "ServerID" (PString 20); fld "PublicKey" (PBytes 32767); fld "VerifyToken" (PBytes 32767)]
        (if ver_ge c v1_20_5 then seq [@LPrim LP (FNeg (FPath ["DisableAuthenticate"])) PBool] fin else fin)
  else seq [fld "ServerID" (PString 20); fld "PublicKey" PBytes17; fld "VerifyToken" PBytes17] fin.

(* Encryption response: secret; 1.19 - 1.19.2: Either (bool true: verify token | false: long salt + signature bytes) *)
Definition van_encryption_response (c : ctx) : VL :=
  if ver_ge c v1_8 then
    seq [fld "SharedSecret" (PBytes 32767)]
        (if ver_ge c v1_19 && negb (ver_ge c v1_19_3)
         then @LOpt LP (FNeg (FHas ["Salt"]))
                (seq [fld "VerifyToken" (PBytes 32767)] fin)
                (seq [fld "Salt" (PInt 8 true); fld "VerifyToken" (PBytes 32767)] fin)
         else seq [fld "VerifyToken" (PBytes 32767)] fin)
  else seq [fld "SharedSecret" PBytes17; fld "VerifyToken" PBytes17] fin.

(* Login success: uuid as undashed text (1.7.2-1.7.5), dashed text (1.7.6 - 1.15), four ints (1.16 - 1.18), raw (1.19+);
   name; 1.19+: properties; 1.20.5 - 1.21.1: strict error handling flag; 26.2: session id *)
Definition van_properties (f : string) : VL :=
  @LRep LP (FPath [f]) norep
    (seq [@LPrim LP (FPath [f; "#"; "Name"]) (PString 32767); @LPrim LP (FPath [f; "#"; "Value"]) (PString 32767)]
         (@LOpt LP (FHas [f; "#"; "Signature"])
            (seq [@LPrim LP (FPath [f; "#"; "Signature"]) (PString 32767)] fin)
            fin)).

Definition van_login_success (c : ctx) : VL :=
  let uuid := if ver_ge c v1_16 then fld "UUID" PUUID
              else if ver_ge c v1_7_6 then fld "UUID" (PUUIDStr true) else fld "UUID" (PUUIDStr false) in
  seq [uuid; fld "Username" (PString 16)]
      (if ver_ge c v1_19 then
         seq [van_properties "Properties"]
             (if (cver c =? v1_20_5) || (cver c =? v1_21) then seq [@LConst LP PBool (ABool true)] fin
              else if ver_ge c v26_2 then seq [fld "SessionID" PUUID] fin else fin)
       else fin).

(* Plugin message: channel (identifier from 1.13: the name gate means to send is the modernised one), data = rest of the
   packet (1.8+; serverbound at most 32767 bytes, clientbound 1 MiB) or a short-prefixed array (1.7) *)
Definition van_plugin_message (c : ctx) : VL :=
  let ch := if ver_ge c v1_13 then @LPrim LP (FFun "TransformLegacyToModernChannel" ["Channel"]) (PString 32767)
            else fld "Channel" (PString 32767) in
  if ver_ge c v1_8 then seq [ch] (rest_of "Data" (if ccb c then Some 1048576%N else Some 32767%N))
  else seq [ch; fld "Data" PBytes17] fin.

(* Player info remove: VarInt count, UUIDs *)
Definition van_playerinfo_remove (c : ctx) : VL :=
  seq [@LRep LP (FPath ["PlayersToRemove"]) norep (seq [@LPrim LP (FPath ["PlayersToRemove"; "#"]) PUUID] fin)] fin.

(* ----- Player info update -----
   EnumSet of actions as a fixed bit set (one byte for up to 8 actions), VarInt entry count; per entry the UUID and then the data
   of every action IN THE ENUM'S ORDER: 0 ADD_PLAYER, 1 INITIALIZE_CHAT, 2 UPDATE_GAME_MODE, 3 UPDATE_LISTED, 4 UPDATE_LATENCY,
   5 UPDATE_DISPLAY_NAME, 6 UPDATE_LIST_ORDER (1.21.2+), 7 UPDATE_HAT (1.21.4+). *)
Definition efld (p : list string) (pr : lprim) : VL := @LPrim LP (FPath ("Entries" :: "#" :: p)) pr.
Definition component_at (c : ctx) (p : list string) : VL :=
  if ver_ge c v1_20_3 then efld p PNbt else efld p (PString 262144).

Definition action_layout (c : ctx) (a : N) : list VL :=
  match a with
  | 0%N => [efld ["Profile"; "Name"] (PString 16);
            @LRep LP (FPath ["Entries"; "#"; "Profile"; "Properties"]) norep
              (seq [@LPrim LP (FPath ["Entries"; "#"; "Profile"; "Properties"; "#"; "Name"]) (PString 32767);
                    @LPrim LP (FPath ["Entries"; "#"; "Profile"; "Properties"; "#"; "Value"]) (PString 32767)]
                   (@LOpt LP (FHas ["Entries"; "#"; "Profile"; "Properties"; "#"; "Signature"])
                      (seq [@LPrim LP (FPath ["Entries"; "#"; "Profile"; "Properties"; "#"; "Signature"]) (PString 32767)] fin)
                      fin))]
  | 1%N => [@LOpt LP (FHas ["Entries"; "#"; "RemoteChatSession"])
              (seq [efld ["RemoteChatSession"; "ID"] PUUID; efld ["RemoteChatSession"; "Key"; "Expiry"] (PInt 8 true);
                    efld ["RemoteChatSession"; "Key"; "Bytes"] (PBytes 512); efld ["RemoteChatSession"; "Key"; "Signature"] (PBytes 4096)] fin)
              fin]
  | 2%N => [efld ["GameMode"] PVarInt]
  | 3%N => [efld ["Listed"] PBool]
  | 4%N => [efld ["Latency"] PVarInt]
  | 5%N => [@LOpt LP (FHas ["Entries"; "#"; "DisplayName"]) (seq [component_at c ["DisplayName"]] fin) fin]
  | 6%N => [efld ["ListOrder"] PVarInt]
  | 7%N => [efld ["ShowHat"] PBool]
  | _ => []
  end.

(* LOpt is a block terminator in the normal form (Layout.v); inside an entry the actions are chained by
   continuing in BOTH branches of every optional *)
Fixpoint graft (l : VL) (k : VL) : VL :=
  match l with
  | Layout.LEnd => k
  | Layout.LSeq x y => @LSeq LP x (graft y k)
  | _ => l
  end.
Fixpoint chain (items : list VL) (tl : VL) : VL :=
  match items with
  | [] => tl
  | Layout.LOpt f a b :: r => @LOpt LP f (graft a (chain r tl)) (graft b (chain r tl))
  | x :: r => @LSeq LP x (chain r tl)
  end.

Definition bits_of (acts : list N) : Z := fold_left (fun acc a => Z.lor acc (Z.shiftl 1 (Z.of_N a))) acts 0.

(* per-entry data in the order of [acts] *)
Definition upsert_layout_in_order (acts : list N) (c : ctx) : VL :=
  seq [@LConst LP (PInt 1 false) (AZ (bits_of acts));
       @LRep LP (FPath ["Entries"]) norep
         (seq [efld ["ProfileID"] PUUID] (chain (flat_map (action_layout c) acts) fin))] fin.

Definition canonical (acts : list N) : list N := filter (fun a => existsb (N.eqb a) acts) [0; 1; 2; 3; 4; 5; 6; 7]%N.

(* what a vanilla client reads = what the property demands *)
Definition van_upsert (acts : list N) (c : ctx) : VL := upsert_layout_in_order (canonical acts) c.
Definition spec_upsert := van_upsert.
(* what playerinfo.Upsert.Encode writes TODAY (fix d54f770): it iterates the protocol's action list and writes the data
   of the actions contained in ActionSet - bit set and entry data both canonical (hand model of the Go method) *)
Definition impl_upsert (acts : list N) (c : ctx) : VL := upsert_layout_in_order (canonical acts) c.
(* PRE-FIX encoder (before d54f770): bit set canonical, entry data in the order of ActionSet *)
Definition prefix_upsert (acts : list N) (c : ctx) : VL := upsert_layout_in_order acts c.

(* ----- Login start (hello): name; 1.19: optional profile key; 1.19.1: + optional holder uuid; 1.19.3: holder uuid only;
   1.20.2: uuid mandatory.  Field names are those of the harness's dump of the intended values. *)
Definition key_block : VL :=
  seq [fld "KeyExpiry" (PInt 8 true); fld "KeyBytes" (PBytes 512); fld "KeySignature" (PBytes 4096)] fin.
Definition van_login_start (c : ctx) : VL :=
  let name := fld "Username" (PString 16) in
  if ver_ge c v1_20_2 then seq [name; fld "Holder" PUUID] fin
  else if ver_ge c v1_19_3 then seq [name] (@LOpt LP (FPath ["HasHolder"]) (seq [fld "Holder" PUUID] fin) fin)
  else if ver_ge c v1_19_1 then
    seq [name] (@LOpt LP (FPath ["HasKey"])
                  (graft key_block (@LOpt LP (FPath ["HasHolder"]) (seq [fld "Holder" PUUID] fin) fin))
                  (@LOpt LP (FPath ["HasHolder"]) (seq [fld "Holder" PUUID] fin) fin))
  else if ver_ge c v1_19 then seq [name] (@LOpt LP (FPath ["HasKey"]) key_block fin)
  else seq [name] fin.

(* ----- Disconnect: the reason is a JSON string (below 1.20.3, and always in the login state) or a nameless NBT tag ----- *)
Definition van_disconnect (json_era : bool) : VL :=
  if json_era then seq [fld "Reason" (PString 262144)] fin else seq [fld "Reason" PNbt] fin.

(* the action set a vanilla client derives from the bit set byte *)
Definition actions_of_bits (b : N) : list N := filter (fun a => N.testbit b a) [0; 1; 2; 3; 4; 5; 6; 7]%N.
Definition van_upsert_decode (c : ctx) (bs : bytes) : res (value * bytes) :=
  match bs with
  | [] => Err EShort
  | b :: _ => dec_L LP (upsert_layout_in_order (actions_of_bits b) c) c bs
  end.

(* ----- the table of references that correspond to a translated gate type ----- *)
Definition references : list (string * (ctx -> VL)) := [
  ("packet.Handshake", van_handshake);
  ("packet.StatusRequest", van_status_request);
  ("packet.StatusResponse", van_status_response);
  ("packet.StatusPing", van_status_ping);
  ("packet.KeepAlive", van_keepalive);
  ("packet.SetCompression", van_set_compression);
  ("packet.Transfer", van_transfer);
  ("packet.LoginPluginMessage", van_login_plugin_request);
  ("packet.LoginPluginResponse", van_login_plugin_response);
  ("packet.EncryptionRequest", van_encryption_request);
  ("packet.EncryptionResponse", van_encryption_response);
  ("packet.ServerLoginSuccess", van_login_success);
  ("plugin.Message", van_plugin_message);
  ("playerinfo.Remove", van_playerinfo_remove)
].

(* PRE-FIX (before 6e760d1) plugin message below 1.8 as gate encoded it: one-byte array length *)
Definition prefix_plugin_message_17 : VL := seq [fld "Channel" (PString 32767); fld "Data" PBytes17Old] fin.
