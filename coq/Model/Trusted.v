(* Model/Trusted.v -- C33: PROXY protocol headers are honoured only from trusted upstreams.
   Executable definitions only.  Go sources mirrored:
     pkg/util/netutil/trusted.go   ParseTrustedNetworks, parseNetwork, Contains, ContainsStr
     pkg/util/netutil/util.go      Host, splitHostPort
     pkg/edition/java/config       ResolveProxyProtocolTrustedProxies, DefaultProxyProtocolTrustedProxies
     pkg/edition/java/proxy/proxy_protocol.go   newProxyProtocol, wrapConnTimeout (policy choice)
   and the part of go-proxyproto's Conn that depends on the policy (effect table). *)
From Coq Require Import List NArith Bool String.
From Verif Require Import Base.Hex Base.Ip.
Import ListNotations.
Open Scope N_scope.
Open Scope bool_scope.

(* ---------- strings.TrimSpace on ASCII input ---------- *)
(* asciiSpace: \t \n \v \f \r and ' '.  Inputs of the model are ASCII byte strings; a non-ASCII
   byte makes Go switch to unicode.IsSpace, which is outside the sub-language (generators state it). *)
Definition ascii_space (c : N) : bool :=
  (c =? 9) || (c =? 10) || (c =? 11) || (c =? 12) || (c =? 13) || (c =? 32).

Fixpoint drop_space (s : bytes) : bytes :=
  match s with
  | [] => []
  | c :: r => if ascii_space c then drop_space r else s
  end.

Definition trim_space (s : bytes) : bytes := rev (drop_space (rev (drop_space s))).

(* ---------- parseNetwork ---------- *)
(* strings.Contains(network, "/") selects CIDR parsing; IPv4-mapped forms are rejected;
   the result is unmapped, zone-less (PrefixFrom) and, for CIDRs, masked. *)
Definition parse_network (s : bytes) : option prefix :=
  if mem 47 s then
    match parse_prefix s with
    | None => None
    | Some p =>
      if is4in6 (paddr p) then None
      else Some (masked (mkPrefix (strip_zone (unmap (paddr p))) (plen p)))
    end
  else
    match parse_addr s with
    | None => None
    | Some a =>
      if is4in6 a then None
      else let a' := unmap a in
           Some (mkPrefix (strip_zone a') (bit_len (fam a')))
    end.

Definition trusted := list prefix.

(* ParseTrustedNetworks: every entry trimmed and parsed; one bad entry fails the whole list *)
Fixpoint parse_trusted (l : list bytes) : option trusted :=
  match l with
  | [] => Some []
  | s :: r =>
    match parse_network (trim_space s) with
    | None => None
    | Some p => match parse_trusted r with
                | None => None
                | Some t => Some (p :: t)
                end
    end
  end.

(* ContainsStr: ParseAddr, Unmap, WithZone(""), any prefix contains *)
Definition norm_peer_ip (a : addr) : addr := strip_zone (unmap a).

Definition contains_addr (t : trusted) (a : addr) : bool :=
  existsb (fun p => contains p (norm_peer_ip a)) t.

Definition contains_str (t : trusted) (host : bytes) : bool :=
  match parse_addr host with
  | None => false                               (* not an IP: unix socket, pipe ... *)
  | Some ip => contains_addr t ip
  end.

(* netutil.Host = splitHostPort(addr.String()): host part; the whole string when the port is
   missing or there are too many colons; "" on the other SplitHostPort errors *)
Definition host_of (s : bytes) : bytes :=
  match split_host_port s with
  | ShpOk h _ => h
  | ShpMissingPort | ShpTooManyColons => s
  | ShpOther => []
  end.

(* Contains(addr net.Addr): nil is never trusted.  A peer is its String(), None = nil *)
Definition contains_peer (t : trusted) (peer : option bytes) : bool :=
  match peer with
  | None => false
  | Some s => contains_str t (host_of s)
  end.

(* ---------- configuration ---------- *)
Definition default_trusted_entries : list bytes :=
  map tx ["127.0.0.0/8"; "::1/128"; "10.0.0.0/8"; "172.16.0.0/12"; "192.168.0.0/16";
          "169.254.0.0/16"; "fc00::/7"; "fe80::/10"]%string.

(* ResolveProxyProtocolTrustedProxies *)
Definition resolve_entries (configured : list bytes) : list bytes :=
  match configured with [] => default_trusted_entries | _ => configured end.

(* newProxyProtocol *)
Definition new_proxy_protocol (configured : list bytes) : option trusted :=
  parse_trusted (resolve_entries configured).

(* ---------- policy and its effect ---------- *)
Inductive policy := USE | REJECT.
Definition policy_eqb (a b : policy) : bool :=
  match a, b with USE, USE => true | REJECT, REJECT => true | _, _ => false end.

(* wrapConnTimeout *)
Definition policy_of (t : trusted) (peer : option bytes) : policy :=
  if contains_peer t peer then USE else REJECT.

(* what the stream starts with: a PROXY v1/v2 header with command PROXY, a v2 header with
   command LOCAL, or something that carries neither signature (Minecraft handshake, nothing) *)
Inductive first_bytes := HdrProxy | HdrLocal | NoHdr.

Inductive remote_is := RemotePeer | RemoteHeaderSource.
Inductive read_is := ReadPayload | ReadFailsSuperfluous.

(* go-proxyproto Conn.readHeader / RemoteAddr under the two policies gate uses *)
Definition effect (p : policy) (fb : first_bytes) : remote_is * read_is :=
  match p, fb with
  | REJECT, NoHdr => (RemotePeer, ReadPayload)
  | REJECT, _ => (RemotePeer, ReadFailsSuperfluous)
  | USE, HdrProxy => (RemoteHeaderSource, ReadPayload)
  | USE, _ => (RemotePeer, ReadPayload)
  end.

(* the property's own reading of "what must happen" *)
Definition spec_trusted_peer (t : trusted) (peer : option bytes) : bool := contains_peer t peer.

Definition spec_effect (trusted_peer : bool) (fb : first_bytes) : remote_is * read_is :=
  match fb with
  | NoHdr => (RemotePeer, ReadPayload)                          (* no header: own address *)
  | HdrProxy => if trusted_peer then (RemoteHeaderSource, ReadPayload)
                else (RemotePeer, ReadFailsSuperfluous)         (* header from anybody else fails *)
  | HdrLocal => if trusted_peer then (RemotePeer, ReadPayload)
                else (RemotePeer, ReadFailsSuperfluous)
  end.
