(* C19 — model of the server address the proxy writes into the backend handshake.
   Go anchors (pkg/edition/java/proxy/server.go unless said otherwise):
     serverConnection.startHandshake (the playerVHost computation), handshakeAddr,
     backendHandshakeBaseHost, createLegacyForwardingAddress, createBungeeGuardForwardingAddress,
     forgeExtraDataProperty, forge.HandshakeHostnameToken, modernforge.ModernToken
     (pkg/edition/java/forge/modernforge), uuid.UUID.Undashed, profile.Property's JSON encoding through
     encoding/json (appendString with escapeHTML, Go 1.22+ escapes of \b and \f), strconv.Atoi / Itoa.
   Executable definitions only; proofs are in Proofs/C19*.v.  Strings are byte lists. *)
From Coq Require Import List NArith ZArith Bool Arith.
From Verif Require Import Base.Hex Base.Text Model.TryList.
Import ListNotations.
Open Scope N_scope.

(* ---------- NUL-separated parts ---------- *)

(* strings.Split(s, "\x00"): always at least one part *)
Fixpoint split_nul (s : bytes) : list bytes :=
  match s with
  | [] => [[]]
  | c :: r =>
    if c =? 0 then [] :: split_nul r
    else match split_nul r with
         | p :: ps => (c :: p) :: ps
         | [] => [[c]]
         end
  end.

(* the first NUL-separated part: nth 0 (split_nul s) = cut_nul s (Proofs/C19.v) *)
Definition first_part (s : bytes) : bytes := cut_nul s.

Fixpoint has_prefix (p s : bytes) : bool :=
  match p, s with
  | [], _ => true
  | a :: p', b :: s' => (a =? b) && has_prefix p' s'
  | _ :: _, [] => false
  end.

Definition t_FML : bytes := [70; 77; 76].
Definition t_FML2 : bytes := [70; 77; 76; 50].
Definition t_FML3 : bytes := [70; 77; 76; 51].
Definition t_FORGE : bytes := [70; 79; 82; 71; 69].

(* ---------- strconv.Atoi (value only; 0 on syntax error, clamped on range error) and Itoa ---------- *)

Definition max_int64 : Z := 9223372036854775807%Z.
Definition min_int64 : Z := (-9223372036854775808)%Z.

Fixpoint digits_val (acc : Z) (s : bytes) : option Z :=
  match s with
  | [] => Some acc
  | c :: r => if is_digit c then digits_val (acc * 10 + Z.of_N (c - 48))%Z r else None
  end.

Definition atoi (s : bytes) : Z :=
  let '(neg, ds) := match s with
                    | 43 :: r => (false, r)
                    | 45 :: r => (true, r)
                    | _ => (false, s)
                    end in
  match ds with
  | [] => 0%Z
  | _ =>
    match digits_val 0%Z ds with
    | None => 0%Z
    | Some v =>
      let x := if neg then (- v)%Z else v in
      if (max_int64 <? x)%Z then max_int64 else if (x <? min_int64)%Z then min_int64 else x
    end
  end.

Fixpoint pos_digits (fuel : nat) (n : N) : bytes :=
  match fuel with
  | O => []
  | S f => if n =? 0 then [] else pos_digits f (n / 10) ++ [48 + n mod 10]
  end.
Definition itoa (z : Z) : bytes :=
  match z with
  | Z0 => [48]
  | Zpos p => pos_digits 20 (Npos p)
  | Zneg p => 45 :: pos_digits 20 (Npos p)
  end.

(* ---------- Forge tokens ---------- *)

(* modernforge.ModernToken: the loop runs over ALL parts (the host part included) once the string
   contains a NUL; the first FML2/FML3-prefixed part returns at once, FORGE-prefixed parts longer than
   the token (re)assign natVersion (Atoi's value, 0 on a syntax error) *)
Fixpoint modern_token_scan (parts : list bytes) (nat_version : Z) : bytes :=
  match parts with
  | [] => if (nat_version =? 0)%Z then 0 :: t_FORGE else 0 :: t_FORGE ++ itoa nat_version
  | pt :: r =>
    if has_prefix t_FML2 pt || has_prefix t_FML3 pt then 0 :: pt ++ [0]
    else if has_prefix t_FORGE pt then
      (if Nat.ltb 5 (length pt) then modern_token_scan r (atoi (skipn 5 pt))
       else modern_token_scan r nat_version)
    else modern_token_scan r nat_version
  end.

Definition modern_token (host : bytes) : bytes :=
  if has 0 host then modern_token_scan (split_nul host) 0%Z else 0 :: t_FORGE.

Inductive conn_type := CtOther | CtLegacyForge | CtModernForge.

(* backendHandshakeBaseHost: strings.SplitN(vHost, "\x00", 2)[0] for the Forge types *)
Definition base_host (ct : conn_type) (v : bytes) : bytes :=
  match ct with CtOther => v | _ => cut_nul v end.

(* forgeExtraDataProperty ("" = none): for Modern Forge the first FML2/FML3/FORGE-prefixed part of
   netutil.Host(player.virtualHost), the host part included *)
Fixpoint first_forge_part (parts : list bytes) : bytes :=
  match parts with
  | [] => []
  | pt :: r =>
    if has_prefix t_FML2 pt || has_prefix t_FML3 pt || has_prefix t_FORGE pt then 1 :: pt
    else first_forge_part r
  end.
Definition forge_extra (ct : conn_type) (pvhost : bytes) : bytes :=
  match ct with
  | CtModernForge => first_forge_part (split_nul (host_str pvhost))
  | CtLegacyForge => 1 :: t_FML ++ [0]
  | CtOther => []
  end.

(* ---------- encoding/json string escaping (appendString, escapeHTML = true) ---------- *)

Definition hexdigit (d : N) : N := if d <? 10 then 48 + d else 87 + d.   (* lower case *)

(* one byte below 0x80 *)
Definition esc_ascii (b : N) : bytes :=
  if (b =? 34) || (b =? 92) then [92; b]
  else if b =? 8 then [92; 98]
  else if b =? 12 then [92; 102]
  else if b =? 10 then [92; 110]
  else if b =? 13 then [92; 114]
  else if b =? 9 then [92; 116]
  else if (b <? 32) || (b =? 60) || (b =? 62) || (b =? 38)
       then [92; 117; 48; 48; hexdigit (b / 16); hexdigit (b mod 16)]
  else [b].

Definition esc_fffd : bytes := [92; 117; 102; 102; 102; 100].          (* � *)

(* number of bytes of the well-formed UTF-8 sequence at the head of s (utf8.DecodeRuneInString),
   0 when the first byte does not start one; same table as Base/Text.first_info *)
Definition seq_len (s : bytes) : nat :=
  match s with
  | [] => O
  | b0 :: r =>
    let '(n, lo, hi) := first_info b0 in
    if n =? 2 then match r with b1 :: _ => if in_rng lo hi b1 then 2%nat else O | _ => O end
    else if n =? 3 then
      match r with b1 :: b2 :: _ => if in_rng lo hi b1 && is_cont b2 then 3%nat else O | _ => O end
    else if n =? 4 then
      match r with
      | b1 :: b2 :: b3 :: _ => if in_rng lo hi b1 && is_cont b2 && is_cont b3 then 4%nat else O
      | _ => O
      end
    else O
  end.

(* E2 80 A8 / E2 80 A9 = U+2028 / U+2029 *)
Definition ls_ps (s : bytes) : option N :=
  match s with
  | 226 :: 128 :: c :: _ => if (c =? 168) || (c =? 169) then Some (c - 160) else None
  | _ => None
  end.

(* what remains to be done with the continuation bytes of a sequence recognised at its lead byte *)
Inductive esc_state := ENone | ECopy (k : nat) | EDrop (k : nat).

(* The walker: at a byte >= 0x80 outside a sequence, look ahead; a well-formed sequence is copied raw
   (its continuation bytes are >= 0x80, so the guard `128 <=? b` below never fails for them), U+2028/9
   become   /  , anything else becomes � and only that one byte is consumed. *)
Fixpoint esc_walk (st : esc_state) (s : bytes) : bytes :=
  match s with
  | [] => []
  | b :: r =>
    match st with
    | EDrop (S k) => esc_walk (match k with O => ENone | _ => EDrop k end) r
    | ECopy (S k) =>
      if 128 <=? b then b :: esc_walk (match k with O => ENone | _ => ECopy k end) r
      else esc_ascii b ++ esc_walk ENone r
    | _ =>
      if b <? 128 then esc_ascii b ++ esc_walk ENone r
      else match seq_len s with
           | O => esc_fffd ++ esc_walk ENone r
           | S k =>
             match ls_ps s with
             | Some d => [92; 117; 50; 48; 50; hexdigit d] ++ esc_walk (EDrop k) r
             | None => b :: esc_walk (match k with O => ENone | _ => ECopy k end) r
             end
           end
    end
  end.

Definition json_string (s : bytes) : bytes := 34 :: esc_walk ENone s ++ [34].

(* ---------- profile.Property and the property list ---------- *)

Record property := mkProp { p_name : bytes; p_value : bytes; p_sig : bytes }.

Definition k_name : bytes := [34;110;97;109;101;34;58].                              (* "name": *)
Definition k_value : bytes := [44;34;118;97;108;117;101;34;58].                      (* ,"value": *)
Definition k_sig : bytes := [44;34;115;105;103;110;97;116;117;114;101;34;58].        (* ,"signature": *)

Definition json_property (p : property) : bytes :=
  [123] ++ k_name ++ json_string (p_name p) ++ k_value ++ json_string (p_value p)
  ++ (match p_sig p with [] => [] | sg => k_sig ++ json_string sg end) ++ [125].

Fixpoint json_join (l : list bytes) : bytes :=
  match l with
  | [] => []
  | [x] => x
  | x :: r => x ++ [44] ++ json_join r
  end.
Definition json_array (ps : list property) : bytes := [91] ++ json_join (map json_property ps) ++ [93].
Definition json_null : bytes := [110; 117; 108; 108].

(* ---------- legacy / BungeeGuard forwarding address ---------- *)

Fixpoint undashed (u : bytes) : bytes :=
  match u with
  | [] => []
  | b :: r => hexdigit (b / 16) :: hexdigit (b mod 16) :: undashed r
  end.

Inductive fw_mode := FwNone | FwLegacy | FwBungeeGuard (secret : bytes).

Record fw_ctx := mkCtx {
  srv_addr : bytes;                  (* server.ServerInfo().Addr().String() *)
  remote : bytes;                    (* player.RemoteAddr().String() *)
  uuid : bytes;                      (* 16 bytes *)
  props : option (list property);    (* profile.Properties; None = nil slice *)
  pvhost : bytes                     (* player.virtualHost.String() *)
}.

Definition n_extraData : bytes := [101;120;116;114;97;68;97;116;97].
Definition n_bungeeguard : bytes := [98;117;110;103;101;101;103;117;97;114;100;45;116;111;107;101;110].

(* the properties that are appended *)
Definition appended (fw : fw_mode) (ct : conn_type) (c : fw_ctx) : list property :=
  (match forge_extra ct (pvhost c) with [] => [] | m => [mkProp n_extraData m []] end)
  ++ (match fw with FwBungeeGuard secret => [mkProp n_bungeeguard secret []] | _ => [] end).

Definition props_list (fw : fw_mode) (ct : conn_type) (c : fw_ctx) : list property :=
  (match props c with Some l => l | None => [] end) ++ appended fw ct c.

(* PRE-FIX code (before commit 5dc4db8, finding C19-1): json.Marshal of the slice as it was; a nil
   slice to which nothing was appended printed as null *)
Definition prefix_props_json (fw : fw_mode) (ct : conn_type) (c : fw_ctx) : bytes :=
  match props c, appended fw ct c with
  | None, [] => json_null
  | _, _ => json_array (props_list fw ct c)
  end.
(* the code as it is now: `if properties == nil { properties = []profile.Property{} }` before
   json.Marshal, so a nil slice to which nothing was appended prints as [] *)
Definition impl_props_json (fw : fw_mode) (ct : conn_type) (c : fw_ctx) : bytes :=
  match props c, appended fw ct c with
  | None, [] => json_array []
  | _, _ => json_array (props_list fw ct c)
  end.
(* what the property demands: always a JSON property list *)
Definition spec_props_json (fw : fw_mode) (ct : conn_type) (c : fw_ctx) : bytes :=
  json_array (props_list fw ct c).

Definition forwarding_address (pj : bytes) (c : fw_ctx) : bytes :=
  srv_addr c ++ [0] ++ host_str (remote c) ++ [0] ++ undashed (uuid c) ++ [0] ++ pj.

(* input class of finding C19-1 (fixed): legacy mode, nil properties, nothing appended *)
Definition trigger_null (fw : fw_mode) (ct : conn_type) (c : fw_ctx) : bool :=
  match props c, appended fw ct c with None, [] => true | _, _ => false end.

(* ---------- handshakeAddr ---------- *)

Section Addressers.
  (* user code: the server's HandshakeAddresser and the proxy's BackendHandshakeAddresser
     (None = not installed; the latter may fail = None result) *)
  Variable ha : option (bytes -> bytes).
  Variable ba : option (bytes -> option bytes).

  Definition used_forwarding (fw : fw_mode) : bool :=
    match ha, fw with
    | None, FwLegacy | None, FwBungeeGuard _ => true
    | _, _ => false
    end.

  (* pj chooses the JSON printer: impl_props_json (the code) or spec_props_json *)
  Definition handshake_addr (pj : fw_mode -> conn_type -> fw_ctx -> bytes)
    (fw : fw_mode) (ct : conn_type) (c : fw_ctx) (vhost : bytes) : option bytes :=
    if used_forwarding fw then Some (forwarding_address (pj fw ct c) c)
    else
      let v1 := match ha with Some f => f vhost | None => vhost end in
      match (match ba with Some g => g (base_host ct v1) | None => Some v1 end) with
      | None => None
      | Some v2 =>
        Some (match ct with
              | CtLegacyForge => v2 ++ 0 :: t_FML ++ [0]
              | CtModernForge => base_host CtModernForge v2 ++ modern_token v1
              | CtOther => v2
              end)
      end.

  (* startHandshake: the virtual host handed to handshakeAddr *)
  Definition player_vhost (c : fw_ctx) : bytes :=
    match host_str (pvhost c) with
    | [] => host_str (srv_addr c)
    | h => h
    end.

  Definition server_address (pj : fw_mode -> conn_type -> fw_ctx -> bytes)
    (fw : fw_mode) (ct : conn_type) (c : fw_ctx) : option bytes :=
    handshake_addr pj fw ct c (player_vhost c).
End Addressers.

(* ---------- reference BungeeCord-side parser ---------- *)

Definition unhex (c : N) : option N :=
  if (48 <=? c) && (c <=? 57) then Some (c - 48)
  else if (97 <=? c) && (c <=? 102) then Some (c - 87)
  else if (65 <=? c) && (c <=? 70) then Some (c - 55)
  else None.

(* body of a JSON string after the opening quote: returns the decoded bytes and the rest after the
   closing quote.  \uXXXX gives the UTF-8 encoding of the code point (no surrogate pairing: Go writes
   characters above U+FFFF raw). *)
Fixpoint parse_string_body (s : bytes) : option (bytes * bytes) :=
  match s with
  | [] => None
  | c :: r =>
    if c =? 34 then Some ([], r)
    else if c =? 92 then
      match r with
      | e :: r1 =>
        let simple (b : N) := match parse_string_body r1 with
                              | Some (t, rest) => Some (b :: t, rest) | None => None end in
        if (e =? 34) || (e =? 92) || (e =? 47) then simple e
        else if e =? 98 then simple 8
        else if e =? 102 then simple 12
        else if e =? 110 then simple 10
        else if e =? 114 then simple 13
        else if e =? 116 then simple 9
        else if e =? 117 then
          match r1 with
          | h1 :: ((h2 :: ((h3 :: ((h4 :: r5) as r4)) as r3)) as r2) =>
            match unhex h1, unhex h2, unhex h3, unhex h4 with
            | Some a, Some b, Some c', Some d =>
              match parse_string_body r5 with
              | Some (t, rest) => Some (encode_cp (((a * 16 + b) * 16 + c') * 16 + d) ++ t, rest)
              | None => None
              end
            | _, _, _, _ => None
            end
          | _ => None
          end
        else None
      | [] => None
      end
    else match parse_string_body r with
         | Some (t, rest) => Some (c :: t, rest)
         | None => None
         end
  end.

Definition parse_string (s : bytes) : option (bytes * bytes) :=
  match s with
  | 34 :: r => parse_string_body r
  | _ => None
  end.

(* members of an object whose values are all strings, after the opening brace: "k":"v",... } *)
Fixpoint parse_members (fuel : nat) (s : bytes) : option (list (bytes * bytes) * bytes) :=
  match fuel with
  | O => None
  | S f =>
    match parse_string s with
    | Some (k, 58 :: r) =>
      match parse_string r with
      | Some (v, 44 :: r') =>
        match parse_members f r' with
        | Some (ms, rest) => Some ((k, v) :: ms, rest)
        | None => None
        end
      | Some (v, 125 :: r') => Some ([(k, v)], r')
      | _ => None
      end
    | _ => None
    end
  end.

Fixpoint assoc (k : bytes) (ms : list (bytes * bytes)) : option bytes :=
  match ms with
  | [] => None
  | (k', v) :: r => if beq_bytes k k' then Some v else assoc k r
  end.

Definition s_name : bytes := [110;97;109;101].
Definition s_value : bytes := [118;97;108;117;101].
Definition s_signature : bytes := [115;105;103;110;97;116;117;114;101].

(* {"name":..,"value":..[,"signature":..]} in any member order; name and value are required *)
Definition property_of (ms : list (bytes * bytes)) : option property :=
  match assoc s_name ms, assoc s_value ms with
  | Some n, Some v => Some (mkProp n v (match assoc s_signature ms with Some sg => sg | None => [] end))
  | _, _ => None
  end.

Fixpoint parse_objects (fuel : nat) (s : bytes) : option (list property * bytes) :=
  match fuel with
  | O => None
  | S f =>
    match s with
    | 123 :: r =>
      match parse_members (length r) r with
      | Some (ms, rest) =>
        match property_of ms with
        | Some p =>
          match rest with
          | 44 :: r' =>
            match parse_objects f r' with
            | Some (ps, rest') => Some (p :: ps, rest')
            | None => None
            end
          | 93 :: r' => Some ([p], r')
          | _ => None
          end
        | None => None
        end
      | None => None
      end
    | _ => None
    end
  end.

(* a JSON array of property objects, nothing after it *)
Definition parse_props (s : bytes) : option (list property) :=
  match s with
  | 91 :: 93 :: [] => Some []
  | 91 :: r =>
    match parse_objects (length r) r with
    | Some (ps, []) => Some ps
    | _ => None
    end
  | _ => None
  end.

(* what a BungeeCord backend extracts: exactly four NUL-separated parts, the last a property list *)
Definition bungee_parse (addr : bytes) : option (bytes * bytes * bytes * list property) :=
  match split_nul addr with
  | [a; ip; id; pj] =>
    match parse_props pj with
    | Some ps => Some (a, ip, id, ps)
    | None => None
    end
  | _ => None
  end.

(* strings on which Go's encoder neither substitutes U+FFFD nor escapes U+2028/9: escaping is then
   byte-wise and the parser returns the very bytes *)
Fixpoint transparent_walk (st : esc_state) (s : bytes) : bool :=
  match s with
  | [] => true
  | b :: r =>
    match st with
    | EDrop _ => false
    | ECopy (S k) => (128 <=? b) && transparent_walk (match k with O => ENone | _ => ECopy k end) r
    | _ =>
      if b <? 128 then transparent_walk ENone r
      else match seq_len s with
           | O => false
           | S k => match ls_ps s with
                    | Some _ => false
                    | None => transparent_walk (match k with O => ENone | _ => ECopy k end) r
                    end
           end
    end
  end.
Definition json_transparent (s : bytes) : bool := transparent_walk ENone s.
Definition property_transparent (p : property) : bool :=
  json_transparent (p_name p) && json_transparent (p_value p) && json_transparent (p_sig p).

(* what any JSON parser returns for Go's output when the input had invalid UTF-8: every bad byte is
   U+FFFD *)
Definition sanitize (s : bytes) : bytes := utf8_encode (utf8_decode s).
Definition sanitize_property (p : property) : property :=
  mkProp (sanitize (p_name p)) (sanitize (p_value p)) (sanitize (p_sig p)).
