(* C12 part (ii) — what a listing call may return while players join and leave.
   Model on Base/Conc of ONE guarded map (Proxy.playerIDs, a server's players.list, Proxy.servers)
   with mutators and listers at the two granularities the lock facts can justify:
     atomic      : the iteration happens inside the critical section  => one action (LSnap)
     per element : the map REFERENCE is copied under the lock and iterated after the unlock
                   (today's Proxy.Players / DisconnectAll / players.Range)  => LBegin; LNext*; LEnd,
                   every LNext looking at the map as it is at that moment.
   (A real Go program additionally has a data race in the second case; the model is the best case
    in which nothing crashes.)   Executable definitions only. *)
From Coq Require Import List NArith Bool.
From Verif Require Import Base.Conc.
Import ListNotations.
Open Scope N_scope.

Record lstate := mkLS {
  reg  : list N;                         (* keys in the map, insertion order, no duplicates *)
  curs : list (N * (nat * list N))       (* per-element lister t -> (cursor, collected so far) *)
}.

Inductive levent :=
| EvState (l : list N)                   (* ghost: content of the map after a mutation *)
| EvBeginList (t : N)                    (* a per-element lister copied the reference *)
| EvList (t : N) (l : list N).           (* lister t returned l *)

Inductive lact :=
| LAdd (x : N) | LRemove (x : N)         (* registerConnection / unregisterConnection, players.add / remove *)
| LSnap (t : N)                          (* atomic listing *)
| LBegin (t : N) | LNext (t : N) | LEnd (t : N).

Definition memN (x : N) (l : list N) : bool := existsb (N.eqb x) l.

Fixpoint get_cur (t : N) (l : list (N * (nat * list N))) : option (nat * list N) :=
  match l with
  | [] => None
  | (t', v) :: r => if t =? t' then Some v else get_cur t r
  end.
Definition set_cur (t : N) (v : nat * list N) (s : lstate) : lstate :=
  mkLS (reg s) ((t, v) :: filter (fun kv => negb (t =? fst kv)) (curs s)).

Definition lsem (a : lact) : @action lstate levent := fun s =>
  match a with
  | LAdd x =>
      let r := if memN x (reg s) then reg s else reg s ++ [x] in (mkLS r (curs s), [EvState r])
  | LRemove x =>
      let r := filter (fun y => negb (x =? y)) (reg s) in (mkLS r (curs s), [EvState r])
  | LSnap t => (s, [EvList t (reg s)])
  | LBegin t => (set_cur t (0%nat, []) s, [EvBeginList t])
  | LNext t =>
      match get_cur t (curs s) with
      | Some (i, acc) =>
          match nth_error (reg s) i with
          | Some x => (set_cur t (S i, acc ++ [x]) s, [])
          | None => (s, [])
          end
      | None => (s, [])
      end
  | LEnd t =>
      match get_cur t (curs s) with
      | Some (_, acc) => (s, [EvList t acc])
      | None => (s, [])
      end
  end.

Definition lcompile (ts : list (list lact)) : list (@thread lstate levent) := map (map lsem) ts.

Inductive gran := Atomic | PerElement.
(* a listing call of goroutine t at the given granularity (n = elements it will try to visit) *)
Definition lister (g : gran) (t : N) (n : nat) : list lact :=
  match g with
  | Atomic => [LSnap t]
  | PerElement => LBegin t :: repeat (LNext t) n ++ [LEnd t]
  end.

Definition atomic_act (a : lact) : bool :=
  match a with LBegin _ | LNext _ | LEnd _ => false | _ => true end.
Definition atomic_prog (ts : list (list lact)) : bool := forallb (forallb atomic_act) ts.

(* content of the map after a trace prefix: the last ghost state, or the initial content *)
Definition content (r0 : list N) (evs : list levent) : list N :=
  fold_left (fun acc e => match e with EvState l => l | _ => acc end) evs r0.

(* every content the map had during a trace *)
Definition contents (r0 : list N) (evs : list levent) : list (list N) :=
  r0 :: flat_map (fun e => match e with EvState l => [l] | _ => [] end) evs.

Fixpoint list_eqbN (a b : list N) : bool :=
  match a, b with
  | [], [] => true
  | x :: r, y :: r' => (x =? y) && list_eqbN r r'
  | _, _ => false
  end.
