(* C44 - teardown of netmc.minecraftConn and the recover frame of its read loop (executable definitions).

   Go code mirrored (pkg/edition/java/netmc/connection.go):

     closeKnown      = alreadyClosed := true ; c.closeOnce.Do(func(){ alreadyClosed = false ; cancelCtx() ;
                       c.c.Close() ; ActiveSessionHandler().Disconnected() }) ; if alreadyClosed then ErrClosedConn
                       -- sync.Once.Do(f) is ONE action (a_close): callers arriving while f runs block until it
                          is done, later callers skip f (Go runtime guarantee, assumed)
     Close()         = closeKnown(true) ; CloseUnknown = closeKnown(false)
     WritePacket(p)  = if Closed(c) then ErrClosedConn                               -- a_wcheck
                       ; bufferPacket ; Flush                                        -- a_wdo
                       ; on error closeOnWriteErr = Close() then return the error     -- a_wfin
     CloseWith(c,p)  = if Closed(c) then ErrClosedConn ; WritePacket(p) (result dropped) ; defer Close()
     startReadLoop   = defer closeKnown(false) ; for loop() {} where
                       loop = defer recover(){ ok = true } ; for !Closed(c) && next() {}
                       next = ReadPacket (error: leave) ; sessionHandler.HandlePacket(packet) (may panic)

     Closed(c)       = c.ctx.Err() != nil where c.ctx is a CHILD of the context given to NewMinecraftConn:
                       true after the teardown's cancelCtx() AND after the parent context was cancelled
                       (seen_closed).  closeKnown itself does not look at it: after a parent cancel Close /
                       CloseUnknown / the read loop's deferred close still run the teardown (once); WritePacket
                       and CloseWith answer ErrClosedConn without closing anything (observed on the real code).

     teardown order  : inside the once-body cancelCtx() comes FIRST, then c.c.Close(), then Disconnected().
                       So while Disconnected() runs Closed(c) is already true: what the handler does with
                       its own connection from there (WritePacket, Write, BufferPacket, BufferPayload,
                       CloseWith, a close guarded by "if !Closed(c)" - also via the player/backend pairing,
                       where the other side's teardown comes back to this connection) answers ErrClosedConn /
                       is skipped and never reaches closeOnce again.  A call that does reach closeKnown from
                       inside the once-body (an unguarded Close, or a write on the closed socket when
                       Closed(c) is still false) blocks forever on sync.Once's mutex: c_stuck.

   [cfg] switches the two guards off so that what each of them is needed for is a model fact
   (impl_cfg = the code as it is: both on).  The peer closing its end (reads see EOF, writes fail) and
   the blocked read returning an error are environment actions. *)
From Coq Require Import List Bool Arith.
From Verif Require Import Base.Conc.
Import ListNotations.

(* early_exit: a variant of closeKnown that first answers ErrClosedConn when Closed(c) (NOT in the code) *)
(* cancel_first: cancelCtx() before the socket is closed and the handler runs (the code: true) *)
Record cfg := mkCfg { use_once : bool; use_recover : bool; early_exit : bool; cancel_first : bool }.
Definition impl_cfg : cfg := mkCfg true true false true.

(* what the session handler's Disconnected() does with ITS OWN connection *)
Inductive dop :=
| DWrite          (* WritePacket / Write / BufferPacket / BufferPayload *)
| DCloseWith      (* netmc.CloseWith(c, packet) *)
| DGuardedClose   (* if !netmc.Closed(c) { Close / CloseUnknown }  (serverConnection.disconnect0 pattern) *)
| DRawClose.      (* c.Close() without a guard *)
(* DClosed: ErrClosedConn; DSkipped: the guard skipped the close; DOther: anything else (observations only) *)
Inductive dres := DClosed | DSkipped | DOther.
(* what such a call answers when Closed(c) is already true *)
Definition res_of (d : dop) : dres := match d with DGuardedClose => DSkipped | _ => DClosed end.
Definition guarded (d : dop) : bool := match d with DRawClose => false | _ => true end.

(* what HandlePacket does with one incoming packet: returns, or panics with a value of some kind *)
Inductive pval := PError | PString | PRuntime | PCustom.
Inductive hkind := HReturn | HPanic (v : pval).

(* write in flight of one goroutine *)
Inductive creg := CIdle | CGo | CFailed | CSkip.

Record cst := mkC {
  c_dops : list dop;      (* behaviour of the installed handler's Disconnected() (never changes) *)
  c_stuck : bool;         (* a goroutine re-entered closeOnce.Do from inside its body: teardown never ends *)
  c_closed : bool;        (* the teardown called cancelCtx() *)
  c_once : bool;          (* closeOnce has fired *)
  c_cancel : bool;        (* the parent context given to NewMinecraftConn was cancelled *)
  c_broken : bool;        (* the peer closed its end of the pipe *)
  c_loop_done : bool;     (* startReadLoop left its loops *)
  c_died : bool;          (* the process died of an uncontained panic *)
  c_next : nat;           (* packets consumed by the read loop so far *)
  c_regs : list creg
}.

Definition cinit_d (dops : list dop) : cst := mkC dops false false false false false false false 0 [].
Definition cinit : cst := cinit_d [].

Inductive wres := WOk | WClosed | WIO.
Inductive cres := CFirst | CAlready.

Inductive event :=
| EDisc                              (* SessionHandler.Disconnected() ran *)
| ECancel                            (* the parent context was cancelled *)
| EDop (d : dop) (r : dres)           (* a call made by Disconnected() on its own connection returned *)
| EStuck                             (* closeOnce.Do re-entered from inside its own body: never returns *)
| ECloseRet (t : nat) (r : cres)      (* closeKnown returned to goroutine t: ran the teardown / ErrClosedConn *)
| ECwSkip (t : nat)                   (* CloseWith saw Closed(c) and answered ErrClosedConn without closing *)
| EWStart (t : nat) (saw_closed : bool)   (* a write began; what its Closed(c) check saw *)
| EWRes (t : nat) (r : wres)          (* the write returned *)
| EHandle (i : nat) (h : hkind)       (* HandlePacket entered for incoming packet number i *)
| ERecovered (i : nat)                (* the recover frame caught the panic raised while handling packet i *)
| ELoopExit                          (* startReadLoop is returning *)
| EDied.                             (* uncontained panic: the process is gone *)

Fixpoint upd {A : Type} (d : A) (i : nat) (x : A) (l : list A) : list A :=
  match i, l with
  | O, [] => [x]
  | O, _ :: r => x :: r
  | S i', [] => d :: upd d i' x []
  | S i', y :: r => y :: upd d i' x r
  end.

Definition get_reg (t : nat) (s : cst) : creg := nth t (c_regs s) CIdle.
Definition set_reg (t : nat) (r : creg) (s : cst) : cst :=
  mkC (c_dops s) (c_stuck s) (c_closed s) (c_once s) (c_cancel s) (c_broken s) (c_loop_done s) (c_died s) (c_next s) (upd CIdle t r (c_regs s)).

(* Closed(c) *)
Definition seen_closed (s : cst) : bool := c_closed s || c_cancel s.

(* a dead process does nothing; once the teardown is stuck nothing that concerns this connection moves *)
Definition alive (a : cst -> cst * list event) : @action cst event :=
  fun s => if c_died s || c_stuck s then (s, []) else a s.

(* the calls Disconnected() makes on its own connection, evaluated while the once-body runs;
   [closed_now] = what Closed(c) answers at that moment.  Returns the events and whether one of the calls
   re-entered closeOnce.Do (then the remaining ones never happen). *)
Fixpoint run_dops (closed_now : bool) (ds : list dop) : list event * bool :=
  match ds with
  | [] => ([], false)
  | d :: r =>
      let reenters :=
        match d with
        | DWrite | DCloseWith => negb closed_now    (* reaches the closed socket, fails, closeOnWriteErr -> Close *)
        | DGuardedClose => negb closed_now
        | DRawClose => true
        end in
      if reenters then ([EStuck], true)
      else let '(e, st) := run_dops closed_now r in
           (EDop d (res_of d) :: e, st)
  end.

(* closeKnown *)
Definition do_close (c : cfg) (t : nat) (s : cst) : cst * list event :=
  if (use_once c && c_once s) || (early_exit c && (c_closed s || c_cancel s))
  then (s, [ECloseRet t CAlready])
  else
    let '(e, stuck) := run_dops (cancel_first c || c_cancel s) (c_dops s) in
    if stuck
    then (mkC (c_dops s) true (cancel_first c) true (c_cancel s) (c_broken s) (c_loop_done s) (c_died s) (c_next s) (c_regs s),
          EDisc :: e)
    else (mkC (c_dops s) (c_stuck s) true true (c_cancel s) (c_broken s) (c_loop_done s) (c_died s) (c_next s) (c_regs s),
          EDisc :: e ++ [ECloseRet t CFirst]).

Definition a_close (c : cfg) (t : nat) : @action cst event := alive (do_close c t).

(* WritePacket, three steps *)
Definition a_wcheck (t : nat) : @action cst event := alive (fun s =>
  if seen_closed s
  then (set_reg t CSkip s, [EWStart t true; EWRes t WClosed])
  else (set_reg t CGo s, [EWStart t false])).

Definition a_wdo (t : nat) : @action cst event := alive (fun s =>
  match get_reg t s with
  | CGo => if seen_closed s then (set_reg t CIdle s, [EWRes t WClosed])   (* bufferPacket's own Closed check *)
           else if c_broken s
           then (set_reg t CFailed s, [])            (* Flush fails: closeOnWriteErr comes next *)
           else (set_reg t CIdle s, [EWRes t WOk])
  | _ => (s, [])
  end).

Definition a_wfin (c : cfg) (t : nat) : @action cst event := alive (fun s =>
  match get_reg t s with
  | CFailed => let '(s1, e1) := do_close c t (set_reg t CIdle s) in (s1, e1 ++ [EWRes t WIO])
  | CSkip => (set_reg t CIdle s, [])
  | _ => (s, [])
  end).

Definition write_thread (c : cfg) (t : nat) : list (@action cst event) :=
  [a_wcheck t; a_wdo t; a_wfin c t].

(* CloseWith: Closed check, WritePacket whose result is dropped, Close *)
Definition a_cwcheck (t : nat) : @action cst event := alive (fun s =>
  if seen_closed s then (set_reg t CSkip s, [ECwSkip t]) else (set_reg t CGo s, [])).

Definition a_cwwrite (c : cfg) (t : nat) : @action cst event := alive (fun s =>
  match get_reg t s with
  | CGo => if seen_closed s then (s, [])            (* WritePacket answers ErrClosedConn, dropped *)
           else if c_broken s then do_close c t s   (* Flush fails: closeOnWriteErr *)
           else (s, [])
  | _ => (s, [])
  end).

Definition a_cwclose (c : cfg) (t : nat) : @action cst event := alive (fun s =>
  match get_reg t s with
  | CGo => do_close c t (set_reg t CIdle s)
  | _ => (set_reg t CIdle s, [])
  end).

Definition closewith_thread (c : cfg) (t : nat) : list (@action cst event) :=
  [a_cwcheck t; a_cwwrite c t; a_cwclose c t].

(* environment: the peer closes its end *)
Definition a_peer_close : @action cst event := alive (fun s =>
  (mkC (c_dops s) (c_stuck s) (c_closed s) (c_once s) (c_cancel s) true (c_loop_done s) (c_died s) (c_next s) (c_regs s), [])).

(* environment: the parent context is cancelled *)
Definition a_cancel : @action cst event := alive (fun s =>
  (mkC (c_dops s) (c_stuck s) (c_closed s) (c_once s) true (c_broken s) (c_loop_done s) (c_died s) (c_next s) (c_regs s), [ECancel])).

(* one iteration of the read loop: the next incoming packet is handled with behaviour h *)
Definition a_iter (c : cfg) (h : hkind) : @action cst event := alive (fun s =>
  if c_loop_done s then (s, [])
  else if seen_closed s
  then (* cond() is false: leave, the deferred closeKnown(false) runs *)
       let '(s1, e1) := do_close c 0 (mkC (c_dops s) (c_stuck s) (c_closed s) (c_once s) (c_cancel s) (c_broken s) true (c_died s) (c_next s) (c_regs s)) in
       (s1, ELoopExit :: e1)
  else
    let i := c_next s in
    let s' := mkC (c_dops s) (c_stuck s) (c_closed s) (c_once s) (c_cancel s) (c_broken s) (c_loop_done s) (c_died s) (S i) (c_regs s) in
    match h with
    | HReturn => (s', [EHandle i h])
    | HPanic _ =>
        if use_recover c
        then (s', [EHandle i h; ERecovered i])          (* ok = true: the outer loop goes on *)
        else (mkC (c_dops s) (c_stuck s) (c_closed s) (c_once s) (c_cancel s) (c_broken s) (c_loop_done s) true (S i) (c_regs s),
              [EHandle i h; EDied])
    end).

(* the blocked read returns an error (EOF, timeout, closed pipe): leave, deferred closeKnown(false) *)
Definition a_read_err (c : cfg) : @action cst event := alive (fun s =>
  if c_loop_done s then (s, [])
  else let '(s1, e1) := do_close c 0 (mkC (c_dops s) (c_stuck s) (c_closed s) (c_once s) (c_cancel s) (c_broken s) true (c_died s) (c_next s) (c_regs s)) in
       (s1, ELoopExit :: e1)).

Definition readloop_thread (c : cfg) (script : list hkind) : list (@action cst event) :=
  map (a_iter c) script ++ [a_read_err c].

(* ---------- programs: goroutine 0 is the read loop, the others are numbered from 1 ---------- *)

Inductive gor :=
| GClose            (* Close() or CloseUnknown(): closeKnown *)
| GCloseWith        (* CloseWith(c, packet) *)
| GWrite            (* WritePacket *)
| GPeerClose        (* the peer closes its end of the pipe *)
| GCancel.          (* the parent context is cancelled *)

Definition gor_thread (c : cfg) (t : nat) (g : gor) : list (@action cst event) :=
  match g with
  | GClose => [a_close c t]
  | GCloseWith => closewith_thread c t
  | GWrite => write_thread c t
  | GPeerClose => [a_peer_close]
  | GCancel => [a_cancel]
  end.

Fixpoint gors_from (c : cfg) (t : nat) (gs : list gor) : list (list (@action cst event)) :=
  match gs with
  | [] => []
  | g :: r => gor_thread c t g :: gors_from c (S t) r
  end.

(* events of the calls made from inside the teardown *)
Definition dop_results (evs : list event) : list dres :=
  flat_map (fun e => match e with EDop _ r => [r] | _ => [] end) evs.
Definition stuck_ev (evs : list event) : bool :=
  existsb (fun e => match e with EStuck => true | _ => false end) evs.

Definition program (c : cfg) (script : list hkind) (gs : list gor) : list (list (@action cst event)) :=
  readloop_thread c script :: gors_from c 1 gs.

(* ---------- projections ---------- *)

Definition is_disc (e : event) : bool := match e with EDisc => true | _ => false end.
Definition n_disc (evs : list event) : nat := length (filter is_disc evs).
Definition has_disc (evs : list event) : bool := existsb is_disc evs.
(* Closed(c) would answer true: the teardown ran or the parent context was cancelled *)
Definition is_closing (e : event) : bool := match e with EDisc | ECancel => true | _ => false end.
Definition has_closed (evs : list event) : bool := existsb is_closing evs.
Definition n_first (evs : list event) : nat :=
  length (filter (fun e => match e with ECloseRet _ CFirst => true | _ => false end) evs).
Definition handled (evs : list event) : list nat :=
  flat_map (fun e => match e with EHandle i _ => [i] | _ => [] end) evs.
Definition panics (evs : list event) : list nat :=
  flat_map (fun e => match e with EHandle i (HPanic _) => [i] | _ => [] end) evs.
Definition recovered (evs : list event) : list nat :=
  flat_map (fun e => match e with ERecovered i => [i] | _ => [] end) evs.
Definition died (evs : list event) : bool := existsb (fun e => match e with EDied => true | _ => false end) evs.

(* writes_after_close as a left-to-right scan: (ok so far, teardown seen, write that must answer WClosed next) *)
Definition scan_step (st : bool * bool * option nat) (e : event) : bool * bool * option nat :=
  let '(ok, closed, pending) := st in
  match pending with
  | Some t =>
      match e with
      | EWRes t' WClosed => (ok && Nat.eqb t t', closed, None)
      | _ => (false, closed, None)
      end
  | None =>
      match e with
      | EDisc | ECancel => (ok, true, None)
      | EWStart t b => (ok && Bool.eqb b closed, closed, if b then Some t else None)
      | _ => (ok, closed, None)
      end
  end.
Definition scan (evs : list event) : bool * bool * option nat := fold_left scan_step evs (true, false, None).
