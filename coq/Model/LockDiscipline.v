(* C12 (and the atomicity premise of C11) — lock-discipline facts about the proxy's registries.
   This file fixes the VOCABULARY of the facts and the decision procedures; the facts themselves are
   regenerated from the Go sources on every run by translator/lockfacts.go into Gen/LockFacts.v
   (one entry per syntactic use of a guarded field or of a local that aliases its map).
   Executable definitions only. *)
From Coq Require Import List NArith Bool String.
Import ListNotations.
Open Scope string_scope.
Open Scope N_scope.

(* how the guarded map is used at the site *)
Inductive akind :=
| KRead        (* m[k], v, ok := m[k], len(m) *)
| KWrite       (* m[k] = v, delete(m, k), clear(m), assignment to the field *)
| KRange       (* for ... := range m *)
| KAlias       (* x := m : copies the map REFERENCE into a local (a read of the field) *)
| KAliasUse    (* range / index / len on such a local: touches the shared map object *)
| KAliasWrite  (* write through such a local *)
| KEscape      (* the map or an alias is returned, passed on or stored: leaves the critical section *)
| KUnknown.    (* the enclosing function has control flow the lockset walk does not model *)

Inductive lmode := LR | LW.   (* RLock / Lock *)

Record access := mkA {
  a_file  : string;
  a_line  : N;
  a_func  : string;                  (* Type.method, closures as Type.method.funcN *)
  a_field : string;                  (* Struct.field *)
  a_mutex : string;                  (* Struct.mutex that must be held *)
  a_kind  : akind;
  a_held  : list (string * lmode)    (* configured mutexes MUST-held at the statement, same receiver *)
}.

(* a return (or end of body) reached with a configured mutex held and no deferred unlock *)
Record leak := mkL { l_file : string; l_line : N; l_func : string; l_mutex : string }.

(* a guarded access together with the number of the critical section (lock acquisition, in statement
   order within its function) in which it happens; equal non-zero numbers = no unlock in between *)
Record section_fact := mkSF {
  sf_func : string; sf_region : N; sf_field : string; sf_write : bool; sf_line : N
}.

(* some critical section r <> 0 of function f contains a read AND a write of every listed field:
   the check and the update of those maps are ONE atomic step *)
Definition check_update_atomic (l : list section_fact) (f : string) (fields : list string) : bool :=
  existsb (fun x =>
             String.eqb (sf_func x) f && negb (sf_region x =? 0)
             && forallb (fun fld =>
                           existsb (fun y => String.eqb (sf_func y) f && (sf_region y =? sf_region x)
                                             && String.eqb (sf_field y) fld && sf_write y) l
                           && existsb (fun y => String.eqb (sf_func y) f && (sf_region y =? sf_region x)
                                                && String.eqb (sf_field y) fld && negb (sf_write y)) l)
                        fields)
          l.

Definition needs_write (k : akind) : bool :=
  match k with KWrite | KAliasWrite => true | _ => false end.

(* the site holds the field's mutex, in write mode when it writes *)
Definition guarded (a : access) : bool :=
  match a_kind a with
  | KEscape | KUnknown => false
  | k => existsb (fun h => String.eqb (fst h) (a_mutex a)
                           && (match snd h with LW => true | LR => negb (needs_write k) end))
                 (a_held a)
  end.

(* ---------- open findings (known_findings.jsonl), by FUNCTION, never by line ---------- *)

(* Open findings whose alias uses after RUnlock are tolerated.  EMPTY: findings C12-1 (Proxy.Players),
   C12-2 (Proxy.DisconnectAll) and C12-3 (players.Range) — map reference copied under RLock and
   iterated after RUnlock — are repaired in /repo (`fix:` commits), so ANY unguarded site now fails the
   obligation.  The PRE-FIX list is kept for the record below. *)
Definition c12_known_sites : list (string * N) := [].
Definition c12_prefix_known_sites : list (string * N) :=
  [ ("Proxy.Players", 1); ("Proxy.DisconnectAll", 2); ("players.Range", 3) ].

Fixpoint lookup_known (f : string) (l : list (string * N)) : option N :=
  match l with
  | [] => None
  | (g, k) :: r => if String.eqb f g then Some k else lookup_known f r
  end.

Definition known_site (a : access) : option N :=
  match a_kind a with
  | KAliasUse => lookup_known (a_func a) c12_known_sites
  | _ => None
  end.

Definition site_ok (a : access) : bool :=
  guarded a || match known_site a with Some _ => true | None => false end.

Definition unguarded_unknown (l : list access) : list access := filter (fun a => negb (site_ok a)) l.

(* tolerated lock leaks.  EMPTY: C11-2 (registerConnection returned false with muP locked) is repaired. *)
Definition c11_known_leaks : list (string * N) := [].
Definition c11_prefix_known_leaks : list (string * N) := [ ("Proxy.registerConnection", 2) ].
Definition leak_known (l : leak) : bool :=
  match lookup_known (l_func l) c11_known_leaks with Some _ => true | None => false end.
Definition unknown_leaks (l : list leak) : list leak := filter (fun x => negb (leak_known x)) l.

(* ---------- selections used by the obligations ---------- *)

Definition in_funcs (fs : list string) (a : access) : bool := existsb (String.eqb (a_func a)) fs.
Definition on_field (f : string) (a : access) : bool := String.eqb (a_field a) f.
Definition is_write (a : access) : bool := needs_write (a_kind a).
Definition countb {A} (f : A -> bool) (l : list A) : nat := List.length (filter f l).
