(* C23 — model of filterNode and of the merge loop of handleAvailableCommands
   (pkg/edition/java/proxy/session_backend_play.go).
   The proxy's command graph is a finite map id -> node; node 0 is the dispatcher's root.
   Executable definitions only; proofs are in Proofs/C23.v. *)
From Coq Require Import List NArith Bool.
Import ListNotations.
Open Scope N_scope.

Inductive kind := KRoot | KLit | KArg.

Definition kind_eqb (a b : kind) : bool :=
  match a, b with KRoot, KRoot | KLit, KLit | KArg, KArg => true | _, _ => false end.

(* one brigodier.CommandNode of the proxy's dispatcher, as seen by one player *)
Record gnode := mkG {
  g_kind : kind;
  g_req : bool;               (* src.CanUse(ContextWithSource(ctx, player)) *)
  g_exec : bool;              (* src.Command() != nil *)
  g_redirect : option N;      (* src.Redirect() *)
  g_children : list N         (* src.ChildrenOrdered() *)
}.

Definition graph := list (N * gnode).

Fixpoint lookup (g : graph) (id : N) : option gnode :=
  match g with
  | [] => None
  | (k, n) :: r => if k =? id then Some n else lookup r id
  end.

(* the copy filterNode builds: node ids name the source node each copy was made from
   (the harness gives every proxy node a name that encodes its id) *)
Inductive otree := ONode (id : N) (k : kind) (exec : bool) (redirect : option otree) (children : list otree).

Definition o_id (t : otree) := match t with ONode i _ _ _ _ => i end.
Definition o_children (t : otree) := match t with ONode _ _ _ _ c => c end.

Inductive fres := OutOfFuel | Done (r : option otree).

(* filterNode(src, cmdSrc) as plain recursion.  One unit of fuel per call, as one Go stack frame per call.
   Since commit 1985bf6 (repair of finding C23-1) the Go code memoises the copy of every source node
   (filterNodeSeen); on graphs without a cycle through children/redirect edges the copy it returns,
   read as a tree (shared copies expanded), is exactly this function's result - which is what the
   harness observes and the judge compares.  On cyclic graphs this function is the code BEFORE the
   repair (it runs out of every fuel); today's code terminates there and the harness checks that in
   child processes.
   - a RootCommandNode is copied without a CanUse check and without a redirect;
   - any other node the player may not use yields nil;
   - otherwise: CreateBuilder() (kind, executor), Requires(true), the redirect target is
     filtered recursively (a nil result leaves the copy without redirect);
   - then every child in registration order is filtered and the non-nil ones are added. *)
(* the loop over src.ChildrenOrdered(): [rec] filters one child; None = a child ran out of fuel *)
Fixpoint filter_kids (rec : N -> fres) (l : list N) : option (list otree) :=
  match l with
  | [] => Some []
  | c :: r =>
    match rec c with
    | OutOfFuel => None
    | Done None => filter_kids rec r
    | Done (Some t) => match filter_kids rec r with Some ts => Some (t :: ts) | None => None end
    end
  end.

Fixpoint filter_node (fuel : nat) (g : graph) (id : N) : fres :=
  match fuel with
  | O => OutOfFuel
  | S f =>
    match lookup g id with
    | None => Done None
    | Some n =>
      match g_kind n with
      | KRoot =>
        match filter_kids (filter_node f g) (g_children n) with
        | None => OutOfFuel
        | Some cs => Done (Some (ONode id KRoot false None cs))
        end
      | k =>
        if negb (g_req n) then Done None
        else
          match (match g_redirect n with
                 | None => Done None
                 | Some t => filter_node f g t
                 end) with
          | OutOfFuel => OutOfFuel
          | Done ro =>
            match filter_kids (filter_node f g) (g_children n) with
            | None => OutOfFuel
            | Some cs => Done (Some (ONode id k (g_exec n) ro cs))
            end
          end
      end
    end
  end.

(* ---------- merging into the backend's root (handleAvailableCommands) ---------- *)

(* a child of the backend's root: its name and a fingerprint of its whole subtree.
   A proxy root child with id i is named like a backend child with b_name = i. *)
Record bnode := mkB { b_name : N; b_fp : N }.

Inductive mnode := MBackend (b : bnode) | MProxy (t : otree).

Definition m_name (m : mnode) : N := match m with MBackend b => b_name b | MProxy t => o_id t end.

(* rootNode.RemoveChild(name); rootNode.AddChild(node): the ordered children map loses the entry
   of that name (if any) and gets the new node appended *)
Definition replace_child (cur : list mnode) (p : otree) : list mnode :=
  filter (fun m => negb (m_name m =? o_id p)) cur ++ [MProxy p].

Definition merge (backend : list bnode) (proxy : list otree) : list mnode :=
  fold_left replace_child proxy (map MBackend backend).

(* the whole of handleAvailableCommands with AnnounceProxyCommands on: None = the recursion does
   not end within [fuel] frames *)
Definition announce (fuel : nat) (g : graph) (backend : list bnode) : option (list mnode) :=
  match filter_node fuel g 0 with
  | Done (Some t) => Some (merge backend (o_children t))
  | Done None => Some (map MBackend backend)     (* "unexpected": the packet is dropped; not reachable for a root *)
  | OutOfFuel => None
  end.

(* ---------- the property as decidable predicates ---------- *)

(* may the player use source node id?  The root has no requirement. *)
Definition usable (g : graph) (id : N) : bool :=
  match lookup g id with
  | Some n => match g_kind n with KRoot => true | _ => g_req n end
  | None => false
  end.

(* every node of a copy (children and redirect targets, at any depth) is usable *)
Fixpoint all_usable (g : graph) (t : otree) : bool :=
  match t with
  | ONode id _ _ ro cs =>
    usable g id
    && match ro with Some r => all_usable g r | None => true end
    && (fix all (l : list otree) : bool := match l with [] => true | c :: r => all_usable g c && all r end) cs
  end.

Definition proxy_part (ms : list mnode) : list otree :=
  flat_map (fun m => match m with MProxy t => [t] | MBackend _ => [] end) ms.
Definition backend_part (ms : list mnode) : list bnode :=
  flat_map (fun m => match m with MBackend b => [b] | MProxy _ => [] end) ms.

Definition mem (x : N) (l : list N) : bool := existsb (N.eqb x) l.

Definition bnode_eqb (a b : bnode) : bool := (b_name a =? b_name b) && (b_fp a =? b_fp b).

Fixpoint list_eqb {A} (eqb : A -> A -> bool) (a b : list A) : bool :=
  match a, b with
  | [], [] => true
  | x :: a', y :: b' => eqb x y && list_eqb eqb a' b'
  | _, _ => false
  end.

(* the root children of the proxy the player may use, in registration order *)
Definition usable_roots (g : graph) : list N :=
  match lookup g 0 with
  | Some r => filter (usable g) (g_children r)
  | None => []
  end.

(* the three clauses of C23 on a merged root [ms]:
   - every proxy node shown is usable (any depth, redirect targets included);
   - the proxy's usable root commands are all there (once each, in order) and no backend child
     of the same name is left;
   - all other backend children are there, unchanged and in their order. *)
Definition holds_C23 (g : graph) (backend : list bnode) (ms : list mnode) : bool :=
  forallb (all_usable g) (proxy_part ms)
  && list_eqb N.eqb (map o_id (proxy_part ms)) (usable_roots g)
  && forallb (fun b => negb (mem (b_name b) (usable_roots g))) (backend_part ms)
  && list_eqb bnode_eqb (backend_part ms)
       (filter (fun b => negb (mem (b_name b) (usable_roots g))) backend).

(* ---------- several AvailableCommands packets on one backend session ---------- *)

(* one packet: the proxy's graph with the player's requirement outcomes at that moment, and the
   backend root the packet carries *)
Definition packet_in := (graph * list bnode)%type.

(* handleAvailableCommands has no state: every packet is merged from what holds when it arrives *)
Definition announce_session (fuel : nat) (pkts : list packet_in) : list (option (list mnode)) :=
  map (fun p => announce fuel (fst p) (snd p)) pkts.

(* NOT the code: a handler that filters the proxy tree once, on the first packet of the session,
   and reuses that view for every later packet (kept to state what C23 excludes) *)
Definition announce_cached_session (fuel : nat) (pkts : list packet_in) : list (option (list mnode)) :=
  match pkts with
  | [] => []
  | first :: _ =>
    map (fun p =>
           match filter_node fuel (fst first) 0 with
           | Done (Some t) => Some (merge (snd p) (o_children t))
           | Done None => Some (map MBackend (snd p))
           | OutOfFuel => None
           end) pkts
  end.
