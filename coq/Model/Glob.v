(* C29 — Lite route matching: host cleaning, glob matching with capture groups, first-match route
   search and $k substitution.  Executable definitions only (plus the declarative relation
   [Matches], which the theorems in Proofs/C29.v tie to [glob_match]).

   Go code mirrored (pkg/edition/java/lite):
     util.go    ClearVirtualHost                         -> [clean_host]
     match.go   compiledRegexCache loader + getRegexp +
                matchWithGroups                          -> [match_bytes] over [glob_match]
     match.go   FindRouteWithGroups                      -> [find_route]
     forward.go substituteBackendParams                  -> [impl_subst]  (spec: [spec_subst];
                                                            before fix 23c72fc: [old_subst])
     forward.go findRoute (route lookup part)            -> [route_outcome]

   The Go matcher lowercases pattern and host (strings.ToLower), turns the pattern into the regexp
   ^...$ with QuoteMeta, "?" -> "(.)" and "*" -> "(.*?)", and returns the submatches.  RE2/Go
   regexps follow leftmost-first (Perl) priorities, so with both ends anchored the reported groups
   are the ones a backtracking matcher finds when every lazy star tries the shortest text first.
   The matcher is parameterised by [dot], the set of code points a wildcard may consume:
   [spec_dot] = everything; [impl_dot] = what the code's regexp "." matches: since fix 0f43e55 the
   regexp carries (?s), so everything; [old_dot] = the pre-fix code (no (?s): everything but
   U+000A, finding C29-1).  [old_subst] is the pre-fix sequential ReplaceAll (findings C29-2/3). *)
From Coq Require Import List NArith Bool.
From Verif Require Import Base.Text.
Import ListNotations.
Open Scope N_scope.

Definition star : N := 42.     (* '*' *)
Definition qmark : N := 63.    (* '?' *)
Definition dollar : N := 36.   (* '$' *)

Definition groups := list (list N).

(* ---------- glob matching over code points ---------- *)

Section Match.
  Variable dot : N -> bool.

  (* Declarative reading of the property text: "*" any sequence, "?" exactly one, others literal;
     the third index lists the text each wildcard matched, in pattern order. *)
  Inductive Matches : list N -> list N -> groups -> Prop :=
  | M_nil  : Matches [] [] []
  | M_lit  : forall c p h gs, c <> star -> c <> qmark ->
               Matches p h gs -> Matches (c :: p) (c :: h) gs
  | M_any  : forall x p h gs, dot x = true ->
               Matches p h gs -> Matches (qmark :: p) (x :: h) ([x] :: gs)
  | M_star : forall g p h gs, forallb dot g = true ->
               Matches p h gs -> Matches (star :: p) (g ++ h) (g :: gs).

  (* the lazy star: hand the shortest possible text to this wildcard, extend it one code point at
     a time only when the rest of the pattern fails *)
  Fixpoint star_try (rest : list N -> option groups) (h : list N) : option groups :=
    match rest h with
    | Some gs => Some ([] :: gs)
    | None =>
        match h with
        | [] => None
        | x :: h' =>
            if dot x then
              match star_try rest h' with
              | Some (g :: gs) => Some ((x :: g) :: gs)
              | _ => None
              end
            else None
        end
    end.

  Fixpoint glob_match (p : list N) : list N -> option groups :=
    match p with
    | [] => fun h => match h with [] => Some [] | _ :: _ => None end
    | c :: p' =>
        if c =? star then star_try (glob_match p')
        else if c =? qmark then
          fun h => match h with
                   | x :: h' => if dot x then option_map (cons [x]) (glob_match p' h') else None
                   | [] => None
                   end
        else
          fun h => match h with
                   | x :: h' => if x =? c then glob_match p' h' else None
                   | [] => None
                   end
    end.
End Match.

Definition spec_dot (c : N) : bool := true.
Definition impl_dot (c : N) : bool := true.             (* regexp "(?s)." : today's code *)
Definition old_dot (c : N) : bool := negb (c =? 10).    (* PRE-FIX (before 0f43e55): "." without (?s) *)

(* matchWithGroups(s, pattern) on Go strings (bytes): both sides lowercased, groups re-encoded *)
Definition match_bytes (dot : N -> bool) (s pattern : list N) : option (list (list N)) :=
  let p := lower_cps (utf8_decode pattern) in
  let h := lower_cps (utf8_decode s) in
  option_map (map utf8_encode) (glob_match dot p h).

(* trigger of (fixed) finding 1: the (lowercased) host contains a line feed *)
Definition has_lf (s : list N) : bool := existsb (fun c => c =? 10) (utf8_decode s).

(* ---------- ClearVirtualHost ---------- *)

Fixpoint starts_with (pre s : list N) : bool :=
  match pre, s with
  | [], _ => true
  | a :: pre', b :: s' => (a =? b) && starts_with pre' s'
  | _ :: _, [] => false
  end.

(* strings.Split(s, sep)[0]: the text before the first occurrence of sep (sep non-empty) *)
Fixpoint before_sep (sep s : list N) : list N :=
  match s with
  | [] => []
  | c :: r => if starts_with sep s then [] else c :: before_sep sep r
  end.

Fixpoint drop_dots (s : list N) : list N :=
  match s with
  | c :: r => if c =? 46 then drop_dots r else s
  | [] => []
  end.

(* strings.Trim(s, ".") *)
Definition trim_dots (s : list N) : list N := rev (drop_dots (rev (drop_dots s))).

Definition clean_host (raw : list N) : list N :=
  trim_dots (before_sep [47; 47; 47] (before_sep [0] raw)).

(* ---------- FindRouteWithGroups ---------- *)

(* a route: its host patterns and its backend address templates, both in configuration order *)
Definition route := (list (list N) * list (list N))%type.

Fixpoint find_in_hosts (dot : N -> bool) (h : list N) (pats : list (list N))
  : option (list N * list (list N)) :=
  match pats with
  | [] => None
  | p :: r =>
      match match_bytes dot h p with
      | Some gs => Some (p, gs)
      | None => find_in_hosts dot h r
      end
  end.

(* result: index of the route, the pattern that matched (as configured), the groups *)
Fixpoint find_route_from (dot : N -> bool) (i : N) (h : list N) (rs : list route)
  : option (N * list N * list (list N)) :=
  match rs with
  | [] => None
  | r :: rest =>
      match find_in_hosts dot h (fst r) with
      | Some (p, gs) => Some (i, p, gs)
      | None => find_route_from dot (N.succ i) h rest
      end
  end.

Definition find_route (dot : N -> bool) (h : list N) (rs : list route) := find_route_from dot 0 h rs.

(* ---------- $k substitution ---------- *)

Definition is_digit (c : N) : bool := (48 <=? c) && (c <=? 57).

Fixpoint lead_digits (s : list N) : list N :=
  match s with
  | c :: r => if is_digit c then c :: lead_digits r else []
  | [] => []
  end.

Definition digits_value (ds : list N) : N := fold_left (fun a d => a * 10 + (d - 48)) ds 0.

(* a digit run names group k iff it is the canonical decimal of some 1 <= k <= n *)
Definition valid_index (n : N) (ds : list N) : bool :=
  match ds with
  | [] => false
  | d :: _ => negb (d =? 48) && (digits_value ds <=? n)
  end.

Inductive tok := TLit (c : N) | TRef (ds : list N).

Definition render_tok (t : tok) : list N :=
  match t with TLit c => [c] | TRef ds => dollar :: ds end.
Definition render (ts : list tok) : list N := flat_map render_tok ts.

Definition expand (gs : list (list N)) (t : tok) : list N :=
  match t with
  | TLit c => [c]
  | TRef ds => nth (N.to_nat (digits_value ds) - 1) gs []
  end.

(* Tokenise a template: "$" followed by its MAXIMAL digit run is a reference iff that run is a
   valid index; everything else is literal.  Written right-to-left so that it is structural: the
   tokens of the suffix after "$" start with one literal per digit of the run. *)
Fixpoint parse (n : N) (t : list N) : list tok :=
  match t with
  | [] => []
  | c :: r =>
      let toks := parse n r in
      if c =? dollar then
        let ds := lead_digits r in
        if valid_index n ds then TRef ds :: skipn (length ds) toks else TLit c :: toks
      else TLit c :: toks
  end.

(* what the property demands: simultaneous substitution, replacement text never re-scanned *)
Definition spec_subst (t : list N) (gs : list (list N)) : list N :=
  flat_map (expand gs) (parse (N.of_nat (length gs)) t).

(* substituteBackendParams as it is today (fix 23c72fc): one pass over the template, "$" + maximal
   digit run is a parameter iff paramIndex accepts the run: non-empty, no leading zero, AT MOST 9
   DIGITS, value <= len(groups).  (The early return for no groups / no "$" yields the same text.) *)
Definition impl_valid_index (n : N) (ds : list N) : bool :=
  Nat.leb (length ds) 9 && valid_index n ds.

Fixpoint impl_parse (n : N) (t : list N) : list tok :=
  match t with
  | [] => []
  | c :: r =>
      let toks := impl_parse n r in
      if c =? dollar then
        let ds := lead_digits r in
        if impl_valid_index n ds then TRef ds :: skipn (length ds) toks else TLit c :: toks
      else TLit c :: toks
  end.

Definition impl_subst (t : list N) (gs : list (list N)) : list N :=
  flat_map (expand gs) (impl_parse (N.of_nat (length gs)) t).

(* ---------- PRE-FIX substitution (before 23c72fc), kept for the record of findings C29-2/3 ---------- *)

(* fmt.Sprintf("%d", n) *)
Fixpoint dec_fuel (f : nat) (n : N) (acc : list N) : list N :=
  match f with
  | O => acc
  | S f' => let acc' := (48 + n mod 10) :: acc in
            if n / 10 =? 0 then acc' else dec_fuel f' (n / 10) acc'
  end.
Definition dec (n : N) : list N := dec_fuel 40 n [].

(* strings.ReplaceAll(text, old, new) for non-empty [old], on characters that carry a mark
   "this character was inserted by an earlier replacement".  Returns the new text and whether some
   match contained a marked character (= replacement text was scanned again). *)
Fixpoint match_prefix (old : list N) (t : list (N * bool)) : option bool :=
  match old, t with
  | [], _ => Some false
  | a :: old', (b, m) :: t' =>
      if a =? b then option_map (orb m) (match_prefix old' t') else None
  | _ :: _, [] => None
  end.

Fixpoint replace_all (old new : list N) (skip : nat) (t : list (N * bool)) : list (N * bool) * bool :=
  match t with
  | [] => ([], false)
  | cm :: r =>
      match skip with
      | S k => replace_all old new k r
      | O =>
          match match_prefix old t with
          | Some tainted =>
              let '(out, tn) := replace_all old new (length old - 1) r in
              (map (fun c => (c, true)) new ++ out, tainted || tn)
          | None =>
              let '(out, tn) := replace_all old new 0 r in
              (cm :: out, tn)
          end
      end
  end.

(* the loop of the PRE-FIX substituteBackendParams: for i := len(groups); i >= 1; i-- { ReplaceAll("$i", groups[i-1]) } *)
Fixpoint subst_loop (i : nat) (gs : list (list N)) (t : list (N * bool)) : list (N * bool) * bool :=
  match i with
  | O => (t, false)
  | S i' =>
      let '(t1, tn1) := replace_all (dollar :: dec (N.of_nat i)) (nth i' gs []) 0 t in
      let '(t2, tn2) := subst_loop i' gs t1 in
      (t2, tn1 || tn2)
  end.

Definition old_subst_marked (t : list N) (gs : list (list N)) : list (N * bool) * bool :=
  match gs with
  | [] => (map (fun c => (c, false)) t, false)
  | _ => subst_loop (length gs) gs (map (fun c => (c, false)) t)
  end.

Definition old_subst (t : list N) (gs : list (list N)) : list N := map fst (fst (old_subst_marked t gs)).

(* trigger of (fixed) finding 2: a later ReplaceAll pass matched text that an earlier pass had inserted *)
Definition rescans (t : list N) (gs : list (list N)) : bool := snd (old_subst_marked t gs).

(* trigger of (fixed) finding 3: the template has "$" + maximal digit run that is NOT a valid index although
   a proper prefix of the run is ("$19" with two groups, "$100" with ten) *)
Fixpoint has_valid_prefix (n : N) (pre rest : list N) : bool :=
  (* pre is the reversed prefix taken so far *)
  match rest with
  | [] => false
  | d :: rest' =>
      let pre' := d :: pre in
      match rest' with
      | [] => false                                   (* the whole run: not a PROPER prefix *)
      | _ => valid_index n (rev pre') || has_valid_prefix n pre' rest'
      end
  end.

Fixpoint ref_then_digit (n : N) (t : list N) : bool :=
  match t with
  | [] => false
  | c :: r =>
      ((c =? dollar) && (let ds := lead_digits r in negb (valid_index n ds) && has_valid_prefix n [] ds))
      || ref_then_digit n r
  end.

(* ---------- findRoute (lookup part) ---------- *)

(* class 0: route with backends found; 1: no route ("closed without dialing"); 2: route without backends.
   For class 0: route index, matching pattern, groups, the substituted candidate list. *)
Definition route_outcome (dot : N -> bool) (subst : list N -> list (list N) -> list N)
           (raw : list N) (rs : list route)
  : N * option (N * list N * list (list N)) * list (list N) :=
  match find_route dot (clean_host raw) rs with
  | None => (1, None, [])
  | Some (i, p, gs) =>
      let bs := snd (nth (N.to_nat i) rs ([], [])) in
      match bs with
      | [] => (2, Some (i, p, gs), [])
      | _ => (0, Some (i, p, gs), map (fun b => subst b gs) bs)
      end
  end.
