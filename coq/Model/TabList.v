(* C28 - model of the 1.19.3+ tab list (pkg/internal/tablist/tablist.go, entry.go), of the
   player-info packets (pkg/edition/java/proto/packet/tablist/playerinfo/upsert.go, remove.go)
   and of a reference vanilla client that decodes the BYTES and applies them.
   Executable definitions only; proofs are in Proofs/C28*.v.

   Part 1: wire format primitives and the reference vanilla decoder (written from the protocol:
           EnumSet bitset of actions sized by the version, entries with the data of the present
           actions in the protocol's fixed order add player, initialize chat, game mode, listed,
           latency, display name, list order (1.21.2+), hat (1.21.4+)).
   Part 2: the reference client state and how it applies decoded packets (vanilla's two passes).
   Part 3: gate's encoders: [encode_upsert true] writes the per-entry data in the protocol's
           order (Upsert.Encode as it is now), [encode_upsert false] in the caller's action order
           (Upsert.Encode before fix commit d54f770).
   Part 4: the proxy's tab list: state, operations, emitted packets ([tcfg] selects, per repaired
           finding, the pre-fix behaviour or the one of the code as it is now).
   Part 5: histories: what the viewer receives, the proxy's view, the client's state. *)
From Coq Require Import List NArith ZArith Bool.
From Verif Require Import Base.Hex Base.Assoc.
From Verif Require Base.VarInt.
Import ListNotations.
Open Scope N_scope.

(* ------------------------------------------------------- Part 1: wire format ---------- *)

Definition reader (A : Type) := bytes -> option (A * bytes).

Definition rd_byte : reader N := fun b => match b with x :: r => Some (x, r) | [] => None end.
(* FriendlyByteBuf.readBoolean: any non-zero byte is true *)
Definition rd_bool : reader bool := fun b => match b with x :: r => Some (negb (x =? 0), r) | [] => None end.
Definition rd_take (n : nat) : reader bytes :=
  fun b => if Nat.ltb (length b) n then None else Some (firstn n b, skipn n b).

Fixpoint be_val (b : bytes) (acc : N) : N :=
  match b with [] => acc | x :: r => be_val r (acc * 256 + x) end.
Fixpoint be_bytes (n : nat) (x : N) : bytes :=
  match n with O => [] | S k => be_bytes k (x / 256) ++ [x mod 256] end.

Definition signed32 (u : N) : Z := if u <? 2147483648 then Z.of_N u else (Z.of_N u - 4294967296)%Z.
Definition unsigned32 (z : Z) : N := Z.to_N (z mod 4294967296)%Z.

(* VarInt as a signed 32-bit value *)
Definition rd_varint : reader Z :=
  fun b => match VarInt.dec b with
           | VarInt.Ok (v, _, r) => Some (signed32 v, r)
           | VarInt.Err _ => None
           end.
Definition enc_varint (z : Z) : bytes := VarInt.enc (unsigned32 z).

(* a VarInt that must be a length: not negative *)
Definition rd_len : reader N :=
  fun b => match rd_varint b with
           | Some (z, r) => if (z <? 0)%Z then None else Some (Z.to_N z, r)
           | None => None
           end.

(* readUtf(max): VarInt byte length, at most 3 bytes per allowed character *)
Definition rd_string (max : N) : reader bytes :=
  fun b => match rd_len b with
           | Some (n, r) => if (3 * max <? n) || (N.of_nat (length r) <? n) then None else rd_take (N.to_nat n) r
           | None => None
           end.
Definition enc_string (s : bytes) : bytes := enc_varint (Z.of_nat (length s)) ++ s.

Definition rd_uuid : reader N :=
  fun b => match rd_take 16 b with Some (x, r) => Some (be_val x 0, r) | None => None end.
Definition enc_uuid (id : N) : bytes := be_bytes 16 id.
Definition enc_bool (x : bool) : bytes := [if x then 1 else 0].

(* game profile property; an empty signature is "unsigned" (util.WriteProperties) *)
Record prop := mkProp { p_name : bytes; p_value : bytes; p_sig : bytes }.

Definition rd_prop : reader prop :=
  fun b =>
    match rd_string 32767 b with
    | Some (n, r1) =>
      match rd_string 32767 r1 with
      | Some (v, r2) =>
        match rd_bool r2 with
        | Some (true, r3) => match rd_string 32767 r3 with
                             | Some (s, r4) => Some (mkProp n v s, r4)
                             | None => None
                             end
        | Some (false, r3) => Some (mkProp n v [], r3)
        | None => None
        end
      | None => None
      end
    | None => None
    end.
Definition enc_prop (p : prop) : bytes :=
  enc_string (p_name p) ++ enc_string (p_value p) ++
  match p_sig p with [] => [0] | s => 1 :: enc_string s end.

Fixpoint rd_many {A} (rd : reader A) (n : nat) : reader (list A) :=
  fun b => match n with
           | O => Some ([], b)
           | S k => match rd b with
                    | Some (x, r) => match rd_many rd k r with
                                     | Some (xs, r') => Some (x :: xs, r')
                                     | None => None
                                     end
                    | None => None
                    end
           end.

(* a count of things that each take at least one byte: bounded by what is left *)
Definition rd_count : reader nat :=
  fun b => match rd_len b with
           | Some (n, r) => if N.of_nat (length r) <? n then None else Some (N.to_nat n, r)
           | None => None
           end.

Definition rd_props : reader (list prop) :=
  fun b => match rd_count b with
           | Some (n, r) => if Nat.ltb 16 n then None else rd_many rd_prop n r
           | None => None
           end.
Definition enc_props (ps : list prop) : bytes :=
  enc_varint (Z.of_nat (length ps)) ++ flat_map enc_prop ps.

(* --- chat components are not interpreted, only delimited: a JSON string before 1.20.3 (765),
       a nameless NBT tag from 1.20.3 on --- *)
Inductive task := TPay (ty : N) | TListN (ty n : N) | TComp.

Definition drop (n : N) (b : bytes) : option bytes :=
  if N.of_nat (length b) <? n then None else Some (skipn (N.to_nat n) b).
Definition rd_be (n : nat) : reader N :=
  fun b => match rd_take n b with Some (x, r) => Some (be_val x 0, r) | None => None end.

Fixpoint nbt_skip (fuel : nat) (todo : list task) (b : bytes) : option bytes :=
  match fuel with
  | O => None
  | S f =>
    match todo with
    | [] => Some b
    | TPay ty :: k =>
      let fixed n := match drop n b with Some r => nbt_skip f k r | None => None end in
      let arr w := match rd_be 4 b with
                   | Some (n, r) => if 2147483648 <=? n then None
                                    else match drop (w * n) r with Some r' => nbt_skip f k r' | None => None end
                   | None => None
                   end in
      match ty with
      | 1 => fixed 1 | 2 => fixed 2 | 3 => fixed 4 | 4 => fixed 8 | 5 => fixed 4 | 6 => fixed 8
      | 7 => arr 1
      | 8 => match rd_be 2 b with
             | Some (n, r) => match drop n r with Some r' => nbt_skip f k r' | None => None end
             | None => None
             end
      | 9 => match rd_byte b with
             | Some (t, r) => match rd_be 4 r with
                              | Some (n, r') => if 2147483648 <=? n then None else nbt_skip f (TListN t n :: k) r'
                              | None => None
                              end
             | None => None
             end
      | 10 => nbt_skip f (TComp :: k) b
      | 11 => arr 4
      | 12 => arr 8
      | _ => None
      end
    | TListN ty n :: k =>
      if n =? 0 then nbt_skip f k b else nbt_skip f (TPay ty :: TListN ty (n - 1) :: k) b
    | TComp :: k =>
      match rd_byte b with
      | Some (t, r) =>
        if t =? 0 then nbt_skip f k r
        else match rd_be 2 r with
             | Some (n, r') => match drop n r' with
                               | Some r'' => nbt_skip f (TPay t :: TComp :: k) r''
                               | None => None
                               end
             | None => None
             end
      | None => None
      end
    end
  end.

(* the raw bytes of one component and what follows it *)
Definition rd_component (ver : N) : reader bytes :=
  fun b =>
    if ver <? 765 then
      match rd_string 262144 b with
      | Some (_, r) => Some (firstn (length b - length r) b, r)
      | None => None
      end
    else
      match b with
      | ty :: r =>
        if ty =? 0 then None
        else match nbt_skip (4 * length b + 16) [TPay ty] r with
             | Some rest => Some (firstn (length b - length rest) b, rest)
             | None => None
             end
      | [] => None
      end.

(* --- player info update --- *)

(* one entry as carried by a packet; fields of absent actions have the reader's defaults *)
Record dentry := mkD { d_id : N; d_name : bytes; d_props : list prop; d_chat : bool;
                       d_gm : Z; d_listed : bool; d_latency : Z; d_dn : option bytes;
                       d_order : Z; d_hat : bool }.
Definition d_default (id : N) : dentry := mkD id [] [] false 0 false 0 None 0 false.

(* number of actions the client's EnumSet knows: 6 up to 1.21.1, 7 in 1.21.2/3 (768), 8 from 1.21.4 (769) *)
Definition n_actions (ver : N) : N := if ver <? 768 then 6 else if ver <? 769 then 7 else 8.

(* action a (0 add player, 1 initialize chat, 2 game mode, 3 listed, 4 latency, 5 display name,
   6 list order, 7 hat) reads its data into the entry *)
Definition rd_action (ver : N) (a : N) (e : dentry) : reader dentry :=
  fun b =>
    match a with
    | 0 => match rd_string 16 b with
           | Some (nm, r) => match rd_props r with
                             | Some (ps, r') => Some (mkD (d_id e) nm ps (d_chat e) (d_gm e) (d_listed e) (d_latency e) (d_dn e) (d_order e) (d_hat e), r')
                             | None => None
                             end
           | None => None
           end
    | 1 => match rd_bool b with
           | Some (false, r) => Some (e, r)
           | Some (true, r) =>   (* session id, expiry, key, signature *)
             match rd_take 24 r with
             | Some (_, r1) => match rd_string 512 r1 with        (* byte arrays: length-prefixed like strings *)
                               | Some (_, r2) => match rd_string 4096 r2 with
                                                 | Some (_, r3) => Some (mkD (d_id e) (d_name e) (d_props e) true (d_gm e) (d_listed e) (d_latency e) (d_dn e) (d_order e) (d_hat e), r3)
                                                 | None => None
                                                 end
                               | None => None
                               end
             | None => None
             end
           | None => None
           end
    | 2 => match rd_varint b with
           | Some (z, r) => Some (mkD (d_id e) (d_name e) (d_props e) (d_chat e) z (d_listed e) (d_latency e) (d_dn e) (d_order e) (d_hat e), r)
           | None => None
           end
    | 3 => match rd_bool b with
           | Some (x, r) => Some (mkD (d_id e) (d_name e) (d_props e) (d_chat e) (d_gm e) x (d_latency e) (d_dn e) (d_order e) (d_hat e), r)
           | None => None
           end
    | 4 => match rd_varint b with
           | Some (z, r) => Some (mkD (d_id e) (d_name e) (d_props e) (d_chat e) (d_gm e) (d_listed e) z (d_dn e) (d_order e) (d_hat e), r)
           | None => None
           end
    | 5 => match rd_bool b with
           | Some (false, r) => Some (mkD (d_id e) (d_name e) (d_props e) (d_chat e) (d_gm e) (d_listed e) (d_latency e) None (d_order e) (d_hat e), r)
           | Some (true, r) => match rd_component ver r with
                               | Some (c, r') => Some (mkD (d_id e) (d_name e) (d_props e) (d_chat e) (d_gm e) (d_listed e) (d_latency e) (Some c) (d_order e) (d_hat e), r')
                               | None => None
                               end
           | None => None
           end
    | 6 => match rd_varint b with
           | Some (z, r) => Some (mkD (d_id e) (d_name e) (d_props e) (d_chat e) (d_gm e) (d_listed e) (d_latency e) (d_dn e) z (d_hat e), r)
           | None => None
           end
    | 7 => match rd_bool b with
           | Some (x, r) => Some (mkD (d_id e) (d_name e) (d_props e) (d_chat e) (d_gm e) (d_listed e) (d_latency e) (d_dn e) (d_order e) x, r)
           | None => None
           end
    | _ => None
    end.

Definition all_actions : list N := [0; 1; 2; 3; 4; 5; 6; 7].
Definition has_action (bits : N) (a : N) : bool := N.testbit bits a.

(* the data of the present actions, in the protocol's order *)
Fixpoint rd_actions (ver : N) (bits : N) (acts : list N) (e : dentry) : reader dentry :=
  fun b => match acts with
           | [] => Some (e, b)
           | a :: k => if has_action bits a
                       then match rd_action ver a e b with
                            | Some (e', r) => rd_actions ver bits k e' r
                            | None => None
                            end
                       else rd_actions ver bits k e b
           end.

Definition rd_entry (ver bits : N) : reader dentry :=
  fun b => match rd_uuid b with
           | Some (id, r) => rd_actions ver bits all_actions (d_default id) r
           | None => None
           end.

(* ClientboundPlayerInfoUpdatePacket: EnumSet (one byte for up to 8 actions; a bit beyond the
   version's actions is an error), entry count, entries; nothing may be left over *)
Definition vanilla_decode_upsert (ver : N) (b : bytes) : option (N * list dentry) :=
  match rd_byte b with
  | Some (bits, r) =>
    if 2 ^ n_actions ver <=? bits then None
    else match rd_count r with
         | Some (n, r1) => match rd_many (rd_entry ver bits) n r1 with
                           | Some (es, []) => Some (bits, es)
                           | _ => None
                           end
         | None => None
         end
  | None => None
  end.

(* ClientboundPlayerInfoRemovePacket *)
Definition vanilla_decode_remove (b : bytes) : option (list N) :=
  match rd_count b with
  | Some (n, r) => match rd_many rd_uuid n r with
                   | Some (ids, []) => Some ids
                   | _ => None
                   end
  | None => None
  end.

(* ------------------------------------------------------- Part 2: reference client ---------- *)

(* what the client's PlayerInfo holds, as far as the property goes *)
Record cinfo := mkC { c_name : bytes; c_props : list prop; c_listed : bool; c_latency : Z;
                      c_gm : N; c_dn : option bytes; c_order : Z }.

(* GameType.byId: ids outside 0..3 give SURVIVAL (0) *)
Definition norm_gm (z : Z) : N := if ((0 <=? z) && (z <=? 3))%Z then Z.to_N z else 0.

(* new PlayerInfo(profile): not listed, latency 0, default game mode, no display name, order 0 *)
Definition c_new (e : dentry) : cinfo := mkC (d_name e) (d_props e) false 0 0 None 0.

(* applyPlayerInfoUpdate for every action of the packet *)
Definition c_upd (bits : N) (e : dentry) (c : cinfo) : cinfo :=
  mkC (c_name c) (c_props c)
      (if has_action bits 3 then d_listed e else c_listed c)
      (if has_action bits 4 then d_latency e else c_latency c)
      (if has_action bits 2 then norm_gm (d_gm e) else c_gm c)
      (if has_action bits 5 then d_dn e else c_dn c)
      (if has_action bits 6 then d_order e else c_order c).

(* generic "player info update" on a map: [seq] handles entry after entry (gate's ProcessUpdate),
   [two_pass] first adds all new players, then updates (vanilla's handlePlayerInfoUpdate) *)
Section Upsert.
  Variable V E : Type.
  Variable key : E -> N.
  Variable mk : E -> V.
  Variable upd : E -> V -> V.
  Variable add : bool.

  Definition add_absent (m : amap V) (e : E) : amap V :=
    match aget (key e) m with Some _ => m | None => aset (key e) (mk e) m end.
  Definition upd_present (m : amap V) (e : E) : amap V :=
    match aget (key e) m with Some v => aset (key e) (upd e v) m | None => m end.

  Definition seq_upsert (es : list E) (m : amap V) : amap V :=
    fold_left (fun m e => upd_present (if add then add_absent m e else m) e) es m.
  Definition two_pass_upsert (es : list E) (m : amap V) : amap V :=
    fold_left upd_present es (if add then fold_left add_absent es m else m).
End Upsert.
Arguments seq_upsert {V E}. Arguments two_pass_upsert {V E}.
Arguments add_absent {V E}. Arguments upd_present {V E}.

Definition cstate := amap cinfo.

Inductive pkind := KUpsert | KRemove | KOther.

Definition client_upsert (bits : N) (es : list dentry) (c : cstate) : cstate :=
  two_pass_upsert d_id c_new (c_upd bits) (has_action bits 0) es c.
Definition client_remove (ids : list N) (c : cstate) : cstate :=
  fold_left (fun m id => adel id m) ids c.

(* None: the client cannot decode the packet (it disconnects) *)
Definition client_apply (ver : N) (c : cstate) (p : pkind * bytes) : option cstate :=
  match fst p with
  | KUpsert => match vanilla_decode_upsert ver (snd p) with
               | Some (bits, es) => Some (client_upsert bits es c)
               | None => None
               end
  | KRemove => match vanilla_decode_remove (snd p) with
               | Some ids => Some (client_remove ids c)
               | None => None
               end
  | KOther => None
  end.

Fixpoint client_after (ver : N) (c : cstate) (ps : list (pkind * bytes)) : option cstate :=
  match ps with
  | [] => Some c
  | p :: r => match client_apply ver c p with
              | Some c' => client_after ver c' r
              | None => None
              end
  end.

(* ------------------------------------------------------- Part 3: gate's encoders ---------- *)

(* UpsertAction.Encode of action a *)
Definition enc_action (a : N) (e : dentry) : bytes :=
  match a with
  | 0 => enc_string (d_name e) ++ enc_props (d_props e)
  | 1 => [0]                                  (* no remote chat session in this model *)
  | 2 => enc_varint (d_gm e)
  | 3 => enc_bool (d_listed e)
  | 4 => enc_varint (d_latency e)
  | 5 => match d_dn e with None => [0] | Some c => 1 :: c end
  | 6 => enc_varint (d_order e)
  | 7 => enc_bool (d_hat e)
  | _ => []
  end.

Definition mem (a : N) (l : list N) : bool := existsb (N.eqb a) l.
(* the BitSet: bit i iff ContainsAction(ActionSet, UpsertActions[i]) *)
Definition bits_of (order : list N) : N :=
  fold_left (fun acc a => if mem a order then acc + 2 ^ a else acc) all_actions 0.
Definition canonical (order : list N) : list N := filter (fun a => mem a order) all_actions.

(* Upsert.Encode: [canon = true] iterates UpsertActions filtered by membership (the code as it is now,
   fix commit d54f770); [canon = false] is the pre-fix "for _, action := range u.ActionSet" *)
Definition encode_upsert (canon : bool) (order : list N) (es : list dentry) : bytes :=
  [bits_of order] ++ enc_varint (Z.of_nat (length es)) ++
  flat_map (fun e => enc_uuid (d_id e) ++
                     flat_map (fun a => enc_action a e) (if canon then canonical order else order)) es.
(* Remove.Encode *)
Definition encode_remove (ids : list N) : bytes :=
  enc_varint (Z.of_nat (length ids)) ++ flat_map enc_uuid ids.

(* ------------------------------------------------------- Part 4: the proxy's tab list ---------- *)

(* tablist.EntryAttributes (latency in whole milliseconds, display name as an index into the
   case's table of encoded components, chat session always nil) *)
Record pattrs := mkA { a_name : bytes; a_props : list prop; a_latency : Z; a_gm : Z;
                       a_listed : bool; a_dn : option N; a_order : Z; a_hat : bool }.
(* playerinfo.Entry of a backend packet *)
Record bentry := mkB { b_id : N; b_name : bytes; b_props : list prop; b_gm : Z; b_listed : bool;
                       b_latency : Z; b_dn : option N; b_order : Z; b_hat : bool }.

Inductive top :=
| Add (l : list (N * pattrs))          (* TabList.Add(new Entry objects) *)
| AddLive (id : N)                     (* TabList.Add(tl.Entries()[id]): the very object the list holds *)
| RemoveAll (ids : list N)             (* empty: all *)
| SetLatency (id : N) (v : Z)          (* tl.Entries()[id].SetLatency, skipped if absent; same below *)
| SetGameMode (id : N) (v : Z)
| SetListed (id : N) (v : bool)
| SetDisplayName (id : N) (v : option N)
| SetListOrder (id : N) (v : Z)
| SetShowHat (id : N) (v : bool)
| BackendUpsert (acts : list bool) (es : list bentry)   (* ProcessUpdate + forward *)
| BackendRemove (ids : list N).                         (* ProcessRemove + forward *)

Inductive tret := TOk | TErr | TPanic.

(* structured packet: actions in the order gate's code lists them *)
Inductive spkt := SUpsert (order : list N) (es : list dentry) | SRemove (ids : list N).

(* which findings are repaired (all true: the demanded behaviour = the code as it is now since the
   fix commits d54f770 (C28-1 = C07-1), d5f50a6 (C28-2), eb9ac68 (C28-3); false: the pre-fix code) *)
Record tcfg := mkT { canon : bool;      (* C28-1 / C07-1: canonical action order on the wire *)
                     nilcheck : bool;   (* C28-2: re-adding the held entry is a no-op instead of a panic *)
                     readd : bool }.    (* C28-3: a changed profile is sent as remove + add *)
Definition spec_tcfg := mkT true true true.    (* what the property demands *)
Definition impl_tcfg := mkT true true true.    (* the code as it is now (after d54f770, d5f50a6, eb9ac68) *)
Definition old_tcfg := mkT false false false.  (* PRE-FIX code, kept for the refutation lemmas *)

Definition pstate := amap pattrs.
Definition dn_bytes (tbl : list bytes) (i : N) : bytes := nth (N.to_nat i) tbl [].
Definition dn_opt (tbl : list bytes) (o : option N) : option bytes := option_map (dn_bytes tbl) o.

Definition ge (ver v : N) : bool := v <=? ver.
Definition opt_N_eqb (a b : option N) : bool :=
  match a, b with Some x, Some y => x =? y | None, None => true | _, _ => false end.
Definition prop_eqb (a b : prop) : bool :=
  beq_bytes (p_name a) (p_name b) && beq_bytes (p_value a) (p_value b) && beq_bytes (p_sig a) (p_sig b).
Fixpoint list_eqb {A} (eqb : A -> A -> bool) (a b : list A) : bool :=
  match a, b with
  | [], [] => true
  | x :: r, y :: r' => eqb x y && list_eqb eqb r r'
  | _, _ => false
  end.
Definition same_profile (a b : pattrs) : bool :=
  beq_bytes (a_name a) (a_name b) && list_eqb prop_eqb (a_props a) (a_props b).

Definition opt (c : bool) (a : N) : list N := if c then [a] else [].

(* TabList.add, no previous entry: [Add, Latency, Listed] + display name, game mode, list order, hat *)
Definition fresh_packet (ver : N) (tbl : list bytes) (id : N) (a : pattrs) : spkt :=
  SUpsert ([0; 4; 3]
           ++ opt (match a_dn a with Some _ => true | None => false end) 5
           ++ opt (negb (a_gm a =? -1)%Z && negb (a_gm a =? 256)%Z) 2
           ++ opt (negb (a_order a =? 0)%Z && ge ver 768) 6
           ++ opt (a_hat a && ge ver 769) 7)
          [mkD id (a_name a) (a_props a) false (a_gm a) (a_listed a) (a_latency a)
               (dn_opt tbl (a_dn a)) (a_order a) (a_hat a)].

(* TabList.add, previous entry is another object: one action per differing attribute, in the
   code's order display name, latency, game mode, listed, list order, hat; no packet if none *)
Definition diff_packet (ver : N) (tbl : list bytes) (id : N) (p a : pattrs) : list spkt :=
  let dn := negb (opt_N_eqb (a_dn p) (a_dn a)) in
  let lat := negb (a_latency p =? a_latency a)%Z in
  let order := opt dn 5 ++ opt lat 4
               ++ opt (negb (a_gm p =? a_gm a)%Z) 2
               ++ opt (negb (Bool.eqb (a_listed p) (a_listed a))) 3
               ++ opt (negb (a_order p =? a_order a)%Z && ge ver 768) 6
               ++ opt (negb (Bool.eqb (a_hat p) (a_hat a)) && ge ver 769) 7 in
  match order with
  | [] => []
  | _ => [SUpsert order [mkD id [] [] false (a_gm a) (a_listed a) (if lat then a_latency a else 0)
                             (if dn then dn_opt tbl (a_dn a) else None) (a_order a) (a_hat a)]]
  end.

(* one entry of TabList.Add *)
Definition add_one (cf : tcfg) (ver : N) (tbl : list bytes) (s : pstate) (id : N) (a : pattrs)
  : pstate * list spkt :=
  match aget id s with
  | None => (aset id a s, [fresh_packet ver tbl id a])
  | Some p =>
    if readd cf && negb (same_profile p a)
    then (aset id a s, [SRemove [id]; fresh_packet ver tbl id a])
    else (aset id a s, diff_packet ver tbl id p a)
  end.

Fixpoint add_many (cf : tcfg) (ver : N) (tbl : list bytes) (s : pstate) (l : list (N * pattrs))
  : pstate * list spkt * tret :=
  match l with
  | [] => (s, [], TOk)
  | (id, a) :: r =>
    if id =? 0 then (s, [], TErr)              (* "profile id must not be zero" *)
    else let '(s1, ps) := add_one cf ver tbl s id a in
         let '(s2, ps2, t) := add_many cf ver tbl s1 r in
         (s2, ps ++ ps2, t)
  end.

(* an entry setter: attribute update plus one single-action packet *)
Definition setter (s : pstate) (id : N) (f : pattrs -> pattrs) (pk : list spkt) : pstate * list spkt * tret :=
  match aget id s with
  | Some a => (aset id (f a) s, pk, TOk)
  | None => (s, [], TOk)
  end.
Definition raw (id : N) : dentry := d_default id.

(* ProcessUpdate: entry after entry *)
Definition p_new (e : bentry) : pattrs := mkA (b_name e) (b_props e) 0 (-1) false None 0 true.
Definition p_upd (bits : N) (e : bentry) (a : pattrs) : pattrs :=
  mkA (a_name a) (a_props a)
      (if has_action bits 4 then b_latency e else a_latency a)
      (if has_action bits 2 then b_gm e else a_gm a)
      (if has_action bits 3 then b_listed e else a_listed a)
      (if has_action bits 5 then b_dn e else a_dn a)
      (if has_action bits 6 then b_order e else a_order a)
      (a_hat a).                                  (* UpdateHatAction is not processed *)

Fixpoint order_of (acts : list bool) (i : N) : list N :=
  match acts with
  | [] => []
  | x :: r => (if x then [i] else []) ++ order_of r (i + 1)
  end.
Definition b_dentry (tbl : list bytes) (e : bentry) : dentry :=
  mkD (b_id e) (b_name e) (b_props e) false (b_gm e) (b_listed e) (b_latency e)
      (dn_opt tbl (b_dn e)) (b_order e) (b_hat e).

Definition pstep (cf : tcfg) (ver : N) (tbl : list bytes) (s : pstate) (o : top)
  : pstate * list spkt * tret :=
  match o with
  | Add l => add_many cf ver tbl s l
  | AddLive id =>
    match aget id s with
    | Some _ => (s, [], if nilcheck cf then TOk else TPanic)   (* add returns a nil packet *)
    | None => (s, [], TOk)
    end
  | RemoveAll [] =>
    match s with
    | [] => (s, [], TOk)
    | _ => ([], [SRemove (map fst s)], TOk)
    end
  | RemoveAll ids => (fold_left (fun m id => adel id m) ids s, [SRemove ids], TOk)
  | SetLatency id v =>
    setter s id (fun a => mkA (a_name a) (a_props a) v (a_gm a) (a_listed a) (a_dn a) (a_order a) (a_hat a))
           [SUpsert [4] [mkD id [] [] false 0 false v None 0 false]]
  | SetGameMode id v =>
    setter s id (fun a => mkA (a_name a) (a_props a) (a_latency a) v (a_listed a) (a_dn a) (a_order a) (a_hat a))
           [SUpsert [2] [mkD id [] [] false v false 0 None 0 false]]
  | SetListed id v =>
    setter s id (fun a => mkA (a_name a) (a_props a) (a_latency a) (a_gm a) v (a_dn a) (a_order a) (a_hat a))
           [SUpsert [3] [mkD id [] [] false 0 v 0 None 0 false]]
  | SetDisplayName id v =>
    setter s id (fun a => mkA (a_name a) (a_props a) (a_latency a) (a_gm a) (a_listed a) v (a_order a) (a_hat a))
           [SUpsert [5] [mkD id [] [] false 0 false 0 (dn_opt tbl v) 0 false]]
  | SetListOrder id v =>
    setter s id (fun a => mkA (a_name a) (a_props a) (a_latency a) (a_gm a) (a_listed a) (a_dn a) v (a_hat a))
           (if ge ver 768 then [SUpsert [6] [mkD id [] [] false 0 false 0 None v false]] else [])
  | SetShowHat id v =>
    setter s id (fun a => mkA (a_name a) (a_props a) (a_latency a) (a_gm a) (a_listed a) (a_dn a) (a_order a) v)
           (if ge ver 769 then [SUpsert [7] [mkD id [] [] false 0 false 0 None 0 v]] else [])
  | BackendUpsert acts es =>
    let order := order_of acts 0 in
    let bits := bits_of order in
    (seq_upsert b_id p_new (p_upd bits) (has_action bits 0) es s,
     [SUpsert order (map (b_dentry tbl) es)], TOk)
  | BackendRemove ids => (fold_left (fun m id => adel id m) ids s, [SRemove ids], TOk)
  end.

(* what the viewer receives for a structured packet *)
Definition wire (cf : tcfg) (p : spkt) : pkind * bytes :=
  match p with
  | SUpsert order es => (KUpsert, encode_upsert (canon cf) order es)
  | SRemove ids => (KRemove, encode_remove ids)
  end.

(* ------------------------------------------------------- Part 5: histories ---------- *)

(* the proxy's entry as the client would show it: game mode outside 0..3 (-1: unknown) reads as
   the client default, list order exists from 1.21.2 (768) on *)
Definition pview (ver : N) (tbl : list bytes) (a : pattrs) : cinfo :=
  mkC (a_name a) (a_props a) (a_listed a) (a_latency a) (norm_gm (a_gm a)) (dn_opt tbl (a_dn a))
      (if ge ver 768 then a_order a else 0).
Definition view (ver : N) (tbl : list bytes) (s : pstate) : cstate :=
  map (fun kv => (fst kv, pview ver tbl (snd kv))) s.

Record mstep := mkM { m_ret : tret; m_pkts : list (pkind * bytes); m_view : cstate }.

Fixpoint run (cf : tcfg) (ver : N) (tbl : list bytes) (s : pstate) (h : list top) : list mstep :=
  match h with
  | [] => []
  | o :: r => let '(s', ps, t) := pstep cf ver tbl s o in
              mkM t (map (wire cf) ps) (view ver tbl s') :: run cf ver tbl s' r
  end.

Fixpoint proxy_after (cf : tcfg) (ver : N) (tbl : list bytes) (s : pstate) (h : list top) : pstate :=
  match h with
  | [] => s
  | o :: r => proxy_after cf ver tbl (fst (fst (pstep cf ver tbl s o))) r
  end.
Fixpoint packets (cf : tcfg) (ver : N) (tbl : list bytes) (s : pstate) (h : list top) : list (pkind * bytes) :=
  match h with
  | [] => []
  | o :: r => map (wire cf) (snd (fst (pstep cf ver tbl s o)))
              ++ packets cf ver tbl (fst (fst (pstep cf ver tbl s o))) r
  end.

(* decidable equality of client entries *)
Definition opt_bytes_eqb (a b : option bytes) : bool :=
  match a, b with Some x, Some y => beq_bytes x y | None, None => true | _, _ => false end.
Definition cinfo_eqb (a b : cinfo) : bool :=
  beq_bytes (c_name a) (c_name b) && list_eqb prop_eqb (c_props a) (c_props b)
  && Bool.eqb (c_listed a) (c_listed b) && (c_latency a =? c_latency b)%Z
  && (c_gm a =? c_gm b) && opt_bytes_eqb (c_dn a) (c_dn b) && (c_order a =? c_order b)%Z.
Definition same_view (a b : cstate) : bool := ext_eqb cinfo_eqb a b.

(* the property on a record: after every operation the proxy's view is the client's state
   (the client could decode everything it was sent) and no call panicked *)
Fixpoint agree (ver : N) (c : option cstate) (t : list (tret * list (pkind * bytes) * cstate)) : bool :=
  match t with
  | [] => true
  | (r, ps, v) :: k =>
    match c with
    | None => false
    | Some c0 =>
      match client_after ver c0 ps with
      | Some c1 => negb (match r with TPanic => true | _ => false end) && same_view v c1 && agree ver (Some c1) k
      | None => false
      end
    end
  end.
