(* C09 — model of GenerateServerID of the authenticator (pkg/edition/java/auth/authenticator.go)
   and the reference it must equal (Java: new BigInteger(digest).toString(16)).
   Executable definitions only; proofs are in Proofs/C09.v. *)
From Coq Require Import List NArith ZArith Bool.
From Verif Require Import Base.Hex Base.Sha1.
Import ListNotations.
Open Scope N_scope.

(* ---------- implementation side: transcribes the Go code ---------- *)

(* twosComplement: walks from the last byte to the first, inverting each byte and adding the carry.
   Returns the new bytes and the carry that leaves the most significant byte (dropped by Go). *)
Fixpoint twos (p : bytes) : bytes * bool :=
  match p with
  | [] => ([], true)
  | b :: r =>
    let '(r', c) := twos r in
    let nb := 255 - b in
    if c then ((nb + 1) mod 256 :: r', nb =? 255) else (nb :: r', false)
  end.

(* hex.EncodeToString as a list of nibble values, two per byte *)
Definition nibbles (p : bytes) : list N := flat_map (fun b => [b / 16; b mod 16]) p.

(* strings.TrimLeft(s, "0") on nibble values *)
Fixpoint trim0 (ds : list N) : list N :=
  match ds with
  | 0 :: r => trim0 r
  | _ => ds
  end.

(* output alphabet: '-' is 45, digits are ASCII codes of 0-9a-f *)
Definition hexchar (d : N) : N := if d <? 10 then 48 + d else 87 + d.

Definition format_digest (h : bytes) : bytes :=
  match h with
  | [] => []                                  (* Go would panic on hash[0]; sha1 never returns [] *)
  | b0 :: _ =>
    if 128 <=? b0 then 45 :: map hexchar (trim0 (nibbles (fst (twos h))))
    else map hexchar (trim0 (nibbles h))
  end.

Definition server_id (secret key : bytes) : bytes := format_digest (sha1 (secret ++ key)).

(* ---------- reference side: Java's BigInteger(byte[]).toString(16) ---------- *)

(* big-endian unsigned value *)
Fixpoint be_val (p : bytes) : N :=
  match p with
  | [] => 0
  | b :: r => b * 256 ^ N.of_nat (length r) + be_val r
  end.

(* two's-complement signed reading of the byte string *)
Definition signed_be (p : bytes) : Z :=
  let u := Z.of_N (be_val p) in
  let m := (256 ^ Z.of_nat (length p))%Z in
  if (m <=? 2 * u)%Z then (u - m)%Z else u.

(* canonical base-16 digits, most significant first, [] for 0 *)
Fixpoint dig (f : nat) (n : N) : list N :=
  match f with
  | O => []
  | S f' => if n =? 0 then [] else dig f' (n / 16) ++ [n mod 16]
  end.
Definition digits16 (n : N) : list N := dig (N.to_nat (N.size n)) n.

Definition java_hex (z : Z) : bytes :=
  match z with
  | Z0 => [48]
  | Zpos p => map hexchar (digits16 (Npos p))
  | Zneg p => 45 :: map hexchar (digits16 (Npos p))
  end.

Definition reference_server_id (secret key : bytes) : bytes :=
  java_hex (signed_be (sha1 (secret ++ key))).
