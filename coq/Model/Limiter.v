(* Model/Limiter.v -- C34: rate limiters.  Executable definitions only.
   Go sources mirrored:
     pkg/internal/addrquota/quota.go       ipKey, Quota.Blocked (bucket per key; x/time/rate abstracted)
     pkg/internal/packetlimiter/counter.go newCounter, updateAndAdd, expire, add, resize, sum, rate
     pkg/internal/packetlimiter/limiter.go New, Account *)
From Coq Require Import List ZArith NArith Bool QArith.
From Coq Require Import Floats.SpecFloat.
From Verif Require Import Base.Hex Base.Ip.
Import ListNotations.
Open Scope Z_scope.
Open Scope bool_scope.

(* ====================================================================== *)
(* (a) ipKey                                                               *)
(* ====================================================================== *)

(* a bucket key: the masked address.  Go returns its String(); the judge parses that string back. *)
Definition key_of_addr (a : addr) : addr :=
  let u := unmap a in
  match fam u with
  | V4 => mkAddr V4 (N.land (abits u) (mask6 (96 + 24))) []     (* v4.Mask(net.CIDRMask(24, 32)) *)
  | V6 => mkAddr V6 (N.land (abits u) (mask6 64)) []            (* ip.Mask(net.CIDRMask(64, 128)) *)
  end.

(* faithful to today's ipKey (after fix commit 2006028): netip.ParseAddr, WithZone(""), AsSlice,
   To4 / Mask -- every IP address is grouped, a zone does not matter *)
Definition impl_ip_key (s : bytes) : option addr :=
  match parse_addr s with
  | Some a => Some (key_of_addr (strip_zone a))
  | None => None
  end.

(* what the property demands: every IP address is grouped, a zone does not matter *)
Definition spec_ip_key (s : bytes) : option addr :=
  match parse_addr s with
  | Some a => Some (key_of_addr (strip_zone a))
  | None => None
  end.

(* PRE-FIX variant (before commit 2006028, finding C34-1, now fixed): net.ParseIP rejected every
   address that carries a zone, so the key was "" and such a peer was never limited *)
Definition prefix_ip_key (s : bytes) : option addr :=
  match parse_ip_legacy s with
  | Some a => Some (key_of_addr a)
  | None => None
  end.

(* trigger of the fixed finding C34-1: a parsable address with a zone *)
Definition zone_trigger (s : bytes) : bool :=
  match parse_addr s with Some a => has_zone a | None => false end.

Definition opt_addr_eqb (a b : option addr) : bool :=
  match a, b with
  | None, None => true
  | Some x, Some y => addr_eqb x y
  | _, _ => false
  end.

(* ====================================================================== *)
(* (b) token bucket (golang.org/x/time/rate, abstracted to exact arithmetic) *)
(* ====================================================================== *)
(* rate = rnum/rden tokens per nanosecond, tokens scaled by rden: tok = tokens * rden.
   advance: tokens = min(burst, tokens + rate * (t - last));  Allow: if tokens >= 1 then consume one.
   (x/time/rate leaves `last` untouched on a refusal; since refill is linear and capped that is the
   same function of the event times.) *)
Record bucket := mkBucket { tok : Z; last : Z }.

Definition bucket_new (burst rden : Z) (t0 : Z) : bucket := mkBucket (burst * rden) t0.

Definition bucket_allow (burst rnum rden : Z) (b : bucket) (t : Z) : bucket * bool :=
  let t' := Z.max t (last b) in                               (* time never runs backwards for the bucket *)
  let refilled := Z.min (burst * rden) (tok b + rnum * (t' - last b)) in
  if rden <=? refilled then (mkBucket (refilled - rden) t', true)
  else (mkBucket refilled t', false).

Fixpoint bucket_run (burst rnum rden : Z) (b : bucket) (ts : list Z) : list bool :=
  match ts with
  | [] => []
  | t :: r => let '(b', ok) := bucket_allow burst rnum rden b t in ok :: bucket_run burst rnum rden b' r
  end.

(* granted events among those whose time lies in [t0, t1] *)
Fixpoint granted_in (t0 t1 : Z) (ts : list Z) (oks : list bool) : Z :=
  match ts, oks with
  | t :: r, ok :: r' => (if ok && (t0 <=? t) && (t <=? t1) then 1 else 0) + granted_in t0 t1 r r'
  | _, _ => 0
  end.

(* ====================================================================== *)
(* (c) packet limiter: counter ring buffer                                 *)
(* ====================================================================== *)

Definition wrap64 (z : Z) : Z := (z + 2 ^ 63) mod 2 ^ 64 - 2 ^ 63.
(* Go's `a - b < 0` on int64 *)
Definition sub_neg (a b : Z) : bool := wrap64 (a - b) <? 0.

(* slices as (length, index -> value); indices are nat *)
Record counter := mkCounter {
  interval : Z;
  cap : nat;
  times : nat -> Z;
  counts : nat -> Z;
  head : nat;                     (* inclusive *)
  tail : nat;                     (* exclusive *)
  total : Z;
  minTime : Z
}.

Definition upd (f : nat -> Z) (i : nat) (v : Z) : nat -> Z := fun j => if Nat.eqb j i then v else f j.

(* newCounter *)
Definition new_counter (iv : Z) : counter :=
  mkCounter iv 8 (fun _ => 0) (fun _ => 0) 0 0 0 0.

(* the loop of expire: at most cap turns (head walks once around the ring) *)
Fixpoint expire_loop (fuel : nat) (c : counter) (minT : Z) : counter :=
  match fuel with
  | O => c
  | S f =>
    if Nat.eqb (head c) (tail c) then c
    else if sub_neg (times c (head c)) minT then
      let h' := S (head c) in
      expire_loop f (mkCounter (interval c) (cap c) (times c) (upd (counts c) (head c) 0)
                               (if Nat.leb (cap c) h' then O else h') (tail c)
                               (total c - counts c (head c)) (minTime c)) minT
    else c
  end.

(* expire *)
Definition expire (c : counter) (now : Z) : counter :=
  let minT := wrap64 (now - interval c) in
  let c' := expire_loop (cap c) c minT in
  mkCounter (interval c') (cap c') (times c') (counts c') (head c') (tail c') (total c') minT.

(* resize: the live segment moves to the front of arrays twice as long *)
Definition resize (c : counter) : counter :=
  let oldLen := cap c in
  let size := if Nat.ltb (tail c) (head c) then (tail c + oldLen - head c)%nat else (tail c - head c)%nat in
  let pick (old : nat -> Z) : nat -> Z :=
    fun i =>
      if Nat.leb (head c) (tail c) then
        (* copy(new, old[head:tail]) *)
        if Nat.ltb i (tail c - head c) then old (head c + i)%nat else 0
      else
        (* n := copy(new, old[head:]); copy(new[n:], old[:tail]) *)
        let n := (oldLen - head c)%nat in
        if Nat.ltb i n then old (head c + i)%nat
        else if Nat.ltb (i - n) (tail c) then old (i - n)%nat else 0 in
  mkCounter (interval c) (oldLen * 2) (pick (times c)) (pick (counts c)) 0 size (total c) (minTime c).

(* add *)
Definition add (c : counter) (now count : Z) : counter :=
  if sub_neg now (minTime c) then c                 (* older than the current window, ignore *)
  else
    let nextTail := Nat.modulo (tail c + 1) (cap c) in
    let c1 := if Nat.eqb nextTail (head c) then resize c else c in
    let nextTail1 := Nat.modulo (tail c1 + 1) (cap c1) in
    mkCounter (interval c1) (cap c1) (upd (times c1) (tail c1) now)
              (upd (counts c1) (tail c1) (counts c1 (tail c1) + count))
              (head c1) nextTail1 (total c1 + count) (minTime c1).

(* updateAndAdd *)
Definition update_and_add (c : counter) (count now : Z) : counter := add (expire c now) now count.

(* sum *)
Definition sum (c : counter) : Z := total c.

(* ---------- rate() > float64(limit), bit-exact binary64 ---------- *)
(* IEEE-754 binary64 through the standard library's executable specification Coq.Floats.SpecFloat
   (round to nearest even; the same functions Flocq's Bmult/Bdiv are proved equal to, but without the
   real-number proofs attached, so nothing here depends on an axiom). *)
Definition f64_of_int (z : Z) : spec_float :=            (* float64(int64) *)
  match z with
  | Z0 => S754_zero false
  | _ => SpecFloat.binary_normalize 53 1024 z 0 false
  end.
(* the double nearest to 1e-9: bits 0x3E112E0BE826D695 = 0x112E0BE826D695 * 2^-82 *)
Definition f64_1e_9 : spec_float := S754_finite false 0x112E0BE826D695 (-82).

(* float64(c.total) / (float64(c.interval) * 1e-9) > float64(limit) *)
Definition exceeds_float (tot iv limit : Z) : bool :=
  match SFcompare (SFdiv 53 1024 (f64_of_int tot) (SFmul 53 1024 (f64_of_int iv) f64_1e_9))
                  (f64_of_int limit) with
  | Some Gt => true
  | _ => false
  end.

(* ---------- the float computation seen as rational numbers (for the error-band theorem) ---------- *)
Definition pow2Q (e : Z) : Q :=
  match e with Z0 => 1%Q | Zpos p => inject_Z (2 ^ Zpos p) | Zneg p => (1 # (2 ^ p))%Q end.

(* the rational a finite binary64 denotes *)
Definition sf_val (f : spec_float) : option Q :=
  match f with
  | S754_zero _ => Some 0%Q
  | S754_finite s m e => Some ((if s then inject_Z (-1) else 1) * inject_Z (Zpos m) * pow2Q e)%Q
  | _ => None
  end.

Definition f_u : Q := (1 # 2 ^ 53)%Q.                       (* unit roundoff of binary64 *)
Definition f_c0 : Q := (1 # 1000000000)%Q.                  (* the exact 1e-9 *)
Definition f_dl : Q := (301175296 # 2 ^ 82)%Q.              (* relative error of the binary64 constant 1e-9 *)
Definition f_c : Q := (f_c0 * (1 + f_dl))%Q.                (* = 4835703278458517 * 2^-82, the constant used *)

Definition qltb (a b : Q) : bool := negb (Qle_bool b a).
Definition comparison_eqb (a b : comparison) : bool :=
  match a, b with Eq, Eq => true | Lt, Lt => true | Gt, Gt => true | _, _ => false end.

(* does the float run on (total, interval, limit) obey the standard model of floating-point arithmetic?
   conversions exact, each of the two roundings within relative error 2^-53, comparison = comparison of
   the denoted rationals.  Decidable, evaluated by the judge on every decision it replays. *)
Definition float_run_ok (tot iv limit : Z) : bool :=
  let ft := f64_of_int tot in let fi := f64_of_int iv in let fl := f64_of_int limit in
  let fd := SFmul 53 1024 fi f64_1e_9 in
  let fq := SFdiv 53 1024 ft fd in
  match sf_val ft, sf_val fi, sf_val fl, sf_val fd, sf_val fq with
  | Some vt, Some vi, Some vl, Some d, Some q =>
    let P := (inject_Z iv * f_c)%Q in
    let T := inject_Z tot in
    Qeq_bool vt T && Qeq_bool vi (inject_Z iv) && Qeq_bool vl (inject_Z limit)
    && Qle_bool ((1 - f_u) * P) d && Qle_bool d ((1 + f_u) * P)
    && Qle_bool ((1 - f_u) * T) (q * d) && Qle_bool (q * d) ((1 + f_u) * T)
    && match SFcompare fq fl with
       | Some cmp => comparison_eqb cmp (q ?= vl)%Q
       | None => false
       end
  | _, _, _, _, _ => false
  end.

(* outside the band around T*10^9 = L*iv in which the two roundings could flip the comparison:
   L*P*(1+u) < T*(1-u)  or  T*(1+u) <= L*P*(1-u),  P = iv * c  (c the binary64 1e-9, u = 2^-53) *)
Definition outside_band (tot iv limit : Z) : bool :=
  let P := (inject_Z iv * f_c)%Q in
  let T := inject_Z tot in let L := inject_Z limit in
  qltb (L * P * (1 + f_u)) (T * (1 - f_u)) || Qle_bool (T * (1 + f_u)) (L * P * (1 - f_u)).

(* a simpler sufficient condition: |T*10^9 - L*iv| * 2^51 > L*iv *)
Definition far_from_equality (tot iv limit : Z) : bool :=
  (limit * iv <? Z.abs (tot * 1000000000 - limit * iv) * 2 ^ 51)%Z.

(* the comparison the property talks about: count in the window > rate per second * window *)
Definition exceeds_exact (tot iv limit : Z) : bool := limit * iv <? tot * 1000000000.

(* ---------- Limiter ---------- *)
Record limiter := mkLimiter {
  packets : option counter;
  bytesc : option counter;
  pps : Z;
  bps : Z
}.

(* New: nil (None) when limiting is disabled *)
Definition new_limiter (packetsPerSecond bytesPerSecond window : Z) : option limiter :=
  if (window <=? 0) || ((packetsPerSecond <=? 0) && (bytesPerSecond <=? 0)) then None
  else Some (mkLimiter (if 0 <? packetsPerSecond then Some (new_counter window) else None)
                       (if 0 <? bytesPerSecond then Some (new_counter window) else None)
                       packetsPerSecond bytesPerSecond).

(* Account with the clock as an argument; exc is the rate comparison *)
Definition account_with (exc : Z -> Z -> Z -> bool) (l : limiter) (nbytes now : Z) : limiter * bool :=
  match packets l with
  | Some pc =>
    let pc' := update_and_add pc 1 now in
    if exc (total pc') (interval pc') (pps l) then (mkLimiter (Some pc') (bytesc l) (pps l) (bps l), false)
    else
      match bytesc l with
      | Some bc =>
        let bc' := update_and_add bc nbytes now in
        (mkLimiter (Some pc') (Some bc') (pps l) (bps l), negb (exc (total bc') (interval bc') (bps l)))
      | None => (mkLimiter (Some pc') None (pps l) (bps l), true)
      end
  | None =>
    match bytesc l with
    | Some bc =>
      let bc' := update_and_add bc nbytes now in
      (mkLimiter None (Some bc') (pps l) (bps l), negb (exc (total bc') (interval bc') (bps l)))
    | None => (l, true)
    end
  end.

Definition account := account_with exceeds_float.

(* a nil limiter allows everything *)
Fixpoint run_limiter (exc : Z -> Z -> Z -> bool) (l : option limiter) (evs : list (Z * Z)) : list (option limiter * bool) :=
  match evs with
  | [] => []
  | (now, nb) :: r =>
    match l with
    | None => (None, true) :: run_limiter exc None r
    | Some l0 => let '(l1, ok) := account_with exc l0 nb now in (Some l1, ok) :: run_limiter exc (Some l1) r
    end
  end.

(* ---------- the straightforward sliding window ---------- *)
(* hist: earlier events, newest first, as (time, count) *)
Definition window_sum (iv now : Z) (hist : list (Z * Z)) : Z :=
  fold_right (fun e acc => if (now - iv <=? fst e) then snd e + acc else acc) 0 hist.

(* decision for the event (now, nb) given the granted events before it (newest first) *)
Definition spec_decision (exc : Z -> Z -> Z -> bool) (pps bps iv : Z) (hist : list (Z * Z)) (now nb : Z) : bool :=
  let pk := if 0 <? pps then exc (window_sum iv now (map (fun e => (fst e, 1)) ((now, nb) :: hist))) iv pps else false in
  let bt := if 0 <? bps then exc (window_sum iv now ((now, nb) :: hist)) iv bps else false in
  if iv <=? 0 then true else negb (pk || bt).

(* decisions up to and including the first refusal (the connection is closed there) *)
Fixpoint spec_run (exc : Z -> Z -> Z -> bool) (pps bps iv : Z) (hist : list (Z * Z)) (evs : list (Z * Z)) : list bool :=
  match evs with
  | [] => []
  | (now, nb) :: r =>
    let ok := spec_decision exc pps bps iv hist now nb in
    if ok then true :: spec_run exc pps bps iv ((now, nb) :: hist) r else [false]
  end.

Fixpoint sorted_from (t : Z) (evs : list (Z * Z)) : bool :=
  match evs with
  | [] => true
  | (now, _) :: r => (t <=? now) && sorted_from now r
  end.

(* spec decisions end at the first refusal; an observation agrees when it agrees on that prefix *)
Fixpoint prefix_agrees (spec obs : list bool) : bool :=
  match spec, obs with
  | [], _ => true
  | s :: sr, o :: or => Bool.eqb s o && prefix_agrees sr or
  | _ :: _, [] => false
  end.

(* the sequences the theorems quantify over: window and times inside (0, 2^62), sizes inside [0, 2^40),
   times non-decreasing *)
Definition in_range (window : Z) (evs : list (Z * Z)) : bool :=
  (0 <? window) && (window <? 2 ^ 62) &&
  forallb (fun e => (0 <=? fst e) && (fst e <? 2 ^ 62) && (0 <=? snd e) && (snd e <? 2 ^ 40)) evs &&
  sorted_from 0 evs.

(* ====================================================================== *)
(* (b') Quota.Blocked under concurrency: one atomic step per caller         *)
(* ====================================================================== *)
(* Shared state: the clock and the cache group -> bucket (groups are abstract keys).  A caller (g, dt)
   runs when the clock has advanced by dt >= 0 since the previous step, so timestamps are non-decreasing
   in schedule order for every schedule.  Today's Blocked does lookup-or-create and (for this model)
   Allow as ONE atomic step under q.mu.  Events: (group, time, granted). *)
Record qstate := mkQ { qclock : Z; qcache : list (N * bucket) }.
Definition qevent := (N * Z * bool)%type.

Fixpoint qlookup (g : N) (c : list (N * bucket)) : option bucket :=
  match c with [] => None | (k, b) :: r => if (k =? g)%N then Some b else qlookup g r end.
Fixpoint qset (g : N) (b : bucket) (c : list (N * bucket)) : list (N * bucket) :=
  match c with
  | [] => [(g, b)]
  | (k, b0) :: r => if (k =? g)%N then (k, b) :: r else (k, b0) :: qset g b r
  end.

Definition blocked_step (burst rnum rden : Z) (g : N) (dt : Z) (s : qstate) : qstate * list qevent :=
  let t := qclock s + Z.max 0 dt in
  let b := match qlookup g (qcache s) with Some b => b | None => bucket_new burst rden t end in
  let '(b', ok) := bucket_allow burst rnum rden b t in
  (mkQ t (qset g b' (qcache s)), [(g, t, ok)]).

(* what one group saw: its (time, granted) points in trace order *)
Fixpoint gtrace (g : N) (evs : list qevent) : list (Z * bool) :=
  match evs with
  | [] => []
  | (k, t, ok) :: r => if (k =? g)%N then (t, ok) :: gtrace g r else gtrace g r
  end.

(* the seeded split (lookup under the lock; create + add + Allow later on a PRIVATE bucket):
   thread-local result of the lookup is kept per caller id *)
Record q2state := mkQ2 { q2clock : Z; q2cache : list (N * bucket); q2local : list (N * option bucket) }.
Fixpoint l2lookup (i : N) (c : list (N * option bucket)) : option (option bucket) :=
  match c with [] => None | (k, b) :: r => if (k =? i)%N then Some b else l2lookup i r end.

Definition split_lookup (i g : N) (s : q2state) : q2state * list qevent :=
  (mkQ2 (q2clock s) (q2cache s) ((i, qlookup g (q2cache s)) :: q2local s), []).
Definition split_allow (burst rnum rden : Z) (i g : N) (s : q2state) : q2state * list qevent :=
  let t := q2clock s in
  let b := match l2lookup i (q2local s) with
           | Some (Some b) => b                       (* cache hit *)
           | _ => bucket_new burst rden t             (* miss: a fresh private bucket *)
           end in
  let '(b', ok) := bucket_allow burst rnum rden b t in
  (mkQ2 t (qset g b' (q2cache s)) (q2local s), [(g, t, ok)]).
