(* C26 — the BungeeCord plugin-channel responder.

   Go sources: pkg/edition/java/proxy/bungeecord/bungee_message.go (Process and the process* functions,
   prepareForwardMessage, sendServerResponse, readPlayer/readServer, joiner) and, for the adapter
   layer, pkg/edition/java/proxy/bungee.go (bungeeServer.BroadcastPluginMessage) with
   server.go BroadcastPluginMessage and player.go connectedPlayer.SendPluginMessage.

   [model F] is one transcription parametrised by five "repaired" flags, one per recorded finding of the
   dispatch layer.  Findings 1 and 6 have been repaired in the code (commits 8f84347, 37918de), so
   [impl_bungee] = model current = the code as it exists (flags 1 and 6 set, 2/3/4 open);
   [spec_bungee] = model all_fixed = BungeeCord's semantics as ported by Velocity
   (BungeeCordMessageResponder); [model none_fixed] is the pre-fix variant the _refuted lemmas of the
   repaired findings talk about.  Executable definitions only.

   Modelling notes.  Reads are strict like DataInput (and like util.ReadUint16/ReadUTF since they use
   io.ReadFull): a truncated length prefix or body is an error and the request is ignored.  The text
   codecs (legacy / JSON component) are external: the case supplies an oracle table text |-> decoded
   plain text or failure.  Player and server lookups fold ASCII case like Proxy.PlayerByName/Server. *)
From Coq Require Import List NArith Bool String.
From Verif Require Import Base.Hex.
Import ListNotations.
Open Scope N_scope.

(* ---------- proxy state ---------- *)
Record player := mkP {
  p_name : bytes; p_uuid : bytes;          (* username; undashed UUID text *)
  p_host : bytes; p_port : N;              (* remote address *)
  p_server : option bytes;                 (* name of the server currently connected to *)
  p_modern : bool }.                       (* that connection speaks >= 1.13 (channel bungeecord:main) *)
Record server := mkS { s_name : bytes; s_host : bytes; s_port : N }.
Record pstate := mkPS { players : list player; servers : list server }.

Definition lower_ascii (b : N) : N := if (65 <=? b) && (b <=? 90) then b + 32 else b.
Definition eq_fold (a b : bytes) : bool := beq_bytes (map lower_ascii a) (map lower_ascii b).

Fixpoint find_player (ps : list player) (n : bytes) : option player :=
  match ps with [] => None | p :: r => if eq_fold (p_name p) n then Some p else find_player r n end.
Fixpoint find_server (ss : list server) (n : bytes) : option server :=
  match ss with [] => None | s :: r => if eq_fold (s_name s) n then Some s else find_server r n end.

Definition opt_beq (a : option bytes) (b : bytes) : bool :=
  match a with Some x => beq_bytes x b | None => false end.
Definition players_on (st : pstate) (sv : bytes) : list player :=
  filter (fun p => opt_beq (p_server p) sv) (players st).

(* ---------- effects ---------- *)
Inductive mtarget := TAll | TPlayer (n : bytes) | TServer (n : bytes).
Inductive effect :=
| EResponse (owner : bytes) (modern : bool) (data : bytes)
    (* plugin message written on the current server connection of player [owner] *)
| EForward (srv : bytes) (data : bytes)        (* payload handed to backend server srv (channel BungeeCord) *)
| EConnect (pl srv : bytes)
| EKick (pl text : bytes)
| EMessage (t : mtarget) (text : bytes)
| EOracleMiss                                   (* the case did not supply the decoder's answer *)
| EPanic.                                       (* the Go code panicked *)

(* ---------- DataInput / DataOutput primitives ---------- *)
Definition read_u16 (bs : bytes) : option (N * bytes) :=
  match bs with
  | a :: b :: r => Some (a * 256 + b, r)
  | _ => None                               (* io.ReadFull: EOF / unexpected EOF *)
  end.
Definition read_utf (bs : bytes) : option (bytes * bytes) :=
  match read_u16 bs with
  | None => None
  | Some (n, r) => if N.of_nat (List.length r) <? n then None
                   else Some (firstn (N.to_nat n) r, skipn (N.to_nat n) r)
  end.
Definition read_i32 (bs : bytes) : option (N * bytes) :=
  match bs with
  | a :: b :: c :: d :: r => Some (((a * 256 + b) * 256 + c) * 256 + d, r)
  | _ => None
  end.
Definition write_u16 (n : N) : bytes := [(n / 256) mod 256; n mod 256].
Definition write_i32 (n : N) : bytes := [(n / 16777216) mod 256; (n / 65536) mod 256; (n / 256) mod 256; n mod 256].
Definition write_utf (s : bytes) : bytes := write_u16 (N.of_nat (List.length s)) ++ s.

(* a response body is a sequence of DataOutput fields *)
Inductive field := FUtf (s : bytes) | FInt (n : N) | FShort (n : N).
Fixpoint encode (fs : list field) : bytes :=
  match fs with
  | [] => []
  | FUtf s :: r => write_utf s ++ encode r
  | FInt n :: r => write_i32 n ++ encode r
  | FShort n :: r => write_u16 n ++ encode r
  end.
Inductive fkind := KUtf | KInt | KShort.
Definition kind_of (f : field) : fkind := match f with FUtf _ => KUtf | FInt _ => KInt | FShort _ => KShort end.
(* reading a body back with DataInput primitives, field kinds given; all bytes must be consumed *)
Fixpoint decode (ks : list fkind) (bs : bytes) : option (list field) :=
  match ks with
  | [] => match bs with [] => Some [] | _ => None end
  | KUtf :: r => match read_utf bs with
                 | Some (s, rest) => match decode r rest with Some fs => Some (FUtf s :: fs) | None => None end
                 | None => None end
  | KInt :: r => match read_i32 bs with
                 | Some (n, rest) => match decode r rest with Some fs => Some (FInt n :: fs) | None => None end
                 | None => None end
  | KShort :: r => match bs with
                   | a :: b :: rest => match decode r rest with Some fs => Some (FShort (a * 256 + b) :: fs) | None => None end
                   | _ => None end
  end.

(* joiner{split: ", "} *)
Fixpoint join (l : list bytes) : bytes :=
  match l with
  | [] => []
  | [x] => x
  | x :: r => x ++ [44; 32] ++ join r
  end.

(* ---------- sub-channels ---------- *)
Inductive sub :=
| SForwardToPlayer | SForward | SConnect | SConnectOther | SIP | SIPOther | SUUID | SUUIDOther
| SPlayerCount | SPlayerList | SGetServers | SGetServer | SMessage | SMessageRaw | SServerIP
| SKickPlayer | SKickPlayerRaw | SGetPlayerServer | SUnknown.

Definition sub_name (s : sub) : bytes :=
  tx match s with
  | SForwardToPlayer => "ForwardToPlayer" | SForward => "Forward" | SConnect => "Connect"
  | SConnectOther => "ConnectOther" | SIP => "IP" | SIPOther => "IPOther" | SUUID => "UUID"
  | SUUIDOther => "UUIDOther" | SPlayerCount => "PlayerCount" | SPlayerList => "PlayerList"
  | SGetServers => "GetServers" | SGetServer => "GetServer" | SMessage => "Message"
  | SMessageRaw => "MessageRaw" | SServerIP => "ServerIP" | SKickPlayer => "KickPlayer"
  | SKickPlayerRaw => "KickPlayerRaw" | SGetPlayerServer => "GetPlayerServer" | SUnknown => ""
  end%string.

Definition known_subs : list sub :=
  [SForwardToPlayer; SForward; SConnect; SConnectOther; SIP; SIPOther; SUUID; SUUIDOther; SPlayerCount;
   SPlayerList; SGetServers; SGetServer; SMessage; SMessageRaw; SServerIP; SKickPlayer; SKickPlayerRaw;
   SGetPlayerServer].

Definition parse_sub (name : bytes) : sub :=
  match find (fun s => beq_bytes (sub_name s) name) known_subs with Some s => s | None => SUnknown end.

Definition s_ALL : bytes := tx "ALL".
Definition s_ONLINE : bytes := tx "ONLINE".
Definition s_BungeeCord : bytes := tx "BungeeCord".
Definition s_bungeecord_main : bytes := tx "bungeecord:main".

(* ---------- repaired flags (true = the recorded defect is gone) ---------- *)
Record flags := mkF { f1 : bool; f2 : bool; f3 : bool; f4 : bool; f6 : bool }.
Definition none_fixed : flags := mkF false false false false false.
Definition all_fixed : flags := mkF true true true true true.
Definition current : flags := mkF true false false false true.   (* the code today: 1 and 6 repaired *)

(* sendServerResponse on the connection of [owner]: nothing for an empty payload or without a server *)
Definition respond (owner : player) (data : bytes) : list effect :=
  match data, p_server owner with
  | [], _ => []
  | _, None => []
  | _, Some _ => [EResponse (p_name owner) (p_modern owner) data]
  end.

(* prepareForwardMessage *)
Inductive fwd := FNone | FPanic | FSome (b : bytes).
Definition prepare_forward (F : flags) (bs : bytes) : fwd :=
  match read_utf bs with
  | None => FNone
  | Some (ch, r1) =>
    match read_u16 r1 with
    | None => FNone
    | Some (len, r2) =>
      if 32768 <=? len then (if f6 F then FNone else FPanic)     (* int16 < 0: make([]byte, len) *)
      else if N.of_nat (List.length r2) <? len then FNone
      else FSome ((if f1 F then write_utf ch else ch) ++ write_u16 len ++ firstn (N.to_nat len) r2)
    end
  end.

Fixpoint lookup (o : list (bytes * option bytes)) (t : bytes) : option (option bytes) :=
  match o with [] => None | (k, v) :: r => if beq_bytes k t then Some v else lookup r t end.

Definition cur_server_name (req : player) : bytes := match p_server req with Some n => n | None => [] end.

(* the fields of the answer of the query sub-channels (None: no answer) *)
Definition response_fields (F : flags) (st : pstate) (req : player) (s : sub) (a : bytes) : option (list field) :=
  match s with
  | SIP => Some [FUtf (sub_name SIP); FUtf (p_host req); FInt (p_port req)]
  | SIPOther =>
    match read_utf a with None => None | Some (pn, _) =>
    match find_player (players st) pn with None => None | Some p =>
      Some [FUtf (sub_name SIPOther); FUtf (p_name p); FUtf (p_host p); FInt (p_port p)] end end
  | SUUID => Some [FUtf (sub_name SUUID); FUtf (p_uuid req)]
  | SUUIDOther =>
    match read_utf a with None => None | Some (pn, _) =>
    match find_player (players st) pn with None => None | Some p =>
      Some [FUtf (sub_name SUUIDOther); FUtf (p_name p); FUtf (p_uuid p)] end end
  | SPlayerCount =>
    match read_utf a with None => None | Some (tg, _) =>
      if eq_fold tg s_ALL then
        Some [FUtf (sub_name SPlayerCount); FUtf s_ALL; FInt (N.of_nat (List.length (players st)))]
      else match find_server (servers st) tg with None => None | Some sv =>
        Some [FUtf (sub_name SPlayerCount); FUtf (s_name sv); FInt (N.of_nat (List.length (players_on st (s_name sv))))] end
    end
  | SPlayerList =>
    match read_utf a with None => None | Some (tg, _) =>
      if beq_bytes tg s_ALL then
        Some [FUtf (sub_name SPlayerList); FUtf s_ALL; FUtf (join (map p_name (players st)))]
      else match find_server (servers st) tg with None => None | Some sv =>
        Some [FUtf (sub_name SPlayerList); FUtf (s_name sv); FUtf (join (map p_name (players_on st (s_name sv))))] end
    end
  | SGetServers => Some [FUtf (sub_name SGetServers); FUtf (join (map s_name (servers st)))]
  | SGetServer =>
    match p_server req with None => None | Some sn => Some [FUtf (sub_name SGetServer); FUtf sn] end
  | SServerIP =>
    match read_utf a with None => None | Some (sn, _) =>
    match find_server (servers st) sn with None => None | Some sv =>
      Some [FUtf (sub_name SServerIP); FUtf (s_name sv); FUtf (s_host sv); FShort (s_port sv mod 65536)] end end
  | SGetPlayerServer =>
    match read_utf a with None => None | Some (pn, _) =>
    match find_player (players st) pn with None => None | Some p =>
      match p_server req with None => None | Some _ =>   (* the answer always travels on the requester's connection *)
      match p_server (if f3 F then p else req) with None => None | Some sn =>
        Some [FUtf (sub_name SGetPlayerServer); FUtf (p_name p); FUtf sn]
      end end
    end end
  | _ => None
  end.

Definition run_sub (F : flags) (st : pstate) (req : player) (oracle : list (bytes * option bytes))
           (s : sub) (a : bytes) : list effect :=
  match s with
  | SForwardToPlayer =>
    match read_utf a with None => [] | Some (pn, r) =>
    match find_player (players st) pn with None => [] | Some p =>
      match prepare_forward F r with
      | FPanic => [EPanic]
      | FNone => []
      | FSome b => respond (if f2 F then p else req) b
      end end end
  | SForward =>
    match read_utf a with None => [] | Some (tg, r) =>
      match prepare_forward F r with
      | FPanic => [EPanic]
      | fw =>
        let payload := match fw with FSome b => Some b | _ => if f6 F then None else Some [] end in
        match payload with None => [] | Some b =>
          if eq_fold tg s_ALL || eq_fold tg s_ONLINE then
            map (fun sv => EForward (s_name sv) b)
                (filter (fun sv => negb (beq_bytes (s_name sv) (cur_server_name req))) (servers st))
          else match find_server (servers st) tg with Some sv => [EForward (s_name sv) b] | None => [] end
        end
      end end
  | SConnect =>
    match read_utf a with None => [] | Some (sn, _) =>
    match find_server (servers st) sn with None => [] | Some sv => [EConnect (p_name req) (s_name sv)] end end
  | SConnectOther =>
    match read_utf a with None => [] | Some (pn, r) =>
    match find_player (players st) pn with None => [] | Some p =>
    match read_utf r with None => [] | Some (sn, _) =>
    match find_server (servers st) sn with None => [] | Some sv => [EConnect (p_name p) (s_name sv)] end end end end
  | SMessage | SMessageRaw =>
    match read_utf a with None => [] | Some (tg, r) =>
    match read_utf r with None => [] | Some (txt, _) =>
    match lookup oracle txt with
    | None => [EOracleMiss]
    | Some None => []                                    (* decoder error: return *)
    | Some (Some plain) =>
      if beq_bytes tg s_ALL then [EMessage TAll plain]
      else if f4 F then
        match find_player (players st) tg with Some p => [EMessage (TPlayer (p_name p)) plain] | None => [] end
      else
        match find_server (servers st) tg with
        | Some sv => [EMessage (TServer (s_name sv)) plain]
        | None => [EPanic]                               (* method call on a nil Server interface *)
        end
    end end end
  | SKickPlayer | SKickPlayerRaw =>
    match read_utf a with None => [] | Some (pn, r) =>
    match find_player (players st) pn with None => [] | Some p =>
    match read_utf r with None => [] | Some (txt, _) =>
    match lookup oracle txt with
    | None => [EOracleMiss]
    | Some None => [EKick (p_name p) []]                 (* fallback to a blank reason *)
    | Some (Some plain) => [EKick (p_name p) plain]
    end end end end
  | SUnknown => []
  | _ => match response_fields F st req s a with Some fs => respond req (encode fs) | None => [] end
  end.

(* Process: (handled?, effects) *)
Definition model (F : flags) (st : pstate) (req : player) (oracle : list (bytes * option bytes))
           (channel data : bytes) : bool * list effect :=
  if eq_fold s_bungeecord_main channel || eq_fold s_BungeeCord channel then
    match read_utf data with
    | None => (false, [])
    | Some (name, a) => (true, run_sub F st req oracle (parse_sub name) a)
    end
  else (false, []).

Definition impl_bungee := model current.

(* several requests through the same responder: the responder keeps no state between requests *)
Definition model_history (F : flags) (st : pstate) (req : player) (oracle : list (bytes * option bytes))
           (channel : bytes) (ds : list bytes) : list (bool * list effect) :=
  map (model F st req oracle channel) ds.
Definition spec_bungee := model all_fixed.

(* ---------- triggers of the recorded findings (on the parsed request) ---------- *)
Definition well_formed_payload (bs : bytes) : bool :=
  match prepare_forward all_fixed bs with FSome _ => true | _ => false end.

Definition payload_of (s : sub) (a : bytes) : option bytes :=      (* the forward payload, if reached *)
  match s, read_utf a with
  | SForward, Some (_, r) => Some r
  | _, _ => None
  end.

(* k=1: a well-formed payload is forwarded (channel written without its length prefix) *)
Definition trigger1 (st : pstate) (s : sub) (a : bytes) : bool :=
  match s, read_utf a with
  | SForward, Some (_, r) => well_formed_payload r
  | SForwardToPlayer, Some (pn, r) =>
    match find_player (players st) pn with Some _ => well_formed_payload r | None => false end
  | _, _ => false
  end.
(* k=2: ForwardToPlayer to a known player with a well-formed payload *)
Definition trigger2 (st : pstate) (s : sub) (a : bytes) : bool :=
  match s, read_utf a with
  | SForwardToPlayer, Some (pn, r) =>
    match find_player (players st) pn with Some _ => well_formed_payload r | None => false end
  | _, _ => false
  end.
(* k=3: GetPlayerServer for a known player *)
Definition trigger3 (st : pstate) (s : sub) (a : bytes) : bool :=
  match s, read_utf a with
  | SGetPlayerServer, Some (pn, _) => match find_player (players st) pn with Some _ => true | None => false end
  | _, _ => false
  end.
(* k=4: Message / MessageRaw whose target is not "ALL", both strings present and decodable *)
Definition trigger4 (oracle : list (bytes * option bytes)) (s : sub) (a : bytes) : bool :=
  match s with
  | SMessage | SMessageRaw =>
    match read_utf a with
    | Some (tg, r) =>
      match read_utf r with
      | Some (txt, _) => match lookup oracle txt with Some (Some _) => negb (beq_bytes tg s_ALL) | _ => false end
      | None => false end
    | None => false end
  | _ => false
  end.
(* k=6: Forward / ForwardToPlayer (known player) whose payload is not well formed *)
Definition trigger6 (st : pstate) (s : sub) (a : bytes) : bool :=
  match s, read_utf a with
  | SForward, Some (_, r) => negb (well_formed_payload r)
  | SForwardToPlayer, Some (pn, r) =>
    match find_player (players st) pn with Some _ => negb (well_formed_payload r) | None => false end
  | _, _ => false
  end.

(* ---------- adapter layer: what bungeeServer.BroadcastPluginMessage does with one forward ---------- *)
(* a write observed on a connection: whose player, client side (true) or backend side, channel, data *)
Record awrite := mkW { w_player : bytes; w_client : bool; w_channel : bytes; w_data : bytes }.

(* today: every player of the server gets the message on its CLIENT connection *)
Definition impl_adapter_forward (st : pstate) (sv : bytes) (data : bytes) : list awrite :=
  map (fun p => mkW (p_name p) true s_BungeeCord data) (players_on st sv).

(* ---------- decidable equality ---------- *)
Definition beq_target (a b : mtarget) : bool :=
  match a, b with
  | TAll, TAll => true
  | TPlayer x, TPlayer y => beq_bytes x y
  | TServer x, TServer y => beq_bytes x y
  | _, _ => false
  end.
Definition beq_effect (a b : effect) : bool :=
  match a, b with
  | EResponse o m d, EResponse o' m' d' => beq_bytes o o' && Bool.eqb m m' && beq_bytes d d'
  | EForward s d, EForward s' d' => beq_bytes s s' && beq_bytes d d'
  | EConnect p s, EConnect p' s' => beq_bytes p p' && beq_bytes s s'
  | EKick p t, EKick p' t' => beq_bytes p p' && beq_bytes t t'
  | EMessage t x, EMessage t' x' => beq_target t t' && beq_bytes x x'
  | EOracleMiss, EOracleMiss => true
  | EPanic, EPanic => true
  | _, _ => false
  end.
Fixpoint beq_effects (a b : list effect) : bool :=
  match a, b with
  | [], [] => true
  | x :: a', y :: b' => beq_effect x y && beq_effects a' b'
  | _, _ => false
  end.
Definition beq_result (a b : bool * list effect) : bool :=
  Bool.eqb (fst a) (fst b) && beq_effects (snd a) (snd b).
