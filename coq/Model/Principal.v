(* C41 — model of connectutil.ExtractSessionPrincipalWire (pkg/util/connectutil/principal.go):
   the scan loop over the unknown-field region of a decoded connect.Session, together with the
   protowire functions it calls (google.golang.org/protobuf/encoding/protowire, v1.36.11), and the
   reference extraction [ref_extract] built on the independent parser of Base/ProtoWire.v.
   Executable definitions only; proofs are in Proofs/C41.v.

   The "typed fields" half of the Go function is a no-op for the pinned connect module: its generated
   Session descriptor knows fields 1..4 only (checked by the harness on every run: fields 6..12
   have no descriptor), so the result is a function of GetUnknown() alone. *)
From Coq Require Import List NArith ZArith Bool.
From Verif Require Import Base.Hex Base.ProtoWire.
Import ListNotations.
Open Scope N_scope.

(* ---------- result type shared by model, reference and the observation ---------- *)

Record principal := mkP {
  p_protocol : Z;        (* int32 *)
  p_endpoint : bytes;    (* string *)
  p_org      : bytes;    (* string *)
  p_nonce    : bytes;    (* [16]byte; sixteen zero bytes unless an envelope is present *)
  p_spv      : Z;        (* int32 *)
  p_rev      : Z;        (* int64 *)
  p_envelope : bytes
}.

Inductive result :=
| ROk (p : option principal)    (* (w, nil); w = nil is [ROk None] *)
| RErr.                         (* (nil, err) *)

Definition beq_principal (a b : principal) : bool :=
  Z.eqb (p_protocol a) (p_protocol b) && beq_bytes (p_endpoint a) (p_endpoint b) &&
  beq_bytes (p_org a) (p_org b) && beq_bytes (p_nonce a) (p_nonce b) &&
  Z.eqb (p_spv a) (p_spv b) && Z.eqb (p_rev a) (p_rev b) && beq_bytes (p_envelope a) (p_envelope b).

Definition beq_result (a b : result) : bool :=
  match a, b with
  | RErr, RErr => true
  | ROk None, ROk None => true
  | ROk (Some x), ROk (Some y) => beq_principal x y
  | _, _ => false
  end.

Definition max_envelope_bytes : N := 16384.       (* bedrockprincipal.MaxEnvelopeBytes = 16 << 10 *)
Definition zeros16 : bytes := repeat 0 16.

(* =====================================================================================
   Implementation side
   ===================================================================================== *)

(* protowire.ConsumeVarint: ten unrolled steps in Go; the same steps as a loop. k = number of bytes
   still allowed before the tenth one, shift = 7 * index. Go computes in uint64; the sum below never
   reaches 2^64 for bytes < 256 (Proofs/C41.v, consume_varint_ref), so no wrap is modelled. *)
Fixpoint go_varint_loop (k : nat) (shift v : N) (b : bytes) : option (N * bytes) :=
  match b with
  | [] => None                                             (* errCodeTruncated *)
  | y :: r =>
    match k with
    | O => if y <? 2 then Some (v + N.shiftl y 63, r) else None     (* errCodeOverflow *)
    | S k' =>
      let v := v + N.shiftl y shift in
      if y <? 128 then Some (v, r)
      else go_varint_loop k' (shift + 7) (v - N.shiftl 128 shift) r
    end
  end.
Definition consume_varint (b : bytes) : option (N * bytes) := go_varint_loop 9 0 0 b.

(* protowire.ConsumeTag + DecodeTag: number -1 when x>>3 > MaxInt32, then num < MinValidNumber fails *)
Definition consume_tag (b : bytes) : option (N * N * bytes) :=
  match consume_varint b with
  | None => None
  | Some (x, r) =>
    let num := N.shiftr x 3 in
    if 2147483647 <? num then None
    else if num <? 1 then None
    else Some (num, N.land x 7, r)
  end.

(* protowire.ConsumeFixed32 / ConsumeFixed64: only the length matters to the caller *)
Definition consume_fixed (n : nat) (b : bytes) : option bytes :=
  if Nat.ltb (length b) n then None else Some (skipn n b).

(* protowire.ConsumeBytes *)
Definition consume_bytes (b : bytes) : option (bytes * bytes) :=
  match consume_varint b with
  | None => None
  | Some (m, r) =>
    if N.of_nat (length r) <? m then None                  (* m > len(b[n:]) : errCodeTruncated *)
    else Some (firstn (N.to_nat m) r, skipn (N.to_nat m) r)
  end.

(* protowire.consumeFieldValueD, non-group part and dispatch; [loop] is the group loop below *)
Definition cfv_with (loop : Z -> N -> bytes -> option bytes) (depth : Z) (num typ : N) (b : bytes)
  : option bytes :=
  if typ =? 0 then match consume_varint b with Some (_, r) => Some r | None => None end
  else if typ =? 5 then consume_fixed 4 b
  else if typ =? 1 then consume_fixed 8 b
  else if typ =? 2 then match consume_bytes b with Some (_, r) => Some r | None => None end
  else if typ =? 3 then
    (if (depth <? 0)%Z then None else loop depth num b)             (* errCodeRecursionDepth *)
  else None.                                     (* 4: errCodeEndGroup, 6 and 7: errCodeReserved *)

(* the [for] loop of the StartGroupType case; one unit of fuel per tag consumed *)
Fixpoint group_loop (fuel : nat) (depth : Z) (num : N) (b : bytes) : option bytes :=
  match fuel with
  | O => None
  | S f =>
    match consume_tag b with
    | None => None
    | Some (num2, typ2, b1) =>
      if typ2 =? 4 then (if num =? num2 then Some b1 else None)
      else match cfv_with (group_loop f) (depth - 1)%Z num2 typ2 b1 with
           | None => None
           | Some b2 => group_loop f depth num b2
           end
    end
  end.

Definition default_recursion_limit : Z := 10000.
(* protowire.ConsumeFieldValue *)
Definition consume_field_value (num typ : N) (b : bytes) : option bytes :=
  cfv_with (group_loop (S (length b))) default_recursion_limit num typ b.

(* Go conversions int32(int64(v)) and int64(v) of a uint64 *)
Definition go_int64 (v : N) : Z :=
  let w := v mod 18446744073709551616 in
  if w <? 9223372036854775808 then Z.of_N w else (Z.of_N w - 18446744073709551616)%Z.
Definition go_int32 (v : N) : Z :=
  let w := v mod 4294967296 in
  if w <? 2147483648 then Z.of_N w else (Z.of_N w - 4294967296)%Z.

(* loop state: w, found, nonce, haveEnvelope *)
Record st := mkSt {
  s_protocol : Z; s_endpoint : bytes; s_org : bytes; s_spv : Z; s_rev : Z; s_envelope : bytes;
  s_found : bool; s_nonce : bytes; s_have : bool
}.
Definition st0 : st := mkSt 0 [] [] 0 0 [] false [] false.

(* the switch on a principal field of wire type bytes; None = return an error *)
Definition on_bytes (s : st) (num : N) (v : bytes) : option st :=
  if num =? 7 then Some (mkSt (s_protocol s) v (s_org s) (s_spv s) (s_rev s) (s_envelope s) true (s_nonce s) (s_have s))
  else if num =? 8 then Some (mkSt (s_protocol s) (s_endpoint s) v (s_spv s) (s_rev s) (s_envelope s) true (s_nonce s) (s_have s))
  else if num =? 9 then Some (mkSt (s_protocol s) (s_endpoint s) (s_org s) (s_spv s) (s_rev s) (s_envelope s) true v (s_have s))
  else if num =? 12 then
    if s_have s then None
    else if (N.of_nat (length v) =? 0) || (max_envelope_bytes <? N.of_nat (length v)) then None
    else Some (mkSt (s_protocol s) (s_endpoint s) (s_org s) (s_spv s) (s_rev s) v true (s_nonce s) true)
  else Some s.

(* the switch on a principal field of wire type varint *)
Definition on_varint (s : st) (num v : N) : st :=
  if num =? 6 then mkSt (go_int32 v) (s_endpoint s) (s_org s) (s_spv s) (s_rev s) (s_envelope s) true (s_nonce s) (s_have s)
  else if num =? 10 then mkSt (s_protocol s) (s_endpoint s) (s_org s) (go_int32 v) (s_rev s) (s_envelope s) true (s_nonce s) (s_have s)
  else if num =? 11 then mkSt (s_protocol s) (s_endpoint s) (s_org s) (s_spv s) (go_int64 v) (s_envelope s) true (s_nonce s) (s_have s)
  else s.

Definition is_principal_field (num : N) : bool := (6 <=? num) && (num <=? 12).
Definition want_bytes (num : N) : bool := (num =? 7) || (num =? 8) || (num =? 9) || (num =? 12).

(* [for len(raw) > 0] ; None = return nil, err *)
Fixpoint scan (fuel : nat) (s : st) (raw : bytes) : option st :=
  match fuel with
  | O => None
  | S f =>
    match raw with
    | [] => Some s
    | _ :: _ =>
      match consume_tag raw with
      | None => None
      | Some (num, typ, raw1) =>
        let isP := is_principal_field num in
        let wantB := want_bytes num in
        if negb isP || (wantB && negb (typ =? 2)) || (negb wantB && negb (typ =? 0)) then
          if isP then None
          else match consume_field_value num typ raw1 with
               | None => None
               | Some raw2 => scan f s raw2
               end
        else if wantB then
          match consume_bytes raw1 with
          | None => None
          | Some (v, raw2) =>
            match on_bytes s num v with
            | None => None
            | Some s' => scan f s' raw2
            end
          end
        else
          match consume_varint raw1 with
          | None => None
          | Some (v, raw2) => scan f (on_varint s num v) raw2
          end
      end
    end
  end.

(* the tail of the function after the loop *)
Definition finish (s : st) : result :=
  if negb (s_found s) then ROk None
  else if s_have s then
    if Nat.eqb (length (s_nonce s)) 16
    then ROk (Some (mkP (s_protocol s) (s_endpoint s) (s_org s) (s_nonce s) (s_spv s) (s_rev s) (s_envelope s)))
    else RErr
  else ROk (Some (mkP (s_protocol s) (s_endpoint s) (s_org s) zeros16 (s_spv s) (s_rev s) (s_envelope s))).

Definition extract_fuel (fuel : nat) (u : bytes) : result :=
  match scan fuel st0 u with
  | None => RErr
  | Some s => finish s
  end.

(* u = the unknown-field region m.GetUnknown() *)
Definition extract (u : bytes) : result := extract_fuel (S (length u)) u.

(* =====================================================================================
   Reference side: parse the whole region with the reference parser, then read the fields
   ===================================================================================== *)

(* nesting limit handed to the reference parser: protowire allows depth 10000 down to 0 *)
Definition ref_group_limit : N := 10001.

Definition expected_wire_type (num : N) : N := if want_bytes num then 2 else 0.

(* a field 6..12 whose wire type is not the one of the frozen schema *)
Definition wrong_type (f : wfield) : bool :=
  is_principal_field (fst f) && negb (wire_type (snd f) =? expected_wire_type (fst f)).

Definition len_values (num : N) (fs : list wfield) : list bytes :=
  flat_map (fun f => match snd f with WLen p => if fst f =? num then [p] else [] | _ => [] end) fs.
Definition varint_values (num : N) (fs : list wfield) : list N :=
  flat_map (fun f => match snd f with WVarint v => if fst f =? num then [v] else [] | _ => [] end) fs.

(* last value wins *)
Definition last_len (num : N) (fs : list wfield) : bytes := last (len_values num fs) [].
Definition last_varint (num : N) (fs : list wfield) : N := last (varint_values num fs) 0.

Definition has_principal_field (fs : list wfield) : bool := existsb (fun f => is_principal_field (fst f)) fs.

Definition bad_envelope_size (e : bytes) : bool :=
  (N.of_nat (length e) =? 0) || (max_envelope_bytes <? N.of_nat (length e)).

Definition ref_read (fs : list wfield) : result :=
  if existsb wrong_type fs then RErr
  else
    let base nonce env :=
      mkP (ref_int32 (last_varint 6 fs)) (last_len 7 fs) (last_len 8 fs) nonce
          (ref_int32 (last_varint 10 fs)) (ref_int64 (last_varint 11 fs)) env in
    match len_values 12 fs with
    | [] => if has_principal_field fs then ROk (Some (base zeros16 [])) else ROk None
    | [e] =>
      if bad_envelope_size e then RErr
      else if Nat.eqb (length (last_len 9 fs)) 16 then ROk (Some (base (last_len 9 fs) e))
      else RErr
    | _ :: _ :: _ => RErr
    end.

Definition ref_extract (u : bytes) : result :=
  match ref_message ref_group_limit u with
  | None => RErr
  | Some fs => ref_read fs
  end.

(* ---------- the rejection conditions of the property text, as a decidable predicate on u ---------- *)

Definition malformed (u : bytes) : bool :=
  match ref_message ref_group_limit u with None => true | Some _ => false end.

Definition fields_of (u : bytes) : list wfield :=
  match ref_message ref_group_limit u with None => [] | Some fs => fs end.

Definition has_wrong_type (u : bytes) : bool := existsb wrong_type (fields_of u).
Definition envelopes (u : bytes) : list bytes := len_values 12 (fields_of u).
Definition second_envelope (u : bytes) : bool := Nat.leb 2 (length (envelopes u)).
Definition some_bad_envelope_size (u : bytes) : bool := existsb bad_envelope_size (envelopes u).
Definition envelope_without_nonce (u : bytes) : bool :=
  negb (Nat.eqb (length (envelopes u)) 0) && negb (Nat.eqb (length (last_len 9 (fields_of u))) 16).
Definition has_field_6_12 (u : bytes) : bool := has_principal_field (fields_of u).

Definition must_reject (u : bytes) : bool :=
  malformed u || has_wrong_type u || second_envelope u || some_bad_envelope_size u || envelope_without_nonce u.
