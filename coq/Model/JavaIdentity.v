(* C40 — model of the Java identity a Bedrock player gets:
   pkg/edition/bedrock/geyser/geyser.go: javaCompatibleUsername (applied to fmt.Sprintf(UsernameFormat, gamertag)),
   pkg/edition/bedrock/geyser/floodgate/floodgate.go: BedrockData.JavaUuid.
   Executable definitions only; proofs are in Proofs/C40.v. *)
From Coq Require Import List NArith ZArith Bool.
From Verif Require Import Base.Hex Base.Text Base.Sha1 Base.Decimal.
Import ListNotations.
Open Scope N_scope.

(* ---------- profile name ---------- *)

(* the switch in the loop: a-z, A-Z, 0-9 and '_' are kept *)
Definition name_ok (r : N) : bool :=
  ((97 <=? r) && (r <=? 122)) || ((65 <=? r) && (r <=? 90)) || ((48 <=? r) && (r <=? 57)) || (r =? 95).

Definition norm_rune (r : N) : N := if name_ok r then r else 95.

(* [for _, r := range name]: one output byte per rune, stop when the builder holds 16 bytes;
   [len] = normalized.Len() *)
Fixpoint name_loop (runes : list N) (len : nat) : bytes :=
  match runes with
  | [] => []
  | r :: rs => if Nat.eqb len 16 then [] else norm_rune r :: name_loop rs (S len)
  end.

(* javaCompatibleUsername; [utf8_decode] is Go's range-over-string (one U+FFFD per invalid byte) *)
Definition java_compatible_username (name : bytes) : bytes :=
  match name_loop (utf8_decode name) 0 with
  | [] => [95]
  | out => out
  end.

(* fmt.Sprintf(format, tag) for the formats UsernameFormat is meant for: literal text, "%%", and
   exactly one "%s" (config validation demands a "%s"); everything else is outside this fragment *)
Fixpoint sprintf_s (fmt tag : bytes) : bytes :=
  match fmt with
  | 37 :: 115 :: r => tag ++ sprintf_s r tag
  | 37 :: 37 :: r => 37 :: sprintf_s r tag
  | c :: r => c :: sprintf_s r tag
  | [] => []
  end.

(* number of "%s" verbs, or None when another use of '%' occurs *)
Fixpoint count_s (fmt : bytes) : option nat :=
  match fmt with
  | 37 :: 115 :: r => match count_s r with Some n => Some (S n) | None => None end
  | 37 :: 37 :: r => count_s r
  | 37 :: _ => None
  | _ :: r => count_s r
  | [] => Some O
  end.
Definition simple_format (fmt : bytes) : bool :=
  match count_s fmt with Some 1%nat => true | _ => false end.

(* the name the profile gets: geyser.go onGameProfile *)
Definition java_name (fmt tag : bytes) : bytes :=
  java_compatible_username (match fmt with [] => tag | _ => sprintf_s fmt tag end).

(* ---------- UUID ---------- *)

Definition xuid_prefix : bytes := [70; 108; 111; 111; 100; 103; 97; 116; 101; 88; 85; 73; 68; 58].  (* "FloodgateXUID:" *)

Definition uuid_preimage (xuid : Z) : bytes := xuid_prefix ++ print_int xuid.

(* sum[6] = (sum[6] & 0x0f) | (5 << 4); sum[8] = (sum[8] & 0x3f) | 0x80; first 16 bytes *)
Definition set_version_variant (sum : bytes) : bytes :=
  match sum with
  | b0 :: b1 :: b2 :: b3 :: b4 :: b5 :: b6 :: b7 :: b8 :: r =>
    firstn 16 (b0 :: b1 :: b2 :: b3 :: b4 :: b5 :: N.lor (N.land b6 15) 80 :: b7 :: N.lor (N.land b8 63) 128 :: r)
  | _ => []
  end.

Definition java_uuid (xuid : Z) : bytes := set_version_variant (sha1 (uuid_preimage xuid)).
