(* C31 — model of Lite forwarding (pkg/edition/java/lite/forward.go, util.go) and of the pieces of the
   client read path that decide which bytes reach the backend (codec/decoder.go, packet/handshake.go,
   netmc/reader.go) plus the PROXY protocol v2 header written by protoutil.ProxyHeader /
   go-proxyproto formatVersion2.

   Executable definitions only; proofs are in Proofs/C31.v.

   The virtual-host rewrite exists in three named versions:
     impl_mvh     = strings.Replace(addr, cleanedHost, backendHost, 1)  (what dialRoute does since fix d2ccd45)
     spec_mvh     = replace the host part only (the first occurrence)   (what the property demands; same function)
     old_impl_mvh = strings.ReplaceAll(addr, cleanedHost, backendHost)  (the PRE-FIX code, kept only for the
                    historical finding C31-1 and its refutation lemmas; not used by the judge's model)
   Everything else is shared; [lite_flow] is parameterised by the rewrite function.

   Standing assumptions of the model (stated again in meta/C31.json):
     - the backend host text is ASCII (EqualFold is modelled against an ASCII right-hand side);
     - client / backend IPs are 4 or 16 bytes long (net.TCPAddr of an established connection);
     - the route was chosen ("*" host); its backends are tried in config order, the dials of the
       leading ones fail (connection refused), the last one is reachable. *)
From Coq Require Import List Arith NArith Bool.
From Verif Require Import Base.Hex Base.VarInt.
Import ListNotations.
Open Scope N_scope.
Open Scope bool_scope.

Definition len (b : bytes) : N := N.of_nat (length b).

(* ------------------------------------------------------------------ byte-string helpers *)

(* strings.HasPrefix(s, p) *)
Fixpoint prefixb (p s : bytes) : bool :=
  match p, s with
  | [], _ => true
  | x :: p', y :: s' => (x =? y) && prefixb p' s'
  | _ :: _, [] => false
  end.

(* strings.Contains(s, sep) *)
Fixpoint contains (sep s : bytes) : bool :=
  match s with
  | [] => prefixb sep []
  | _ :: r => prefixb sep s || contains sep r
  end.

(* strings.Split(s, sep)[0] for a non-empty sep: the text before the first occurrence of sep *)
Fixpoint before (sep s : bytes) : bytes :=
  match s with
  | [] => []
  | x :: r => if prefixb sep s then [] else x :: before sep r
  end.

(* the text after the first occurrence of a non-empty sep; None if it does not occur *)
Fixpoint after (sep s : bytes) : option bytes :=
  match s with
  | [] => None
  | _ :: r => if prefixb sep s then Some (skipn (length sep) s) else after sep r
  end.

Fixpoint trim_left (c : N) (s : bytes) : bytes :=
  match s with
  | [] => []
  | x :: r => if x =? c then trim_left c r else s
  end.
Definition trim_right (c : N) (s : bytes) : bytes := rev (trim_left c (rev s)).
(* strings.Trim(s, ".") for a one-byte cutset *)
Definition trim (c : N) (s : bytes) : bytes := trim_left c (trim_right c s).

Definition forge_sep : bytes := [0].              (* "\x00" *)
Definition shield_sep : bytes := [47; 47; 47].    (* "///"  *)
Definition dot : N := 46.

(* util.go ClearVirtualHost *)
Definition clear_virtual_host (name : bytes) : bytes :=
  trim dot (before shield_sep (before forge_sep name)).

(* util.go IsTCPShieldRealIP: len(strings.Split(addr, "///")) > 1 *)
Definition is_tcpshield (addr : bytes) : bool := contains shield_sep addr.

(* ------------------------------------------------------------------ UTF-8 as Go decodes it *)

Definition cont (b : N) : bool := (128 <=? b) && (b <=? 191).
Definition rune_error : N := 65533.

(* utf8.DecodeRuneInString: (rune, width); every ill-formed prefix is (U+FFFD, 1) *)
Definition rune_at (s : bytes) : N * nat :=
  match s with
  | [] => (rune_error, 0%nat)
  | b0 :: r =>
    if b0 <? 128 then (b0, 1%nat)
    else
      let bad := (rune_error, 1%nat) in
      let lo := if b0 =? 224 then 160 else if b0 =? 240 then 144 else 128 in
      let hi := if b0 =? 237 then 159 else if b0 =? 244 then 143 else 191 in
      if (194 <=? b0) && (b0 <=? 223) then
        match r with
        | b1 :: _ => if (lo <=? b1) && (b1 <=? hi) then ((b0 - 192) * 64 + (b1 - 128), 2%nat) else bad
        | _ => bad
        end
      else if (224 <=? b0) && (b0 <=? 239) then
        match r with
        | b1 :: b2 :: _ =>
          if (lo <=? b1) && (b1 <=? hi) && cont b2
          then ((b0 - 224) * 4096 + (b1 - 128) * 64 + (b2 - 128), 3%nat) else bad
        | _ => bad
        end
      else if (240 <=? b0) && (b0 <=? 244) then
        match r with
        | b1 :: b2 :: b3 :: _ =>
          if (lo <=? b1) && (b1 <=? hi) && cont b2 && cont b3
          then ((b0 - 240) * 262144 + (b1 - 128) * 4096 + (b2 - 128) * 64 + (b3 - 128), 4%nat) else bad
        | _ => bad
        end
      else bad
  end.

Definition lower_ascii (c : N) : N := if (65 <=? c) && (c <=? 90) then c + 32 else c.

(* one step of strings.EqualFold when the right-hand rune tr is ASCII: equal, ASCII letters
   differing in case, or the two non-ASCII runes whose simple-fold orbit contains an ASCII letter
   (U+212A KELVIN SIGN ~ k, U+017F LONG S ~ s) *)
Definition fold_match (sr tr : N) : bool :=
  if sr <? 128 then lower_ascii sr =? lower_ascii tr
  else ((sr =? 8490) && (lower_ascii tr =? 107)) || ((sr =? 383) && (lower_ascii tr =? 115)).

Fixpoint equal_fold_fuel (fuel : nat) (s t : bytes) : bool :=
  match fuel with
  | O => false
  | S f =>
    match s, t with
    | [], [] => true
    | [], _ :: _ => false
    | _ :: _, [] => false
    | _ :: _, tr :: t' =>
      let '(sr, w) := rune_at s in
      fold_match sr tr && equal_fold_fuel f (skipn w s) t'
    end
  end.
(* strings.EqualFold(s, t) for ASCII t *)
Definition equal_fold (s t : bytes) : bool := equal_fold_fuel (S (length s)) s t.

(* ------------------------------------------------------------------ strings.ReplaceAll / Replace(…, 1) *)

(* ReplaceAll for a non-empty old; skip = bytes of the current match still to drop *)
Fixpoint replace_all_ne (old new : bytes) (skip : nat) (s : bytes) : bytes :=
  match s with
  | [] => []
  | x :: r =>
    match skip with
    | S k => replace_all_ne old new k r
    | O => if prefixb old s then new ++ replace_all_ne old new (length old - 1) r
           else x :: replace_all_ne old new 0 r
    end
  end.

(* ReplaceAll for old = "": new is written after every rune (and once in front, see below);
   skip = bytes of the current rune still to copy after this one *)
Fixpoint insert_after_runes (new : bytes) (skip : nat) (s : bytes) : bytes :=
  match s with
  | [] => []
  | x :: r =>
    let k := match skip with O => snd (rune_at s) | _ => skip end in
    match k with
    | S (S k') => x :: insert_after_runes new (S k') r
    | _ => x :: new ++ insert_after_runes new 0 r
    end
  end.

Definition go_replace_all (s old new : bytes) : bytes :=
  match old with
  | [] => new ++ insert_after_runes new 0 s
  | _ => replace_all_ne old new 0 s
  end.

Fixpoint replace_first_ne (old new s : bytes) : bytes :=
  match s with
  | [] => []
  | x :: r => if prefixb old s then new ++ skipn (length old) s else x :: replace_first_ne old new r
  end.

(* strings.Replace(s, old, new, 1) *)
Definition go_replace_first (s old new : bytes) : bytes :=
  match old with
  | [] => new ++ s
  | _ => replace_first_ne old new s
  end.

(* dialRoute: the modifyVirtualHost block.  [mvh_applies] is the guard, the two rewrites follow. *)
Definition mvh_applies (backend_host addr : bytes) : bool :=
  negb (equal_fold (clear_virtual_host addr) backend_host).

(* the code as it is now: strings.Replace(handshake.ServerAddress, clearedHost, backendHost, 1) *)
Definition impl_mvh (backend_host addr : bytes) : bytes :=
  go_replace_first addr (clear_virtual_host addr) backend_host.

(* PRE-FIX code (before d2ccd45): strings.ReplaceAll — historical, see finding C31-1 *)
Definition old_impl_mvh (backend_host addr : bytes) : bytes :=
  go_replace_all addr (clear_virtual_host addr) backend_host.

Definition spec_mvh (backend_host addr : bytes) : bytes :=
  go_replace_first addr (clear_virtual_host addr) backend_host.

(* finding C31-1 (fixed): the inputs on which the pre-fix ReplaceAll can differ from replacing the host part:
   the cleaned host is empty, or its text occurs again behind the host part *)
Definition mvh_trigger (backend_host addr : bytes) : bool :=
  mvh_applies backend_host addr &&
  let c := clear_virtual_host addr in
  match c with
  | [] => true
  | _ => match after c addr with Some tail => contains c tail | None => false end
  end.

(* ------------------------------------------------------------------ numbers and addresses as text *)

Fixpoint dec_digits (fuel : nat) (n : N) (acc : bytes) : bytes :=
  match fuel with
  | O => acc
  | S f => let acc' := (48 + n mod 10) :: acc in
           if n <? 10 then acc' else dec_digits f (n / 10) acc'
  end.
(* strconv.Itoa for a non-negative number *)
Definition itoa (n : N) : bytes := dec_digits (S (N.size_nat n)) n [].

Definition v4_prefix : bytes := [0;0;0;0;0;0;0;0;0;0;255;255].

(* net.IP.To4 *)
Definition to4 (ip : bytes) : option bytes :=
  if Nat.eqb (length ip) 4 then Some ip
  else if Nat.eqb (length ip) 16 && beq_bytes (firstn 12 ip) v4_prefix then Some (skipn 12 ip)
  else None.

(* net.IP.To16 *)
Definition to16 (ip : bytes) : option bytes :=
  if Nat.eqb (length ip) 4 then Some (v4_prefix ++ ip)
  else if Nat.eqb (length ip) 16 then Some ip
  else None.

Fixpoint join_dots (xs : list N) : bytes :=
  match xs with
  | [] => []
  | [x] => itoa x
  | x :: r => itoa x ++ [46] ++ join_dots r
  end.

Fixpoint groups (ip : bytes) : list N :=
  match ip with
  | a :: b :: r => (a * 256 + b) :: groups r
  | _ => []
  end.

Definition hexdigit (d : N) : N := if d <? 10 then 48 + d else 87 + d.
(* netip appendHex: lower case, no leading zeros *)
Definition hex16 (g : N) : bytes :=
  if g <? 16 then [hexdigit g]
  else if g <? 256 then [hexdigit (g / 16); hexdigit (g mod 16)]
  else if g <? 4096 then [hexdigit (g / 256); hexdigit (g / 16 mod 16); hexdigit (g mod 16)]
  else [hexdigit (g / 4096); hexdigit (g / 256 mod 16); hexdigit (g / 16 mod 16); hexdigit (g mod 16)].

Fixpoint zrun (gs : list N) : nat :=
  match gs with
  | 0 :: r => S (zrun r)
  | _ => O
  end.

(* netip.Addr.appendTo6: the longest run of >= 2 zero groups, leftmost on ties *)
Fixpoint best_run (i : nat) (gs : list N) (best : nat * nat) : nat * nat :=
  match gs with
  | [] => best
  | _ :: r =>
    let l := zrun gs in
    best_run (S i) r (if (2 <=? l)%nat && (snd best <? l)%nat then (i, l) else best)
  end.

Fixpoint print6 (i : nat) (gs : list N) (zs zl skip : nat) (glued : bool) : bytes :=
  match gs with
  | [] => []
  | g :: r =>
    match skip with
    | S k => print6 (S i) r zs zl k true
    | O =>
      if (0 <? zl)%nat && (i =? zs)%nat then [58; 58] ++ print6 (S i) r zs zl (zl - 1) true
      else (if glued || (i =? 0)%nat then [] else [58]) ++ hex16 g ++ print6 (S i) r zs zl 0 false
    end
  end.

(* net.IP.String for a 4- or 16-byte IP (no zone) *)
Definition ip_text (ip : bytes) : bytes :=
  match to4 ip with
  | Some v4 => join_dots v4
  | None =>
    let gs := groups ip in
    let '(zs, zl) := best_run 0 gs (0%nat, 0%nat) in
    print6 0 gs zs zl 0 false
  end.

(* net.TCPAddr.String = net.JoinHostPort(ip, port) *)
Definition addr_text (ip : bytes) (port : N) : bytes :=
  match to4 ip with
  | Some _ => ip_text ip ++ [58] ++ itoa port
  | None => [91] ++ ip_text ip ++ [93; 58] ++ itoa port
  end.

(* util.go TCPShieldRealIP(addr, clientAddr) with time.Now().Unix() = now:
   SplitN(addr, "\x00", 3)[0] + "///" + clientAddr.String() + "///" + unix time, then, if addr had a
   forge separator, "\x00" + second part + "\x00" (a third part is dropped) *)
Definition shield_pre (addr ctext : bytes) : bytes :=
  before forge_sep addr ++ shield_sep ++ ctext ++ shield_sep.
Definition shield_tail (addr : bytes) : bytes :=
  match after forge_sep addr with
  | None => []
  | Some r => forge_sep ++ before forge_sep r ++ forge_sep
  end.
Definition tcpshield_apply (addr ctext : bytes) (now : N) : bytes :=
  shield_pre addr ctext ++ itoa now ++ shield_tail addr.

(* ------------------------------------------------------------------ PROXY protocol v2 *)

Definition sig_v2 : bytes := [13; 10; 13; 10; 0; 13; 10; 81; 85; 73; 84; 10].
Definition u16be (n : N) : bytes := [n / 256; n mod 256].

(* protoutil.ProxyHeader + proxyproto.HeaderProxyFromAddrs(0, src, dst) + formatVersion2:
   TCP over IPv4 when both ends are IPv4 and the destination IP is not in 16-byte form, otherwise
   TCP over IPv6 with IPv4 ends written as ::ffff:a.b.c.d *)
Definition proxy_header (sip : bytes) (sport : N) (dip : bytes) (dport : N) : option bytes :=
  match to4 sip, to4 dip with
  | Some s4, Some d4 =>
    if Nat.eqb (length dip) 16
    then Some (sig_v2 ++ [33; 33; 0; 36] ++ (v4_prefix ++ s4) ++ (v4_prefix ++ d4) ++ u16be sport ++ u16be dport)
    else Some (sig_v2 ++ [33; 17; 0; 12] ++ s4 ++ d4 ++ u16be sport ++ u16be dport)
  | _, _ =>
    match to16 sip, to16 dip with
    | Some s, Some d => Some (sig_v2 ++ [33; 33; 0; 36] ++ s ++ d ++ u16be sport ++ u16be dport)
    | _, _ => None
    end
  end.

Record endpoint := mkEp { ep_ip : bytes; ep_port : N }.

(* reference parser of a v2 header (spec section 2.2): signature, version 2 / command PROXY,
   family TCP4 or TCP6, 16-bit length covering at least the address block; TLVs are skipped *)
Definition parse_proxy_v2 (bs : bytes) : option (endpoint * endpoint * bytes) :=
  if prefixb sig_v2 bs then
    match skipn 12 bs with
    | vc :: fam :: l1 :: l2 :: r =>
      let n := N.to_nat (l1 * 256 + l2) in
      if (vc =? 33) && (n <=? length r)%nat then
        let blk := firstn n r in
        let rest := skipn n r in
        let alen := if fam =? 17 then 4%nat else 16%nat in
        if ((fam =? 17) || (fam =? 33)) && (2 * alen + 4 <=? n)%nat then
          match skipn (2 * alen) blk with
          | s1 :: s2 :: d1 :: d2 :: _ =>
            Some (mkEp (firstn alen blk) (s1 * 256 + s2),
                  mkEp (firstn alen (skipn alen blk)) (d1 * 256 + d2), rest)
          | _ => None
          end
        else None
      else None
    | _ => None
    end
  else None.

(* two IPs denote the same address (IPv4 and its v4-mapped IPv6 form are the same host) *)
Definition same_ip (a b : bytes) : bool :=
  match to16 a, to16 b with
  | Some x, Some y => beq_bytes x y
  | _, _ => false
  end.

(* ------------------------------------------------------------------ handshake codec *)

Record handshake := mkHs { hs_proto : N; hs_addr : bytes; hs_port : N; hs_next : N }.

Definition set_addr (h : handshake) (a : bytes) : handshake :=
  mkHs (hs_proto h) a (hs_port h) (hs_next h).

Definition enc_string (s : bytes) : bytes := enc (len s) ++ s.

(* forward.go update: WriteVarInt(PacketID = 0) then Handshake.Encode
   (VarInt protocol, string address, int16 port, VarInt next status); VarInts carry the uint32 view *)
Definition enc_handshake_payload (h : handshake) : bytes :=
  enc 0 ++ enc (hs_proto h) ++ enc_string (hs_addr h) ++ u16be (hs_port h) ++ enc (hs_next h).

Definition take (n : nat) (b : bytes) : option (bytes * bytes) :=
  if (n <=? length b)%nat then Some (firstn n b, skipn n b) else None.

Definition dec_varint (b : bytes) : option (N * bytes) :=
  match dec b with
  | Ok (u, _, r) => Some (u, r)
  | Err _ => None
  end.

(* util.readStringMax: length must be 0 <= l <= DefaultMaxStringSize*4 = 65536*4; a uint32 view
   >= 2^31 is a negative int and rejected by the same comparison *)
Definition max_string : N := 262144.

(* decoder.decodePayload on the handshake registry + Handshake.Decode: packet id must be 0;
   bytes left over after NextStatus are tolerated (ErrDecoderLeftBytes is ignored by ReadPacket) *)
Definition dec_handshake_payload (p : bytes) : option (handshake * bytes) :=
  match dec_varint p with
  | Some (id, r0) =>
    if id =? 0 then
      match dec_varint r0 with
      | Some (pv, r1) =>
        match dec_varint r1 with
        | Some (sl, r2) =>
          if sl <=? max_string then
            match take (N.to_nat sl) r2 with
            | Some (a, p1 :: p2 :: r4) =>
              match dec_varint r4 with
              | Some (nx, extra) => Some (mkHs pv a (p1 * 256 + p2) nx, extra)
              | None => None
              end
            | _ => None
            end
          else None
        | None => None
        end
      | None => None
      end
    else None
  | None => None
  end.

(* codec.readVarIntFrame *)
Definition max_frame : N := 2097151.
Inductive frame_res := FEmpty (rest : bytes) | FPayload (p rest : bytes) | FError.

Definition read_frame (b : bytes) : frame_res :=
  match dec_varint b with
  | None => FError
  | Some (l, r) =>
    if l =? 0 then FEmpty r
    else if max_frame <? l then FError
    else match take (N.to_nat l) r with
         | Some (p, rest) => FPayload p rest
         | None => FError       (* stream ends inside the frame *)
         end
  end.

(* Decoder.readPacket: empty frames are skipped, the 12th one in a row is an error *)
Fixpoint next_packet (retries : nat) (b : bytes) : option (bytes * bytes) :=
  match read_frame b with
  | FPayload p r => Some (p, r)
  | FError => None
  | FEmpty r => match retries with O => None | S k => next_packet k r end
  end.
Definition max_retries : nat := 11.

(* ------------------------------------------------------------------ dialRoute / Forward *)

Record route := mkRoute {
  r_proxy : bool;            (* proxyProtocol *)
  r_mvh : bool;              (* modifyVirtualHost *)
  r_realip : bool;           (* tcpShieldRealIP || realIP *)
  r_cache : bool;            (* CachePingEnabled(): status pings re-encode the handshake *)
  r_backend_host : bytes;    (* netutil.HostStr(backendAddr), ASCII *)
  r_backend : endpoint;      (* dst.RemoteAddr() of the backend that finally serves *)
  r_failed : list bytes      (* host texts of the backends tried before it whose dial failed, in order *)
}.

Definition frame (p : bytes) : bytes := enc (len p) ++ p.

(* StatusRequest: packet id 0 in the status registry, no fields (left-over bytes tolerated) *)
Definition is_status_request (q : bytes) : bool :=
  match dec_varint q with Some (id, _) => id =? 0 | None => false end.

(* match.go: the "*" host pattern is the regexp (?s)^(.*?)$ applied to the lower-cased cleaned host;
   since fix 0f43e55 "." matches a line feed too, so "*" matches every host (invalid UTF-8 included)
   and route matching puts no condition on the address. *)

(* What the read loop and the handshake handler make of the client byte stream:
   nothing that reaches a backend; a login/transfer to forward (payload p of the handshake frame,
   its decoding h, the client bytes after the frame); or a status ping (p, h and the payload q of the
   StatusRequest frame that follows). *)
Inductive request :=
| ReqNone
| ReqForward (p : bytes) (h : handshake) (rest : bytes)
| ReqStatus (p : bytes) (h : handshake) (q : bytes).

Definition classify (cs : bytes) : request :=
  match next_packet max_retries cs with
  | None => ReqNone
  | Some (p, rest) =>
    match dec_handshake_payload p with
    | None => ReqNone
    | Some (h, _) =>
      if (hs_next h =? 2) || (hs_next h =? 3) then ReqForward p h rest
      else if hs_next h =? 1 then
        match next_packet max_retries rest with
        | Some (q, _) => if is_status_request q then ReqStatus p h q else ReqNone
        | None => ReqNone
        end
      else ReqNone
    end
  end.

Section Flow.
  (* the virtual host rewrite: impl_mvh or spec_mvh *)
  Variable mvh : bytes -> bytes -> bytes.

  (* the two rewrite blocks of dialRoute; the bool says whether update() re-encodes the packet *)
  Definition rewrite_address (r : route) (ca : endpoint) (now : N) (addr : bytes) : bytes * bool :=
    let '(a1, f1) :=
      if r_mvh r && mvh_applies (r_backend_host r) addr
      then (mvh (r_backend_host r) addr, true) else (addr, false) in
    if r_realip r && is_tcpshield a1
    then (tcpshield_apply a1 (addr_text (ep_ip ca) (ep_port ca)) now, true)
    else (a1, f1).

  (* writePacket(dst, handshakeCtx) after the optional update() *)
  Definition handshake_frame (r : route) (ca : endpoint) (now : N) (force : bool)
             (p : bytes) (h : handshake) : bytes :=
    let '(a', changed) := rewrite_address r ca now (hs_addr h) in
    frame (if changed || force then enc_handshake_payload (set_addr h a') else p).

  Definition proxy_prefix (r : route) (ca : endpoint) : bytes :=
    if r_proxy r then
      match proxy_header (ep_ip ca) (ep_port ca) (ep_ip (r_backend r)) (ep_port (r_backend r)) with
      | Some h => h
      | None => []     (* unreachable for 4/16-byte IPs *)
      end
    else [].

  (* Forward: dialRoute writes header + handshake, emptyReadBuff + pipe deliver the rest.
     p = the client's handshake payload, h = its decoding, rest = the client bytes after the frame *)
  Definition lite_backend_stream (r : route) (ca : endpoint) (now : N)
             (p : bytes) (h : handshake) (rest : bytes) : bytes :=
    proxy_prefix r ca ++ handshake_frame r ca now false p h ++ rest.

  (* dialRoute on a backend whose dial fails: the error is returned right after DialContext, before
     the PROXY header, the rewrites and update() — the shared *packet.Handshake and its
     PacketContext (payload p) are left as they were.  [host] is that backend's host text. *)
  Definition dial_refused (st : bytes * handshake) (host : bytes) : bytes * handshake := st.

  (* tryBackends: ONE handshake / packet context pair is threaded through all attempts (findRoute hands
     out the backends one by one, sequential strategy = config order) *)
  Definition try_backends (failed : list bytes) (p : bytes) (h : handshake) : bytes * handshake :=
    fold_left dial_refused failed (p, h).

  (* what the serving backend receives after the failed attempts recorded in the route *)
  Definition failover_stream (r : route) (ca : endpoint) (now : N)
             (p : bytes) (h : handshake) (rest : bytes) : bytes :=
    let '(p', h') := try_backends (r_failed r) p h in
    lite_backend_stream r ca now p' h' rest.

  Definition failover_status_stream (r : route) (ca : endpoint) (now : N)
             (p : bytes) (h : handshake) (q : bytes) : bytes :=
    let '(p', h') := try_backends (r_failed r) p h in
    proxy_prefix r ca ++ handshake_frame r ca now (r_cache r) p' h' ++ frame q.

  Inductive flow :=
  | FlowNone                    (* the proxy closes the client without contacting a backend *)
  | FlowForward (s : bytes)     (* login / transfer: everything the backend receives *)
  | FlowStatus (s : bytes).     (* status ping resolved against the backend *)

  (* the whole client byte stream cs through readLoop -> handleHandshake -> Forward /
     ResolveStatusResponse -> dialRoute *)
  Definition lite_flow (r : route) (ca : endpoint) (now : N) (cs : bytes) : flow :=
    match classify cs with
    | ReqNone => FlowNone
    | ReqForward p h rest => FlowForward (failover_stream r ca now p h rest)
    | ReqStatus p h q => FlowStatus (failover_status_stream r ca now p h q)
    end.
End Flow.

Definition impl_flow := lite_flow impl_mvh.
Definition spec_flow := lite_flow spec_mvh.

(* does a configured rewrite fire for this address (then update() re-encodes the handshake);
   the answer does not depend on the client address or the time *)
Definition rewrite_flag (mvh : bytes -> bytes -> bytes) (r : route) (addr : bytes) : bool :=
  snd (rewrite_address mvh r (mkEp [] 0) 0 addr).

(* ------------------------------------------------------------------ bufio + pipe *)

(* The proxy reads the client through a bufio.Reader: [chunks] are the results of the successive
   conn.Read calls, [buf] is what the bufio buffer still holds.  Consuming n bytes (the handshake
   frame) leaves some buffer content and the chunks not read yet. *)
Fixpoint consume (n : nat) (buf : bytes) (chunks : list bytes) {struct chunks} : option (bytes * list bytes) :=
  if (n <=? length buf)%nat then Some (skipn n buf, chunks)
  else match chunks with
       | [] => None
       | c :: cs => consume (n - length buf) c cs
       end.

(* emptyReadBuff writes the buffered bytes, then pipe's io.Copy forwards every later read *)
Definition forwarded_tail (buf : bytes) (chunks : list bytes) : bytes := buf ++ concat chunks.

(* io.Copy(src, dst) in the other direction: the reads of the backend connection, in order *)
Definition piped_back (chunks : list bytes) : bytes := concat chunks.
