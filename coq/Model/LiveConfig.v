(* C35 — live configuration changes.  Executable definitions only.

   Mirrors pkg/gate/gate.go:
     apply_locked  = Gate.applyLiveConfigLocked
     step (Apply c)        = Gate.ApplyLiveConfig(c)            (reloadMu held for the whole body)
     step (ApplyIf c v)    = Gate.ApplyLiveConfigIfVersion(c, v) (reloadMu held for the whole body)
     step Snapshot         = Gate.ConfigSnapshot()               (reloadMu held for the whole body)
     step ProxyRoutes      = Gate.Java().Config().Lite.Routes    (one atomic load of the proxy's
                                                                   published snapshot)

   Abstraction of a *config.Config (computed by the harness, see cmd/c35):
     rest   = the configuration without the `lite` section      (digest of its JSON encoding)
     lite   = config.lite.enabled
     routes = config.lite.routes                                 (digest of its JSON encoding)
   configsEqual (byte equality of json.Marshal) is equality of this triple.
   `valid` is an input: what candidate.Validate() says about the candidate.
   The version is `hash content`; [hash] is a parameter (sha256 of the JSON encoding in the code). *)
From Coq Require Import List NArith Bool.
From Verif Require Import Base.Hex.
Import ListNotations.

Record cfg := mkCfg { rest : bytes; lite : bool; routes : bytes }.

Definition cfg_eqb (a b : cfg) : bool :=
  beq_bytes (rest a) (rest b) && Bool.eqb (lite a) (lite b) && beq_bytes (routes a) (routes b).

(* a candidate handed to the API: nil pointer = None *)
Record cand := mkCand { c_cfg : cfg; c_valid : bool }.

Inductive op :=
| Apply (c : option cand)
| ApplyIf (c : option cand) (expected : bytes)
| Snapshot
| ProxyRoutes.

(* LiveConfigResult.Code as an enum; Applied/Unchanged flags are functions of it *)
Inductive code :=
| CApplied | CUnchanged | CInvalid | CUnsupported | CPrecondition | CPrepareFailed
| CSnapshot | CProxy.

Definition code_eqb (a b : code) : bool :=
  match a, b with
  | CApplied, CApplied | CUnchanged, CUnchanged | CInvalid, CInvalid
  | CUnsupported, CUnsupported | CPrecondition, CPrecondition
  | CPrepareFailed, CPrepareFailed | CSnapshot, CSnapshot | CProxy, CProxy => true
  | _, _ => false
  end.

Record result := mkRes {
  r_code : code;
  r_version : bytes;            (* [] when the call reports no version *)
  r_cfg : option cfg;           (* ConfigSnapshot: abstraction of the returned copy *)
  r_proxy : option bytes        (* routes digest read from the proxy *)
}.

Definition opt_eqb {A} (f : A -> A -> bool) (a b : option A) : bool :=
  match a, b with
  | Some x, Some y => f x y
  | None, None => true
  | _, _ => false
  end.

Definition result_eqb (a b : result) : bool :=
  code_eqb (r_code a) (r_code b) && beq_bytes (r_version a) (r_version b)
  && opt_eqb cfg_eqb (r_cfg a) (r_cfg b) && opt_eqb beq_bytes (r_proxy a) (r_proxy b).

Definition res (c : code) (v : bytes) : result := mkRes c v None None.

Section Model.
  Variable hash : cfg -> bytes.

  (* the only live-safe change: both sides Lite, everything but the routes equal
     (onlyLiveLiteRoutesChanged) *)
  Definition only_routes_changed (cur c : cfg) : bool :=
    lite cur && lite c && beq_bytes (rest cur) (rest c).

  (* applyLiveConfigLocked, in the order of the code:
       nil -> invalid; equal to current -> unchanged; Validate fails -> invalid;
       not a routes-only change -> unsupported; otherwise publish current with the
       candidate's routes and report its version. *)
  Definition apply_locked (cur : cfg) (c : option cand) : cfg * result :=
    match c with
    | None => (cur, res CInvalid [])
    | Some cd =>
        if cfg_eqb cur (c_cfg cd) then (cur, res CUnchanged (hash cur))
        else if negb (c_valid cd) then (cur, res CInvalid [])
        else if negb (only_routes_changed cur (c_cfg cd)) then (cur, res CUnsupported [])
        else let published := mkCfg (rest cur) (lite cur) (routes (c_cfg cd)) in
             (published, res CApplied (hash published))
    end.

  Definition step (cur : cfg) (o : op) : cfg * result :=
    match o with
    | Apply c => apply_locked cur c
    | ApplyIf c expected =>
        if beq_bytes (hash cur) expected then apply_locked cur c
        else (cur, res CPrecondition (hash cur))
    | Snapshot => (cur, mkRes CSnapshot (hash cur) (Some cur) None)
    | ProxyRoutes => (cur, mkRes CProxy [] None (Some (routes cur)))
    end.

  (* a history: the trace records, for every call, the state before, the call, its result and
     the state after *)
  Record event := mkEv { e_before : cfg; e_op : op; e_res : result; e_after : cfg }.

  Fixpoint run (cur : cfg) (ops : list op) : list event :=
    match ops with
    | [] => []
    | o :: r => let sr := step cur o in mkEv cur o (snd sr) (fst sr) :: run (fst sr) r
    end.

  Fixpoint final (cur : cfg) (ops : list op) : cfg :=
    match ops with [] => cur | o :: r => final (fst (step cur o)) r end.
End Model.

Definition cand_of (o : op) : option cand :=
  match o with Apply c | ApplyIf c _ => c | _ => None end.

Definition is_applied (r : result) : bool := code_eqb (r_code r) CApplied.

(* the hash oracle used by the judge: the (content, version) pairs observed in a run *)
Fixpoint table_hash (vt : list (cfg * bytes)) (c : cfg) : bytes :=
  match vt with
  | [] => []
  | (c', v) :: r => if cfg_eqb c c' then v else table_hash r c
  end.

(* same content <-> same version over all observed pairs *)
Definition table_consistent (vt : list (cfg * bytes)) : bool :=
  forallb (fun a => forallb (fun b =>
     Bool.eqb (cfg_eqb (fst a) (fst b)) (beq_bytes (snd a) (snd b))) vt) vt.
