(* C38 — model of the config-file watch loop, /repo/pkg/internal/reload/watch.go.

   Executable definitions only.  One goroutine (runWatchLoop) owns all state; every `case` of its
   `select` is one atomic step here, and the environment (file system, fsnotify, timers) supplies
   the steps in any order.  What is modelled:

     contentFingerprint        fp := option content      None   = state 2 (file missing)
                                                          Some c = state 1, sum = sha256(c)
                               (state 3 "unreadable" is not reachable through the four file operations of
                                the property and is not modelled; sha256 is taken as injective on the
                                contents that occur, so fingerprints are compared as contents)
     runWatchLoop locals       observed, evaluated : fp ; armed = (debounce <> nil) ; alive = (watcher <> nil)
     the callback `cb`         re-reads the file itself (gate.go loadLiveConfigCandidate: os.ReadFile(path));
                               the ghost field `loaded` records what it read the last time it ran.

   impl_step is the code as it is: the debounce expiry passes `observed` (the fingerprint seen at the last
   reconcile) to runCallback, which compares it with `evaluated`, stores it there and runs cb — whatever
   the file contains by then.  spec_step is what the property demands: the candidate is the content the
   callback is about to read (fingerprint taken at expiry).  They differ only in [Expire], and only when
   the file changed after the last reconcile (finding C38-1). *)
From Coq Require Import List NArith Bool.
Import ListNotations.

Definition content := N.
Definition fp := option content.

Definition fp_eqb (a b : fp) : bool :=
  match a, b with
  | None, None => true
  | Some x, Some y => N.eqb x y
  | _, _ => false
  end.

(* the four file operations of the property text *)
Inductive fop :=
| Write (c : content)      (* in-place write of the existing file (same inode)              *)
| Replace (c : content)    (* write a temporary file, rename over the path (new inode)      *)
| Delete                   (* unlink                                                        *)
| Recreate (c : content).  (* the path appears again with content c                         *)

Definition apply_fop (o : fop) : fp :=
  match o with
  | Write c | Replace c | Recreate c => Some c
  | Delete => None
  end.

(* one `select` case of runWatchLoop, or one action of the environment *)
Inductive step :=
| File (o : fop)           (* the file system changes; the loop does not take part                         *)
| Tick (reattach : bool)   (* <-reconcileTicker.C ; if watcher = nil, opts.newWatcher succeeds iff reattach  *)
| Expire                   (* <-debounce (enabled only while armed)                                          *)
| Event                    (* <-events with Dir/Base equal to the config path: original, duplicate or late   *)
| EventOther               (* <-events for any other path: ignored                                           *)
| WatcherLost              (* events/errors channel closed, an error, or the directory removed: closeWatcher *)
| Dropped.                 (* a notification the OS never delivers: no step of the loop at all               *)

Record st := mkst {
  file : fp;          (* environment: what os.Open + io.ReadAll would return now *)
  observed : fp;
  evaluated : fp;
  armed : bool;
  alive : bool;
  loaded : fp         (* ghost: content read by the callback the last time it ran (initially: the start-up load) *)
}.

(* watchWithOptions: initial := fingerprint(cleanPath); observed = evaluated = initial; watcher attached *)
Definition init (f : fp) : st := mkst f f f false true f.

Inductive out := Callback (candidate : fp) (read : fp).

(* reconcile(): current := fingerprint(path); if current == observed return; observed = current; schedule() *)
Definition reconcile (s : st) : st :=
  if fp_eqb (file s) (observed s) then s
  else mkst (file s) (file s) (evaluated s) true (alive s) (loaded s).

(* case <-debounce: debounce = nil; runCallback(observed)
   runCallback: if candidate == evaluated return; evaluated = candidate; cb() *)
Definition impl_expire (s : st) : st * list out :=
  if armed s then
    if fp_eqb (observed s) (evaluated s)
    then (mkst (file s) (observed s) (evaluated s) false (alive s) (loaded s), [])
    else (mkst (file s) (observed s) (observed s) false (alive s) (file s), [Callback (observed s) (file s)])
  else (s, []).

(* the repaired expiry: observed = fingerprint(path) first, then runCallback(observed) *)
Definition spec_expire (s : st) : st * list out :=
  if armed s then
    if fp_eqb (file s) (evaluated s)
    then (mkst (file s) (file s) (evaluated s) false (alive s) (loaded s), [])
    else (mkst (file s) (file s) (file s) false (alive s) (file s), [Callback (file s) (file s)])
  else (s, []).

Definition gen_step (expire : st -> st * list out) (s : st) (e : step) : st * list out :=
  match e with
  | File o => (mkst (apply_fop o) (observed s) (evaluated s) (armed s) (alive s) (loaded s), [])
  | Tick r => (reconcile (mkst (file s) (observed s) (evaluated s) (armed s) (alive s || r) (loaded s)), [])
  | Expire => expire s
  | Event => (if alive s then reconcile s else s, [])
  | EventOther => (s, [])
  | WatcherLost => (mkst (file s) (observed s) (evaluated s) (armed s) false (loaded s), [])
  | Dropped => (s, [])
  end.

Definition impl_step := gen_step impl_expire.
Definition spec_step := gen_step spec_expire.

Fixpoint run (stp : st -> step -> st * list out) (s : st) (tr : list step) : st * list out :=
  match tr with
  | [] => (s, [])
  | e :: r => let '(s1, o1) := stp s e in let '(s2, o2) := run stp s1 r in (s2, o1 ++ o2)
  end.

Definition is_file (e : step) : bool := match e with File _ => true | _ => false end.
Definition stable (tr : list step) : bool := forallb (fun e => negb (is_file e)) tr.

Definition cand (o : out) : fp := match o with Callback c _ => c end.
Definition readc (o : out) : fp := match o with Callback _ r => r end.

Fixpoint count_fp (x : fp) (l : list fp) : nat :=
  match l with [] => 0 | y :: r => (if fp_eqb x y then 1 else 0) + count_fp x r end.

(* no two neighbours equal *)
Fixpoint no_adjacent_dup (l : list fp) : bool :=
  match l with
  | a :: ((b :: _) as r) => negb (fp_eqb a b) && no_adjacent_dup r
  | _ => true
  end.

(* ------------------------------------------------------------------------------------------------
   What the harness can see of a run: the file operations it performed, the callback invocations with
   the content the callback read (both serialised by one mutex, so their interleaving is exact), and
   the points at which it had left the file alone for longer than 3 x (interval + debounce). *)
Inductive item :=
| IOp (o : fop)
| ICb (read : fp)
| IQuiet
| IRec.   (* the loop certainly ran reconcile() between the previous file operation and this point: it took a
             notification for the config path and then a second one (so the first was handled completely), or
             a reconcile tick was due and the loop then served 20 select rounds.  No file operation in between. *)

(* holds_C38: the property, on the observable trace.
   state of the fold: current file, content the callback last ran for, "callback already ran since the
   last change of content". *)
Fixpoint holds_from (f ld : fp) (ran : bool) (l : list item) : bool :=
  match l with
  | [] => true
  | IOp o :: r => let f' := apply_fop o in holds_from f' ld (if fp_eqb f' f then ran else false) r
  | ICb rd :: r =>
      fp_eqb rd f                  (* the callback reads the file as it is                          *)
      && negb (fp_eqb rd ld)       (* never for content equal to what was last evaluated           *)
      && negb ran                  (* at most once per distinct (unchanged) content                *)
      && holds_from f rd true r
  | IQuiet :: r => fp_eqb ld f     (* once the content stays unchanged the callback has run for it *)
                   && holds_from f ld ran r
  | IRec :: r => holds_from f ld ran r
  end.

Definition holds_C38 (f0 : fp) (l : list item) : bool := holds_from f0 f0 false l.

(* ------------------------------------------------------------------------------------------------
   Which observable traces a model can produce (used by the judge for the correspondence): between two
   observable items the loop may take any number of hidden steps.  With respect to the observable state
   every hidden step is either a reconcile (Tick / Event) or an expiry that does not run the callback;
   [alive] does not influence anything observable.  IQuiet keeps the states in which the loop has
   nothing left to do (file = observed, debounce not armed). *)
Definition st_eqb (a b : st) : bool :=
  fp_eqb (file a) (file b) && fp_eqb (observed a) (observed b) && fp_eqb (evaluated a) (evaluated b)
  && Bool.eqb (armed a) (armed b) && fp_eqb (loaded a) (loaded b).

Fixpoint mem_st (s : st) (l : list st) : bool :=
  match l with [] => false | x :: r => st_eqb s x || mem_st s r end.

Fixpoint add_all (new acc : list st) : list st :=
  match new with
  | [] => acc
  | s :: r => if mem_st s acc then add_all r acc else add_all r (acc ++ [s])
  end.

Definition silent_succ (expire : st -> st * list out) (s : st) : list st :=
  reconcile s :: match expire s with (s', []) => [s'] | _ => [] end.

(* closure under hidden steps; the observable state space is finite, fuel bounds the iteration *)
Fixpoint closure (expire : st -> st * list out) (fuel : nat) (l : list st) : list st :=
  match fuel with
  | O => l
  | S k => let l' := add_all (flat_map (silent_succ expire) l) l in
           if Nat.eqb (length l') (length l) then l else closure expire k l'
  end.

Definition settled (s : st) : bool := fp_eqb (file s) (observed s) && negb (armed s).

Definition after_item (expire : st -> st * list out) (l : list st) (i : item) : list st :=
  let cl := closure expire 64 l in
  match i with
  | IOp o => add_all (map (fun s => fst (gen_step expire s (File o))) cl) []
  | ICb rd => add_all (flat_map (fun s => match expire s with
                                          | (s', [Callback _ r]) => if fp_eqb r rd then [s'] else []
                                          | _ => [] end) cl) []
  | IQuiet => filter settled cl
  | IRec => add_all (map reconcile cl) []     (* reconcile is idempotent while the file is unchanged, so forcing it
                                                 here is the same as forcing it anywhere since the last IOp *)
  end.

Definition explains (expire : st -> st * list out) (f0 : fp) (l : list item) : bool :=
  match fold_left (after_item expire) l [init f0] with [] => false | _ => true end.

(* trigger of finding C38-1: some burst (stretch without IQuiet) changes the content at least twice *)
Fixpoint trigger_from (f : fp) (changes : nat) (l : list item) : bool :=
  match l with
  | [] => false
  | IOp o :: r => let f' := apply_fop o in
                  if fp_eqb f' f then trigger_from f changes r
                  else match changes with O => trigger_from f' 1 r | _ => true end
  | ICb _ :: r => trigger_from f changes r
  | IQuiet :: r => trigger_from f 0 r
  | IRec :: r => trigger_from f changes r
  end.
Definition trigger (f0 : fp) (l : list item) : bool := trigger_from f0 0 l.

(* ------------------------------------------------------------------------------------------------
   The observable trace of a model run (used to state that the repaired loop satisfies holds_C38 on every
   trace, and that the loop as it is does not).  An IQuiet is written when, since the last file operation, a
   reconcile tick has been followed by a debounce expiry — the harness's "left alone for longer than
   interval + debounce".  q: 0 = no tick yet since the last file operation, 1 = tick seen, 2 = marker written. *)
Fixpoint observe (stp : st -> step -> st * list out) (s : st) (q : nat) (tr : list step) : list item :=
  match tr with
  | [] => []
  | e :: r =>
      let '(s1, o1) := stp s e in
      let cbs := map (fun o => ICb (readc o)) o1 in
      match e with
      | File o => IOp o :: observe stp s1 0 r
      | Tick _ => cbs ++ observe stp s1 (match q with O => 1 | _ => q end) r
      | Expire => cbs ++ (match q with 1 => IQuiet :: observe stp s1 2 r | _ => observe stp s1 q r end)
      | _ => cbs ++ observe stp s1 q r
      end
  end.

(* semantic trigger of finding C38-1 on a run of the loop as it is: some debounce expiry happens while the
   file no longer has the content that was observed when the debounce was armed *)
Fixpoint stale_expiry (s : st) (tr : list step) : bool :=
  match tr with
  | [] => false
  | e :: r =>
      (match e with Expire => armed s && negb (fp_eqb (file s) (observed s)) | _ => false end)
      || stale_expiry (fst (impl_step s e)) r
  end.
