(* C30 — Lite backend selection and connection counts.  Executable definitions only.

   Go code mirrored (pkg/edition/java/lite, pkg/util/netutil):
     netutil.splitHostPort / Parse / HostPort         -> [parse_backend]
     forward.go findRoute, closure nextBackend:
        the removal loop (today, fix 426c657: drop every entry whose
        canonicalBackendAddress equals the selected one's)  -> [impl_remove]
        PRE-FIX loop ("normalizedAddr == selectedAddr", first match only) -> [old_norm], [old_remove]
     strategy.go canonicalBackendAddress              -> [canon]   (the code's own notion of
                                                         "the same backend": lower-cased host,
                                                         default port 25565)
     strategy.go sequential/roundRobin/leastConnections/
                 lowestLatency NextBackend            -> [select]
     strategy.go TrackConnection / IncrementConnection /
                 ActiveConnections / RecordLatency    -> [track], [release], [active_total], ...
   [spec_remove] is what the property demands of the per-attempt loop: after a backend was
   selected, EVERY entry that names the same backend (equal [canon]) is dropped, so no backend is
   dialled twice in one attempt and the attempt always terminates.  Today's code does exactly
   that ([impl_remove]); the pre-fix loop ([old_remove]) is kept for the record of the fixed
   findings C30-1 / C30-2.  Round-robin now advances an atomic per-route counter (fix 3b8fde0): the
   sequential behaviour modelled by [select] is unchanged.

   Restriction (stated in meta/C30.json): backend strings without "[", "]", "%" and whose port part,
   if any, consists of digits or of letters only (no sign); this is what the generator produces. *)
From Coq Require Import List NArith Bool.
From Verif Require Import Base.Hex Base.Text.
Import ListNotations.
Open Scope N_scope.

(* ---------- addresses ---------- *)

Inductive parsed := PErr | POk (host : bytes) (port : N).

Definition colon : N := 58.
Definition count_colons (b : bytes) : nat := length (filter (fun c => c =? colon) b).

Fixpoint split_colon (b : bytes) : bytes * bytes :=   (* at the first colon *)
  match b with
  | [] => ([], [])
  | c :: r => if c =? colon then ([], r) else let '(h, p) := split_colon r in (c :: h, p)
  end.

Definition is_digit (c : N) : bool := (48 <=? c) && (c <=? 57).
Definition digits_value (ds : bytes) : N := fold_left (fun a d => a * 10 + (d - 48)) ds 0.

(* netutil.splitHostPort: no colon or several colons (without brackets): the whole string is the
   host and the port is 0; exactly one colon: strconv.Atoi of the part after it, truncated to
   uint16; Atoi failure is an error *)
Definition parse_backend (b : bytes) : parsed :=
  match count_colons b with
  | 1%nat =>
      let '(h, p) := split_colon b in
      match p with
      | [] => PErr
      | _ => if forallb is_digit p && (digits_value p <=? 9223372036854775807)
             then POk h (digits_value p mod 65536) else PErr
      end
  | _ => POk b 0
  end.

Definition has_colon (b : bytes) : bool := existsb (fun c => c =? colon) b.

(* fmt "%d" *)
Fixpoint dec_fuel (f : nat) (n : N) (acc : bytes) : bytes :=
  match f with
  | O => acc
  | S f' => let acc' := (48 + n mod 10) :: acc in
            if n / 10 =? 0 then acc' else dec_fuel f' (n / 10) acc'
  end.
Definition dec (n : N) : bytes := dec_fuel 40 n [].

(* net.JoinHostPort *)
Definition join_host_port (h : bytes) (port : bytes) : bytes :=
  if has_colon h then [91] ++ h ++ [93; colon] ++ port else h ++ [colon] ++ port.

Definition default_port : bytes := [50; 53; 53; 54; 53].   (* "25565" *)

(* PRE-FIX: the string the old removal loop compared (None: netutil.Parse failed -> "continue") *)
Definition old_norm (b : bytes) : option bytes :=
  match parse_backend b with
  | PErr => None
  | POk h port => Some (if port =? 0 then join_host_port h default_port else b)
  end.

(* strategy.go canonicalBackendAddress *)
Definition canon (b : bytes) : bytes :=
  match parse_backend b with
  | PErr => go_to_lower b
  | POk h port => join_host_port (go_to_lower h) (dec (if port =? 0 then 25565 else port))
  end.

(* strategy.go canonicalConnectionKey *)
Definition conn_key (route_host backend : bytes) : bytes := go_to_lower route_host ++ [0] ++ canon backend.

Definition opt_beq (a b : option bytes) : bool :=
  match a, b with Some x, Some y => beq_bytes x y | _, _ => false end.   (* a failed parse equals nothing *)

(* PRE-FIX (before 426c657): remove the first entry whose normalised form equals the selected one's *)
Fixpoint old_remove (sel : bytes) (l : list bytes) : list bytes :=
  match l with
  | [] => []
  | b :: r => if opt_beq (old_norm b) (old_norm sel) then r else b :: old_remove sel r
  end.

(* today's loop: "selected := canonicalBackendAddress(backendAddr); keep backend iff
   canonicalBackendAddress(backend) != selected" *)
Fixpoint impl_remove (sel : bytes) (l : list bytes) : list bytes :=
  match l with
  | [] => []
  | b :: r => if beq_bytes (canon b) (canon sel) then impl_remove sel r else b :: impl_remove sel r
  end.

(* remove every entry that names the same backend *)
Definition spec_remove (sel : bytes) (l : list bytes) : list bytes :=
  filter (fun b => negb (beq_bytes (canon b) (canon sel))) l.

(* ---------- strategy state ---------- *)

Definition amap := list (bytes * N).

Fixpoint lookup (m : amap) (k : bytes) : option N :=
  match m with
  | [] => None
  | (k', v) :: r => if beq_bytes k' k then Some v else lookup r k
  end.
Definition lookup0 (m : amap) (k : bytes) : N := match lookup m k with Some v => v | None => 0 end.

Fixpoint set (m : amap) (k : bytes) (v : N) : amap :=
  match m with
  | [] => [(k, v)]
  | (k', v') :: r => if beq_bytes k' k then (k, v) :: r else (k', v') :: set r k v
  end.

Definition remove_key (m : amap) (k : bytes) : amap := filter (fun e => negb (beq_bytes (fst e) k)) m.

Record sstate := mkS {
  rr     : amap;    (* roundRobinIndexes: route host -> index *)
  lc     : amap;    (* connectionCounters: backend string as configured -> open count *)
  active : amap;    (* activeConnections: canonical key -> open count *)
  lat    : amap     (* latencyCache: backend string -> last measured latency (ns) *)
}.
Definition init_state : sstate := mkS [] [] [] [].

(* 0 sequential (also "", unknown), 2 round-robin, 3 least-connections, 4 lowest-latency
   (1 = random: not modelled, the property does not constrain its order) *)
Definition strategy := N.

Definition max_u32 : N := 4294967295.

(* leastConnectionsNextBackend: strict "<" keeps the first minimum; the "" sentinel falls back to
   the first backend *)
Fixpoint lc_scan (m : amap) (l : list bytes) (best : bytes) (bestc : N) : bytes :=
  match l with
  | [] => best
  | b :: r => let c := lookup0 m b in
              if c <? bestc then lc_scan m r b c else lc_scan m r best bestc
  end.

(* lowestLatencyNextBackend: the first backend without a measurement wins immediately; "0" doubles
   as "nothing chosen yet" exactly as in the code *)
Fixpoint ll_scan (m : amap) (l : list bytes) (best : bytes) (bestl : N) : bytes :=
  match l with
  | [] => best
  | b :: r => match lookup m b with
              | None => b
              | Some v => if (bestl =? 0) || (v <? bestl) then ll_scan m r b v else ll_scan m r best bestl
              end
  end.

Definition or_first (l : list bytes) (b : bytes) : bytes :=
  match b with [] => hd [] l | _ => b end.

(* GetNextBackend on a non-empty list *)
Definition select (st : strategy) (route_host : bytes) (l : list bytes) (s : sstate) : bytes * sstate :=
  if st =? 2 then
    let i := lookup0 (rr s) route_host in
    (nth (N.to_nat (i mod N.of_nat (length l))) l [],
     mkS (set (rr s) route_host (i + 1)) (lc s) (active s) (lat s))
  else if st =? 3 then (or_first l (lc_scan (lc s) l [] max_u32), s)
  else if st =? 4 then (or_first l (ll_scan (lat s) l [] 0), s)
  else (hd [] l, s).

(* ---------- the per-attempt iterator ---------- *)

(* at most [fuel] calls of nextBackend; returns the yielded addresses, whether the iterator
   reported exhaustion within those calls, and the strategy state *)
Fixpoint drain (remove : bytes -> list bytes -> list bytes) (st : strategy) (route_host : bytes)
         (fuel : nat) (l : list bytes) (s : sstate) : list bytes * bool * sstate :=
  match fuel with
  | O => ([], false, s)
  | S f =>
      match l with
      | [] => ([], true, s)
      | _ => let '(b, s1) := select st route_host l s in
             let '(ys, ended, s2) := drain remove st route_host f (remove b l) s1 in
             (b :: ys, ended, s2)
      end
  end.

(* ---------- connection tracking ---------- *)

Definition incr (m : amap) (k : bytes) : amap := set m k (lookup0 m k + 1).
(* "if count <= 1 delete else count-1" (activeConnections), and the same shape for the strategy
   counter ("if 0 return; add -1; if 0 delete") *)
Definition decr (m : amap) (k : bytes) : amap :=
  let c := lookup0 m k in if c <=? 1 then remove_key m k else set m k (c - 1).

Definition track (route_host backend : bytes) (s : sstate) : sstate :=
  mkS (rr s) (incr (lc s) backend) (incr (active s) (conn_key route_host backend)) (lat s).
Definition release (route_host backend : bytes) (s : sstate) : sstate :=
  mkS (rr s) (decr (lc s) backend) (decr (active s) (conn_key route_host backend)) (lat s).

Definition total (m : amap) : N := fold_right (fun e a => snd e + a) 0 m.
Definition active_total (s : sstate) : N := total (active s).

Definition record_latency (backend : bytes) (ns : N) (s : sstate) : sstate :=
  mkS (rr s) (lc s) (active s) (set (lat s) backend ns).

(* ---------- sequential histories (what the harness replays on the real StrategyManager) ---------- *)

Inductive op :=
| OTrack (id : N) (route_host backend : bytes)
| ORelease (id : N)
| OLatency (backend : bytes) (ns : N)
| OActive
| OAttempt (st : strategy) (route_host : bytes) (backends : list bytes) (calls : N).

Inductive obs :=
| BNone
| BActive (n : N)
| BAttempt (yields : list bytes) (ended : bool).

Fixpoint find_tok (toks : list (N * (bytes * bytes))) (id : N) : option (bytes * bytes) :=
  match toks with
  | [] => None
  | (i, t) :: r => if i =? id then Some t else find_tok r id
  end.

Fixpoint run_ops (remove : bytes -> list bytes -> list bytes) (ops : list op)
         (toks : list (N * (bytes * bytes))) (s : sstate) : list obs :=
  match ops with
  | [] => []
  | OTrack id rh b :: r => BNone :: run_ops remove r ((id, (rh, b)) :: toks) (track rh b s)
  | ORelease id :: r =>
      match find_tok toks id with
      | Some (rh, b) => BNone :: run_ops remove r toks (release rh b s)
      | None => BNone :: run_ops remove r toks s
      end
  | OLatency b ns :: r => BNone :: run_ops remove r toks (record_latency b ns s)
  | OActive :: r => BActive (active_total s) :: run_ops remove r toks s
  | OAttempt st rh bs calls :: r =>
      let '(ys, ended, s') := drain remove st rh (N.to_nat calls) bs s in
      BAttempt ys ended :: run_ops remove r toks s'
  end.

(* triggers of the recorded (now fixed) findings *)
Fixpoint has_dup (l : list bytes) : bool :=
  match l with
  | [] => false
  | x :: r => existsb (beq_bytes x) r || has_dup r
  end.
Definition has_alias (l : list bytes) : bool := has_dup (map canon l).                  (* finding 1 *)
Definition has_unparsable (l : list bytes) : bool :=
  existsb (fun b => match parse_backend b with PErr => true | _ => false end) l.        (* finding 2 *)

(* ---------- sequential specifications for the concurrent histories (Base/Lin.v) ---------- *)

(* connection counter seen through the public API: Track / Release(own token) / ActiveConnections *)
Inductive cop := CTrack | CRelease | CRead.
Definition cstep (n : N) (o : cop) : N * N :=
  match o with
  | CTrack => (n + 1, 0)
  | CRelease => (n - 1, 0)
  | CRead => (n, n)
  end.

(* round-robin over a fixed list of [n] backends: returns the position chosen *)
Definition rstep (n : N) (i : N) (_ : unit) : N * N := (i + 1, i mod n).

(* how often each position is chosen by [calls] selections of the sequential specification
   (rstep), starting at index 0: the specification is simply run *)
Fixpoint bump (counts : list N) (j : nat) : list N :=
  match counts, j with
  | [], _ => []
  | c :: r, O => (c + 1) :: r
  | c :: r, S j' => c :: bump r j'
  end.

Definition rr_counts (n calls : N) : list N :=
  snd (N.iter calls
         (fun st : N * list N => let '(i, counts) := st in
            let '(i', pos) := rstep n i tt in (i', bump counts (N.to_nat pos)))
         (0, repeat 0 (N.to_nat n))).
