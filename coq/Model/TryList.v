(* C17 — model of the initial / fallback server choice of a connected player.
   Go anchors (pkg/edition/java/proxy/player.go unless said otherwise):
     connectedPlayer.getVirtualHostname, lite.ClearVirtualHost (lite/util.go), netutil.HostStr
     (pkg/util/netutil/util.go, on top of net.SplitHostPort), connectedPlayer.nextServerToTry,
     setConnectedServer, setInFlightConnection (switch.go), Proxy.Server (proxy.go).
   Executable definitions only; proofs are in Proofs/C17.v.
   Strings are Go strings = byte lists.  strings.ToLower is Base/Text.go_to_lower (exact on the
   code-point blocks listed in Text.lower_covered; the harness generators stay inside them). *)
From Coq Require Import List NArith Bool Arith.
From Verif Require Import Base.Hex Base.Text.
Import ListNotations.
Open Scope N_scope.

(* ---------- virtual host cleaning ---------- *)

(* strings.Split(name, "\x00")[0] *)
Fixpoint cut_nul (s : bytes) : bytes :=
  match s with
  | [] => []
  | c :: r => if c =? 0 then [] else c :: cut_nul r
  end.

(* s starts with "///" *)
Definition starts3 (s : bytes) : bool :=
  match s with
  | a :: b :: c :: _ => (a =? 47) && (b =? 47) && (c =? 47)
  | _ => false
  end.

(* strings.Split(name, "///")[0] *)
Fixpoint cut_sep3 (s : bytes) : bytes :=
  match s with
  | [] => []
  | c :: r => if starts3 s then [] else c :: cut_sep3 r
  end.

(* strings.Trim(name, ".") *)
Fixpoint trim_left_dots (s : bytes) : bytes :=
  match s with
  | c :: r => if c =? 46 then trim_left_dots r else s
  | [] => []
  end.
Definition trim_dots (s : bytes) : bytes := rev (trim_left_dots (rev (trim_left_dots s))).

(* lite.ClearVirtualHost *)
Definition clear_virtual_host (s : bytes) : bytes := trim_dots (cut_sep3 (cut_nul s)).

(* bytealg.IndexByteString / LastIndexByteString *)
Fixpoint index_of (c : N) (s : bytes) : option nat :=
  match s with
  | [] => None
  | x :: r => if x =? c then Some O else option_map S (index_of c r)
  end.
Fixpoint last_index_of (c : N) (s : bytes) : option nat :=
  match s with
  | [] => None
  | x :: r =>
    match last_index_of c r with
    | Some i => Some (S i)
    | None => if x =? c then Some O else None
    end
  end.
Definition has (c : N) (s : bytes) : bool := existsb (N.eqb c) s.

(* net.SplitHostPort, error classes as netutil.splitHostPort distinguishes them *)
Inductive shp :=
| ShpOk (host port : bytes)
| ShpMissingPort
| ShpTooManyColons
| ShpOther.            (* missing ']' / unexpected '[' / unexpected ']' *)

Definition split_host_port (hp : bytes) : shp :=
  match last_index_of 58 hp with
  | None => ShpMissingPort
  | Some i =>
    if nth 0 hp 0 =? 91 then
      match index_of 93 hp with
      | None => ShpOther
      | Some e =>
        if Nat.eqb (S e) (length hp) then ShpMissingPort
        else if Nat.eqb (S e) i then
          if has 91 (skipn 1 hp) then ShpOther
          else if has 93 (skipn (S e) hp) then ShpOther
          else ShpOk (firstn (e - 1) (skipn 1 hp)) (skipn (S i) hp)
        else if nth (S e) hp 0 =? 58 then ShpTooManyColons
        else ShpMissingPort
      end
    else
      let host := firstn i hp in
      if has 58 host then ShpTooManyColons
      else if has 91 hp then ShpOther
      else if has 93 hp then ShpOther
      else ShpOk host (skipn (S i) hp)
  end.

(* netutil.HostStr: the host of a successful split; the whole address when the port is missing or
   there are too many colons; "" on the other errors (net.SplitHostPort returned "" and the error
   is kept). The strconv.Atoi of the port only affects the error, not the host. *)
Definition host_str (a : bytes) : bytes :=
  match split_host_port a with
  | ShpOk h _ => h
  | ShpMissingPort => a
  | ShpTooManyColons => a
  | ShpOther => []
  end.

(* connectedPlayer.getVirtualHostname on virtualHost.String() (a nil virtual host gives "",
   which equals clean []) *)
Definition clean (vhost : bytes) : bytes := go_to_lower (host_str (clear_virtual_host vhost)).

(* ---------- configuration and registry ---------- *)

(* config.Config.ForcedHosts (a Go map: keys are unique; loaded configurations have lower-cased
   keys, see gate.finishConfigCandidate) and config.Config.Try *)
Record config := mkConfig { forced : list (bytes * list bytes); try_list : list bytes }.

Fixpoint lookup_forced (k : bytes) (m : list (bytes * list bytes)) : list bytes :=
  match m with
  | [] => []
  | (k', v) :: r => if beq_bytes k k' then v else lookup_forced k r
  end.

(* the list nextServerToTry remembers in serversToTry *)
Definition candidates (cfg : config) (vhost : bytes) : list bytes :=
  match lookup_forced (clean vhost) (forced cfg) with
  | [] => try_list cfg
  | l => l
  end.

(* Proxy.Server(name): the registry is keyed by strings.ToLower(name); a registered server is
   identified here by the name it was registered with (ServerInfo().Name()). *)
Definition find_server (reg : list bytes) (n : bytes) : option bytes :=
  find (fun r => beq_bytes (go_to_lower r) (go_to_lower n)) reg.

(* ---------- player state ---------- *)

Record pstate := mkP {
  cache : list bytes;            (* serversToTry *)
  cursor : nat;                  (* tryIndex *)
  connected : option bytes;      (* connectedServer_.Server().ServerInfo().Name() *)
  inflight : option bytes        (* connInFlight.Server().ServerInfo().Name() *)
}.
Definition init_state : pstate := mkP [] 0 None None.

(* sameName *)
Definition same (o : option bytes) (n : bytes) : bool :=
  match o with Some x => beq_bytes x n | None => false end.
Definition excluded (st : pstate) (cur : option bytes) (n : bytes) : bool :=
  same (connected st) n || same (inflight st) n || same cur n.

(* the for loop of nextServerToTry over serversToTry[i:], ti = tryIndex so far *)
Fixpoint scan (reg : list bytes) (ex : bytes -> bool) (l : list bytes) (i ti : nat)
  : nat * option (nat * bytes) :=
  match l with
  | [] => (ti, None)
  | n :: r =>
    if ex n then scan reg ex r (S i) ti
    else match find_server reg n with
         | Some s => (i, Some (i, s))
         | None => scan reg ex r (S i) i
         end
  end.

(* nextServerToTry(current): new state, and the chosen (index, registered name) or None = nil *)
(* serversToTry after the first `if len(p.serversToTry) == 0` *)
Definition remembered (cfg : config) (vhost : bytes) (st : pstate) : list bytes :=
  match cache st with [] => lookup_forced (clean vhost) (forced cfg) | c => c end.
(* serversToTry after the second one (empty = `return nil` before the loop) *)
Definition to_scan (cfg : config) (vhost : bytes) (st : pstate) : list bytes :=
  match remembered cfg vhost st with [] => try_list cfg | c => c end.

Definition next (cfg : config) (vhost : bytes) (reg : list bytes) (st : pstate) (cur : option bytes)
  : pstate * option (nat * bytes) :=
  match to_scan cfg vhost st with
  | [] => (mkP (remembered cfg vhost st) (cursor st) (connected st) (inflight st), None)
  | c2 =>
    let sr := scan reg (excluded st cur) (skipn (cursor st) c2) (cursor st) (cursor st) in
    (mkP c2 (fst sr) (connected st) (inflight st), snd sr)
  end.

(* the pure reading of DESIGN.md: choice for a fresh cache, explicit cursor and excluded servers *)
Definition next_server (cfg : config) (vhost : bytes) (reg : list bytes)
  (current in_flight failed : option bytes) (cur_idx : nat) : option (nat * bytes) :=
  snd (next cfg vhost reg (mkP [] cur_idx current in_flight) failed).

(* ---------- histories ---------- *)

Inductive op :=
| ONext (reg : list bytes) (failed : option bytes)   (* nextServerToTry(failed) with this registry *)
| OConnected (s : option bytes)                      (* setConnectedServer(fresh connection to s) *)
| OPromote                                           (* setConnectedServer(connInFlight) *)
| OInFlight (s : option bytes).                      (* setInFlightConnection *)

(* what the harness observes after each operation: the chosen server's name (ONext only) and tryIndex *)
Record obs := mkObs { o_result : option bytes; o_cursor : nat }.

Definition step (cfg : config) (vhost : bytes) (st : pstate) (o : op) : pstate * obs :=
  match o with
  | ONext reg failed =>
    let '(st', r) := next cfg vhost reg st failed in
    (st', mkObs (option_map snd r) (cursor st'))
  | OConnected s =>
    (* conn == p.connInFlight only when both are nil: a fresh connection object is never the in-flight one *)
    (mkP (cache st) 0 s (inflight st), mkObs None 0)
  | OPromote => (mkP (cache st) 0 (inflight st) None, mkObs None 0)
  | OInFlight s => (mkP (cache st) (cursor st) (connected st) s, mkObs None (cursor st))
  end.

Fixpoint run (cfg : config) (vhost : bytes) (st : pstate) (ops : list op) : list obs :=
  match ops with
  | [] => []
  | o :: r => let '(st', ob) := step cfg vhost st o in ob :: run cfg vhost st' r
  end.

(* ---------- the property's own decidable predicate ---------- *)

(* A listed name is eligible when a server is registered under it and that server is none of the
   excluded ones (servers are identified by their registered names). *)
Definition eligible (reg : list bytes) (ex : bytes -> bool) (n : bytes) : bool :=
  match find_server reg n with Some s => negb (ex s) | None => false end.

(* first eligible position at or after [from]; written independently of [scan] *)
Fixpoint first_eligible (reg : list bytes) (ex : bytes -> bool) (l : list bytes) (i from : nat)
  : option (nat * bytes) :=
  match l with
  | [] => None
  | n :: r =>
    if Nat.leb from i && eligible reg ex n
    then option_map (fun s => (i, s)) (find_server reg n)
    else first_eligible reg ex r (S i) from
  end.

(* loaded-configuration premise: a listed name and a registered name that are equal up to case are
   equal (config validation demands every listed name to be a key of `servers`, and the registry is
   filled from those keys) *)
Definition consistent (reg : list bytes) (l : list bytes) : bool :=
  forallb (fun n => match find_server reg n with Some s => beq_bytes s n | None => true end) l.

(* spec view of the player's servers, driven by the operations only *)
Record sstate := mkS { s_connected : option bytes; s_inflight : option bytes }.
Definition s_step (s : sstate) (o : op) : sstate :=
  match o with
  | ONext _ _ => s
  | OConnected c => mkS c (s_inflight s)
  | OPromote => mkS (s_inflight s) None
  | OInFlight f => mkS (s_connected s) f
  end.

(* one observed step satisfies the property, given the cursor observed before it *)
Definition holds_step (cands : list bytes) (s : sstate) (prev : nat) (o : op) (ob : obs) : bool :=
  match o with
  | ONext reg failed =>
    let ex := fun n => same (s_connected s) n || same (s_inflight s) n || same failed n in
    match first_eligible reg ex cands 0 prev, o_result ob with
    | Some (i, srv), Some got => beq_bytes srv got && Nat.eqb (o_cursor ob) i
    | None, None => Nat.leb prev (o_cursor ob)
    | _, _ => false
    end
  | OConnected _ | OPromote => Nat.eqb (o_cursor ob) 0
  | OInFlight _ => Nat.eqb (o_cursor ob) prev
  end.

Fixpoint holds_history (cands : list bytes) (s : sstate) (prev : nat) (ops : list op) (obs_ : list obs) : bool :=
  match ops, obs_ with
  | [], [] => true
  | o :: ops', ob :: obs' =>
    holds_step cands s prev o ob && holds_history cands (s_step s o) (o_cursor ob) ops' obs'
  | _, _ => false
  end.

(* the premise, for every registry appearing in a history *)
Definition consistent_ops (cands : list bytes) (ops : list op) : bool :=
  forallb (fun o => match o with ONext reg _ => consistent reg cands | _ => true end) ops.

(* ---------- virtual hosts of the expected shape ---------- *)

(* a host name without any of the separators the cleaning looks at, not starting or ending with '.' *)
Definition is_sep (b : N) : bool := (b =? 0) || (b =? 47) || (b =? 58) || (b =? 91) || (b =? 93).
Definition plain_host (h : bytes) : bool :=
  forallb (fun b => negb (is_sep b)) h
  && negb (nth 0 h 0 =? 46) && negb (last h 0 =? 46).

Definition is_digit (b : N) : bool := (48 <=? b) && (b <=? 57).
(* what may follow the host: nothing, ":port", a NUL-separated tail (Forge marker, forwarding data,
   then whatever, including the ":port" the handshake handler appends), or a TCPShield "///" tail *)
Definition removable_suffix (rest : bytes) : bool :=
  match rest with
  | [] => true
  | c :: r =>
    if c =? 58 then forallb is_digit r
    else if c =? 0 then true
    else starts3 rest
  end.

(* ---------- kick result selection (switch.go: handleConnectionErr2 + handleKickEvent) ---------- *)

Fixpoint run_state (cfg : config) (vhost : bytes) (st : pstate) (ops : list op) : pstate :=
  match ops with
  | [] => st
  | o :: r => run_state cfg vhost (fst (step cfg vhost st o)) r
  end.

Inductive kick_result :=
| KUnsafe                 (* !safe: Disconnect(friendlyReason) without an event *)
| KDisconnect             (* DisconnectPlayerKickResult{Reason: friendlyReason} *)
| KRedirect (s : bytes)   (* RedirectPlayerKickResult{Server: s} *)
| KNotify.                (* NotifyKickResult{Message: friendlyReason}: kicked while connecting elsewhere *)

(* servers are compared with RegisteredServerEqual (name and address); the harness gives every name one
   address, so the name decides *)
Definition kicked_from_current (conn : option bytes) (rs : bytes) : bool :=
  match conn with None => true | Some c => beq_bytes c rs end.

(* handleConnectionErr2(rs, _, friendlyReason, safe) followed by the state updates of handleKickEvent
   (in-flight cleared; current server cleared when kicked from it). Result: the state and the initial
   result carried by the KickedFromServerEvent. *)
Definition kick (cfg : config) (vhost : bytes) (reg : list bytes) (st : pstate) (rs : bytes) (safe : bool)
  : pstate * kick_result :=
  if negb safe then (st, KUnsafe)
  else if kicked_from_current (connected st) rs then
    let nr := next cfg vhost reg st (Some rs) in
    (mkP (cache (fst nr)) (cursor (fst nr)) None None,
     match snd nr with None => KDisconnect | Some (_, s) => KRedirect s end)
  else (mkP (cache st) (cursor st) (connected st) None, KNotify).

Definition s_run (s : sstate) (ops : list op) : sstate := fold_left s_step ops s.

(* tryIndex after the last observed operation (0 for the empty history) *)
Fixpoint last_cursor_from (d : nat) (l : list obs) : nat :=
  match l with [] => d | ob :: r => last_cursor_from (o_cursor ob) r end.
Definition last_cursor (l : list obs) : nat := last_cursor_from 0 l.

(* property clause for a kick from the current server (or with no current server): redirect to the
   first eligible entry at or after the cursor, disconnect (with the kick reason) when there is none *)
Definition holds_kick (cands : list bytes) (s : sstate) (prev : nat) (reg : list bytes) (rs : bytes)
  (safe : bool) (got : kick_result) : bool :=
  if safe && kicked_from_current (s_connected s) rs then
    let ex := fun n => same (s_connected s) n || same (s_inflight s) n || same (Some rs) n in
    match first_eligible reg ex cands 0 prev, got with
    | Some (_, srv), KRedirect g => beq_bytes srv g
    | None, KDisconnect => true
    | _, _ => false
    end
  else true.
