(* C14 - the play packet queue of netmc.minecraftConn (executable definitions only).

   Go code mirrored (pkg/edition/java/netmc/connection.go, proto/util/queue/packet_queue.go):

     WritePacket(p)        = Closed? ; BufferPacket(p) ; Flush()
     bufferPacket(p,true)  = Closed? ; c.mu.Lock ; queued, err := c.playPacketQueue.Queue(p)
                             ; if !queued then c.wr.WritePacket(p) ; c.mu.Unlock            -- ONE action: a_spec_write
                             (since fix commit 4cea635; on error closeOnWriteErr closes the connection)
     PRE-FIX bufferPacket  = Closed? ; c.mu.Lock ; q := c.playPacketQueue ; c.mu.Unlock      -- step 1: a_read_ptr
                             ; queued, err := q.Queue(p) ; if !queued then c.wr.WritePacket(p) -- step 2: a_qoe
                             (step 2 ran WITHOUT c.mu: finding C14-1, fixed; kept as old_write)
     PlayPacketQueue.Queue = nil receiver: not queued ; packet registered in CONFIG: not queued ;
                             Len() >= 1024: ErrQueueFull ; else PushBack
     SetState / SetOutboundState(s) = c.mu.Lock ; c.wr.SetState(s) ; ensurePlayPacketQueue ; c.mu.Unlock   -- one action: a_set
     ensurePlayPacketQueue = CONFIG: allocate a queue if there is none ;
                             otherwise: ReleaseQueue (PopFront ... bufferNoQueue, then Flush) and c.playPacketQueue = nil

   Queues are OBJECTS in a heap and c.playPacketQueue is a reference, so that a writer holding a stale
   reference (read in step 1, used in step 2 after a release) is expressible.
   spec_write is what the property demands: both halves in one critical section.  impl_write (the code
   as it is today) IS spec_write; old_write is the pre-fix two-step write.                           *)
From Coq Require Import List NArith Bool Arith.
From Verif Require Import Base.Conc Base.Hex Base.VarInt.
Import ListNotations.

(* ---------- packets ---------- *)

Inductive kind := PlayOnly | ConfigValid.
Inductive phase := Config | Play.

(* the four packet types the harness writes (clientbound):
   title.Times and bossbar.BossBar(Remove) are registered in PLAY only,
   KeepAlive and plugin.Message in CONFIG and PLAY *)
Inductive ptype := TTimes | TBoss | TKeepAlive | TPlugin.

Definition kind_of (ty : ptype) : kind :=
  match ty with TTimes | TBoss => PlayOnly | TKeepAlive | TPlugin => ConfigValid end.

Record pkt := mkPkt { pk_type : ptype; pk_tag : N }.

Definition pk_kind (p : pkt) : kind := kind_of (pk_type p).
Definition is_po (p : pkt) : bool := match pk_kind p with PlayOnly => true | ConfigValid => false end.
Definition is_cv (p : pkt) : bool := negb (is_po p).

Definition ptype_eqb (a b : ptype) : bool :=
  match a, b with
  | TTimes, TTimes | TBoss, TBoss | TKeepAlive, TKeepAlive | TPlugin, TPlugin => true
  | _, _ => false
  end.
Definition pkt_eqb (a b : pkt) : bool := ptype_eqb (pk_type a) (pk_type b) && N.eqb (pk_tag a) (pk_tag b).
Definition phase_eqb (a b : phase) : bool :=
  match a, b with Config, Config | Play, Play => true | _, _ => false end.

(* maxQueueLen *)
Definition cap : nat := 1024%nat.

(* Encoder.WritePacket: is the packet type in the registry of the writer's state? *)
Definition encodable (ph : phase) (p : pkt) : bool :=
  match ph, pk_kind p with Config, PlayOnly => false | _, _ => true end.

(* ---------- connection state ---------- *)

(* local variable playPacketQueue of one bufferPacket call in flight *)
Inductive reg := RIdle | RSawClosed | RPtr (q : option nat).

Record st := mkSt {
  s_phase  : phase;            (* state of the writer (c.wr) *)
  s_cur    : option nat;       (* c.playPacketQueue: index of the live queue object, None = nil *)
  s_heap   : list (list pkt);  (* every queue object allocated so far, front of the deque first *)
  s_closed : bool;             (* c.ctx cancelled *)
  s_regs   : list reg          (* per goroutine *)
}.

Definition init : st := mkSt Play None [] false [].

Inductive wres := ROk | RErrClosed | RErrQueueFull | RErrEncode | RErrIO.

Inductive event :=
| EAcc (p : pkt)                 (* a write took responsibility for p: pushed on a queue or encoded *)
| EWire (ph : phase) (p : pkt)   (* p's frame entered the write buffer, encoded with the registry of ph: wire order *)
| EClose                         (* this step closed the connection *)
| ERes (t : nat) (p : pkt) (r : wres).   (* goroutine t's WritePacket(p) returned r *)

Fixpoint upd {A : Type} (d : A) (i : nat) (x : A) (l : list A) : list A :=
  match i, l with
  | O, [] => [x]
  | O, _ :: r => x :: r
  | S i', [] => d :: upd d i' x []
  | S i', y :: r => y :: upd d i' x r
  end.

Definition get_reg (t : nat) (s : st) : reg := nth t (s_regs s) RIdle.
Definition set_reg (t : nat) (r : reg) (s : st) : st :=
  mkSt (s_phase s) (s_cur s) (s_heap s) (s_closed s) (upd RIdle t r (s_regs s)).
Definition set_closed (s : st) : st :=
  mkSt (s_phase s) (s_cur s) (s_heap s) true (s_regs s).
Definition set_heap (h : list (list pkt)) (s : st) : st :=
  mkSt (s_phase s) (s_cur s) h (s_closed s) (s_regs s).
Definition queue_at (i : nat) (s : st) : list pkt := nth i (s_heap s) [].

(* contents of the live queue *)
Definition live (s : st) : list pkt :=
  match s_cur s with Some i => queue_at i s | None => [] end.

(* ---------- atomic steps ---------- *)

(* c.wr.WritePacket(p) followed by Flush.  On a connection that is already closed the frame stays in the
   write buffer and Flush fails (the pipe is closed): nothing reaches the wire. *)
Definition do_encode (t : nat) (p : pkt) (s : st) : st * list event :=
  if s_closed s then (s, [ERes t p RErrIO])
  else if encodable (s_phase s) p then (s, [EAcc p; EWire (s_phase s) p; ERes t p ROk])
  else (set_closed s, [EClose; ERes t p RErrEncode]).

(* q.Queue(p) on the queue object the caller holds, then encode if it was not queued.
   (A step racing with a concurrent close is folded into RErrIO; its effect on a closed connection's
   queue is not observable.) *)
Definition do_queue_or_encode (t : nat) (p : pkt) (q : option nat) (s : st) : st * list event :=
  match q with
  | None => do_encode t p s
  | Some i =>
      if is_cv p then do_encode t p s
      else if s_closed s then (s, [ERes t p RErrIO])
      else if Nat.leb cap (length (queue_at i s)) then (set_closed s, [EClose; ERes t p RErrQueueFull])
      else (set_heap (upd [] i (queue_at i s ++ [p]) (s_heap s)) s, [EAcc p; ERes t p ROk])
  end.

(* PRE-FIX step 1 of bufferPacket: closed check and pointer read under c.mu *)
Definition a_read_ptr (t : nat) : @action st event := fun s =>
  (set_reg t (if s_closed s then RSawClosed else RPtr (s_cur s)) s, []).

(* PRE-FIX step 2 of bufferPacket, not under c.mu *)
Definition a_qoe (t : nat) (p : pkt) : @action st event := fun s =>
  match get_reg t s with
  | RIdle => (s, [])
  | RSawClosed => (set_reg t RIdle s, [ERes t p RErrClosed])
  | RPtr q => do_queue_or_encode t p q (set_reg t RIdle s)
  end.

(* what the property demands and what bufferPacket does today: one critical section *)
Definition a_spec_write (t : nat) (p : pkt) : @action st event := fun s =>
  if s_closed s then (s, [ERes t p RErrClosed])
  else do_queue_or_encode t p (s_cur s) s.

(* SetState / SetOutboundState: one critical section *)
Definition a_set (ph : phase) : @action st event := fun s =>
  match ph with
  | Config =>
      match s_cur s with
      | Some _ => (mkSt Config (s_cur s) (s_heap s) (s_closed s) (s_regs s), [])
      | None => (mkSt Config (Some (length (s_heap s))) (s_heap s ++ [[]]) (s_closed s) (s_regs s), [])
      end
  | Play =>
      match s_cur s with
      | None => (mkSt Play None (s_heap s) (s_closed s) (s_regs s), [])
      | Some i =>
          if s_closed s
          then (* ReleaseQueue pops one packet, bufferNoQueue answers ErrClosedConn, the rest stays orphaned *)
               (mkSt Play None (upd [] i (tl (queue_at i s)) (s_heap s)) true (s_regs s), [])
          else (mkSt Play None (upd [] i [] (s_heap s)) false (s_regs s),
                map (EWire Play) (queue_at i s))
      end
  end.

(* ---------- programs ---------- *)

Inductive lbl :=
| LRead (t : nat) | LQoE (t : nat) (p : pkt)    (* the PRE-FIX code: two steps *)
| LSpecW (t : nat) (p : pkt)                   (* the property's write *)
| LSet (ph : phase).

Definition sem (l : lbl) : @action st event :=
  match l with
  | LRead t => a_read_ptr t
  | LQoE t p => a_qoe t p
  | LSpecW t p => a_spec_write t p
  | LSet ph => a_set ph
  end.

Definition spec_write (t : nat) (p : pkt) : list lbl := [LSpecW t p].
(* today's bufferPacket (fix 4cea635) *)
Definition impl_write : nat -> pkt -> list lbl := spec_write.
(* bufferPacket before the fix *)
Definition old_write (t : nat) (p : pkt) : list lbl := [LRead t; LQoE t p].

(* writer goroutine t writes its packets one after the other *)
Definition writer (w : nat -> pkt -> list lbl) (t : nat) (ps : list pkt) : list lbl := flat_map (w t) ps.

Fixpoint writers_from (w : nat -> pkt -> list lbl) (t : nat) (pss : list (list pkt)) : list (list lbl) :=
  match pss with
  | [] => []
  | ps :: r => writer w t ps :: writers_from w (S t) r
  end.

(* writers 0 .. n-1 followed by the goroutines that change the state *)
Definition program (w : nat -> pkt -> list lbl) (pss : list (list pkt)) (fs : list (list phase)) : list (list lbl) :=
  writers_from w 0 pss ++ map (map LSet) fs.

Definition threads_of (prog : list (list lbl)) : list (@thread st event) := map (map sem) prog.

(* ---------- projections of a trace ---------- *)

Definition acc (evs : list event) : list pkt :=
  flat_map (fun e => match e with EAcc p => [p] | _ => [] end) evs.
Definition wire (evs : list event) : list pkt :=
  flat_map (fun e => match e with EWire _ p => [p] | _ => [] end) evs.
(* packets for which goroutine t's WritePacket returned nil, in the order of the calls *)
Definition oks_t (t : nat) (evs : list event) : list pkt :=
  flat_map (fun e => match e with ERes t' p ROk => if Nat.eqb t' t then [p] else [] | _ => [] end) evs.
(* the same for all goroutines together *)
Definition oks (evs : list event) : list pkt :=
  flat_map (fun e => match e with ERes _ p ROk => [p] | _ => [] end) evs.
Definition po (l : list pkt) : list pkt := filter is_po l.
Definition cv (l : list pkt) : list pkt := filter is_cv l.

Fixpoint pkts_eqb (a b : list pkt) : bool :=
  match a, b with
  | [], [] => true
  | x :: a', y :: b' => pkt_eqb x y && pkts_eqb a' b'
  | _, _ => false
  end.

Definition inb (p : pkt) (l : list pkt) : bool := existsb (pkt_eqb p) l.

(* the packets of [l] that belong to the program [ps] of one writer *)
Definition owned (ps : list pkt) (l : list pkt) : list pkt := filter (fun p => inb p ps) l.

(* the equations of the property on a finished run, as a boolean (for check_all_schedules) *)
Definition trace_ok (s : st) (evs : list event) : bool :=
  s_closed s
  || (pkts_eqb (po (acc evs)) (po (wire evs) ++ live s) && pkts_eqb (cv (acc evs)) (cv (wire evs))).

(* every frame was produced by a registry that knows the packet (play-only packets: PLAY only) *)
Definition wire_wellformed (evs : list event) : bool :=
  forallb (fun e => match e with EWire ph p => encodable ph p | _ => true end) evs.

(* ---------- sequential histories (what the harness drives through the public API) ---------- *)

Inductive op := OWrite (p : pkt) | OSet (ph : phase).

Definition op_labels (w : nat -> pkt -> list lbl) (o : op) : list lbl :=
  match o with OWrite p => w O p | OSet ph => [LSet ph] end.

Fixpoint exec (ls : list lbl) (s : st) : st * list event :=
  match ls with
  | [] => (s, [])
  | l :: r =>
      let '(s1, e1) := sem l s in
      let '(s2, e2) := exec r s1 in
      (s2, e1 ++ e2)
  end.

(* per operation: the events of that call and whether the connection is closed afterwards *)
Fixpoint seq_run (w : nat -> pkt -> list lbl) (ops : list op) (s : st) : list (list event * bool) :=
  match ops with
  | [] => []
  | o :: r =>
      let '(s1, e1) := exec (op_labels w o) s in
      (e1, s_closed s1) :: seq_run w r s1
  end.

(* ---------- the wire as bytes ---------- *)

Record idtab := mkIds {
  id_cfg_keepalive : N; id_cfg_plugin : N;
  id_play_times : N; id_play_boss : N; id_play_keepalive : N; id_play_plugin : N
}.

Definition wire_id (ids : idtab) (ph : phase) (ty : ptype) : option N :=
  match ph, ty with
  | Config, TKeepAlive => Some (id_cfg_keepalive ids)
  | Config, TPlugin => Some (id_cfg_plugin ids)
  | Config, _ => None
  | Play, TTimes => Some (id_play_times ids)
  | Play, TBoss => Some (id_play_boss ids)
  | Play, TKeepAlive => Some (id_play_keepalive ids)
  | Play, TPlugin => Some (id_play_plugin ids)
  end.

(* n bytes, big endian *)
Fixpoint be (n : nat) (v : N) : bytes :=
  match n with O => [] | S n' => be n' (v / 256) ++ [v mod 256] end.

(* title.Times{FadeIn: tag, Stay: 20, FadeOut: 5}; BossBar{ID: 0^8 ++ tag, Action: Remove};
   KeepAlive{RandomID: tag}; plugin.Message{Channel: "vf:t", Data: be32 tag} *)
Definition payload (p : pkt) : bytes :=
  match pk_type p with
  | TTimes => be 4 (pk_tag p) ++ be 4 20 ++ be 4 5
  | TBoss => be 8 0 ++ be 8 (pk_tag p) ++ [1]
  | TKeepAlive => be 8 (pk_tag p)
  | TPlugin => [4; 118; 102; 58; 116] ++ be 4 (pk_tag p)
  end%N.

(* uncompressed frame: VarInt length, VarInt id, payload *)
Definition frame (ids : idtab) (ph : phase) (p : pkt) : bytes :=
  match wire_id ids ph (pk_type p) with
  | Some id => let body := enc id ++ payload p in enc (N.of_nat (length body)) ++ body
  | None => []
  end.

Definition frames_of (ids : idtab) (evs : list event) : bytes :=
  flat_map (fun e => match e with EWire ph p => frame ids ph p | _ => [] end) evs.

Definition result_of (evs : list event) : wres :=
  fold_right (fun e acc => match e with ERes _ _ r => r | _ => acc end) ROk evs.
