(* C37 — model of configuration validation.

   Executable definitions only.  Transcribed from
     /repo/pkg/gate/config/config.go            Config.Validate            (top level: health bind, prefixes)
     /repo/pkg/edition/java/config/config.go    Config.Validate, validateBackendFloodgate, validateVia
     /repo/pkg/edition/java/lite/config/config.go  Config.Validate (Lite routes) and its contains-params helper
     /repo/pkg/edition/bedrock/config/validate.go  the backendFloodgate part (reached from the top level when
                                                    bedrock.enabled; all other bedrock fields stay at their defaults)
     /repo/pkg/util/validation/util.go          ValidHostPort (= net.SplitHostPort), ValidServerName
     /repo/pkg/util/netutil/util.go             Parse / splitHostPort (Lite backend addresses)
   Strings are byte lists (Base.Hex.bytes); the harness generates ASCII only, so strings.TrimSpace,
   strings.ToLower and the regexp character classes are modelled on ASCII.

   Inputs that are computed by the harness with the real code and passed in as booleans:
     trusted_ok   netutil.ParseTrustedNetworks(ResolveProxyProtocolTrustedProxies(list)) returned no error
                  (the parser itself is modelled for C33, not here)
     bf_key_ok    the Floodgate key file named by Bedrock.ToConfig().FloodgateKeyPath can be read
   A validation outcome is the list of clause ids in the order the code appends the errors. *)
From Coq Require Import List NArith ZArith Bool.
From Coq Require Import String.
From Verif Require Import Base.Hex.
Import ListNotations.
Open Scope N_scope.

Definition str := bytes.

(* ---------------------------------------------------------------- characters *)
Definition is_digit (c : N) : bool := (48 <=? c) && (c <=? 57).
Definition is_upper (c : N) : bool := (65 <=? c) && (c <=? 90).
Definition is_lower (c : N) : bool := (97 <=? c) && (c <=? 122).
Definition is_alnum (c : N) : bool := is_digit c || is_upper c || is_lower c.
(* qnameExtCharFmt = [-A-Za-z0-9_.] *)
Definition is_qext (c : N) : bool := is_alnum c || (c =? 45) || (c =? 95) || (c =? 46).
(* unicode.IsSpace restricted to ASCII: \t \n \v \f \r and space *)
Definition is_space (c : N) : bool := ((9 <=? c) && (c <=? 13)) || (c =? 32).
Definition lower_ascii (s : str) : str := map (fun c => if is_upper c then c + 32 else c) s.

Definition colon := 58.
Definition lbrack := 91.
Definition rbrack := 93.

Fixpoint mem_str (x : str) (l : list str) : bool :=
  match l with [] => false | y :: r => beq_bytes x y || mem_str x r end.

Fixpoint has_char (c : N) (s : str) : bool :=
  match s with [] => false | x :: r => (x =? c) || has_char c r end.

(* ---------------------------------------------------------------- net.SplitHostPort *)
Inductive shp :=
| ShpOk (host port : str)
| ShpMissingPort
| ShpTooManyColons
| ShpOther.                    (* missing ']' , unexpected '[' , unexpected ']' *)

(* split at the LAST colon: Some (before, after) *)
Fixpoint split_last_colon (s : str) : option (str * str) :=
  match s with
  | [] => None
  | x :: r =>
      match split_last_colon r with
      | Some (a, b) => Some (x :: a, b)
      | None => if x =? colon then Some ([], r) else None
      end
  end.

(* split at the FIRST occurrence of c *)
Fixpoint split_first (c : N) (s : str) : option (str * str) :=
  match s with
  | [] => None
  | x :: r => if x =? c then Some ([], r)
              else match split_first c r with Some (a, b) => Some (x :: a, b) | None => None end
  end.

(* net.SplitHostPort, statement by statement:
     i = last ':' ; none -> missing port
     hostport[0] == '[' : end = first ']' ; none -> other (missing ']')
                          end+1 == len -> missing port ; end+1 == i -> ok ; else hostport[end+1]==':' -> too many colons
                          else missing port ; then no '[' after position 1 and no ']' after end
     else host = hostport[:i] ; ':' in host -> too many colons ; then no '[' and no ']' anywhere *)
Definition split_host_port (s : str) : shp :=
  match split_last_colon s with
  | None => ShpMissingPort
  | Some (before, port) =>
      match s with
      | c0 :: rest =>
          if c0 =? lbrack then
            match split_first rbrack rest with
            | None => ShpOther
            | Some (h, after) =>          (* s = '[' h ']' after *)
                match after with
                | [] => ShpMissingPort
                | a0 :: after' =>
                    if a0 =? colon then
                      if has_char colon after' then ShpTooManyColons   (* the colon after ']' is not the last one *)
                      else if has_char lbrack h || has_char lbrack after then ShpOther
                      else if has_char rbrack after then ShpOther
                      else ShpOk h after'
                    else ShpMissingPort
                end
            end
          else
            if has_char colon before then ShpTooManyColons
            else if has_char lbrack s then ShpOther
            else if has_char rbrack s then ShpOther
            else ShpOk before port
      | [] => ShpMissingPort
      end
  end.

(* validation.ValidHostPort: err == nil *)
Definition valid_host_port (s : str) : bool :=
  match split_host_port s with ShpOk _ _ => true | _ => false end.

(* strconv.Atoi on a 64-bit int: optional sign, one or more decimal digits, value within int64 *)
Fixpoint digits_val (acc : N) (s : str) : option N :=
  match s with
  | [] => Some acc
  | c :: r => if is_digit c then digits_val (acc * 10 + (c - 48)) r else None
  end.

Definition atoi_ok (s : str) : bool :=
  let body (neg : bool) (d : str) :=
    match d with
    | [] => false
    | _ => match digits_val 0 d with
           | Some v => if neg then v <=? 9223372036854775808 else v <=? 9223372036854775807
           | None => false
           end
    end in
  match s with
  | [] => false
  | c :: r => if c =? 43 then body false r else if c =? 45 then body true r else body false s
  end.

(* netutil.Parse(addr, "tcp") returns an error: splitHostPort keeps the Atoi error, forgives a missing port and
   too many colons, keeps every other SplitHostPort error *)
Definition lite_parse_fails (s : str) : bool :=
  match split_host_port s with
  | ShpOk _ port => negb (atoi_ok port)
  | ShpMissingPort | ShpTooManyColons => false
  | ShpOther => true
  end.

(* the contains-params helper of lite config: regexp `\$\d+` matches somewhere *)
Fixpoint contains_params (s : str) : bool :=
  match s with
  | c :: ((d :: _) as r) => ((c =? 36) && is_digit d) || contains_params r
  | _ => false
  end.

(* validation.ValidServerName: non-empty, at most 63 bytes, and the regular expression
   "optional (one alphanumeric, then any number of extended characters), then one alphanumeric", anchored:
   first and last byte alphanumeric, every byte in the extended class *)
Definition valid_name (s : str) : bool :=
  match s with
  | [] => false
  | c :: _ => (List.length s <=? 63)%nat && is_alnum c && is_alnum (last s 0) && forallb is_qext s
  end.

(* strings.TrimSpace(s) == "" *)
Definition all_space (s : str) : bool := forallb is_space s.

(* ---------------------------------------------------------------- float32 (quota ops) by its IEEE bits *)
Definition f32_exp (b : N) : N := N.land (N.shiftr b 23) 255.
Definition f32_mant (b : N) : N := N.land b 8388607.
Definition f32_sign (b : N) : bool := N.testbit b 31.
Definition f32_is_nan (b : N) : bool := (f32_exp b =? 255) && negb (f32_mant b =? 0).
Definition f32_is_zero (b : N) : bool := (f32_exp b =? 0) && (f32_mant b =? 0).
(* Go: x <= 0 *)
Definition f32_le_zero (b : N) : bool := negb (f32_is_nan b) && (f32_sign b || f32_is_zero b).
(* x > 0 *)
Definition f32_gt_zero (b : N) : bool := negb (f32_is_nan b) && negb (f32_sign b) && negb (f32_is_zero b).

(* ---------------------------------------------------------------- configuration *)
Record quota := mkq { q_enabled : bool; q_ops : N; q_burst : Z; q_max : Z }.
Record route := mkr { r_hosts : list str; r_backends : list str; r_strategy : str }.

Record cfg := mkcfg {
  health_enabled : bool; health_bind : str;
  bind : str;
  q_conn : quota; q_login : quota;
  trusted_ok : bool;
  bf_enabled : bool; bedrock_enabled : bool; bf_allowed : list str; bf_key_ok : bool;
  lite_enabled : bool; routes : list route;
  via_enabled : bool; via_mode : str; via_bind : str;
  fwd_mode : str;
  servers : list (str * str);           (* name, address; names distinct (a Go map) *)
  try : list str;
  forced : list (str * list str);       (* host, server names *)
  level : Z; threshold : Z
}.

Inductive clause :=
| HealthBind
| BindEmpty | BindInvalid
| QuotaOps | QuotaBurst | QuotaMaxEntries
| TrustedProxies
| BFNeedsBedrock | BFNoServers | BFBadName | BFDuplicate | BFUnregistered | BFFwdIncompatible | BFFwdUnknown | BFKey
| LiteNoRoutes | RouteNoHost (i : N) | RouteNoBackend (i : N) | RouteStrategy (i : N) | RouteBackendParse (i j : N)
| ViaMode | ViaBind
| ForwardingMode
| ServerName | ServerAddr
| TryUnknown
| ForcedUnknown
| ForcedCaseDup                                      (* since fix commit ad3d3c8 *)
| CompressionLevel | CompressionThreshold
| BedBFNoServers | BedBFBadName | BedBFDuplicate      (* "bedrock: ..." from the top level *)
(* warnings that sit next to an error boundary *)
| WForwardingNone | WNoServers | WLevelZero | WThresholdZero
| Unmapped.                                           (* a message the harness could not classify *)

(* string constants *)
Definition s_none := tx "none"%string.
Definition s_legacy := tx "legacy"%string.
Definition s_velocity := tx "velocity"%string.
Definition s_bungeeguard := tx "bungeeguard"%string.
Definition s_embedded := tx "embedded"%string.
Definition s_subprocess := tx "subprocess"%string.
Definition strategies : list str :=
  [tx "sequential"%string; tx "random"%string; tx "round-robin"%string; tx "least-connections"%string; tx "lowest-latency"%string].

(* ---------------------------------------------------------------- java Config.Validate, piece by piece *)

(* if strings.TrimSpace(c.Bind) == "" { e("Bind is empty") } else if ValidHostPort(c.Bind) != nil { e("Invalid bind") } *)
Definition v_bind (c : cfg) : list clause :=
  if all_space (bind c) then [BindEmpty]
  else if valid_host_port (bind c) then [] else [BindInvalid].

(* for _, quota := range {Connections, Logins} { if quota.Enabled { OPS <= 0 ; Burst < 1 ; MaxEntries < 1 } }
   ops_bad is the comparison on ops: the code's (x <= 0) or the documented one (not x > 0) *)
Definition v_quota (ops_bad : N -> bool) (q : quota) : list clause :=
  if q_enabled q then
    (if ops_bad (q_ops q) then [QuotaOps] else [])
    ++ (if (q_burst q <? 1)%Z then [QuotaBurst] else [])
    ++ (if (q_max q <? 1)%Z then [QuotaMaxEntries] else [])
  else [].

(* validateProxyProtocol: the error branch *)
Definition v_trusted (c : cfg) : list clause := if trusted_ok c then [] else [TrustedProxies].

Definition server_names (c : cfg) : list str := map fst (servers c).

(* the loop over backendFloodgate.AllowedServers with its `seen` set (java side: also "must be registered") *)
Fixpoint bf_loop (registered_lower : list str) (seen : list str) (names : list str) : list clause :=
  match names with
  | [] => []
  | n :: r =>
      if negb (valid_name n) then BFBadName :: bf_loop registered_lower seen r
      else let nl := lower_ascii n in
           if mem_str nl seen then BFDuplicate :: bf_loop registered_lower seen r
           else (if mem_str nl registered_lower then [] else [BFUnregistered])
                ++ bf_loop registered_lower (nl :: seen) r
  end.

(* validateBackendFloodgate *)
Definition v_bf (c : cfg) : list clause :=
  if negb (bf_enabled c) then [] else
    (if bedrock_enabled c then [] else [BFNeedsBedrock])
    ++ (match bf_allowed c with [] => [BFNoServers] | _ => [] end)
    ++ bf_loop (map lower_ascii (server_names c)) [] (bf_allowed c)
    ++ (if beq_bytes (fwd_mode c) s_none || beq_bytes (fwd_mode c) s_velocity then []
        else if beq_bytes (fwd_mode c) s_legacy || beq_bytes (fwd_mode c) s_bungeeguard then [BFFwdIncompatible]
        else [BFFwdUnknown])
    ++ (if bf_key_ok c then [] else [BFKey]).

(* bedrock/config validate.go, backendFloodgate part *)
Fixpoint bed_bf_loop (seen : list str) (names : list str) : list clause :=
  match names with
  | [] => []
  | n :: r =>
      if negb (valid_name n) then BedBFBadName :: bed_bf_loop seen r
      else let nl := lower_ascii n in
           if mem_str nl seen then BedBFDuplicate :: bed_bf_loop seen r
           else bed_bf_loop (nl :: seen) r
  end.

Definition v_bedrock (c : cfg) : list clause :=
  if bedrock_enabled c && bf_enabled c then
    (match bf_allowed c with [] => [BedBFNoServers] | _ => [] end) ++ bed_bf_loop [] (bf_allowed c)
  else [].

(* lite Config.Validate *)
Fixpoint v_backends (i j : N) (bs : list str) : list clause :=
  match bs with
  | [] => []
  | a :: r => (if lite_parse_fails a && negb (contains_params a) then [RouteBackendParse i j] else [])
              ++ v_backends i (N.succ j) r
  end.

Definition v_route (i : N) (r : route) : list clause :=
  (match r_hosts r with [] => [RouteNoHost i] | _ => [] end)
  ++ (match r_backends r with [] => [RouteNoBackend i] | _ => [] end)
  ++ (if negb (mem_str (r_strategy r) strategies) && negb (beq_bytes (r_strategy r) []) then [RouteStrategy i] else [])
  ++ flat_map (fun _ => v_backends i 0 (r_backends r)) (r_hosts r).

Fixpoint v_routes (i : N) (rs : list route) : list clause :=
  match rs with [] => [] | r :: rest => v_route i r ++ v_routes (N.succ i) rest end.

Definition v_lite (c : cfg) : list clause :=
  match routes c with [] => [LiteNoRoutes] | rs => v_routes 0 rs end.

(* validateVia *)
Definition v_via (c : cfg) : list clause :=
  if negb (via_enabled c) then [] else
    (if beq_bytes (via_mode c) [] || beq_bytes (via_mode c) s_embedded || beq_bytes (via_mode c) s_subprocess
     then [] else [ViaMode])
    ++ (if beq_bytes (via_bind c) [] then [] else if valid_host_port (via_bind c) then [] else [ViaBind]).

Definition fwd_known (m : str) : bool :=
  beq_bytes m s_none || beq_bytes m s_legacy || beq_bytes m s_velocity || beq_bytes m s_bungeeguard.

Definition v_fwd (c : cfg) : list clause := if fwd_known (fwd_mode c) then [] else [ForwardingMode].

Definition v_server (na : str * str) : list clause :=
  (if valid_name (fst na) then [] else [ServerName]) ++ (if valid_host_port (snd na) then [] else [ServerAddr]).

Definition v_try (c : cfg) : list clause :=
  flat_map (fun n => if mem_str n (server_names c) then [] else [TryUnknown]) (try c).

Definition v_forced (c : cfg) : list clause :=
  flat_map (fun hs => flat_map (fun n => if mem_str n (server_names c) then [] else [ForcedUnknown]) (snd hs)) (forced c).

Definition v_level (c : cfg) : list clause :=
  if ((level c <? -1) || (9 <? level c))%Z then [CompressionLevel] else [].
Definition v_threshold (c : cfg) : list clause :=
  if (threshold c <? -1)%Z then [CompressionThreshold] else [].

(* The loader lower-cases forcedHosts keys (gate.go finishConfigCandidate) and matching is documented as
   case-insensitive, so two keys that differ only in letter case cannot both be honoured: the loader keeps one of
   them, chosen by Go's random map iteration order.  The pre-fix code had no check for this (finding C37-2,
   fixed by ad3d3c8: one error per key whose lower-cased form was already seen). *)
Fixpoint nodup_str (l : list str) : bool :=
  match l with [] => true | x :: r => negb (mem_str x r) && nodup_str r end.
Definition forced_keys (c : cfg) : list str := map lower_ascii (map fst (forced c)).
Definition forced_collision (c : cfg) : bool := negb (nodup_str (forced_keys c)).
(* one error per key whose lower-cased form was seen before *)
Fixpoint dup_loop (seen l : list str) : list clause :=
  match l with
  | [] => []
  | k :: r => if mem_str k seen then ForcedCaseDup :: dup_loop seen r else dup_loop (k :: seen) r
  end.
Definition v_forced_dup (check : bool) (c : cfg) : list clause :=
  if check then dup_loop [] (forced_keys c) else [].

Definition v_classic (dupcheck : bool) (c : cfg) : list clause :=
  v_via c ++ v_fwd c ++ flat_map v_server (servers c) ++ v_try c ++ v_forced c ++ v_forced_dup dupcheck c
  ++ v_level c ++ v_threshold c.

(* java Config.Validate: errors, in order *)
Definition java_validate (ops_bad : N -> bool) (dupcheck : bool) (c : cfg) : list clause :=
  v_bind c ++ v_quota ops_bad (q_conn c) ++ v_quota ops_bad (q_login c) ++ v_trusted c ++ v_bf c
  ++ (if lite_enabled c then v_lite c else v_classic dupcheck c).

(* gate/config Config.Validate: health bind, java (prefixed), bedrock (prefixed) ; API disabled *)
Definition gen_validate (ops_bad : N -> bool) (dupcheck : bool) (c : cfg) : list clause :=
  (if health_enabled c then (if valid_host_port (health_bind c) then [] else [HealthBind]) else [])
  ++ java_validate ops_bad dupcheck c ++ v_bedrock c.

(* The code as it is now (after the fix commits d6c5881 "reject a NaN quota rate" and ad3d3c8 "reject forced host
   keys that differ only in letter case"): `!(quota.OPS > 0)` and the forcedHostKeys loop. *)
Definition impl_validate := gen_validate (fun b => negb (f32_gt_zero b)) true.
(* what the documentation demands: "use a number > 0"; forced-host keys distinct ignoring case *)
Definition spec_validate := gen_validate (fun b => negb (f32_gt_zero b)) true.

Definition validate := impl_validate.

(* PRE-FIX code (before d6c5881 / ad3d3c8), kept for the record: `quota.OPS <= 0` — false for NaN, so NaN passed
   (finding C37-1, fixed) — and no check of forced-host keys (finding C37-2, fixed). *)
Definition prefix_validate := gen_validate f32_le_zero false.

(* trigger of the fixed finding C37-1: an enabled quota whose ops is NaN *)
Definition nan_quota (c : cfg) : bool :=
  (q_enabled (q_conn c) && f32_is_nan (q_ops (q_conn c))) || (q_enabled (q_login c) && f32_is_nan (q_ops (q_login c))).

(* trigger of the fixed finding C37-2: classic mode, two forced-host keys equal ignoring case *)
Definition forced_dup_trigger (c : cfg) : bool := negb (lite_enabled c) && forced_collision c.

(* the modelled warnings (classic mode only; Lite returns before them) *)
Definition warnings (c : cfg) : list clause :=
  if lite_enabled c then [] else
    (if beq_bytes (fwd_mode c) s_none then [WForwardingNone] else [])
    ++ (match servers c with [] => [WNoServers] | _ => [] end)
    ++ (if ((level c <? -1) || (9 <? level c))%Z then [] else if (level c =? 0)%Z then [WLevelZero] else [])
    ++ (if (threshold c <? -1)%Z then [] else if (threshold c =? 0)%Z then [WThresholdZero] else []).

(* ---------------------------------------------------------------- clause ids as multisets *)
Definition clause_eqb (a b : clause) : bool :=
  match a, b with
  | HealthBind, HealthBind | BindEmpty, BindEmpty | BindInvalid, BindInvalid
  | QuotaOps, QuotaOps | QuotaBurst, QuotaBurst | QuotaMaxEntries, QuotaMaxEntries
  | TrustedProxies, TrustedProxies
  | BFNeedsBedrock, BFNeedsBedrock | BFNoServers, BFNoServers | BFBadName, BFBadName | BFDuplicate, BFDuplicate
  | BFUnregistered, BFUnregistered | BFFwdIncompatible, BFFwdIncompatible | BFFwdUnknown, BFFwdUnknown | BFKey, BFKey
  | LiteNoRoutes, LiteNoRoutes
  | ViaMode, ViaMode | ViaBind, ViaBind | ForwardingMode, ForwardingMode
  | ServerName, ServerName | ServerAddr, ServerAddr | TryUnknown, TryUnknown | ForcedUnknown, ForcedUnknown
  | ForcedCaseDup, ForcedCaseDup
  | CompressionLevel, CompressionLevel | CompressionThreshold, CompressionThreshold
  | BedBFNoServers, BedBFNoServers | BedBFBadName, BedBFBadName | BedBFDuplicate, BedBFDuplicate
  | WForwardingNone, WForwardingNone | WNoServers, WNoServers | WLevelZero, WLevelZero | WThresholdZero, WThresholdZero
  | Unmapped, Unmapped => true
  | RouteNoHost i, RouteNoHost j | RouteNoBackend i, RouteNoBackend j | RouteStrategy i, RouteStrategy j => i =? j
  | RouteBackendParse i j, RouteBackendParse i' j' => (i =? i') && (j =? j')
  | _, _ => false
  end.

Fixpoint count_clause (x : clause) (l : list clause) : nat :=
  match l with [] => 0%nat | y :: r => ((if clause_eqb x y then 1 else 0) + count_clause x r)%nat end.

(* same multiset of clause ids (order is not compared: Go iterates maps in random order) *)
Definition same_clauses (a b : list clause) : bool :=
  forallb (fun x => Nat.eqb (count_clause x a) (count_clause x b)) (a ++ b).
