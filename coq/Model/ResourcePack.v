(* C27 - model of the resource-pack handlers
   (pkg/edition/java/proxy/internal/resourcepack: handler.go, handler_legacy.go,
   handler_legacy117.go, handler_modern.go).
   Executable definitions only; proofs are in Proofs/C27*.v.

   Baseline: /repo after the `fix:` commits.  [impl_run] = the handlers as they are now = [spec_run]
   (lemma impl_is_spec); [old_run] is the pre-fix legacy code, kept for the refutation lemmas.

   Part 1: a tiny lock language.  A handler method is a program in the monad [M]; the
           primitives are [acquire]/[release] (RWMutex.Lock/Unlock), [try_rlock]/[runlock]
           (TryRLock/RUnlock), [panic], state access and [emit]; calling another method is
           monadic sequencing.  The lock is NOT re-entrant: [acquire] on a held lock has the
           outcome [Stuck] (in a sequential history the only possible owner is the calling
           goroutine itself, which then waits for itself for ever).
   Part 2: the legacy handlers written in that language with the lock nesting of today's Go
           code ([impl_*]) and with the nesting of the repaired code ([spec_*]).
   Part 3: the same state machine as a pure step function ([lstep]); Proofs/C27 shows that the
           lock-language version of [spec_*] never gets stuck and computes [lstep].
   Part 4: the modern (1.20.3+) handler, lock language and pure.
   Part 5: histories, runs and the trace predicates the theorems are about.               *)
From Coq Require Import List NArith Bool.
Import ListNotations.
Open Scope N_scope.

(* ------------------------------------------------------------------ data ---------- *)

(* packet.ResponseStatus, same numbering as the Go constants *)
Inductive status :=
| Successful | Declined | FailedDownload | Accepted | Downloaded | InvalidURL | FailedReload | Discarded.

Definition status_code (s : status) : N :=
  match s with
  | Successful => 0 | Declined => 1 | FailedDownload => 2 | Accepted => 3
  | Downloaded => 4 | InvalidURL => 5 | FailedReload => 6 | Discarded => 7
  end.
Definition status_eqb (a b : status) : bool := status_code a =? status_code b.

(* ResponseStatus.Intermediate *)
Definition intermediate (s : status) : bool :=
  match s with Accepted | Downloaded => true | _ => false end.

(* resourcepack.Info: [uid] is the serial number of the queue operation that created the pack
   (the harness puts it into the URL), [pid] stands for Info.ID (0 is uuid.Nil), [phash] for
   Info.Hash (0 is "no hash"), [backend] for Origin == DownstreamServerOrigin. *)
Record pack := mkPack { uid : N; pid : N; phash : N; force : bool; backend : bool }.

(* resourcepack.ResponseBundle *)
Record bundle := mkBundle { bid : N; bhash : N; bstatus : status }.

Inductive op :=
| Queue (id hash : N) (forced from_backend : bool)   (* Handler.QueueResourcePack *)
| Response (b : bundle)                              (* Handler.OnResourcePackResponse *)
| Remove (id : N)                                    (* Handler.Remove *)
| Clear.                                             (* Handler.ClearAppliedResourcePacks *)

(* What a call makes visible.  OReq / ORep are packets; GAuto / GOwn are ghost marks that the
   theorems use and that are erased before comparing with the implementation. *)
Inductive event :=
| OReq (u id hash : N) (forced : bool)     (* ResourcePackRequest written to the player *)
| ORep (id hash : N) (s : status)          (* ResourcePackResponse written to the backend *)
| GAuto (p : pack)                         (* ghost: tick declines p on the client's behalf *)
| GOwn (q : option pack) (b : bundle).     (* ghost: the client's response b is matched with q *)

Definition is_ghost (e : event) : bool :=
  match e with GAuto _ | GOwn _ _ => true | _ => false end.
Definition obs (es : list event) : list event := filter (fun e => negb (is_ghost e)) es.

Inductive ret :=
| RUnit                 (* returned (nil error) *)
| RHandled (b : bool)   (* OnResourcePackResponse returned (b, nil) *)
| RBool (b : bool)      (* Remove returned b *)
| RPanic                (* the call panicked *)
| RStuck                (* the call did not return *)
| RErr                  (* the call returned a non-nil error (the recording connections never fail) *)
| ROutOfFuel.           (* model artefact, excluded by the theorems *)

Definition req (p : pack) : event := OReq (uid p) (pid p) (phash p) (force p).
Definition decline_bundle (p : pack) : bundle := mkBundle (pid p) (phash p) Declined.

(* environment of one handler instance *)
Record env := mkEnv { is117 : bool;      (* player.Protocol() >= 1.17 *)
                      has_be : bool }.   (* player.BackendInFlight() != nil *)

(* which of the repairs of c3c83c0 are present (all true = the code as it is now; all false = pre-fix) *)
Record cfg := mkCfg { nullable : bool;   (* prevResourceResponse is a nullable instead of a bool *)
                      nilguard : bool }. (* a response with an empty queue is tolerated *)
Definition spec_cfg := mkCfg true true.
Definition impl_cfg := mkCfg true true.     (* today's code *)
Definition old_cfg := mkCfg false false.    (* pre-fix code *)

(* ------------------------------------------------------- Part 1: lock language ---------- *)

Inductive lock := Free | WLocked | RLocked (n : nat).

Section Lang.
  Variable S : Type.

  Record world := mkW { lk : lock; st : S; evs : list event }.

  Inductive outcome (A : Type) :=
  | Done (a : A) (w : world)
  | Stuck (w : world)        (* waits for a lock its own goroutine holds *)
  | Panicked (w : world)
  | OutOfFuel.
  Arguments Done {A}. Arguments Stuck {A}. Arguments Panicked {A}. Arguments OutOfFuel {A}.

  Definition M (A : Type) := world -> outcome A.

  Definition ret_ {A} (a : A) : M A := fun w => Done a w.
  Definition bind {A B} (m : M A) (k : A -> M B) : M B :=
    fun w => match m w with
             | Done a w' => k a w'
             | Stuck w' => Stuck w'
             | Panicked w' => Panicked w'
             | OutOfFuel => OutOfFuel
             end.

  (* RWMutex.Lock *)
  Definition acquire : M unit :=
    fun w => match lk w with
             | Free => Done tt (mkW WLocked (st w) (evs w))
             | _ => Stuck w
             end.
  (* RWMutex.Unlock (unlocking a mutex that is not write-locked is a fatal error in Go) *)
  Definition release : M unit :=
    fun w => match lk w with
             | WLocked => Done tt (mkW Free (st w) (evs w))
             | _ => Panicked w
             end.
  (* RWMutex.TryRLock *)
  Definition try_rlock : M bool :=
    fun w => match lk w with
             | Free => Done true (mkW (RLocked 1%nat) (st w) (evs w))
             | RLocked n => Done true (mkW (RLocked (Datatypes.S n)) (st w) (evs w))
             | WLocked => Done false w
             end.
  (* RWMutex.RUnlock *)
  Definition runlock : M unit :=
    fun w => match lk w with
             | RLocked (Datatypes.S O) => Done tt (mkW Free (st w) (evs w))
             | RLocked (Datatypes.S n) => Done tt (mkW (RLocked n) (st w) (evs w))
             | _ => Panicked w
             end.
  Definition panic {A} : M A := fun w => Panicked w.
  Definition out_of_fuel {A} : M A := fun _ => OutOfFuel.
  Definition get : M S := fun w => Done (st w) w.
  Definition put (s : S) : M unit := fun w => Done tt (mkW (lk w) s (evs w)).
  Definition emit (e : event) : M unit := fun w => Done tt (mkW (lk w) (st w) (evs w ++ [e])).
  Definition emits (es : list event) : M unit := fun w => Done tt (mkW (lk w) (st w) (evs w ++ es)).

  (* h.Lock(); defer h.Unlock(); body  -- the deferred unlock also runs when body panics *)
  Definition locked_defer {A} (body : M A) : M A :=
    fun w => match acquire w with
             | Done _ w1 =>
               match body w1 with
               | Done a w2 => match release w2 with
                              | Done _ w3 => Done a w3
                              | Stuck w3 => Stuck w3
                              | Panicked w3 => Panicked w3
                              | OutOfFuel => OutOfFuel
                              end
               | Panicked w2 => match release w2 with
                                | Done _ w3 => Panicked w3
                                | _ => Panicked w2
                                end
               | Stuck w2 => Stuck w2
               | OutOfFuel => OutOfFuel
               end
             | Stuck w1 => Stuck w1
             | Panicked w1 => Panicked w1
             | OutOfFuel => OutOfFuel
             end.
End Lang.

Arguments Done {S A}. Arguments Stuck {S A}. Arguments Panicked {S A}. Arguments OutOfFuel {S A}.
Arguments mkW {S}. Arguments lk {S}. Arguments st {S}. Arguments evs {S}.
Arguments ret_ {S A}. Arguments bind {S A B}. Arguments acquire {S}. Arguments release {S}.
Arguments try_rlock {S}. Arguments runlock {S}. Arguments panic {S A}. Arguments out_of_fuel {S A}.
Arguments get {S}. Arguments put {S}. Arguments emit {S}. Arguments emits {S}.
Arguments locked_defer {S A}.

Module LangNotations.
Notation "x <- m ;; k" := (bind m (fun x => k)) (at level 61, m at next level, right associativity).
Notation "m ;;; k" := (bind m (fun _ => k)) (at level 61, right associativity).
End LangNotations.
Import LangNotations.

(* ------------------------------------------------------- Part 2: legacy handlers ---------- *)

(* legacyHandler fields.  prevResourceResponse: today's code has a bool that starts false, which
   is [Some false]; the repaired code has a nullable that starts [None]. *)
Record lstate := mkL { l_next : N;                 (* serial number of the next queued pack *)
                       l_prev : option bool;
                       l_queue : list pack;        (* outstandingPacks *)
                       l_pending : option pack;
                       l_applied : option pack }.

Definition l_init (c : cfg) : lstate :=
  mkL 0 (if nullable c then None else Some false) [] None None.

Definition prev_declined (s : lstate) : bool :=
  match l_prev s with Some false => true | _ => false end.

Definition set_queue (s : lstate) (q : list pack) : lstate :=
  mkL (l_next s) (l_prev s) q (l_pending s) (l_applied s).

(* the switch on bundle.Status in onResourcePackResponse *)
Definition apply_status (s : lstate) (queued : option pack) (x : status) : lstate :=
  match x with
  | Accepted => mkL (l_next s) (Some true) (l_queue s) queued (l_applied s)
  | Declined => mkL (l_next s) (Some false) (l_queue s) (l_pending s) (l_applied s)
  | Successful => mkL (l_next s) (l_prev s) (l_queue s) None queued
  | FailedDownload => mkL (l_next s) (l_prev s) (l_queue s) None (l_applied s)
  | Discarded =>
    match queued, l_applied s with
    | Some q, Some a =>
      if negb (pid q =? 0) && (pid a =? pid q)
      then mkL (l_next s) (l_prev s) (l_queue s) (l_pending s) None
      else s
    | _, _ => s
    end
  | _ => s
  end.

(* handleResponseResult (handler.go): handled = queued != nil && queued.Origin == PluginOnProxyOrigin;
   otherwise the response goes to the in-flight backend, if there is one *)
Definition handled_of (q : option pack) : bool :=
  match q with Some p => negb (backend p) | None => false end.
Definition report_events (e : env) (q : option pack) (b : bundle) : list event :=
  if handled_of q then [] else if has_be e then [ORep (bid b) (bhash b) (bstatus b)] else [].

Definition m_handle_result {S} (e : env) (q : option pack) (b : bundle) : M S bool :=
  emits (report_events e q b) ;;; ret_ (handled_of q).

(* sendResourcePackRequestPacket *)
Definition m_send {S} (p : pack) : M S unit := emit (req p).

Definition push_pack (s : lstate) (id hash : N) (f be : bool) : lstate :=
  mkL (l_next s + 1) (l_prev s) (l_queue s ++ [mkPack (l_next s) id hash f be]) (l_pending s) (l_applied s).

(* body of onResourcePackResponse between taking the lock and returning; [tickf] is what
   "err = h.tickResourcePackQueue()" does, [ghost] marks who answered *)
Definition on_response_body (e : env) (c : cfg) (tickf : M lstate unit)
           (ghost : option pack -> event) (b : bundle) : M lstate bool :=
  s <- get ;;
  match l_queue s, nilguard c with
  | [], false => panic      (* Front() gives nil and *queued is dereferenced / PopFront panics *)
  | _, _ =>
    let peek := intermediate (bstatus b) in
    let queued := hd_error (l_queue s) in
    (if peek then ret_ tt else put (set_queue s (tl (l_queue s)))) ;;;
    s1 <- get ;;
    put (apply_status s1 queued (bstatus b)) ;;;
    (if peek then ret_ tt else tickf) ;;;
    emit (ghost queued) ;;;
    m_handle_result e queued b
  end.

(* the loop "for h.outstandingPacks.Len() > 0 { ... }" of tickResourcePackQueue and what follows it;
   [respond] is the call h.OnResourcePackResponse(resBundle); fuel bounds the iterations *)
Fixpoint tick_loop (fuel : nat) (e : env) (respond : bundle -> M lstate bool) : M lstate unit :=
  s <- get ;;
  match l_queue s with
  | [] => ret_ tt                                   (* queued == nil: the queue was cleared *)
  | p :: _ =>
    if force p && is117 e then m_send p             (* break; then send *)
    else match fuel with
         | O => out_of_fuel
         | Datatypes.S f => respond (decline_bundle p) ;;; tick_loop f e respond
         end
  end.

(* body of tickResourcePackQueue between taking the lock and returning *)
Definition tick_body (fuel : nat) (e : env) (respond : bundle -> M lstate bool) : M lstate unit :=
  s <- get ;;
  match l_queue s with
  | [] => ret_ tt
  | q :: _ => if prev_declined s then tick_loop fuel e respond else m_send q
  end.

(* --- PRE-FIX code (before c3c83c0): tickResourcePackQueue and onResourcePackResponse both take h.Lock()
       themselves and call each other; QueueResourcePack calls tick with the lock held --- *)
Fixpoint old_pair (fuel : nat) (e : env) (c : cfg) : (bundle -> M lstate bool) * M lstate unit :=
  match fuel with
  | O => (fun _ => out_of_fuel, out_of_fuel)
  | Datatypes.S f =>
    let '(resp, tick) := old_pair f e c in
    ((fun b => locked_defer (on_response_body e c tick (fun q => GOwn q b) b)),   (* onResourcePackResponse *)
     locked_defer (tick_body fuel e resp))                                        (* tickResourcePackQueue *)
  end.
Definition old_fuel (s : lstate) : nat := (4 + 2 * length (l_queue s))%nat.
Definition old_on_response (e : env) (c : cfg) (b : bundle) : M lstate bool :=
  s <- get ;; fst (old_pair (old_fuel s) e c) b.
Definition old_tick (e : env) (c : cfg) : M lstate unit :=
  s <- get ;; snd (old_pair (old_fuel s) e c).
(* QueueResourcePack: Lock, defer Unlock, PushBack, if Len()==1 tick *)
Definition old_queue (e : env) (c : cfg) (id hash : N) (f be : bool) : M lstate unit :=
  locked_defer (
    s <- get ;;
    put (push_pack s id hash f be) ;;;
    s1 <- get ;;
    if Nat.eqb (length (l_queue s1)) 1 then old_tick e c else ret_ tt).

(* --- the code as it is now (fix commit c3c83c0): the public methods take the lock once; the *Locked
       variants do not; the declines made by tick do not tick again --- *)
Definition spec_on_response_locked (e : env) (c : cfg) (tickf : M lstate unit)
           (ghost : option pack -> event) (b : bundle) : M lstate bool :=
  on_response_body e c tickf ghost b.
Definition spec_tick_locked (e : env) (c : cfg) : M lstate unit :=
  s <- get ;;
  tick_body (length (l_queue s)) e (fun b => spec_on_response_locked e c (ret_ tt) (fun q => match q with Some p => GAuto p | None => GOwn q b end) b).
Definition spec_on_response (e : env) (c : cfg) (b : bundle) : M lstate bool :=
  locked_defer (spec_on_response_locked e c (spec_tick_locked e c) (fun q => GOwn q b) b).
Definition spec_queue (e : env) (c : cfg) (id hash : N) (f be : bool) : M lstate unit :=
  locked_defer (
    s <- get ;;
    put (push_pack s id hash f be) ;;;
    s1 <- get ;;
    if Nat.eqb (length (l_queue s1)) 1 then spec_tick_locked e c else ret_ tt).

(* ClearAppliedResourcePacks: Lock, defer Unlock, appliedPack = nil (same in both) *)
Definition l_clear : M lstate unit :=
  locked_defer (s <- get ;; put (mkL (l_next s) (l_prev s) (l_queue s) (l_pending s) None)).
(* Remove: panics "Cannot remove a ResourcePack from a legacy client" (same in both) *)
Definition l_remove : M lstate bool := panic.

Inductive nesting := OldNesting | CurrentNesting.

Definition l_exec (n : nesting) (e : env) (c : cfg) (o : op) : M lstate ret :=
  match o with
  | Queue id hash f be =>
    (match n with OldNesting => old_queue e c id hash f be | CurrentNesting => spec_queue e c id hash f be end) ;;; ret_ RUnit
  | Response b =>
    h <- (match n with OldNesting => old_on_response e c b | CurrentNesting => spec_on_response e c b end) ;; ret_ (RHandled h)
  | Remove _ => b <- l_remove ;; ret_ (RBool b)
  | Clear => l_clear ;;; ret_ RUnit
  end.

(* ------------------------------------------------------- Part 3: legacy, pure ---------- *)

(* the packs tick declines on the client's behalf: everything up to the first pack that is
   forced on a 1.17+ client *)
Fixpoint flush (e : env) (q : list pack) : list event * list pack :=
  match q with
  | [] => ([], [])
  | p :: t =>
    if force p && is117 e then ([], q)
    else let '(es, r) := flush e t in
         (GAuto p :: report_events e (Some p) (decline_bundle p) ++ es, r)
  end.

Definition tick (e : env) (s : lstate) : lstate * list event :=
  match l_queue s with
  | [] => (s, [])
  | q :: _ =>
    if prev_declined s then
      let '(es, r) := flush e (l_queue s) in
      (set_queue s r, es ++ match r with [] => [] | f :: _ => [req f] end)
    else (s, [req q])
  end.

(* onResourcePackResponse when it does not panic *)
Definition lresp (e : env) (s : lstate) (b : bundle) : lstate * list event * ret :=
  let peek := intermediate (bstatus b) in
  let queued := hd_error (l_queue s) in
  let s1 := if peek then s else set_queue s (tl (l_queue s)) in
  let s2 := apply_status s1 queued (bstatus b) in
  let '(s3, es) := if peek then (s2, []) else tick e s2 in
  (s3, es ++ GOwn queued b :: report_events e queued b, RHandled (handled_of queued)).

Definition lstep (e : env) (c : cfg) (s : lstate) (o : op) : lstate * list event * ret :=
  match o with
  | Queue id hash f be =>
    let s1 := push_pack s id hash f be in
    if Nat.eqb (length (l_queue s1)) 1
    then let '(s2, es) := tick e s1 in (s2, es, RUnit)
    else (s1, [], RUnit)
  | Response b =>
    match l_queue s, nilguard c with
    | [], false => (s, [], RPanic)
    | _, _ => lresp e s b
    end
  | Remove _ => (s, [], RPanic)
  | Clear => (mkL (l_next s) (l_prev s) (l_queue s) (l_pending s) None, [], RUnit)
  end.

(* ------------------------------------------------------- Part 4: modern handler ---------- *)

(* association lists sorted by key: map[uuid.UUID]*Info and the multimap *)
Section Assoc.
  Variable V : Type.
  Fixpoint aget (k : N) (m : list (N * V)) : option V :=
    match m with
    | [] => None
    | (k', v) :: r => if k' =? k then Some v else aget k r
    end.
  Fixpoint aset (k : N) (v : V) (m : list (N * V)) : list (N * V) :=
    match m with
    | [] => [(k, v)]
    | (k', v') :: r =>
      if k =? k' then (k, v) :: r
      else if k <? k' then (k, v) :: m
      else (k', v') :: aset k v r
    end.
  Fixpoint adel (k : N) (m : list (N * V)) : list (N * V) :=
    match m with
    | [] => []
    | (k', v') :: r => if k' =? k then adel k r else (k', v') :: adel k r
    end.
End Assoc.
Arguments aget {V}. Arguments aset {V}. Arguments adel {V}.

Record mstate := mkMS { m_next : N;
                        m_out : list (N * list pack);     (* outstandingPacks: multimap id -> slice *)
                        m_pending : list (N * pack);
                        m_applied : list (N * pack) }.
Definition m_init : mstate := mkMS 0 [] [] [].

Definition mget (k : N) (m : list (N * list pack)) : list pack :=
  match aget k m with Some l => l | None => [] end.

(* valuesSlice.Remove of the element at index 0: the last element is moved into its place *)
Definition swap_remove_first (l : list pack) : list pack :=
  match l with
  | [] => []
  | _ :: t => match rev t with
              | [] => []
              | lst :: rt => lst :: rev rt
              end
  end.
(* mapMultiMap.Remove(id, first value): the key disappears with its last value *)
Definition mremove_first (k : N) (m : list (N * list pack)) : list (N * list pack) :=
  match swap_remove_first (mget k m) with
  | [] => adel k m
  | l => aset k l m
  end.

Definition opt_set {V} (k : N) (v : option V) (m : list (N * V)) : list (N * V) :=
  match v with Some x => aset k x m | None => m end.

(* the switch on bundle.Status of modernHandler.OnResourcePackResponse; the result [Some a] is the
   early return "return m.HandleResponseResult(appliedPack, bundle)" *)
Definition m_apply_status (s : mstate) (queued : option pack) (id : N) (x : status) : mstate * option pack :=
  match x with
  | Accepted => (mkMS (m_next s) (m_out s) (opt_set id queued (m_pending s)) (m_applied s), None)
  | Successful =>
    let s1 := mkMS (m_next s) (m_out s) (adel id (m_pending s)) (m_applied s) in
    match queued with
    | Some q => (mkMS (m_next s1) (m_out s1) (m_pending s1) (aset id q (m_applied s1)), None)
    | None => (s1, aget id (m_applied s1))
    end
  | Discarded => (mkMS (m_next s) (m_out s) (adel id (m_pending s)) (adel id (m_applied s)), None)
  | _ => (s, None)
  end.

(* tickResourcePackQueue(id): TryRLock, read, RUnlock if it was taken, send the first pack of id *)
Definition mod_tick (id : N) : M mstate unit :=
  locked <- try_rlock ;;
  s <- get ;;
  match mget id (m_out s) with
  | p :: _ => (if locked then runlock else ret_ tt) ;;; m_send p
  | [] => (if locked then runlock else ret_ tt)
  end.

(* QueueResourcePack: Lock; Put; if Count(id)==1 { Unlock; tick(id) } else Unlock *)
Definition mod_queue (id hash : N) (f be : bool) : M mstate unit :=
  acquire ;;;
  s <- get ;;
  let p := mkPack (m_next s) id hash f be in
  let l := mget id (m_out s) ++ [p] in
  put (mkMS (m_next s + 1) (aset id l (m_out s)) (m_pending s) (m_applied s)) ;;;
  if Nat.eqb (length l) 1 then release ;;; mod_tick id else release.

(* OnResourcePackResponse: Lock; defer Unlock; ... *)
Definition mod_on_response (e : env) (b : bundle) : M mstate bool :=
  locked_defer (
    s <- get ;;
    let id := bid b in
    let peek := intermediate (bstatus b) in
    let queued := hd_error (mget id (m_out s)) in
    (match queued with
     | Some _ => if peek then ret_ tt
                 else put (mkMS (m_next s) (mremove_first id (m_out s)) (m_pending s) (m_applied s))
     | None => ret_ tt
     end) ;;;
    s1 <- get ;;
    let '(s2, early) := m_apply_status s1 queued id (bstatus b) in
    put s2 ;;;
    match early with
    | Some a => emit (GOwn (Some a) b) ;;; m_handle_result e (Some a) b
    | None =>
      (if peek then ret_ tt else mod_tick id) ;;;
      emit (GOwn queued b) ;;;
      m_handle_result e queued b
    end).

(* Remove: Lock; defer Unlock; RemoveAll(id); delete applied/pending *)
Definition mod_remove (id : N) : M mstate bool :=
  locked_defer (
    s <- get ;;
    let ok := match aget id (m_applied s), aget id (m_pending s) with None, None => false | _, _ => true end in
    put (mkMS (m_next s) (adel id (m_out s)) (adel id (m_pending s)) (adel id (m_applied s))) ;;;
    ret_ ok).

(* ClearAppliedResourcePacks: all three collections are replaced by empty ones *)
Definition mod_clear : M mstate unit :=
  locked_defer (s <- get ;; put (mkMS (m_next s) [] [] [])).

Definition m_exec (e : env) (o : op) : M mstate ret :=
  match o with
  | Queue id hash f be => mod_queue id hash f be ;;; ret_ RUnit
  | Response b => h <- mod_on_response e b ;; ret_ (RHandled h)
  | Remove id => b <- mod_remove id ;; ret_ (RBool b)
  | Clear => mod_clear ;;; ret_ RUnit
  end.

(* the same handler as a pure step function *)
Definition mstep (e : env) (s : mstate) (o : op) : mstate * list event * ret :=
  match o with
  | Queue id hash f be =>
    let p := mkPack (m_next s) id hash f be in
    let l := mget id (m_out s) ++ [p] in
    let s1 := mkMS (m_next s + 1) (aset id l (m_out s)) (m_pending s) (m_applied s) in
    (s1, if Nat.eqb (length l) 1 then [req p] else [], RUnit)
  | Response b =>
    let id := bid b in
    let peek := intermediate (bstatus b) in
    let queued := hd_error (mget id (m_out s)) in
    let s1 := match queued with
              | Some _ => if peek then s else mkMS (m_next s) (mremove_first id (m_out s)) (m_pending s) (m_applied s)
              | None => s
              end in
    let '(s2, early) := m_apply_status s1 queued id (bstatus b) in
    match early with
    | Some a => (s2, GOwn (Some a) b :: report_events e (Some a) b, RHandled (handled_of (Some a)))
    | None =>
      let tk := if peek then [] else match mget id (m_out s2) with p :: _ => [req p] | [] => [] end in
      (s2, tk ++ GOwn queued b :: report_events e queued b, RHandled (handled_of queued))
    end
  | Remove id =>
    let ok := match aget id (m_applied s), aget id (m_pending s) with None, None => false | _, _ => true end in
    (mkMS (m_next s) (adel id (m_out s)) (adel id (m_pending s)) (adel id (m_applied s)), [], RBool ok)
  | Clear => (mkMS (m_next s) [] [] [], [], RUnit)
  end.

(* ------------------------------------------------------- Part 5: histories ---------- *)

(* what is recorded for one call: events, result, then AppliedResourcePacks() and
   PendingResourcePacks() as (id, serial) pairs sorted by id (empty after a call that got stuck) *)
Record step := mkStep { s_events : list event; s_ret : ret;
                        s_applied : list (N * N); s_pending : list (N * N) }.

Definition proj_opt (p : option pack) : list (N * N) :=
  match p with Some x => [(pid x, uid x)] | None => [] end.
Definition proj_map (m : list (N * pack)) : list (N * N) := map (fun kv => (fst kv, uid (snd kv))) m.

(* NewHandler: below 1.17 (protocol 755) legacy, below 1.20.3 (765) legacy117, else modern *)
Inductive family := Legacy | Legacy117 | Modern.
Definition family_of (proto : N) : family :=
  if proto <? 755 then Legacy else if proto <? 765 then Legacy117 else Modern.
Definition env_of (proto : N) (hb : bool) : env := mkEnv (755 <=? proto) hb.

(* run of a history through handlers written in the lock language; stops after a stuck call
   (the goroutine keeps the lock for ever; the harness abandons the instance) *)
Section RunLang.
  Variable S : Type.
  Variable exec : op -> M S ret.
  Variable papp ppend : S -> list (N * N).
  Fixpoint run_lang (l : lock) (s : S) (h : list op) : list step :=
    match h with
    | [] => []
    | o :: r =>
      match exec o (mkW l s []) with
      | Done a w => mkStep (evs w) a (papp (st w)) (ppend (st w)) :: run_lang (lk w) (st w) r
      | Panicked w => mkStep (evs w) RPanic (papp (st w)) (ppend (st w)) :: run_lang (lk w) (st w) r
      | Stuck w => [mkStep (evs w) RStuck [] []]
      | OutOfFuel => [mkStep [] ROutOfFuel [] []]
      end
    end.
End RunLang.
Arguments run_lang {S}.

Definition l_papp (s : lstate) := proj_opt (l_applied s).
Definition l_ppend (s : lstate) := proj_opt (l_pending s).
Definition m_papp (s : mstate) := proj_map (m_applied s).
Definition m_ppend (s : mstate) := proj_map (m_pending s).

Definition run_legacy (n : nesting) (e : env) (c : cfg) (h : list op) : list step :=
  run_lang (l_exec n e c) l_papp l_ppend Free (l_init c) h.
Definition run_modern (e : env) (h : list op) : list step :=
  run_lang (m_exec e) m_papp m_ppend Free m_init h.

(* the model of the handler NewHandler returns for a player of this protocol *)
Definition run_handler (n : nesting) (c : cfg) (proto : N) (hb : bool) (h : list op) : list step :=
  match family_of proto with
  | Modern => run_modern (env_of proto hb) h
  | _ => run_legacy n (env_of proto hb) c h
  end.
Definition spec_run := run_handler CurrentNesting spec_cfg.   (* what the property demands *)
Definition impl_run := run_handler CurrentNesting impl_cfg.   (* the code as it is now *)
Definition old_run := run_handler OldNesting old_cfg.         (* the legacy handlers before fix commit c3c83c0 *)

(* pure runs *)
Fixpoint run_lpure (e : env) (c : cfg) (s : lstate) (h : list op) : list step :=
  match h with
  | [] => []
  | o :: r => let '(s', es, a) := lstep e c s o in
              mkStep es a (l_papp s') (l_ppend s') :: run_lpure e c s' r
  end.
Fixpoint run_mpure (e : env) (s : mstate) (h : list op) : list step :=
  match h with
  | [] => []
  | o :: r => let '(s', es, a) := mstep e s o in
              mkStep es a (m_papp s') (m_ppend s') :: run_mpure e s' r
  end.

(* ---------- trace predicates (over the operations and what each call made visible) ---------- *)

Definition is_final_response (o : op) : bool :=
  match o with Response b => negb (intermediate (bstatus b)) | _ => false end.
Definition count_reqs (es : list event) : N :=
  N.of_nat (length (filter (fun e => match e with OReq _ _ _ _ => true | _ => false end) es)).

(* prompts the client has not answered yet: a final response answers one, every request adds one *)
Definition out_step (c : N) (o : op) (es : list event) : N :=
  (if is_final_response o then N.pred c else c) + count_reqs es.
Fixpoint outstanding (c : N) (h : list op) (t : list step) : list N :=
  match h, t with
  | o :: h', x :: t' => let c' := out_step c o (s_events x) in c' :: outstanding c' h' t'
  | _, _ => []
  end.

Definition prompt_uids (es : list event) : list N :=
  flat_map (fun e => match e with OReq u _ _ _ => [u] | _ => [] end) es.
Definition all_events (t : list step) : list event := flat_map s_events t.

Fixpoint increasing (l : list N) : bool :=
  match l with
  | a :: ((b :: _) as r) => (a <? b) && increasing r
  | _ => true
  end.

(* the client's last accept / decline decision in a history *)
Fixpoint last_decision (acc : option bool) (h : list op) : option bool :=
  match h with
  | [] => acc
  | Response b :: r =>
    last_decision (match bstatus b with Accepted => Some true | Declined => Some false | _ => acc end) r
  | _ :: r => last_decision acc r
  end.

Definition reports (es : list event) : list event :=
  filter (fun e => match e with ORep _ _ _ => true | _ => false end) es.
(* what the backend must be told about one resolution *)
Definition expected_report (hb : bool) (e : event) : list event :=
  match e with
  | GAuto p => if hb && backend p then [ORep (pid p) (phash p) Declined] else []
  | GOwn q b => if hb && match q with Some p => backend p | None => true end
                then [ORep (bid b) (bhash b) (bstatus b)] else []
  | _ => []
  end.

(* per-id version for the modern handler: Remove(id) and Clear withdraw the prompts of that id / of all ids *)
Definition count_reqs_id (id : N) (es : list event) : N :=
  N.of_nat (length (filter (fun e => match e with OReq _ i _ _ => i =? id | _ => false end) es)).
Definition out_step_id (id : N) (c : N) (o : op) (es : list event) : N :=
  match o with
  | Remove i => if i =? id then 0 else c
  | Clear => 0
  | Response b => (if negb (intermediate (bstatus b)) && (bid b =? id) then N.pred c else c) + count_reqs_id id es
  | Queue _ _ _ _ => c + count_reqs_id id es
  end.
Fixpoint outstanding_id (id : N) (c : N) (h : list op) (t : list step) : list N :=
  match h, t with
  | o :: h', x :: t' => let c' := out_step_id id c o (s_events x) in c' :: outstanding_id id c' h' t'
  | _, _ => []
  end.
Definition ids_of (h : list op) : list N :=
  flat_map (fun o => match o with Queue i _ _ _ => [i] | Response b => [bid b] | Remove i => [i] | Clear => [] end) h.

(* a pack queued while no prompt is outstanding must be prompted at once, unless the client's last
   decision was a decline and the pack is not one that is forced on a 1.17+ client *)
Fixpoint idle_queue_prompted (e : env) (c : N) (dec : option bool) (h : list op) (t : list step) : bool :=
  match h, t with
  | o :: h', x :: t' =>
    let ok := match o with
              | Queue _ _ f _ =>
                if (c =? 0) && (negb (match dec with Some false => true | _ => false end) || (f && is117 e))
                then count_reqs (s_events x) =? 1 else true
              | _ => true
              end in
    ok && idle_queue_prompted e (out_step c o (s_events x)) (last_decision dec [o]) h' t'
  | _, _ => true
  end.

Definition last_is (es : list event) (x : event -> bool) : bool :=
  match rev es with e :: _ => x e | [] => false end.
Definition is_rep_of (b : bundle) (e : event) : bool :=
  match e with ORep i h s => (i =? bid b) && (h =? bhash b) && status_eqb s (bstatus b) | _ => false end.

(* a response the handler did not swallow (handled = false) is passed to the backend, last *)
Fixpoint unhandled_reported (hb : bool) (h : list op) (t : list step) : bool :=
  match h, t with
  | o :: h', x :: t' =>
    (match o, s_ret x with
     | Response b, RHandled false => if hb then last_is (obs (s_events x)) (is_rep_of b) else true
     | _, _ => true
     end) && unhandled_reported hb h' t'
  | _, _ => true
  end.

(* calls return: nothing stuck, no panic except the documented one of Remove on a legacy client *)
Fixpoint all_return (legacy : bool) (h : list op) (t : list step) : bool :=
  match h, t with
  | o :: h', x :: t' =>
    (match s_ret x, o with
     | RStuck, _ | ROutOfFuel, _ | RErr, _ => false
     | RPanic, Remove _ => legacy
     | RPanic, _ => false
     | _, _ => true
     end) && all_return legacy h' t'
  | [], [] => true
  | _, _ => false          (* a call is missing from the record *)
  end.

(* per-id tracking (modern): after Remove(id) the id is neither applied nor pending, after Clear nothing is *)
Fixpoint removed_gone (h : list op) (t : list step) : bool :=
  match h, t with
  | o :: h', x :: t' =>
    (match o, s_ret x with
     | Remove id, RBool _ => negb (existsb (N.eqb id) (map fst (s_applied x)))
                             && negb (existsb (N.eqb id) (map fst (s_pending x)))
     | Clear, RUnit => match s_applied x, s_pending x with [], [] => true | _, _ => false end
     | _, _ => true
     end) && removed_gone h' t'
  | _, _ => true
  end.

(* the property's predicate on one recorded run *)
Definition holds_P (proto : N) (hb : bool) (h : list op) (t : list step) : bool :=
  match family_of proto with
  | Modern =>
    all_return false h t
    && forallb (fun id => forallb (fun c => c <=? 1) (outstanding_id id 0 h t)) (ids_of h)
    && unhandled_reported hb h t
    && removed_gone h t
  | _ =>
    all_return true h t
    && forallb (fun c => c <=? 1) (outstanding 0 h t)
    && increasing (prompt_uids (all_events t))
    && idle_queue_prompted (env_of proto hb) 0 None h t
    && unhandled_reported hb h t
  end.
