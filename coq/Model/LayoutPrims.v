(* Concrete, executable primitive family for the layout language (C04 / C05 / C07).

   Each primitive mirrors a pair of functions in pkg/edition/java/proto/util (writer.go / reader.go).
   The READ side is modelled at the level the callers rely on: a field that needs k more bytes than
   the payload holds is an error (io.ReadFull semantics).  Where the real reader deviates from that
   on malformed input (reader.Read zero-padding, C03's findings) is C03's subject; on the encoder's own
   output - the only inputs C04 and C07 decode - both agree, except for the two cases modelled
   that used to be modelled explicitly and are repaired in the code now (fix commits 6e760d1, 4d8a5a4):
   1.7 arrays carry the two-byte "extended short" ([PBytes17] = today's code = the vanilla / Forge format;
   [PBytes17Old] keeps the PRE-FIX one-byte form for the lemmas about the old code), and an empty byte
   array at the very end of a payload is read like any other.

   Independent of Model/Prim.v (C03) on purpose: that file is being written concurrently; only
   Base/VarInt.v is shared. *)
From Coq Require Import List NArith ZArith Bool.
From Verif Require Import Base.Hex Model.Layout.
From Verif Require Base.VarInt.
Import ListNotations.
Open Scope Z_scope.

Inductive lprim :=
| PVarInt                      (* util.WriteVarInt / ReadVarInt : AZ, int32 *)
| PBool                        (* util.WriteBool / ReadBool : ABool *)
| PInt (w : nat) (sg : bool)   (* WriteUint8/16/32/64, WriteInt*, WriteFloat* (bit pattern): w bytes big endian; sg = reader returns a signed value *)
| PString (max : Z)            (* WriteString / ReadStringMax(max): VarInt length + bytes; reader rejects length > 4*max *)
| PBytes (max : Z)             (* WriteBytes / ReadBytesLen(max) *)
| PUUID                        (* WriteUUID / ReadUUID, also WriteUUID / ReadUUIDIntArray (same 16 bytes) *)
| PFixed (n : nat)             (* exactly n raw bytes (message signatures: 256, last-seen bitset: 3) *)
| PBytes17                     (* WriteBytes17 / ReadBytes17: two-byte short length (Forge: third byte when bit 15 is set); the allowExtended
                                  argument only changes which lengths the writer refuses (refused values never reach a decoder) *)
| PBytes17Old                  (* PRE-FIX (before 6e760d1) WriteBytes17 / ReadBytes17: ONE length byte - kept for the lemmas about the old code *)
| PUUIDStr (dashed : bool)     (* ServerLoginSuccess < 1.16: WriteString(uuid.String() / Undashed()), uuid.Parse(ReadStringMax(36/32)) *)
| PKey                         (* WriteKey / ReadKey: validated "namespace:value" string; atom = the key's String() *)
| PNbt.                        (* util.WriteBinaryTag / ReadBinaryTag for protocol >= 1.20.2: one NAMELESS NBT tag (type byte + payload);
                                  the atom is the tag's wire form (chat components travel like this from 1.20.3 on) *)

Definition lprim_eqb (a b : lprim) : bool :=
  match a, b with
  | PVarInt, PVarInt => true
  | PBool, PBool => true
  | PInt w _, PInt w' _ => Nat.eqb w w'
  | PString _, PString _ => true
  | PBytes _, PBytes _ => true
  | PUUID, PUUID => true
  | PFixed n, PFixed m => Nat.eqb n m
  | PBytes17, PBytes17 => true
  | PBytes17Old, PBytes17Old => true
  | PUUIDStr d, PUUIDStr d' => Bool.eqb d d'
  | PKey, PKey => true
  | PNbt, PNbt => true
  | _, _ => false
  end.

(* ---------- helpers ---------- *)
Definition lenZ (bs : bytes) : Z := Z.of_nat (length bs).

(* io.ReadFull of n bytes *)
Definition take_n (n : nat) (bs : bytes) : res (bytes * bytes) :=
  if Nat.leb n (length bs) then Ok (firstn n bs, skipn n bs) else Err EShort.

Fixpoint be_enc (k : nat) (x : N) : bytes :=
  match k with O => [] | S k' => be_enc k' (x / 256)%N ++ [(x mod 256)%N] end.
Definition be_val (bs : bytes) : N := fold_left (fun a b => (a * 256 + b)%N) bs 0%N.

Definition wrapN (bits : Z) (z : Z) : N := Z.to_N (z mod 2 ^ bits).                 (* uintK(int) *)
Definition to_signed (bits : Z) (u : N) : Z :=                                      (* intK(uintK) *)
  if Z.of_N u <? 2 ^ (bits - 1) then Z.of_N u else Z.of_N u - 2 ^ bits.

(* util.WriteVarIntN: uval := uint32(val) *)
Definition enc_varint (z : Z) : bytes := VarInt.enc (wrapN 32 z).
(* util.ReadVarIntReturnN: int(int32(val)) *)
Definition dec_varint (bs : bytes) : res (Z * bytes) :=
  match VarInt.dec bs with
  | VarInt.Ok (u, _, rest) => Ok (to_signed 32 u, rest)
  | VarInt.Err VarInt.ErrShort => Err EShort
  | VarInt.Err VarInt.ErrTooBig => Err EFormat
  end.

(* VarInt length, range check, then the bytes *)
Definition dec_lenpref (limit : Z) (bs : bytes) : res (bytes * bytes) :=
  match dec_varint bs with
  | Err e => Err e
  | Ok (n, rest) =>
      if n <? 0 then Err ENegative
      else if limit <? n then Err ETooLong
      else take_n (Z.to_nat n) rest
  end.
Definition claimed_len (limit : Z) (bs : bytes) : N :=
  match dec_varint bs with
  | Ok (n, _) => if (n <? 0) || (limit <? n) then 0%N else Z.to_N n
  | Err _ => 0%N
  end.

(* ----- 1.7 arrays ----- *)
Definition forge_max : Z := 2097050.                (* ForgeMaxArrayLength = math.MaxInt32 & 0x1FFF9A *)
(* PRE-FIX WriteExtendedForgeShort: WriteInt8(int8(low)) - one byte *)
Definition old_enc_fshort (n : Z) : bytes :=
  let low := Z.land n 32767 in
  let high := Z.shiftr (Z.land n 8355840) 15 in
  let low' := if high =? 0 then low else Z.lor low 32768 in
  [Z.to_N (low' mod 256)] ++ (if high =? 0 then [] else [Z.to_N (high mod 256)]).
(* PRE-FIX ReadExtendedForgeShort: one byte; "low & 0x8000" could never be set *)
Definition old_dec_fshort (bs : bytes) : res (Z * bytes) :=
  match bs with [] => Err EShort | b :: rest => Ok (Z.of_N b, rest) end.
(* WriteExtendedForgeShort (= vanilla / Velocity): WriteUint16(low) [+ byte(high)] *)
Definition enc_fshort (n : Z) : bytes :=
  let low := Z.land n 32767 in
  let high := Z.shiftr (Z.land n 8355840) 15 in
  let low' := if high =? 0 then low else Z.lor low 32768 in
  be_enc 2 (Z.to_N low') ++ (if high =? 0 then [] else [Z.to_N (high mod 256)]).
(* ReadExtendedForgeShort *)
Definition dec_fshort (bs : bytes) : res (Z * bytes) :=
  match take_n 2 bs with
  | Err e => Err e
  | Ok (b2, rest) =>
      let low := Z.of_N (be_val b2) in
      if Z.land low 32768 =? 0 then Ok (low, rest)
      else match rest with
           | [] => Err EShort
           | h :: rest' => Ok (Z.lor (Z.shiftl (Z.of_N h) 15) (Z.land low 32767), rest')
           end
  end.

(* ----- uuid text ----- *)
Definition hexdigit (n : N) : N := if (n <? 10)%N then (48 + n)%N else (87 + n)%N.
Definition hex_of_byte (b : N) : bytes := [hexdigit (b / 16)%N; hexdigit (b mod 16)%N].
Definition hex_of_bytes (bs : bytes) : bytes := flat_map hex_of_byte bs.
Definition dash : N := 45%N.
Definition uuid_text (dashed : bool) (u : bytes) : bytes :=
  if dashed then
    hex_of_bytes (firstn 4 u) ++ [dash] ++ hex_of_bytes (firstn 2 (skipn 4 u)) ++ [dash] ++
    hex_of_bytes (firstn 2 (skipn 6 u)) ++ [dash] ++ hex_of_bytes (firstn 2 (skipn 8 u)) ++ [dash] ++
    hex_of_bytes (skipn 10 u)
  else hex_of_bytes u.
Definition unhex (c : N) : option N :=
  if ((48 <=? c) && (c <=? 57))%N then Some (c - 48)%N
  else if ((97 <=? c) && (c <=? 102))%N then Some (c - 87)%N
  else if ((65 <=? c) && (c <=? 70))%N then Some (c - 55)%N
  else None.
Fixpoint unhex_bytes (s : bytes) : option bytes :=
  match s with
  | [] => Some []
  | a :: b :: r =>
      match unhex a, unhex b, unhex_bytes r with
      | Some x, Some y, Some t => Some ((16 * x + y)%N :: t)
      | _, _, _ => None
      end
  | _ => None
  end.
(* uuid.Parse restricted to the two forms the encoder produces (36 dashed, 32 plain) *)
Definition parse_uuid_text (s : bytes) : option bytes :=
  if Nat.eqb (length s) 36 then
    if (N.eqb (nth 8 s 0%N) dash && N.eqb (nth 13 s 0%N) dash && N.eqb (nth 18 s 0%N) dash && N.eqb (nth 23 s 0%N) dash)
    then unhex_bytes (firstn 8 s ++ firstn 4 (skipn 9 s) ++ firstn 4 (skipn 14 s) ++ firstn 4 (skipn 19 s) ++ skipn 24 s)
    else None
  else if Nat.eqb (length s) 32 then unhex_bytes s
  else None.

(* ----- keys ----- *)
Definition ns_char (c : N) : bool :=
  ((97 <=? c) && (c <=? 122) || (48 <=? c) && (c <=? 57) || (c =? 95) || (c =? 45) || (c =? 46))%N.
Definition val_char (c : N) : bool := ns_char c || (c =? 47)%N.
Definition colon : N := 58%N.
Fixpoint split_colon (s : bytes) : option (bytes * bytes) :=
  match s with
  | [] => None
  | c :: r => if (c =? colon)%N then Some ([], r)
              else match split_colon r with Some (a, b) => Some (c :: a, b) | None => None end
  end.
Definition minecraft_ns : bytes := [109; 105; 110; 101; 99; 114; 97; 102; 116]%N.
(* parseIdentifierKey + key.New(..).String() *)
Definition canon_key (s : bytes) : bytes * bytes :=
  match split_colon s with
  | None => (minecraft_ns, s)
  | Some (ns, v) => ((match ns with [] => minecraft_ns | _ => ns end), v)
  end.
Definition dots : bytes := [46; 46]%N.
(* ValidateKey *)
Definition valid_key (k : bytes * bytes) : bool :=
  negb (beq_bytes (fst k) dots) && forallb ns_char (fst k) && forallb val_char (snd k).
Definition key_string (k : bytes * bytes) : bytes := fst k ++ colon :: snd k.

(* ----- NBT: delimiting one nameless tag (go-mc's nbt.Decoder with NetworkFormat, RawMessage target) -----
   A stack machine instead of a recursive descent so that the recursion is on fuel only. *)
Inductive nfr := NList (et : N) (n : N) | NComp.

Definition drop_n (n : nat) (bs : bytes) : option bytes :=
  if Nat.leb n (length bs) then Some (skipn n bs) else None.

Definition be_i32 (bs : bytes) : option (Z * bytes) :=
  if Nat.leb 4 (length bs) then Some (to_signed 32 (be_val (firstn 4 bs)), skipn 4 bs) else None.
Definition be_u16 (bs : bytes) : option (N * bytes) :=
  if Nat.leb 2 (length bs) then Some (be_val (firstn 2 bs), skipn 2 bs) else None.

(* begin the payload of a tag of type t: scalars are skipped, containers pushed *)
Definition nbt_skip (k : nat) (st : list nfr) (bs : bytes) : option (list nfr * bytes) :=
  match drop_n k bs with Some r => Some (st, r) | None => None end.
Definition nbt_arr (w : Z) (st : list nfr) (bs : bytes) : option (list nfr * bytes) :=
  match be_i32 bs with
  | Some (n, r) => if n <? 0 then None else nbt_skip (Z.to_nat (w * n)) st r
  | None => None
  end.
Definition nbt_str (st : list nfr) (bs : bytes) : option (list nfr * bytes) :=
  match be_u16 bs with
  | Some (n, r) => nbt_skip (N.to_nat n) st r
  | None => None
  end.
Definition nbt_list (st : list nfr) (bs : bytes) : option (list nfr * bytes) :=
  match bs with
  | et :: r => match be_i32 r with
               | Some (n, r') => if n <=? 0 then Some (st, r')
                                 else if (et =? 0)%N then None
                                 else Some (NList et (Z.to_N n) :: st, r')
               | None => None end
  | [] => None
  end.

Definition start_val (t : N) (st : list nfr) (bs : bytes) : option (list nfr * bytes) :=
  if (t =? 1)%N then nbt_skip 1 st bs
  else if (t =? 2)%N then nbt_skip 2 st bs
  else if (t =? 3)%N then nbt_skip 4 st bs
  else if (t =? 4)%N then nbt_skip 8 st bs
  else if (t =? 5)%N then nbt_skip 4 st bs
  else if (t =? 6)%N then nbt_skip 8 st bs
  else if (t =? 7)%N then nbt_arr 1 st bs
  else if (t =? 8)%N then nbt_str st bs
  else if (t =? 9)%N then nbt_list st bs
  else if (t =? 10)%N then Some (NComp :: st, bs)
  else if (t =? 11)%N then nbt_arr 4 st bs
  else if (t =? 12)%N then nbt_arr 8 st bs
  else None.

Fixpoint nbt_run (fuel : nat) (st : list nfr) (bs : bytes) : option bytes :=
  match fuel with
  | O => None
  | S f =>
      match st with
      | [] => Some bs
      | NList et n :: st' =>
          if (n =? 0)%N then nbt_run f st' bs
          else match start_val et (NList et (n - 1)%N :: st') bs with
               | Some (s2, r) => nbt_run f s2 r
               | None => None
               end
      | NComp :: st' =>
          match bs with
          | [] => None
          | t :: r =>
              if (t =? 0)%N then nbt_run f st' r
              else match nbt_str st' r with          (* the entry's name *)
                   | Some (_, r2) => match start_val t (NComp :: st') r2 with
                                     | Some (s2, r3) => nbt_run f s2 r3
                                     | None => None
                                     end
                   | None => None
                   end
          end
      end
  end.

(* the bytes left after one nameless tag; a lone TAG_End is a complete (empty) tag *)
Definition nbt_rest (bs : bytes) : option bytes :=
  match bs with
  | [] => None
  | t :: r => if (t =? 0)%N then Some r
              else match start_val t [] r with
                   | Some (st, r') => nbt_run (3 * length bs + 3) st r'
                   | None => None
                   end
  end.

(* ---------- the family ---------- *)
Definition lp_enc (p : lprim) (a : atom) : res bytes :=
  match p, a with
  | PVarInt, AZ z => Ok (enc_varint z)
  | PBool, ABool b => Ok [if b then 1%N else 0%N]
  | PInt w _, AZ z => Ok (be_enc w (wrapN (8 * Z.of_nat w) z))
  | PString _, ABytes s => Ok (enc_varint (lenZ s) ++ s)
  | PBytes _, ABytes s => Ok (enc_varint (lenZ s) ++ s)
  | PUUID, ABytes u => if Nat.eqb (length u) 16 then Ok u else Err EDomain
  | PFixed n, ABytes s => if Nat.eqb (length s) n then Ok s else Err EDomain
  | PBytes17, ABytes s =>
      if forge_max <? lenZ s then Err EDomain else Ok (enc_fshort (lenZ s) ++ s)
  | PBytes17Old, ABytes s =>
      if forge_max <? lenZ s then Err EDomain else Ok (old_enc_fshort (lenZ s) ++ s)
  | PUUIDStr d, ABytes u =>
      if Nat.eqb (length u) 16 then let t := uuid_text d u in Ok (enc_varint (lenZ t) ++ t) else Err EDomain
  | PKey, ABytes s =>
      let k := canon_key s in
      if valid_key k then Ok (enc_varint (lenZ (key_string k)) ++ key_string k) else Err EDomain
  | PNbt, ABytes s => match nbt_rest s with Some [] => Ok s | _ => Err EDomain end
  | _, _ => Err EShape
  end.

Definition default_max : Z := 65536.      (* DefaultMaxStringSize *)

Definition lp_dec (p : lprim) (bs : bytes) : res (atom * bytes) :=
  match p with
  | PVarInt => match dec_varint bs with Ok (z, r) => Ok (AZ z, r) | Err e => Err e end
  | PBool => match bs with [] => Err EShort | b :: r => Ok (ABool (negb (b =? 0)%N), r) end
  | PInt w sg =>
      match take_n w bs with
      | Ok (b, r) => Ok (AZ (if sg then to_signed (8 * Z.of_nat w) (be_val b) else Z.of_N (be_val b)), r)
      | Err e => Err e
      end
  | PString max => match dec_lenpref (4 * max) bs with Ok (s, r) => Ok (ABytes s, r) | Err e => Err e end
  | PBytes max => match dec_lenpref max bs with Ok (s, r) => Ok (ABytes s, r) | Err e => Err e end
  | PUUID => match take_n 16 bs with Ok (u, r) => Ok (ABytes u, r) | Err e => Err e end
  | PFixed n => match take_n n bs with Ok (s, r) => Ok (ABytes s, r) | Err e => Err e end
  | PBytes17 =>
      match dec_fshort bs with
      | Err e => Err e
      | Ok (n, rest) =>
          if forge_max <? n then Err ETooLong
          else match take_n (Z.to_nat n) rest with Ok (s, r) => Ok (ABytes s, r) | Err e => Err e end
      end
  | PBytes17Old =>
      match old_dec_fshort bs with
      | Err e => Err e
      | Ok (n, rest) => match take_n (Z.to_nat n) rest with Ok (s, r) => Ok (ABytes s, r) | Err e => Err e end
      end
  | PUUIDStr d =>
      match dec_lenpref (4 * (if d then 36 else 32)) bs with
      | Err e => Err e
      | Ok (s, r) => match parse_uuid_text s with Some u => Ok (ABytes u, r) | None => Err EFormat end
      end
  | PKey =>
      match dec_lenpref (4 * default_max) bs with
      | Err e => Err e
      | Ok (s, r) => let k := canon_key s in if valid_key k then Ok (ABytes (key_string k), r) else Err EFormat
      end
  | PNbt =>
      match nbt_rest bs with
      | Some r => Ok (ABytes (firstn (length bs - length r) bs), r)
      | None => Err EFormat
      end
  end.

(* allocation units requested (bytes of make([]byte, n) plus the string conversion copy) *)
Definition lp_alloc (p : lprim) (bs : bytes) : N :=
  match p with
  | PString max => (2 * claimed_len (4 * max)%Z bs)%N
  | PBytes max => claimed_len max bs
  | PUUID => 16
  | PFixed n => N.of_nat n
  | PBytes17Old => match bs with b :: _ => N.min b 255 | [] => 0 end
  | PBytes17 => match dec_fshort bs with Ok (n, _) => if (forge_max <? n)%Z then 0 else Z.to_N n | Err _ => 0 end
  | PUUIDStr d => (2 * claimed_len (4 * (if d then 36 else 32))%Z bs + 16)%N
  | PKey => (4 * claimed_len (4 * default_max)%Z bs)%N
  | PNbt => match nbt_rest bs with Some r => lenN bs - lenN r | None => lenN bs end
  | _ => 0
  end%N.

Definition lp_cap (p : lprim) : N :=
  match p with
  | PString max => Z.to_N (8 * max)%Z
  | PBytes max => Z.to_N max
  | PUUID => 16
  | PFixed n => N.of_nat n
  | PBytes17Old => 255
  | PBytes17 => Z.to_N forge_max
  | PUUIDStr _ => 304
  | PKey => Z.to_N (16 * default_max)%Z
  | _ => 0
  end%N.

Definition lp_min (p : lprim) : N :=
  match p with
  | PInt w _ => N.of_nat w
  | PUUID => 16
  | PFixed n => N.of_nat n
  | PBytes17 => 2
  | _ => 1
  end%N.

Definition LP : pfam :=
  mkpfam lprim lprim_eqb lp_enc lp_dec lp_alloc lp_cap lp_min
         (fun b => [if b then 1%N else 0%N])
         (fun bs => match bs with [] => Err EShort | b :: r => Ok (negb (b =? 0)%N, r) end)
         (fun n => Ok (enc_varint n))
         dec_varint.

Definition lp_ka : N := 4.

(* the values on which decode (encode a) = a : the domain the round-trip theorem quantifies over *)
Definition lp_domb (p : lprim) (a : atom) : bool :=
  match p, a with
  | PVarInt, AZ z => (- 2 ^ 31 <=? z) && (z <? 2 ^ 31)
  | PBool, ABool _ => true
  | PInt w sg, AZ z =>
      if sg then (- 2 ^ (8 * Z.of_nat w - 1) <=? z) && (z <? 2 ^ (8 * Z.of_nat w - 1))
      else (0 <=? z) && (z <? 2 ^ (8 * Z.of_nat w))
  | PString max, ABytes s => wf_bytesb s && (lenZ s <=? 4 * max) && (lenZ s <? 2 ^ 31)
  | PBytes max, ABytes s => wf_bytesb s && (lenZ s <=? max) && (lenZ s <? 2 ^ 31)
  | PUUID, ABytes u => wf_bytesb u && Nat.eqb (length u) 16
  | PFixed n, ABytes s => wf_bytesb s && Nat.eqb (length s) n
  | PBytes17, ABytes s => wf_bytesb s && (lenZ s <? 32768)       (* vanilla lengths; Forge's three-byte form is outside the theorem *)
  | PBytes17Old, ABytes s => wf_bytesb s && (lenZ s <? 256)
  | PUUIDStr _, ABytes u => wf_bytesb u && Nat.eqb (length u) 16
  | PKey, ABytes s =>
      wf_bytesb s && valid_key (canon_key s) && beq_bytes (key_string (canon_key s)) s && (lenZ s <=? 4 * default_max)
  | PNbt, ABytes s => wf_bytesb s && match nbt_rest s with Some [] => true | _ => false end
  | _, _ => false
  end.
