(* C15 - model of the play-phase relay of the proxy.

   Go code mirrored:
     netmc/connection.go   startReadLoop: ReadPacket -> ActiveSessionHandler().HandlePacket(pc)
     codec/decoder.go      decodePayload: the packet id is the VarInt at the head of the payload;
                           registry.CreatePacket(id) == nil  ->  "unknown packet", pc.Packet stays nil
     proxy/session_client_play.go   HandlePacket:  !pc.KnownPacket() -> forwardToServer(pc);
                                    `default:` and ClientSettings   -> forwardToServer(pc)
                                    forwardToServer(pc) = serverMc.Write(pc.Payload)
     proxy/session_backend_play.go  HandlePacket:  !pc.KnownPacket() -> forwardToPlayer(pc, nil);
                                    KeepAlive / `default:` / ...     -> forwardToPlayer(pc, nil)
                                    forwardToPlayer(pc, nil) = player.Write(pc.Payload)
     netmc/connection.go   Write(payload) = wr.Write(payload); Flush()   (re-framing for the other side)

   A connection side is abstracted by its frame codec: [encode_stream t ps] is the byte stream that the
   writer of a side with compression threshold [t] produces for the payload list [ps];
   [decode_stream t chunks] is what a reader with threshold [t] decodes from the byte stream that
   arrives split into [chunks].  Both are parameters (the frame codec is C01's subject).

   Executable definitions only; proofs are in Proofs/C15.v. *)
From Coq Require Import List NArith ZArith Bool.
From Verif Require Import Base.Hex Base.VarInt.
Import ListNotations.
Open Scope N_scope.

(* What the play session handler of a side does with a packet type that the registry knows. *)
Inductive kind :=
| KIntercept      (* handled by the proxy: out of C15's scope *)
| KForward        (* known type whose handler calls forward(pc) with the untouched payload *)
| KDrop.          (* known type that the handler swallows without writing anything (e.g. a KeepAlive
                     reply whose id no backend is waiting for) *)

(* ids the state registry of (Play, direction, version) decodes, with what the handler does *)
Definition table := list (N * kind).

Fixpoint lookup (id : N) (t : table) : option kind :=
  match t with
  | [] => None
  | (i, k) :: r => if id =? i then Some k else lookup id r
  end.

(* decodePayload: util.ReadVarInt(payload) *)
Definition packet_id (p : bytes) : option N :=
  match VarInt.dec p with
  | Ok (u, _, _) => Some u
  | Err _ => None
  end.

(* HandlePacket's dispatch: unknown id -> forward; known -> by kind *)
Definition classify (t : table) (p : bytes) : option kind :=
  match packet_id p with
  | None => Some KIntercept            (* no packet id: the decoder rejects the frame, nothing is relayed *)
  | Some id => lookup id t
  end.

(* the packets C15 speaks about *)
Definition pass_throughb (t : table) (p : bytes) : bool :=
  match classify t p with
  | None | Some KForward => true
  | Some _ => false
  end.

Inductive origin := Fwd | Own.

(* one packet through HandlePacket: forwarded untouched, or replaced by whatever its handler [h] writes
   to the far side *)
Definition relay_one (t : table) (h : bytes -> list bytes) (p : bytes) : list (origin * bytes) :=
  if pass_throughb t p then [(Fwd, p)] else map (pair Own) (h p).

(* the read loop handles packets one after the other, each handler writes synchronously *)
Definition relay_tagged (t : table) (h : bytes -> list bytes) (ps : list bytes) : list (origin * bytes) :=
  flat_map (relay_one t h) ps.

Definition relay_payloads (t : table) (h : bytes -> list bytes) (ps : list bytes) : list bytes :=
  map snd (relay_tagged t h ps).

Definition is_fwd (x : origin * bytes) : bool := match fst x with Fwd => true | Own => false end.

Section Wire.
  Variable encode_stream : Z -> list bytes -> bytes.
  Variable decode_stream : Z -> list bytes -> list bytes.

  (* relay = decode_stream side_a ; classify ; encode_stream side_b *)
  Definition relay (t : table) (h : bytes -> list bytes) (ta tb : Z) (chunks_a : list bytes) : bytes :=
    encode_stream tb (relay_payloads t h (decode_stream ta chunks_a)).
End Wire.

(* ---------- a concrete toy frame codec (non-vacuity witness for the codec hypothesis) ----------
   one length byte, payloads shorter than 128 bytes, threshold ignored, chunking ignored *)
Definition toy_encode (_ : Z) (ps : list bytes) : bytes :=
  flat_map (fun p => N.of_nat (length p) :: p) ps.

Fixpoint toy_decode_fuel (fuel : nat) (s : bytes) : list bytes :=
  match fuel with
  | O => []
  | S f =>
    match s with
    | [] => []
    | n :: r => firstn (N.to_nat n) r :: toy_decode_fuel f (skipn (N.to_nat n) r)
    end
  end.
Definition toy_decode (_ : Z) (chunks : list bytes) : list bytes :=
  let s := concat chunks in toy_decode_fuel (length s) s.
