(* Model/Registry.v — executable model of gate's packet id registries (property C06).
   Definitions only; proofs are in Proofs/C06.v.

   Mirrors, function by function, /repo/pkg/edition/java/proto/state/registry.go
   (NewPacketRegistry, PacketRegistry.Register, versionRange, PacketRegistry.ProtocolRegistry,
   ProtocolRegistry.PacketID / CreatePacket) and the derived version values of
   /repo/pkg/edition/java/proto/version/version.go (SupportedVersions, MinimumVersion, MaximumVersion).
   The declarative inputs (the Versions list, every Register call of register.go, the Fallback
   assignments) are NOT written here: they are regenerated from the source text into Gen/Registry.v. *)
From Coq Require Import List ZArith String Bool.
Import ListNotations.
Open Scope Z_scope.

(* ---------- vocabulary shared with the generated file ---------- *)

Inductive state := Handshake | Status | Login | Config | Play.
Inductive dir := ClientBound | ServerBound.
(* a packet type is named the way Go's reflect.Type.String() prints it: "<package name>.<type name>" *)
Definition ptype := string.

(* one element of version.Versions: v(protocol, names...) bound to a package-level variable *)
Record version_decl := mkV { v_protocol : Z; v_var : string; v_names : list string }.

(* MinimumVersion = SupportedVersions[i]; MaximumVersion = SupportedVersions[len(SupportedVersions)-1] *)
Inductive pick := PickIndex (i : nat) | PickLast.

(* m(id, ver) / ml(id, ver, lastValid).  gate's m/ml have no encodeOnly parameter (it was removed
   upstream, see the comment above ml in registry.go); the field is kept (always false) for consumers
   that want the Velocity shape. *)
Record mapping := mkM { m_id : Z; m_from : Z; m_encode_only : bool; m_last_valid : option Z }.
Record registration := mkR { r_state : state; r_dir : dir; r_type : ptype; r_mappings : list mapping }.

Record config := mkCfg {
  c_versions : list Z;      (* protocol numbers of version.Versions, in list order *)
  c_unknown : Z;            (* version.Unknown.Protocol *)
  c_legacy : Z;             (* version.Legacy.Protocol *)
  c_min : pick;             (* how MinimumVersion is picked from SupportedVersions *)
  c_max : pick }.

(* every Go panic of the init path is an error value here *)
Inductive err :=
| ErrAfterLastValid                         (* "Cannot add a mapping after last valid mapping" *)
| ErrLastBelowFrom (from lastv : Z)         (* "Last mapping version cannot be higher than highest mapping version" *)
| ErrOrder (from to : Z)                    (* "Next mapping version (to) should be lower then current (from)" *)
| ErrUnknownProtocol (p : Z)                (* "Unknown protocol version" *)
| ErrDupId (p id : Z) (existing new : ptype)(* "Can not register packet ... already registered with same id" *)
| ErrDupType (p : Z) (t : ptype)            (* "... is already registered for protocol" *)
| ErrNoVersions                             (* SupportedVersions[0]: index out of range at package init *)
| ErrNoRegistry (s : state) (d : dir).      (* not reachable: all ten registries are created by new_table *)

Inductive res (A : Type) := Ok (a : A) | Err (e : err).
Arguments Ok {A}. Arguments Err {A}.

Definition state_eqb (a b : state) : bool :=
  match a, b with
  | Handshake, Handshake | Status, Status | Login, Login | Config, Config | Play, Play => true
  | _, _ => false
  end.
Definition dir_eqb (a b : dir) : bool :=
  match a, b with ClientBound, ClientBound | ServerBound, ServerBound => true | _, _ => false end.
Definition key := (state * dir)%type.
Definition key_eqb (a b : key) : bool := state_eqb (fst a) (fst b) && dir_eqb (snd a) (snd b).

Definition all_states : list state := [Handshake; Status; Login; Config; Play].
Definition all_keys : list key :=
  flat_map (fun s => [(s, ClientBound); (s, ServerBound)]) all_states.

(* ---------- ProtocolRegistry: the two Go maps, as association lists ---------- *)

Record protoreg := mkPR {
  pr_protocol : Z;                   (* ProtocolRegistry.Protocol *)
  pr_ids : list (Z * ptype);         (* PacketIDs   map[PacketID]PacketType *)
  pr_types : list (ptype * Z) }.     (* PacketTypes map[PacketType]PacketID *)

Fixpoint find_id (l : list (Z * ptype)) (id : Z) : option ptype :=
  match l with
  | [] => None
  | (k, t) :: r => if k =? id then Some t else find_id r id
  end.
Fixpoint find_ty (l : list (ptype * Z)) (t : ptype) : option Z :=
  match l with
  | [] => None
  | (k, id) :: r => if String.eqb k t then Some id else find_ty r t
  end.

(* registry.PacketIDs[id] = t; registry.PacketTypes[t] = id  (only called after both were found absent) *)
Definition insert (r : protoreg) (id : Z) (t : ptype) : protoreg :=
  mkPR (pr_protocol r) ((id, t) :: pr_ids r) ((t, id) :: pr_types r).

(* ---------- PacketRegistry ---------- *)

Record preg := mkPG {
  pg_protocols : list (Z * protoreg);   (* Protocols map[Protocol]*ProtocolRegistry *)
  pg_fallback : bool }.

Fixpoint find_proto (l : list (Z * protoreg)) (p : Z) : option protoreg :=
  match l with
  | [] => None
  | (k, r) :: rest => if k =? p then Some r else find_proto rest p
  end.
(* map assignment: replace the entry of key p, or add it at the end *)
Fixpoint set_proto (l : list (Z * protoreg)) (p : Z) (r : protoreg) : list (Z * protoreg) :=
  match l with
  | [] => [(p, r)]
  | (k, r0) :: rest => if k =? p then (k, r) :: rest else (k, r0) :: set_proto rest p r
  end.

(* version.Protocol.Legacy / Unknown *)
Definition is_legacy (c : config) (p : Z) : bool := p =? c_legacy c.
Definition is_unknown (c : config) (p : Z) : bool := p =? c_unknown c.

(* version.SupportedVersions *)
Definition supported (c : config) : list Z :=
  filter (fun p => negb (is_unknown c p) && negb (is_legacy c p)) (c_versions c).

Definition pick_of (k : pick) (l : list Z) : option Z :=
  match k with
  | PickIndex i => nth_error l i
  | PickLast => nth_error l (List.length l - 1)
  end.
Definition minimum_version (c : config) : option Z := pick_of (c_min c) (supported c).
Definition maximum_version (c : config) : option Z := pick_of (c_max c) (supported c).

(* NewPacketRegistry: one empty ProtocolRegistry per non-legacy, non-unknown element of Versions; Fallback = true *)
Definition new_preg (c : config) : preg :=
  mkPG (fold_left (fun acc p =>
                     if negb (is_legacy c p) && negb (is_unknown c p)
                     then set_proto acc p (mkPR p [] []) else acc)
                  (c_versions c) [])
       true.

(* versionRange(version.Versions, from, to, fn) with fn = the closure inside Register.
   is_last says whether `next == current` (pointer equality; every mapping is a fresh m()/ml() value, so
   this is "current is the last mapping of the call").  Returning Ok early is fn returning false. *)
Fixpoint range_loop (vs : list Z) (from to : Z) (is_last : bool) (id : Z) (t : ptype)
         (protos : list (Z * protoreg)) : res (list (Z * protoreg)) :=
  match vs with
  | [] => Ok protos
  | v :: rest =>
    if (from <=? v) && (v <=? to) then
      if (v =? to) && negb is_last then Ok protos
      else match find_proto protos v with
           | None => Err (ErrUnknownProtocol v)
           | Some r =>
             match find_id (pr_ids r) id with
             | Some t' => Err (ErrDupId v id t' t)
             | None =>
               match find_ty (pr_types r) t with
               | Some _ => Err (ErrDupType v t)
               | None => range_loop rest from to is_last id t (set_proto protos v (insert r id t))
               end
             end
           end
    else range_loop rest from to is_last id t protos
  end.

(* LastValidProtocol: 0 means "not set" in the Go struct *)
Definition last_valid_of (m : mapping) : Z := match m_last_valid m with Some v => v | None => 0 end.

(* the `for i, current := range mappings` loop of PacketRegistry.Register *)
Fixpoint reg_mappings (vs : list Z) (maxp : Z) (t : ptype) (ms : list mapping)
         (protos : list (Z * protoreg)) : res (list (Z * protoreg)) :=
  match ms with
  | [] => Ok protos
  | cur :: rest =>
    let is_last := match rest with [] => true | _ => false end in
    let from := m_from cur in
    let lastValid := last_valid_of cur in
    if negb (lastValid =? 0) && negb is_last then Err ErrAfterLastValid
    else if negb (lastValid =? 0) && (from - lastValid >? 0) then Err (ErrLastBelowFrom from lastValid)
    else
      let to := match rest with
                | [] => if negb (lastValid =? 0) then lastValid else maxp
                | next :: _ => m_from next
                end in
      let lastInList := if lastValid =? 0 then maxp else lastValid in
      if (from - to >=? 0) && negb (from =? lastInList) then Err (ErrOrder from to)
      else match range_loop vs from to is_last (m_id cur) t protos with
           | Err e => Err e
           | Ok protos' => reg_mappings vs maxp t rest protos'
           end
  end.

(* PacketRegistry.Register(packetOf, mappings...) *)
Definition register (vs : list Z) (maxp : Z) (pg : preg) (t : ptype) (ms : list mapping) : res preg :=
  match reg_mappings vs maxp t ms (pg_protocols pg) with
  | Ok protos => Ok (mkPG protos (pg_fallback pg))
  | Err e => Err e
  end.

(* PacketRegistry.ProtocolRegistry(protocol).  The Go function recurses on MinimumVersion when the protocol
   is absent and Fallback is set; if MinimumVersion itself were absent that recursion would not end. *)
Inductive resolved := RFound (r : protoreg) | RNil | RDiverge.
Definition resolve (minp : Z) (pg : preg) (p : Z) : resolved :=
  match find_proto (pg_protocols pg) p with
  | Some r => RFound r
  | None =>
    if pg_fallback pg then
      match find_proto (pg_protocols pg) minp with Some r => RFound r | None => RDiverge end
    else RNil
  end.

(* ---------- the five state registries x two directions ---------- *)

Record table := mkT { t_regs : list (key * preg); t_min : Z; t_max : Z }.

Fixpoint get_reg (l : list (key * preg)) (k : key) : option preg :=
  match l with
  | [] => None
  | (k0, pg) :: rest => if key_eqb k0 k then Some pg else get_reg rest k
  end.
Fixpoint set_reg (l : list (key * preg)) (k : key) (pg : preg) : list (key * preg) :=
  match l with
  | [] => [(k, pg)]
  | (k0, pg0) :: rest => if key_eqb k0 k then (k0, pg) :: rest else (k0, pg0) :: set_reg rest k pg
  end.

(* var ( Handshake = NewRegistry(...) ... ) *)
Definition new_regs (c : config) : list (key * preg) := map (fun k => (k, new_preg c)) all_keys.

(* <State>.<Dir>.Fallback = b *)
Definition set_fallback (l : list (key * preg)) (x : key * bool) : list (key * preg) :=
  match get_reg l (fst x) with
  | Some pg => set_reg l (fst x) (mkPG (pg_protocols pg) (snd x))
  | None => l
  end.

Definition register_in (vs : list Z) (maxp : Z) (l : list (key * preg)) (r : registration)
  : res (list (key * preg)) :=
  let k := (r_state r, r_dir r) in
  match get_reg l k with
  | None => Err (ErrNoRegistry (r_state r) (r_dir r))
  | Some pg =>
    match register vs maxp pg (r_type r) (r_mappings r) with
    | Ok pg' => Ok (set_reg l k pg')
    | Err e => Err e
    end
  end.

Fixpoint register_all (vs : list Z) (maxp : Z) (l : list (key * preg)) (rs : list registration)
  : res (list (key * preg)) :=
  match rs with
  | [] => Ok l
  | r :: rest =>
    match register_in vs maxp l r with
    | Ok l' => register_all vs maxp l' rest
    | Err e => Err e
    end
  end.

(* package initialisation of proto/version and proto/state: the table after init(), or the panic.
   The Fallback assignments do not influence Register, so applying them first is the same. *)
Definition build (c : config) (fbs : list (key * bool)) (rs : list registration) : res table :=
  match minimum_version c, maximum_version c with
  | Some mn, Some mx =>
    match register_all (c_versions c) mx (fold_left set_fallback fbs (new_regs c)) rs with
    | Ok l => Ok (mkT l mn mx)
    | Err e => Err e
    end
  | _, _ => Err ErrNoVersions
  end.

(* ---------- lookups ---------- *)

(* state.<State>.<Dir>.ProtocolRegistry(p) *)
Definition lookup (tb : table) (s : state) (d : dir) (p : Z) : resolved :=
  match get_reg (t_regs tb) (s, d) with
  | Some pg => resolve (t_min tb) pg p
  | None => RNil
  end.
(* ProtocolRegistry.PacketID(of type t) *)
Definition id_of (tb : table) (s : state) (d : dir) (p : Z) (t : ptype) : option Z :=
  match lookup tb s d p with RFound r => find_ty (pr_types r) t | _ => None end.
(* type of ProtocolRegistry.CreatePacket(id) *)
Definition type_of (tb : table) (s : state) (d : dir) (p : Z) (id : Z) : option ptype :=
  match lookup tb s d p with RFound r => find_id (pr_ids r) id | _ => None end.

(* ---------- the property's predicates ---------- *)

(* the two maps of one ProtocolRegistry are mutually inverse partial functions *)
Definition bij_pr (r : protoreg) : Prop :=
  forall id t, find_id (pr_ids r) id = Some t <-> find_ty (pr_types r) t = Some id.
Definition bij_protos (l : list (Z * protoreg)) : Prop := Forall (fun e => bij_pr (snd e)) l.
Definition bij_preg (pg : preg) : Prop := bij_protos (pg_protocols pg).
Definition bij_regs (l : list (key * preg)) : Prop := Forall (fun e => bij_preg (snd e)) l.
Definition bij (tb : table) : Prop := bij_regs (t_regs tb).

(* decidable version, used by the judge on OBSERVED maps (Proofs/C06.v: bijb_sound) *)
Definition opt_ty_eqb (a : option ptype) (b : ptype) : bool :=
  match a with Some x => String.eqb x b | None => false end.
Definition opt_id_eqb (a : option Z) (b : Z) : bool :=
  match a with Some x => x =? b | None => false end.
Definition bijb (r : protoreg) : bool :=
  forallb (fun e => opt_id_eqb (find_ty (pr_types r) (snd e)) (fst e)) (pr_ids r) &&
  forallb (fun e => opt_ty_eqb (find_id (pr_ids r) (snd e)) (fst e)) (pr_types r).

(* Which registries fall back to the minimum version for an unknown protocol.  The property text says
   "protocol versions the proxy does not know fall back to the lowest supported version's table"; the
   reference implementation (Velocity's StateRegistry, cited from memory) switches the fallback OFF for PLAY
   and gate does the same explicitly (register.go: Play.ServerBound.Fallback = false).  The policy checked
   here is therefore: every state but Play falls back, Play yields no registry. *)
Definition fallback_policy (s : state) : bool := match s with Play => false | _ => true end.

(* the lowest protocol number of a list *)
Definition lowest (l : list Z) : option Z :=
  match l with [] => None | x :: r => Some (fold_left Z.min r x) end.
