(* C39 — model of the Floodgate hostname codec of pkg/edition/bedrock/geyser/floodgate
   (cipher.go: AesCipher.Decrypt / Encrypt; floodgate.go: ReadHostname, ReadBedrockData, WriteHostname),
   and a reference of Floodgate's own (Java) encoder and decoder.
   AES-GCM is a pair of Section variables [seal]/[open]; every definition takes them as parameters
   after the section closes, so the judge can instantiate them with per-case oracle tables.
   Executable definitions only; proofs are in Proofs/C39.v. *)
From Coq Require Import List NArith ZArith Bool.
From Verif Require Import Base.Hex Base.Base64 Base.Decimal.
Import ListNotations.
Open Scope N_scope.

(* ---------- strings.Split / strings.Join for a one-byte separator ---------- *)

(* strings.Split(s, sep): always at least one part *)
Fixpoint split_on (sep : N) (s : bytes) : list bytes :=
  match s with
  | [] => [[]]
  | c :: r =>
    if c =? sep then [] :: split_on sep r
    else match split_on sep r with
         | p :: ps => (c :: p) :: ps
         | [] => [[c]]                       (* unreachable: split_on never returns [] *)
         end
  end.

(* strings.Join(parts, sep) *)
Definition join_with (sep : N) (parts : list bytes) : bytes :=
  match parts with
  | [] => []
  | p :: ps => p ++ flat_map (fun q => sep :: q) ps
  end.

Definition contains (c : N) (s : bytes) : bool := existsb (fun x => x =? c) s.

(* bytes.IndexByte + the two slices around it *)
Fixpoint cut_at (sep : N) (s : bytes) : option (bytes * bytes) :=
  match s with
  | [] => None
  | c :: r =>
    if c =? sep then Some ([], r)
    else match cut_at sep r with
         | Some (a, b) => Some (c :: a, b)
         | None => None
         end
  end.

(* strings.Split(data, ":")[0] *)
Fixpoint before (sep : N) (s : bytes) : bytes :=
  match s with
  | [] => []
  | c :: r => if c =? sep then [] else c :: before sep r
  end.

Fixpoint is_prefix (p s : bytes) : bool :=
  match p, s with
  | [], _ => true
  | x :: p', y :: s' => (x =? y) && is_prefix p' s'
  | _ :: _, [] => false
  end.

(* ---------- constants of cipher.go ---------- *)

Definition header : bytes := [94; 70; 108; 111; 111; 100; 103; 97; 116; 101; 94; 62].   (* "^Floodgate^" ++ [0x3E] *)
Definition splitter : N := 33.                                                          (* '!' *)
Definition iv_length : nat := 12.

(* ---------- results ---------- *)

Inductive outcome (A : Type) :=
| Ok (a : A)
| Err            (* a non-nil error *)
| Panic.         (* the call panicked *)
Arguments Ok {A}. Arguments Err {A}. Arguments Panic {A}.

Record bedrock := mkB {
  b_version : bytes; b_username : bytes; b_xuid : Z; b_device : Z; b_language : bytes;
  b_ui : Z; b_input : Z; b_ip : bytes; b_linked : bytes; b_proxy : bool;
  b_subscribe : bytes; b_verify : bytes
}.

Definition beq_bedrock (a b : bedrock) : bool :=
  beq_bytes (b_version a) (b_version b) && beq_bytes (b_username a) (b_username b) &&
  Z.eqb (b_xuid a) (b_xuid b) && Z.eqb (b_device a) (b_device b) && beq_bytes (b_language a) (b_language b) &&
  Z.eqb (b_ui a) (b_ui b) && Z.eqb (b_input a) (b_input b) && beq_bytes (b_ip a) (b_ip b) &&
  beq_bytes (b_linked a) (b_linked b) && Bool.eqb (b_proxy a) (b_proxy b) &&
  beq_bytes (b_subscribe a) (b_subscribe b) && beq_bytes (b_verify a) (b_verify b).

(* device.go: DeviceOSFromID — ids 0..15 are known, everything else is Unknown (0) *)
Definition device_from_id (z : Z) : Z := if ((0 <=? z) && (z <=? 15))%Z then z else 0%Z.

Definition bool_string (b : bool) : bytes := if b then [49] else [48].

(* the twelve strings, in wire order (WriteHostname's [fields]; Floodgate's BedrockData.toString) *)
Definition bedrock_fields (d : bedrock) : list bytes :=
  [ b_version d; b_username d; print_int (b_xuid d); print_int (b_device d); b_language d;
    print_int (b_ui d); print_int (b_input d); b_ip d; b_linked d; bool_string (b_proxy d);
    b_subscribe d; b_verify d ].

(* floodgate.go: ReadBedrockData *)
Definition read_bedrock_data (s : bytes) : option bedrock :=
  match split_on 0 s with
  | [p0; p1; p2; p3; p4; p5; p6; p7; p8; p9; p10; p11] =>
    match p1 with
    | [] => None                                              (* invalid username *)
    | _ :: _ =>
      match parse_int p2 with
      | None => None
      | Some x =>
        if (x =? 0)%Z then None                               (* xuid cannot be 0 *)
        else match parse_int p3, parse_int p5, parse_int p6 with
             | Some dev, Some ui, Some inp =>
               Some (mkB p0 p1 x (device_from_id dev) p4 ui inp p7 p8 (beq_bytes p9 [49]) p10 p11)
             | _, _, _ => None
             end
      end
    end
  | _ => None
  end.

Section AEAD.
  (* AES-GCM with a 16-byte tag and no additional data: key, nonce, plaintext/ciphertext *)
  Variable seal : bytes -> bytes -> bytes -> bytes.
  Variable open : bytes -> bytes -> bytes -> option bytes.

  (* the decoded nonce and ciphertext of an encrypted blob (header, base64, splitter), or None when
     Decrypt returns one of its own errors before touching the cipher *)
  Definition envelope_of_blob (blob : bytes) : option (bytes * bytes) :=
    if Nat.ltb (length blob) (length header + iv_length + 1) then None   (* invalid ciphertext length *)
    else if negb (is_prefix header blob) then None                        (* invalid Floodgate header *)
    else match cut_at splitter (skipn (length header) blob) with
         | None => None                                                   (* missing splitter *)
         | Some (iv64, ct64) =>
           match b64_decode iv64 with
           | None => None
           | Some iv =>
             match b64_decode ct64 with
             | None => None
             | Some ct => Some (iv, ct)
             end
           end
         end.

  (* cipher.go: AesCipher.Decrypt.  gcm.Open panics when the nonce is not 12 bytes long
     ("crypto/cipher: incorrect nonce length given to GCM").  Since commit 6b22eb8 (fix of finding
     C39-1) Decrypt checks len(iv) != gcm.NonceSize() and returns an error: [checked] = true is
     today's code (and what the property demands); [checked] = false is the PRE-fix code, kept
     only to state what the finding was. *)
  Definition decrypt_gen (checked : bool) (k blob : bytes) : outcome bytes :=
    match envelope_of_blob blob with
    | None => Err
    | Some (iv, ct) =>
      if negb (Nat.eqb (length iv) iv_length) then (if checked then Err else Panic)
      else match open k iv ct with
           | Some p => Ok p
           | None => Err
           end
    end.

  (* cipher.go: AesCipher.Encrypt, with the random nonce as a parameter *)
  Definition encrypt (k iv p : bytes) : bytes :=
    header ++ b64_encode iv ++ [splitter] ++ b64_encode (seal k iv p).

  (* floodgate.go: ReadHostname *)
  Definition read_hostname_gen (checked : bool) (k hostname : bytes) : outcome (bytes * bedrock) :=
    match split_on 0 hostname with
    | [original; data] =>
      let data := if contains 58 data then before 58 data else data in
      match decrypt_gen checked k data with
      | Ok p =>
        match read_bedrock_data p with
        | Some d => Ok (original, d)
        | None => Err
        end
      | Err => Err
      | Panic => Panic
      end
    | _ => Err
    end.

  Definition impl_read_hostname := read_hostname_gen true.      (* the code as it is now *)
  Definition spec_read_hostname := read_hostname_gen true.      (* what the property demands *)
  Definition prefix_read_hostname := read_hostname_gen false.   (* the code BEFORE commit 6b22eb8 *)

  (* the (fixed) finding's trigger: everything up to the cipher succeeds and the decoded nonce is not 12 bytes *)
  Definition trigger_bad_iv (hostname : bytes) : bool :=
    match split_on 0 hostname with
    | [_; data] =>
      let data := if contains 58 data then before 58 data else data in
      match envelope_of_blob data with
      | Some (iv, _) => negb (Nat.eqb (length iv) iv_length)
      | None => false
      end
    | _ => false
    end.

  (* the (nonce, ciphertext) pair a hostname carries, as ReadHostname sees it *)
  Definition envelope_of (hostname : bytes) : option (bytes * bytes) :=
    match split_on 0 hostname with
    | [_; data] => envelope_of_blob (if contains 58 data then before 58 data else data)
    | _ => None
    end.

  (* floodgate.go: WriteHostname, with the nonce drawn inside Encrypt as a parameter *)
  Definition write_hostname (k iv original : bytes) (d : bedrock) : option bytes :=
    if contains 0 original then None
    else if existsb (contains 0) (bedrock_fields d) then None
    else Some (original ++ [0] ++ encrypt k iv (join_with 0 (bedrock_fields d))).

  (* ---------- reference: Floodgate's own encoder and decoder (Java) ----------
     AesCipher.encrypt: HEADER, topping(iv), 0x21, topping(ciphertext) with Base64Topping =
     java.util.Base64 encoder; the handshake hostname is host NUL data.
     BedrockData.toString: the twelve fields joined by NUL. *)
  Definition floodgate_encode (k iv original : bytes) (fields : list bytes) : bytes :=
    original ++ [0] ++ header ++ b64_encode iv ++ [33] ++ b64_encode (seal k iv (join_with 0 fields)).

  (* String.split("\0") drops trailing empty strings *)
  Fixpoint drop_trailing_empty (ps : list bytes) : list bytes :=
    match ps with
    | [] => []
    | p :: r =>
      match drop_trailing_empty r, p with
      | [], [] => []
      | r', _ => p :: r'
      end
    end.
  Definition java_split (sep : N) (s : bytes) : list bytes :=
    match s with [] => [[]] | _ => drop_trailing_empty (split_on sep s) end.

  (* AesCipher.decrypt with Base64Topping, then BedrockData.fromString's length check *)
  Definition floodgate_decode (k hostname : bytes) : option (bytes * list bytes) :=
    match split_on 0 hostname with
    | [original; blob] =>
      if negb (is_prefix header blob) then None
      else match cut_at 33 (skipn (length header) blob) with
           | None => None
           | Some (iv64, ct64) =>
             match b64_decode_java iv64, b64_decode_java ct64 with
             | Some iv, Some ct =>
               match open k iv ct with
               | None => None
               | Some p =>
                 let fs := java_split 0 p in
                 if Nat.eqb (length fs) 12 then Some (original, fs) else None
               end
             | _, _ => None
             end
           end
    | _ => None
    end.
End AEAD.
