(* Layout language for packet bodies (C04 / C05 / C07).  Executable definitions only.

   A layout describes what a packet's Encode writes and what its Decode reads, field by field,
   over an ABSTRACT family of primitive codecs [pfam] (VarInt, fixed ints, strings ... are supplied
   by Model/LayoutPrims.v; the generic theorems in Proofs/C04_layout.v only use the hypotheses
   [pfam_ok] about the family).

   Shapes produced by the translator (translator/layouts.go, DESIGN.md Appendix B):
     block ::= LEnd | LSeq item block | LVer guard block block | LOpt flag block block | LRest f lim
     item  ::= LPrim f p | LOpt flag block block | LRep f opts block | LConst p k
   i.e. a block is a cons-list of items; a version test always ends its block (the translator copies
   the statements that follow the Go "if" into both branches), so that after [resolve] (choosing
   the branch a context selects) two layouts written in different Go styles become the same term. *)
From Coq Require Import List NArith ZArith String Bool.
From Verif Require Import Base.Hex.
Import ListNotations.
Open Scope Z_scope.

(* ---------- results ---------- *)
Inductive err :=
| EShort      (* input ended inside a field: io.EOF / io.ErrUnexpectedEOF *)
| ETooLong    (* a length or count above the decoder's limit *)
| ENegative   (* negative length / count *)
| EFormat     (* malformed field (bad key, bad uuid text, VarInt too big) *)
| EDomain     (* encoder: value outside what the writer accepts *)
| EShape      (* encoder: value tree does not have the shape of the layout *)
| EFuel.      (* decoder loop ran out of fuel; excluded by dec_T_terminates *)
Inductive res (A : Type) := Ok (a : A) | Err (e : err).
Arguments Ok {A}. Arguments Err {A}.

Definition bind {A B} (r : res A) (f : A -> res B) : res B :=
  match r with Ok a => f a | Err e => Err e end.

(* ---------- values ---------- *)
Inductive atom := AZ (z : Z) | ABool (b : bool) | ABytes (b : bytes).

Definition atom_eqb (a b : atom) : bool :=
  match a, b with
  | AZ x, AZ y => x =? y
  | ABool x, ABool y => Bool.eqb x y
  | ABytes x, ABytes y => beq_bytes x y
  | _, _ => false
  end.

(* the value of a layout at a context: VPair for LSeq, VFlag for LOpt (flag, chosen branch),
   VList for LRep, VUnit for LEnd / LConst, the chosen branch's value for LVer *)
Inductive value :=
| VUnit
| VAtom (a : atom)
| VPair (x y : value)
| VFlag (b : bool) (v : value)
| VList (vs : list value).

(* ---------- contexts and guards ---------- *)
(* ctag is the value of the enclosing tagged choice's tag (LTag sets it for its body, LSel tests it); it is 0 outside *)
Record ctx := mkctx3 { cver : Z; ccb : bool (* direction = ClientBound *); ctag : Z }.
Definition mkctx (v : Z) (cb : bool) : ctx := mkctx3 v cb 0.
Definition set_tag (c : ctx) (z : Z) : ctx := mkctx3 (cver c) (ccb c) z.

Inductive guard :=
| GTrue
| GGe (n : Z) | GLt (n : Z) | GLe (n : Z) | GGt (n : Z) | GEq (n : Z)   (* c.Protocol.GreaterEqual(v) ... *)
| GCb                                                                  (* c.Direction == proto.ClientBound *)
| GNot (g : guard) | GAnd (a b : guard) | GOr (a b : guard).

Fixpoint eval_guard (g : guard) (c : ctx) : bool :=
  match g with
  | GTrue => true
  | GGe n => n <=? cver c
  | GLt n => cver c <? n
  | GLe n => cver c <=? n
  | GGt n => n <? cver c
  | GEq n => cver c =? n
  | GCb => ccb c
  | GNot g => negb (eval_guard g c)
  | GAnd a b => eval_guard a c && eval_guard b c
  | GOr a b => eval_guard a c || eval_guard b c
  end.

(* ---------- field names: which Go struct field a layout node writes / fills ----------
   Names carry no semantics for enc/dec; they are compared by layout_eqb (Encode and Decode must
   touch the same fields in the same order) and used by the judges to build a value from the
   field dump of a Go struct. *)
Inductive fexpr :=
| FPath (p : list string)        (* p.F.G ; "#" steps into the current element of a repeated field *)
| FHas (p : list string)         (* p.F != nil, len(p.F) > 0, p.F != "", p.F != uuid.Nil : the field is present / non-zero *)
| FNeg (f : fexpr)               (* !f *)
| FFun (fn : string) (p : list string)   (* fn(p.F): a pure normaliser applied to the field (evaluated by the judge) *)
| FAnon.                         (* value not stored in / taken from a field *)

Fixpoint path_eqb (a b : list string) : bool :=
  match a, b with
  | [], [] => true
  | x :: a', y :: b' => String.eqb x y && path_eqb a' b'
  | _, _ => false
  end.

Fixpoint fexpr_eqb (a b : fexpr) : bool :=
  match a, b with
  | FPath p, FPath q => path_eqb p q
  | FHas p, FHas q => path_eqb p q
  | FNeg x, FNeg y => fexpr_eqb x y
  | FFun f p, FFun g q => String.eqb f g && path_eqb p q
  | FAnon, FAnon => true
  | _, _ => false
  end.

(* ---------- the primitive family ---------- *)
Record pfam := mkpfam {
  prim : Type;
  prim_eqb : prim -> prim -> bool;           (* same wire format when ENCODING (caps / signedness of the reader ignored) *)
  enc_prim : prim -> atom -> res bytes;
  dec_prim : prim -> bytes -> res (atom * bytes);
  alloc_prim : prim -> bytes -> N;           (* allocation units requested by dec_prim on this input (bytes of make / copies) *)
  prim_cap : prim -> N;                      (* fixed cap of what a FAILING read of this primitive may have allocated *)
  prim_min : prim -> N;                      (* a successful read consumes at least this many bytes *)
  enc_flag : bool -> bytes;                  (* util.WriteBool *)
  dec_flag : bytes -> res (bool * bytes);    (* util.ReadBool *)
  enc_count : Z -> res bytes;                (* util.WriteVarInt(len(xs)) *)
  dec_count : bytes -> res (Z * bytes)       (* util.ReadVarInt *)
}.

(* decoder-side options of a counted loop; ignored when encoding and by layout_eqb *)
Record repopts := mkrep {
  rcap : option Z;     (* count > cap  => error (explicit limit check) *)
  rneg : bool;         (* count < 0    => error (explicit check, or make([]T, n) panicking into RecoverFunc); false: loop does not run *)
  rpre : N             (* pre-allocation: min(count, rpre) elements (rpre = 0: none, slice grows by append) *)
}.

Section Layout.
  Variable F : pfam.

  Inductive layout :=
  | LEnd
  | LPrim (f : fexpr) (p : prim F)
  | LSeq (a b : layout)
  | LVer (g : guard) (a b : layout)          (* if guard then a else b; value = the chosen branch's value *)
  | LOpt (f : fexpr) (a b : layout)          (* one bool on the wire; true -> a, false -> b *)
  | LRep (f : fexpr) (o : repopts) (a : layout)   (* VarInt count, then count times a *)
  | LRest (f : fexpr) (lim : option N)       (* all remaining bytes (io.ReadAll); more than lim => error *)
  | LConst (p : prim F) (k : atom)           (* encoder writes the constant k; decoder reads and drops it *)
  (* tagged choice (a Go `switch p.Action` / `if p.ID == 0` on a field that was just written / read):
     LTag writes / reads the integer tag with primitive p and runs its body with the tag remembered in the context;
     LSel k a b inside that body continues with a when the tag equals k, else with b; LFail is the branch of a tag
     the code rejects (encoder and decoder both return an error).
     LCase f p [(k1,a1);...;(kn,an)] d  is written  LTag f p (LSel k1 a1 (... (LSel kn an d))) *)
  | LTag (f : fexpr) (p : prim F) (body : layout)
  | LSel (k : Z) (a b : layout)
  | LFail.

  (* ----- encoding ----- *)
  Fixpoint enc_all (f : value -> res bytes) (vs : list value) : res bytes :=
    match vs with
    | [] => Ok []
    | v :: r => bind (f v) (fun b1 => bind (enc_all f r) (fun b2 => Ok (b1 ++ b2)))
    end.

  Fixpoint enc_L (l : layout) (c : ctx) (v : value) : res bytes :=
    match l with
    | LEnd => match v with VUnit => Ok [] | _ => Err EShape end
    | LPrim _ p => match v with VAtom a => enc_prim F p a | _ => Err EShape end
    | LSeq a b =>
        match v with
        | VPair x y => bind (enc_L a c x) (fun b1 => bind (enc_L b c y) (fun b2 => Ok (b1 ++ b2)))
        | _ => Err EShape
        end
    | LVer g a b => if eval_guard g c then enc_L a c v else enc_L b c v
    | LOpt _ a b =>
        match v with
        | VFlag true x => bind (enc_L a c x) (fun bs => Ok (enc_flag F true ++ bs))
        | VFlag false x => bind (enc_L b c x) (fun bs => Ok (enc_flag F false ++ bs))
        | _ => Err EShape
        end
    | LRep _ _ a =>
        match v with
        | VList vs =>
            bind (enc_count F (Z.of_nat (List.length vs))) (fun b1 =>
            bind (enc_all (enc_L a c) vs) (fun b2 => Ok (b1 ++ b2)))
        | _ => Err EShape
        end
    | LRest _ _ => match v with VAtom (ABytes bs) => Ok bs | _ => Err EShape end
    | LConst p k => match v with VUnit => enc_prim F p k | _ => Err EShape end
    | LTag _ p body =>
        match v with
        | VPair (VAtom (AZ z)) x =>
            bind (enc_prim F p (AZ z)) (fun b1 => bind (enc_L body (set_tag c z) x) (fun b2 => Ok (b1 ++ b2)))
        | _ => Err EShape
        end
    | LSel k a b => if ctag c =? k then enc_L a c v else enc_L b c v
    | LFail => Err EDomain
    end.

  (* ----- decoding, with the allocation units requested so far -----
     dec_T returns (allocation, outcome); dec_L is the outcome, alloc_L the allocation. *)
  Definition dres := (N * res (value * bytes))%type.

  (* the loop of a counted array: n iterations of d; fuel only bounds the recursion (EFuel is
     excluded by the termination theorem when every iteration consumes at least one byte) *)
  Fixpoint dec_many (d : bytes -> dres) (fuel : nat) (n : N) (bs : bytes) (acc : list value) (al : N) : dres :=
    if (n =? 0)%N then (al, Ok (VList (rev acc), bs))
    else match fuel with
         | O => (al, Err EFuel)
         | S f =>
             match d bs with
             | (a1, Err e) => ((al + a1)%N, Err e)
             | (a1, Ok (v, rest)) => dec_many d f (n - 1)%N rest (v :: acc) (al + a1 + 1)%N
             end
         end.

  Definition lenN (bs : bytes) : N := N.of_nat (List.length bs).

  Fixpoint dec_T (l : layout) (c : ctx) (bs : bytes) : dres :=
    match l with
    | LEnd => (0%N, Ok (VUnit, bs))
    | LPrim _ p =>
        (alloc_prim F p bs,
         match dec_prim F p bs with Ok (a, rest) => Ok (VAtom a, rest) | Err e => Err e end)
    | LSeq a b =>
        match dec_T a c bs with
        | (n1, Err e) => (n1, Err e)
        | (n1, Ok (x, rest)) =>
            match dec_T b c rest with
            | (n2, Err e) => ((n1 + n2)%N, Err e)
            | (n2, Ok (y, rest')) => ((n1 + n2)%N, Ok (VPair x y, rest'))
            end
        end
    | LVer g a b => if eval_guard g c then dec_T a c bs else dec_T b c bs
    | LOpt _ a b =>
        match dec_flag F bs with
        | Err e => (0%N, Err e)
        | Ok (true, rest) =>
            match dec_T a c rest with
            | (n, Ok (x, rest')) => (n, Ok (VFlag true x, rest'))
            | (n, Err e) => (n, Err e)
            end
        | Ok (false, rest) =>
            match dec_T b c rest with
            | (n, Ok (x, rest')) => (n, Ok (VFlag false x, rest'))
            | (n, Err e) => (n, Err e)
            end
        end
    | LRep _ o a =>
        match dec_count F bs with
        | Err e => (0%N, Err e)
        | Ok (n, rest) =>
            if n <? 0 then (if rneg o then (0%N, Err ENegative) else (0%N, Ok (VList [], rest)))
            else if (match rcap o with Some m => m <? n | None => false end) then (0%N, Err ETooLong)
            else dec_many (dec_T a c) (S (List.length rest)) (Z.to_N n) rest [] (N.min (Z.to_N n) (rpre o))
        end
    | LRest _ lim =>
        if (match lim with Some m => (m <? lenN bs)%N | None => false end)
        then ((lenN bs + 512)%N, Err ETooLong)
        else ((2 * lenN bs + 512)%N, Ok (VAtom (ABytes bs), []))
    | LConst p _ =>
        (alloc_prim F p bs,
         match dec_prim F p bs with Ok (_, rest) => Ok (VUnit, rest) | Err e => Err e end)
    | LTag _ p body =>
        match dec_prim F p bs with
        | Ok (AZ z, rest) =>
            match dec_T body (set_tag c z) rest with
            | (n, Ok (x, rest')) => ((alloc_prim F p bs + n)%N, Ok (VPair (VAtom (AZ z)) x, rest'))
            | (n, Err e) => ((alloc_prim F p bs + n)%N, Err e)
            end
        | Ok (_, _) => (alloc_prim F p bs, Err EFormat)
        | Err e => (alloc_prim F p bs, Err e)
        end
    | LSel k a b => if ctag c =? k then dec_T a c bs else dec_T b c bs
    | LFail => (0%N, Err EFormat)
    end.

  Definition dec_L (l : layout) (c : ctx) (bs : bytes) : res (value * bytes) := snd (dec_T l c bs).
  Definition alloc_L (l : layout) (c : ctx) (bs : bytes) : N := fst (dec_T l c bs).

  (* ----- static functions of a layout at a context ----- *)

  (* choose the branch of every version test *)
  Fixpoint resolve (l : layout) (c : ctx) : layout :=
    match l with
    | LSeq a b => LSeq (resolve a c) (resolve b c)
    | LVer g a b => if eval_guard g c then resolve a c else resolve b c
    | LOpt f a b => LOpt f (resolve a c) (resolve b c)
    | LRep f o a => LRep f o (resolve a c)
    | LTag f p a => LTag f p (resolve a c)
    | LSel k a b => LSel k (resolve a c) (resolve b c)
    | _ => l
    end.

  (* same fields, same primitives (modulo reader-side caps), same structure; LVer never equal:
     compare resolved layouts *)
  Fixpoint layout_eqb (x y : layout) : bool :=
    match x, y with
    | LEnd, LEnd => true
    | LPrim f p, LPrim g q => fexpr_eqb f g && prim_eqb F p q
    | LSeq a b, LSeq a' b' => layout_eqb a a' && layout_eqb b b'
    | LOpt f a b, LOpt g a' b' => fexpr_eqb f g && layout_eqb a a' && layout_eqb b b'
    | LRep f _ a, LRep g _ a' => fexpr_eqb f g && layout_eqb a a'
    | LRest f _, LRest g _ => fexpr_eqb f g
    | LConst p k, LConst q k' => prim_eqb F p q && atom_eqb k k'
    | LTag f p a, LTag g q a' => fexpr_eqb f g && prim_eqb F p q && layout_eqb a a'
    | LSel k a b, LSel k' a' b' => (k =? k') && layout_eqb a a' && layout_eqb b b'
    | LFail, LFail => true
    | _, _ => false
    end.

  Definition layout_eqb_at (c : ctx) (x y : layout) : bool := layout_eqb (resolve x c) (resolve y c).

  (* no io.ReadAll tail reachable at this context *)
  Fixpoint norest (l : layout) (c : ctx) : bool :=
    match l with
    | LSeq a b => norest a c && norest b c
    | LVer g a b => if eval_guard g c then norest a c else norest b c
    | LOpt _ a b => norest a c && norest b c
    | LRep _ _ a => norest a c
    | LRest _ _ => false
    | LTag _ _ a => norest a c
    | LSel _ a b => norest a c && norest b c
    | _ => true
    end.

  (* a successful decode consumes at least this many bytes *)
  Fixpoint minsz (l : layout) (c : ctx) : N :=
    match l with
    | LEnd => 0
    | LPrim _ p => prim_min F p
    | LSeq a b => minsz a c + minsz b c
    | LVer g a b => if eval_guard g c then minsz a c else minsz b c
    | LOpt _ a b => 1 + N.min (minsz a c) (minsz b c)
    | LRep _ _ _ => 1
    | LRest _ _ => 0
    | LConst p _ => prim_min F p
    | LTag _ p a => prim_min F p + minsz a c
    | LSel _ a b => N.min (minsz a c) (minsz b c)
    | LFail => 1            (* never decodes successfully: any bound holds *)
    end%N.

  (* well-formed at a context: ReadAll only in tail position, loop bodies consume >= 1 byte *)
  Fixpoint wf (l : layout) (c : ctx) : bool :=
    match l with
    | LSeq a b => wf a c && norest a c && wf b c
    | LVer g a b => if eval_guard g c then wf a c else wf b c
    | LOpt _ a b => wf a c && wf b c
    | LRep _ _ a => wf a c && norest a c && (1 <=? minsz a c)%N
    | LTag _ _ a => wf a c
    | LSel _ a b => wf a c && wf b c
    | _ => true
    end.

  (* allocation bound constants: alloc <= kcost * consumed + scost on success,
                                 alloc <= kcost * len + ucost always (Proofs/C05.v) *)
  Variable ka : N.   (* units a primitive may allocate per byte it consumes *)

  Fixpoint scost (l : layout) (c : ctx) : N :=
    match l with
    | LSeq a b => scost a c + scost b c
    | LVer g a b => if eval_guard g c then scost a c else scost b c
    | LOpt _ a b => scost a c + scost b c
    | LRest _ _ => 512
    | LTag _ _ a => scost a c
    | LSel _ a b => scost a c + scost b c
    | _ => 0
    end%N.

  Fixpoint kcost (l : layout) (c : ctx) : N :=
    match l with
    | LEnd => 0
    | LPrim _ _ => ka
    | LSeq a b => kcost a c + kcost b c
    | LVer g a b => if eval_guard g c then kcost a c else kcost b c
    | LOpt _ a b => kcost a c + kcost b c
    | LRep _ _ a => kcost a c + scost a c + 2
    | LRest _ _ => 2
    | LConst _ _ => ka
    | LTag _ _ a => ka + kcost a c
    | LSel _ a b => kcost a c + kcost b c
    | LFail => 0
    end%N.

  Fixpoint ucost (l : layout) (c : ctx) : N :=
    match l with
    | LEnd => 0
    | LPrim _ p => prim_cap F p
    | LSeq a b => scost a c + ucost a c + ucost b c
    | LVer g a b => if eval_guard g c then ucost a c else ucost b c
    | LOpt _ a b => ucost a c + ucost b c
    | LRep _ o a => rpre o + ucost a c
    | LRest _ _ => 512
    | LConst p _ => prim_cap F p
    | LTag _ p a => prim_cap F p + ucost a c
    | LSel _ a b => ucost a c + ucost b c
    | LFail => 0
    end%N.
End Layout.

Arguments LEnd {F}.
Arguments LPrim {F}.
Arguments LSeq {F}.
Arguments LVer {F}.
Arguments LOpt {F}.
Arguments LRep {F}.
Arguments LRest {F}.
Arguments LConst {F}.
Arguments LTag {F}.
Arguments LSel {F}.
Arguments LFail {F}.
