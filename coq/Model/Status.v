(* C43 - status-phase session of a classic-mode proxy without ping subscribers.
   Executable definitions only. Mirrors pkg/edition/java/proxy/session_status.go
   (statusSessionHandler.HandlePacket / handleStatusRequest / handleStatusPing / newInitialPing),
   the packet skipping of codec.Decoder.readPacket (empty frames) and the registry fallback of
   state.PacketRegistry.ProtocolRegistry that decides which protocol number reaches newInitialPing. *)
From Coq Require Import List NArith ZArith Bool.
From Verif Require Import Base.Hex.
Import ListNotations.
Open Scope Z_scope.

(* ---- which protocol is advertised ------------------------------------------------------------ *)

Definition memZ (p : Z) (l : list Z) : bool := existsb (Z.eqb p) l.

(* version.MaximumVersion: the last element of version.SupportedVersions; as a number: the largest *)
Definition newest (sup : list Z) : Z := fold_left Z.max sup (hd 0 sup).
(* version.MinimumVersion = SupportedVersions[0] *)
Definition oldest (sup : list Z) : Z := hd 0 sup.

(* What the property demands: the client's protocol when supported, the newest otherwise. *)
Definition spec_advertised (sup : list Z) (p : Z) : Z :=
  if memZ p sup then p else newest sup.

(* What the code does (since fix c892351): handleStatusRequest passes conn.Protocol (), the number
   from the client's handshake, and newInitialPing looks it up in version.ProtocolToVersion: absent,
   Unknown (-1) or Legacy (-2) -> MaximumVersion. The members that are neither Unknown nor Legacy are
   exactly version.SupportedVersions. *)
Definition impl_advertised (sup : list Z) (p : Z) : Z :=
  if memZ p sup then p else newest sup.

(* PRE-FIX code (before c892351), kept as a labelled historical fact: handleStatusRequest passed
   pc.Protocol, i.e. the protocol of the decoder's registry, and PacketRegistry.ProtocolRegistry p
   falls back to MinimumVersion when p has no registry; newInitialPing then only tested
   Protocol.Supported, which is "not Unknown (-1)". *)
Definition registry_protocol (sup : list Z) (p : Z) : Z :=
  if memZ p sup then p else oldest sup.
Definition prefix_impl_advertised (sup : list Z) (p : Z) : Z :=
  let rp := registry_protocol sup p in
  if rp =? -1 then newest sup else rp.

(* trigger of the (fixed) finding C43-1 *)
Definition trigger_unsupported (sup : list Z) (p : Z) : bool := negb (memZ p sup).

(* ---- the session ------------------------------------------------------------------------------ *)

Inductive op :=
| Req                     (* StatusRequest, id 0 (trailing bytes are tolerated by the decoder)    *)
| Ping (payload : bytes)  (* packet id 1; payload = the whole body. Well-formed: 8 bytes or more
                             (trailing bytes are tolerated). StatusPing.Decode uses util.ReadInt64
                             = io.ReadFull of 8 bytes (since fix 2257945): a body shorter than 8
                             bytes is a decode error, the read loop closes the connection *)
| Bad                     (* unknown packet id                                                    *)
| Empty.                  (* zero-length frame: skipped by the decoder, at most 11 in a row      *)

Inductive out :=
| OResp (protocol online : Z)   (* one StatusResponse; numbers taken from its JSON *)
| OEcho (payload : bytes)       (* packet id 1 with this body                        *)
| OOther (id : Z) (body : bytes) (* anything else that arrived (never produced by the model) *)
| OClose.                       (* the proxy closed the connection                   *)

Record st := mkSt { got_req : bool; closed : bool; empties : N }.
Definition init : st := mkSt false false 0.

(* adv = advertised protocol for this connection, online = Proxy.PlayerCount *)
Definition step (adv online : Z) (s : st) (o : op) : st * list out :=
  if closed s then (s, []) else
  match o with
  | Empty =>
      (* readPacket: retries > 10 -> error; the read loop then closes *)
      if (11 <=? empties s)%N then (mkSt (got_req s) true (empties s), [OClose])
      else (mkSt (got_req s) false (empties s + 1), [])
  | Req =>
      if got_req s then (mkSt true true 0, [OClose])
      else (mkSt true false 0, [OResp adv online])
  | Ping p => if Nat.ltb (length p) 8 then (mkSt (got_req s) true 0, [OClose])
              else (mkSt (got_req s) true 0, [OEcho p; OClose])
  | Bad => (mkSt (got_req s) true 0, [OClose])
  end.

(* outputs per operation, in order *)
Fixpoint run_from (adv online : Z) (s : st) (ops : list op) : st * list (list out) :=
  match ops with
  | [] => (s, [])
  | o :: r => let '(s1, os) := step adv online s o in
              let '(s2, oss) := run_from adv online s1 r in (s2, os :: oss)
  end.
Definition run adv online ops := run_from adv online init ops.
Definition outs adv online ops : list (list out) := snd (run adv online ops).
Definition final adv online ops : st := fst (run adv online ops).
Definition trace adv online ops : list out := concat (outs adv online ops).

Definition is_resp (o : out) : bool := match o with OResp _ _ => true | _ => false end.
Definition is_echo (o : out) : bool := match o with OEcho _ => true | _ => false end.
Definition count_resp (t : list out) : nat := length (filter is_resp t).
Definition count_echo (t : list out) : nat := length (filter is_echo t).

(* ---- decidable equality on observations (used by the judge) ----------------------------------- *)
Definition beq_out (a b : out) : bool :=
  match a, b with
  | OResp p1 n1, OResp p2 n2 => (p1 =? p2) && (n1 =? n2)
  | OEcho x, OEcho y => beq_bytes x y
  | OOther i x, OOther j y => (i =? j) && beq_bytes x y
  | OClose, OClose => true
  | _, _ => false
  end.
Fixpoint beq_list {A} (eq : A -> A -> bool) (a b : list A) : bool :=
  match a, b with
  | [], [] => true
  | x :: a', y :: b' => eq x y && beq_list eq a' b'
  | _, _ => false
  end.
Definition beq_outs := beq_list (beq_list beq_out).

(* The property's own predicate on an observed run (inputs: ops, the supported set, the client's
   protocol, the real player count): at most one response; the response to the first request carries
   the demanded protocol and the player count; every echo equals the ping body it answers and is
   followed by the close; nothing is emitted after a close. Evaluated on OBSERVED outputs. *)
Fixpoint holds_from (want_proto online : Z) (got closed_ : bool) (ops : list op) (obs : list (list out)) : bool :=
  match ops, obs with
  | [], [] => true
  | o :: r, os :: rest =>
      if closed_ then beq_list beq_out os [] && holds_from want_proto online got true r rest else
      match o with
      | Req =>
          if got then beq_list beq_out os [OClose] && holds_from want_proto online true true r rest
          else beq_list beq_out os [OResp want_proto online] && holds_from want_proto online true false r rest
      | Ping p =>
          (* a well-formed ping must be echoed; a truncated one must at least close and, if it is
             answered at all, be answered with its own bytes *)
          (beq_list beq_out os [OEcho p; OClose]
           || (negb (8 <=? Z.of_nat (length p)) && beq_list beq_out os [OClose]))
          && holds_from want_proto online got true r rest
      | Bad => beq_list beq_out os [OClose] && holds_from want_proto online got true r rest
      | Empty =>
          (* the property text says nothing about empty frames: either skipped or closed, never answered *)
          (beq_list beq_out os [] && holds_from want_proto online got false r rest)
          || (beq_list beq_out os [OClose] && holds_from want_proto online got true r rest)
      end
  | _, _ => false
  end.
Definition holds_C43 (want_proto online : Z) (ops : list op) (obs : list (list out)) : bool :=
  holds_from want_proto online false false ops obs.
