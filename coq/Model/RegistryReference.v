(* Model/RegistryReference.v — reference packet ids for property C06, assembled from sources that are
   independent of gate's register.go and available offline.  Data only (no proofs).

   The property's reference is Velocity's StateRegistry; no Velocity source exists in this sandbox.
   Every entry carries its source:

   SrcGoMc      github.com/Tnze/go-mc v1.20.2 (module cache), data/packetid/packetid.go, protocol 764
                (bot/mcbot.go: ProtocolVersion = 764).  The ids are the iota positions of the named
                constants, computed by script from that file; the constant is quoted next to each entry.
                The pairing "vanilla packet name -> gate packet type" is mine (semantic, no ids involved).
   SrcGateTest  ids asserted by gate's own /repo/pkg/edition/java/proto/state/register_test.go
                (TestPluginMessagePacketID_1_21_9, TestBundleDelimiterPacketID_1_21_1, TestPacketIDs_26_1),
                written by the maintainers against the vanilla protocol when fixing id bugs (issue #612).
   SrcWellKnown ids of the handshake / status / login states, stable since 1.7 and additionally confirmed at
                protocol 764 by go-mc (and by go-mc's data/packetid/legacy.go for the pre-1.20.2 login set).
                Bounded above by the newest protocol known when this file was written (776).
   SrcMemory    UNVERIFIED: written from my memory of the vanilla protocol (wiki.vg tables for 1.8 and 1.12.2).
                Never alarmed on: the theorem and the judge only use `alarmed`; `unverified` entries are
                compared for the evidence report only. *)
From Coq Require Import List ZArith String.
From Verif Require Import Model.Registry.
Import ListNotations.
Open Scope string_scope.
Open Scope Z_scope.

Inductive source := SrcGoMc | SrcGateTest | SrcWellKnown | SrcMemory.
Definition verified (s : source) : bool := match s with SrcMemory => false | _ => true end.

(* in state e_state / direction e_dir, for every protocol p with e_lo <= p <= e_hi, type e_type has id e_id *)
Record ref_entry := mkRef {
  e_state : state; e_dir : dir; e_lo : Z; e_hi : Z; e_type : ptype; e_id : Z; e_src : source }.

Definition ids : list ref_entry := [
  (* go-mc: Login Clientbound *)
  mkRef Login ClientBound 764 764 "packet.Disconnect" 0 SrcGoMc; (* ClientboundLoginDisconnect = iota 0 = 0x00 *)
  mkRef Login ClientBound 764 764 "packet.EncryptionRequest" 1 SrcGoMc; (* ClientboundLoginEncryptionRequest = iota 1 = 0x01 *)
  mkRef Login ClientBound 764 764 "packet.ServerLoginSuccess" 2 SrcGoMc; (* ClientboundLoginSuccess = iota 2 = 0x02 *)
  mkRef Login ClientBound 764 764 "packet.SetCompression" 3 SrcGoMc; (* ClientboundLoginCompression = iota 3 = 0x03 *)
  mkRef Login ClientBound 764 764 "packet.LoginPluginMessage" 4 SrcGoMc; (* ClientboundLoginPluginRequest = iota 4 = 0x04 *)
  (* go-mc: Login Serverbound *)
  mkRef Login ServerBound 764 764 "packet.ServerLogin" 0 SrcGoMc; (* ServerboundLoginStart = iota 0 = 0x00 *)
  mkRef Login ServerBound 764 764 "packet.EncryptionResponse" 1 SrcGoMc; (* ServerboundLoginEncryptionResponse = iota 1 = 0x01 *)
  mkRef Login ServerBound 764 764 "packet.LoginPluginResponse" 2 SrcGoMc; (* ServerboundLoginPluginResponse = iota 2 = 0x02 *)
  mkRef Login ServerBound 764 764 "packet.LoginAcknowledged" 3 SrcGoMc; (* ServerboundLoginAcknowledged = iota 3 = 0x03 *)
  (* go-mc: Status Clientbound *)
  mkRef Status ClientBound 764 764 "packet.StatusResponse" 0 SrcGoMc; (* ClientboundStatusResponse = iota 0 = 0x00 *)
  mkRef Status ClientBound 764 764 "packet.StatusPing" 1 SrcGoMc; (* ClientboundStatusPongResponse = iota 1 = 0x01 *)
  (* go-mc: Status Serverbound *)
  mkRef Status ServerBound 764 764 "packet.StatusRequest" 0 SrcGoMc; (* ServerboundStatusRequest = iota 0 = 0x00 *)
  mkRef Status ServerBound 764 764 "packet.StatusPing" 1 SrcGoMc; (* ServerboundStatusPingRequest = iota 1 = 0x01 *)
  (* go-mc: Configuration Clientbound *)
  mkRef Config ClientBound 764 764 "plugin.Message" 0 SrcGoMc; (* ClientboundConfigCustomPayload = iota 0 = 0x00 *)
  mkRef Config ClientBound 764 764 "packet.Disconnect" 1 SrcGoMc; (* ClientboundConfigDisconnect = iota 1 = 0x01 *)
  mkRef Config ClientBound 764 764 "config.FinishedUpdate" 2 SrcGoMc; (* ClientboundConfigFinishConfiguration = iota 2 = 0x02 *)
  mkRef Config ClientBound 764 764 "packet.KeepAlive" 3 SrcGoMc; (* ClientboundConfigKeepAlive = iota 3 = 0x03 *)
  mkRef Config ClientBound 764 764 "packet.PingIdentify" 4 SrcGoMc; (* ClientboundConfigPing = iota 4 = 0x04 *)
  mkRef Config ClientBound 764 764 "config.RegistrySync" 5 SrcGoMc; (* ClientboundConfigRegistryData = iota 5 = 0x05 *)
  mkRef Config ClientBound 764 764 "packet.ResourcePackRequest" 6 SrcGoMc; (* ClientboundConfigResourcePack = iota 6 = 0x06 *)
  mkRef Config ClientBound 764 764 "config.ActiveFeatures" 7 SrcGoMc; (* ClientboundConfigUpdateEnabledFeatures = iota 7 = 0x07 *)
  mkRef Config ClientBound 764 764 "config.TagsUpdate" 8 SrcGoMc; (* ClientboundConfigUpdateTags = iota 8 = 0x08 *)
  (* go-mc: Configuration Serverbound *)
  mkRef Config ServerBound 764 764 "packet.ClientSettings" 0 SrcGoMc; (* ServerboundConfigClientInformation = iota 0 = 0x00 *)
  mkRef Config ServerBound 764 764 "plugin.Message" 1 SrcGoMc; (* ServerboundConfigCustomPayload = iota 1 = 0x01 *)
  mkRef Config ServerBound 764 764 "config.FinishedUpdate" 2 SrcGoMc; (* ServerboundConfigFinishConfiguration = iota 2 = 0x02 *)
  mkRef Config ServerBound 764 764 "packet.KeepAlive" 3 SrcGoMc; (* ServerboundConfigKeepAlive = iota 3 = 0x03 *)
  mkRef Config ServerBound 764 764 "packet.PingIdentify" 4 SrcGoMc; (* ServerboundConfigPong = iota 4 = 0x04 *)
  mkRef Config ServerBound 764 764 "packet.ResourcePackResponse" 5 SrcGoMc; (* ServerboundConfigResourcePack = iota 5 = 0x05 *)
  (* go-mc: Game Clientbound *)
  mkRef Play ClientBound 764 764 "packet.BundleDelimiter" 0 SrcGoMc; (* BundleDelimiter = iota 0 = 0x00 *)
  mkRef Play ClientBound 764 764 "bossbar.BossBar" 10 SrcGoMc; (* ClientboundBossEvent = iota 10 = 0x0A *)
  mkRef Play ClientBound 764 764 "title.Clear" 15 SrcGoMc; (* ClientboundClearTitles = iota 15 = 0x0F *)
  mkRef Play ClientBound 764 764 "packet.TabCompleteResponse" 16 SrcGoMc; (* ClientboundCommandSuggestions = iota 16 = 0x10 *)
  mkRef Play ClientBound 764 764 "packet.AvailableCommands" 17 SrcGoMc; (* ClientboundCommands = iota 17 = 0x11 *)
  mkRef Play ClientBound 764 764 "packet.PlayerChatCompletion" 23 SrcGoMc; (* ClientboundCustomChatCompletions = iota 23 = 0x17 *)
  mkRef Play ClientBound 764 764 "plugin.Message" 24 SrcGoMc; (* ClientboundCustomPayload = iota 24 = 0x18 *)
  mkRef Play ClientBound 764 764 "packet.Disconnect" 27 SrcGoMc; (* ClientboundDisconnect = iota 27 = 0x1B *)
  mkRef Play ClientBound 764 764 "packet.KeepAlive" 36 SrcGoMc; (* ClientboundKeepAlive = iota 36 = 0x24 *)
  mkRef Play ClientBound 764 764 "packet.JoinGame" 41 SrcGoMc; (* ClientboundLogin = iota 41 = 0x29 *)
  mkRef Play ClientBound 764 764 "playerinfo.Remove" 59 SrcGoMc; (* ClientboundPlayerInfoRemove = iota 59 = 0x3B *)
  mkRef Play ClientBound 764 764 "playerinfo.Upsert" 60 SrcGoMc; (* ClientboundPlayerInfoUpdate = iota 60 = 0x3C *)
  mkRef Play ClientBound 764 764 "packet.ResourcePackRequest" 66 SrcGoMc; (* ClientboundResourcePack = iota 66 = 0x42 *)
  mkRef Play ClientBound 764 764 "packet.Respawn" 67 SrcGoMc; (* ClientboundRespawn = iota 67 = 0x43 *)
  mkRef Play ClientBound 764 764 "packet.ServerData" 71 SrcGoMc; (* ClientboundServerData = iota 71 = 0x47 *)
  mkRef Play ClientBound 764 764 "title.Actionbar" 72 SrcGoMc; (* ClientboundSetActionBarText = iota 72 = 0x48 *)
  mkRef Play ClientBound 764 764 "title.Subtitle" 95 SrcGoMc; (* ClientboundSetSubtitleText = iota 95 = 0x5F *)
  mkRef Play ClientBound 764 764 "title.Text" 97 SrcGoMc; (* ClientboundSetTitleText = iota 97 = 0x61 *)
  mkRef Play ClientBound 764 764 "title.Times" 98 SrcGoMc; (* ClientboundSetTitlesAnimation = iota 98 = 0x62 *)
  mkRef Play ClientBound 764 764 "packet.SoundEntityPacket" 99 SrcGoMc; (* ClientboundSoundEntity = iota 99 = 0x63 *)
  mkRef Play ClientBound 764 764 "config.StartUpdate" 101 SrcGoMc; (* ClientboundStartConfiguration = iota 101 = 0x65 *)
  mkRef Play ClientBound 764 764 "packet.StopSoundPacket" 102 SrcGoMc; (* ClientboundStopSound = iota 102 = 0x66 *)
  mkRef Play ClientBound 764 764 "chat.SystemChat" 103 SrcGoMc; (* ClientboundSystemChat = iota 103 = 0x67 *)
  mkRef Play ClientBound 764 764 "packet.HeaderAndFooter" 104 SrcGoMc; (* ClientboundTabList = iota 104 = 0x68 *)
  (* go-mc: Game Serverbound *)
  mkRef Play ServerBound 764 764 "chat.ChatAcknowledgement" 3 SrcGoMc; (* ServerboundChatAck = iota 3 = 0x03 *)
  mkRef Play ServerBound 764 764 "chat.SessionPlayerCommand" 4 SrcGoMc; (* ServerboundChatCommand = iota 4 = 0x04 *)
  mkRef Play ServerBound 764 764 "chat.SessionPlayerChat" 5 SrcGoMc; (* ServerboundChat = iota 5 = 0x05 *)
  mkRef Play ServerBound 764 764 "packet.ClientSettings" 9 SrcGoMc; (* ServerboundClientInformation = iota 9 = 0x09 *)
  mkRef Play ServerBound 764 764 "packet.TabCompleteRequest" 10 SrcGoMc; (* ServerboundCommandSuggestion = iota 10 = 0x0A *)
  mkRef Play ServerBound 764 764 "config.FinishedUpdate" 11 SrcGoMc; (* ServerboundConfigurationAcknowledged = iota 11 = 0x0B *)
  mkRef Play ServerBound 764 764 "plugin.Message" 15 SrcGoMc; (* ServerboundCustomPayload = iota 15 = 0x0F *)
  mkRef Play ServerBound 764 764 "packet.KeepAlive" 20 SrcGoMc; (* ServerboundKeepAlive = iota 20 = 0x14 *)
  mkRef Play ServerBound 764 764 "packet.ResourcePackResponse" 39 SrcGoMc; (* ServerboundResourcePack = iota 39 = 0x27 *)

  (* gate register_test.go: TestPluginMessagePacketID_1_21_9 *)
  mkRef Play ClientBound 770 770 "plugin.Message" 0x18 SrcGateTest;
  mkRef Play ClientBound 772 772 "plugin.Message" 0x18 SrcGateTest;
  mkRef Play ClientBound 773 773 "plugin.Message" 0x18 SrcGateTest;
  mkRef Play ClientBound 774 774 "plugin.Message" 0x18 SrcGateTest;
  (* TestBundleDelimiterPacketID_1_21_1 *)
  mkRef Play ClientBound 767 767 "packet.BundleDelimiter" 0x00 SrcGateTest;
  (* TestPacketIDs_26_1, Play ServerBound *)
  mkRef Play ServerBound 775 775 "packet.KeepAlive" 0x1C SrcGateTest;
  mkRef Play ServerBound 775 775 "plugin.Message" 0x16 SrcGateTest;
  mkRef Play ServerBound 775 775 "packet.ClientSettings" 0x0E SrcGateTest;
  mkRef Play ServerBound 775 775 "chat.ChatAcknowledgement" 0x06 SrcGateTest;
  mkRef Play ServerBound 775 775 "chat.SessionPlayerCommand" 0x08 SrcGateTest;
  mkRef Play ServerBound 775 775 "chat.UnsignedPlayerCommand" 0x07 SrcGateTest;
  mkRef Play ServerBound 775 775 "chat.SessionPlayerChat" 0x09 SrcGateTest;
  mkRef Play ServerBound 775 775 "packet.TabCompleteRequest" 0x0F SrcGateTest;
  mkRef Play ServerBound 775 775 "packet.ResourcePackResponse" 0x31 SrcGateTest;
  mkRef Play ServerBound 775 775 "config.FinishedUpdate" 0x10 SrcGateTest;
  mkRef Play ServerBound 775 775 "cookie.CookieResponse" 0x15 SrcGateTest;
  (* TestPacketIDs_26_1, Play ClientBound *)
  mkRef Play ClientBound 775 775 "packet.KeepAlive" 0x2C SrcGateTest;
  mkRef Play ClientBound 775 775 "packet.JoinGame" 0x31 SrcGateTest;
  mkRef Play ClientBound 775 775 "packet.Respawn" 0x52 SrcGateTest;
  mkRef Play ClientBound 775 775 "packet.RemoveResourcePack" 0x50 SrcGateTest;
  mkRef Play ClientBound 775 775 "packet.ResourcePackRequest" 0x51 SrcGateTest;
  mkRef Play ClientBound 775 775 "packet.HeaderAndFooter" 0x7A SrcGateTest;
  mkRef Play ClientBound 775 775 "playerinfo.Remove" 0x45 SrcGateTest;
  mkRef Play ClientBound 775 775 "playerinfo.Upsert" 0x46 SrcGateTest;
  mkRef Play ClientBound 775 775 "chat.SystemChat" 0x79 SrcGateTest;
  mkRef Play ClientBound 775 775 "packet.ServerData" 0x56 SrcGateTest;
  mkRef Play ClientBound 775 775 "config.StartUpdate" 0x76 SrcGateTest;
  mkRef Play ClientBound 775 775 "packet.Transfer" 0x81 SrcGateTest;
  mkRef Play ClientBound 775 775 "packet.CustomReportDetails" 0x88 SrcGateTest;
  mkRef Play ClientBound 775 775 "packet.ServerLinks" 0x89 SrcGateTest;
  mkRef Play ClientBound 775 775 "packet.SoundEntityPacket" 0x74 SrcGateTest;
  mkRef Play ClientBound 775 775 "packet.StopSoundPacket" 0x77 SrcGateTest;
  mkRef Play ClientBound 775 775 "cookie.CookieStore" 0x78 SrcGateTest;

  (* well-known stable ids: handshake, status, login; 4 = 1.7.2, 47 = 1.8, 393 = 1.13, 764 = 1.20.2, 766 = 1.20.5 *)
  mkRef Handshake ServerBound 4 776 "packet.Handshake" 0x00 SrcWellKnown;
  mkRef Status ServerBound 4 776 "packet.StatusRequest" 0x00 SrcWellKnown;
  mkRef Status ServerBound 4 776 "packet.StatusPing" 0x01 SrcWellKnown;
  mkRef Status ClientBound 4 776 "packet.StatusResponse" 0x00 SrcWellKnown;
  mkRef Status ClientBound 4 776 "packet.StatusPing" 0x01 SrcWellKnown;
  mkRef Login ClientBound 4 776 "packet.Disconnect" 0x00 SrcWellKnown;
  mkRef Login ClientBound 4 776 "packet.EncryptionRequest" 0x01 SrcWellKnown;
  mkRef Login ClientBound 4 776 "packet.ServerLoginSuccess" 0x02 SrcWellKnown;
  mkRef Login ClientBound 47 776 "packet.SetCompression" 0x03 SrcWellKnown;
  mkRef Login ClientBound 393 776 "packet.LoginPluginMessage" 0x04 SrcWellKnown;
  mkRef Login ClientBound 766 776 "cookie.CookieRequest" 0x05 SrcWellKnown;
  mkRef Login ServerBound 4 776 "packet.ServerLogin" 0x00 SrcWellKnown;
  mkRef Login ServerBound 4 776 "packet.EncryptionResponse" 0x01 SrcWellKnown;
  mkRef Login ServerBound 393 776 "packet.LoginPluginResponse" 0x02 SrcWellKnown;
  mkRef Login ServerBound 764 776 "packet.LoginAcknowledged" 0x03 SrcWellKnown;
  mkRef Login ServerBound 766 776 "cookie.CookieResponse" 0x04 SrcWellKnown;

  (* UNVERIFIED, from memory: vanilla 1.8.x (protocol 47) play ids *)
  mkRef Play ClientBound 47 47 "packet.KeepAlive" 0x00 SrcMemory;
  mkRef Play ClientBound 47 47 "packet.JoinGame" 0x01 SrcMemory;
  mkRef Play ClientBound 47 47 "chat.LegacyChat" 0x02 SrcMemory;
  mkRef Play ClientBound 47 47 "packet.Respawn" 0x07 SrcMemory;
  mkRef Play ClientBound 47 47 "legacytablist.PlayerListItem" 0x38 SrcMemory;
  mkRef Play ClientBound 47 47 "packet.TabCompleteResponse" 0x3A SrcMemory;
  mkRef Play ClientBound 47 47 "plugin.Message" 0x3F SrcMemory;
  mkRef Play ClientBound 47 47 "packet.Disconnect" 0x40 SrcMemory;
  mkRef Play ClientBound 47 47 "title.Legacy" 0x45 SrcMemory;
  mkRef Play ClientBound 47 47 "packet.HeaderAndFooter" 0x47 SrcMemory;
  mkRef Play ClientBound 47 47 "packet.ResourcePackRequest" 0x48 SrcMemory;
  mkRef Play ServerBound 47 47 "packet.KeepAlive" 0x00 SrcMemory;
  mkRef Play ServerBound 47 47 "chat.LegacyChat" 0x01 SrcMemory;
  mkRef Play ServerBound 47 47 "packet.TabCompleteRequest" 0x14 SrcMemory;
  mkRef Play ServerBound 47 47 "packet.ClientSettings" 0x15 SrcMemory;
  mkRef Play ServerBound 47 47 "plugin.Message" 0x17 SrcMemory;
  mkRef Play ServerBound 47 47 "packet.ResourcePackResponse" 0x19 SrcMemory;
  (* UNVERIFIED, from memory: vanilla 1.12.2 (protocol 340) play ids *)
  mkRef Play ClientBound 340 340 "bossbar.BossBar" 0x0C SrcMemory;
  mkRef Play ClientBound 340 340 "packet.TabCompleteResponse" 0x0E SrcMemory;
  mkRef Play ClientBound 340 340 "chat.LegacyChat" 0x0F SrcMemory;
  mkRef Play ClientBound 340 340 "plugin.Message" 0x18 SrcMemory;
  mkRef Play ClientBound 340 340 "packet.Disconnect" 0x1A SrcMemory;
  mkRef Play ClientBound 340 340 "packet.KeepAlive" 0x1F SrcMemory;
  mkRef Play ClientBound 340 340 "packet.JoinGame" 0x23 SrcMemory;
  mkRef Play ClientBound 340 340 "legacytablist.PlayerListItem" 0x2E SrcMemory;
  mkRef Play ClientBound 340 340 "packet.ResourcePackRequest" 0x34 SrcMemory;
  mkRef Play ClientBound 340 340 "packet.Respawn" 0x35 SrcMemory;
  mkRef Play ClientBound 340 340 "title.Legacy" 0x48 SrcMemory;
  mkRef Play ClientBound 340 340 "packet.HeaderAndFooter" 0x4A SrcMemory;
  mkRef Play ServerBound 340 340 "packet.TabCompleteRequest" 0x01 SrcMemory;
  mkRef Play ServerBound 340 340 "chat.LegacyChat" 0x02 SrcMemory;
  mkRef Play ServerBound 340 340 "packet.ClientSettings" 0x04 SrcMemory;
  mkRef Play ServerBound 340 340 "plugin.Message" 0x09 SrcMemory;
  mkRef Play ServerBound 340 340 "packet.KeepAlive" 0x0B SrcMemory;
  mkRef Play ServerBound 340 340 "packet.ResourcePackResponse" 0x18 SrcMemory
].

Definition alarmed : list ref_entry := filter (fun e => verified (e_src e)) ids.
Definition unverified : list ref_entry := filter (fun e => negb (verified (e_src e))) ids.

Definition in_range (e : ref_entry) (p : Z) : bool := (e_lo e <=? p) && (p <=? e_hi e).

(* entry e, at protocol p (inside its range), against the registry tb:
   RefAgree    the type is registered with the reference id,
   RefDiffer   the type is registered with ANOTHER id              (the property's reference clause is false),
   RefMissing  the type is not registered at that protocol at all  (nothing to compare: not shared) *)
Inductive ref_result := RefAgree | RefDiffer | RefMissing.
Definition compare_at (tb : table) (e : ref_entry) (p : Z) : ref_result :=
  match id_of tb (e_state e) (e_dir e) p (e_type e) with
  | Some id => if id =? e_id e then RefAgree else RefDiffer
  | None => RefMissing
  end.

(* `agrees tb vs e`: over every protocol of vs inside e's range, e's type never has a different id *)
Definition agrees (tb : table) (vs : list Z) (e : ref_entry) : bool :=
  forallb (fun p => if in_range e p
                    then match compare_at tb e p with RefDiffer => false | _ => true end
                    else true) vs.
(* `covered tb vs e`: ... and it is registered at each of them (the comparison is not vacuous) *)
Definition covered (tb : table) (vs : list Z) (e : ref_entry) : bool :=
  forallb (fun p => if in_range e p
                    then match compare_at tb e p with RefAgree => true | _ => false end
                    else true) vs.
(* entries (with the protocol) that do not agree; used for the evidence report on unverified entries *)
Definition disagreements (tb : table) (vs : list Z) (es : list ref_entry) : list (ref_entry * Z) :=
  flat_map (fun e => flat_map (fun p => if in_range e p
                                        then match compare_at tb e p with RefAgree => [] | _ => [(e, p)] end
                                        else []) vs) es.
