(* C04 - AvailableCommands (brigadier command graph): a reference decoder of the wire node table for the node subset
   the harness generates (root / literal / argument nodes; argument parsers bool, integer, string; executable flag;
   redirects; no custom suggestions) and a canonical unfolding of a node table into a tree, so that graphs can be
   compared by VALUE whatever the numbering of their nodes.  Mirrors packet/available_commands.go (encodeNode /
   WireNode.decode) and brigadier/registry.go (parser ids: VarInt 0 / 3 / 5 from 1.19, the strings
   "brigadier:bool" / "brigadier:integer" / "brigadier:string" before).  Executable definitions only. *)
From Coq Require Import List NArith ZArith Bool String.
From Verif Require Import Base.Hex Model.Layout Model.LayoutPrims.
Import ListNotations.
Open Scope string_scope.
Open Scope Z_scope.

Record node := mknode {
  nkind : N;                 (* 0 root, 1 literal, 2 argument *)
  nname : bytes;
  nexec : bool;              (* has a command *)
  nchildren : list N;        (* indices *)
  nredirect : option N;
  nparser : N;               (* argument nodes: 0 bool, 3 integer, 5 string; 0 otherwise *)
  nprops : bytes             (* the parser's property bytes: [] | flags [min] [max] | [mode] *)
}.

(* ---------- wire decoder ---------- *)
Fixpoint dec_varints (n : nat) (bs : bytes) : option (list N * bytes) :=
  match n with
  | O => Some ([], bs)
  | S k => match dec_varint bs with
           | Ok (z, r) => if z <? 0 then None else
                          match dec_varints k r with Some (l, r') => Some (Z.to_N z :: l, r') | None => None end
           | Err _ => None
           end
  end.

Definition dec_string (bs : bytes) : option (bytes * bytes) :=
  match dec_lenpref 262144 bs with Ok (s, r) => Some (s, r) | Err _ => None end.

Definition parser_of_name (s : bytes) : option N :=
  if beq_bytes s (tx "brigadier:bool") then Some 0%N
  else if beq_bytes s (tx "brigadier:integer") then Some 3%N
  else if beq_bytes s (tx "brigadier:string") then Some 5%N
  else None.

Definition dec_parser_id (ver : Z) (bs : bytes) : option (N * bytes) :=
  if 759 <=? ver then
    match dec_varint bs with Ok (z, r) => if (z =? 0) || (z =? 3) || (z =? 5) then Some (Z.to_N z, r) else None | Err _ => None end
  else match dec_string bs with
       | Some (s, r) => match parser_of_name s with Some p => Some (p, r) | None => None end
       | None => None
       end.

Definition dec_props (p : N) (bs : bytes) : option (bytes * bytes) :=
  if (p =? 0)%N then Some ([], bs)
  else if (p =? 5)%N then match bs with m :: r => if (m <? 3)%N then Some ([m], r) else None | [] => None end
  else match bs with
       | fl :: r =>
           let n := ((if N.testbit fl 0 then 4 else 0) + (if N.testbit fl 1 then 4 else 0))%nat in
           match take_n n r with Ok (b, r') => Some (fl :: b, r') | Err _ => None end
       | [] => None
       end.

Definition dec_node (ver : Z) (bs : bytes) : option (node * bytes) :=
  match bs with
  | [] => None
  | fl :: r0 =>
      match dec_varint r0 with
      | Ok (cn, r1) =>
          if cn <? 0 then None else
          match dec_varints (Z.to_nat cn) r1 with
          | None => None
          | Some (ch, r2) =>
              let red := if N.testbit fl 3
                         then match dec_varint r2 with Ok (z, r) => if z <? 0 then None else Some (Some (Z.to_N z), r) | Err _ => None end
                         else Some (None, r2) in
              match red with
              | None => None
              | Some (rd, r3) =>
                  let kind := N.land fl 3 in
                  let ex := N.testbit fl 2 in
                  if N.testbit fl 4 then None                       (* custom suggestions: outside the subset *)
                  else if (kind =? 0)%N then Some (mknode 0 [] ex ch rd 0 [], r3)
                  else match dec_string r3 with
                       | None => None
                       | Some (nm, r4) =>
                           if (kind =? 1)%N then Some (mknode 1 nm ex ch rd 0 [], r4)
                           else if (kind =? 2)%N then
                             match dec_parser_id ver r4 with
                             | None => None
                             | Some (p, r5) => match dec_props p r5 with
                                               | Some (pr, r6) => Some (mknode 2 nm ex ch rd p pr, r6)
                                               | None => None
                                               end
                             end
                           else None
                       end
              end
          end
      | Err _ => None
      end
  end.

Fixpoint dec_nodes (ver : Z) (n : nat) (bs : bytes) : option (list node * bytes) :=
  match n with
  | O => Some ([], bs)
  | S k => match dec_node ver bs with
           | Some (x, r) => match dec_nodes ver k r with Some (l, r') => Some (x :: l, r') | None => None end
           | None => None
           end
  end.

(* node table and root index; all bytes must be consumed *)
Definition decode_wire (ver : Z) (bs : bytes) : option (list node * N) :=
  match dec_varint bs with
  | Ok (n, r) =>
      if (n <? 0) || (Z.of_nat (List.length bs) <? n) then None else
      match dec_nodes ver (Z.to_nat n) r with
      | Some (tbl, r') => match dec_varint r' with
                          | Ok (root, []) => if root <? 0 then None else Some (tbl, Z.to_N root)
                          | _ => None
                          end
      | None => None
      end
  | Err _ => None
  end.

(* ---------- canonical unfolding ---------- *)
Inductive ctree :=
| CCut                                                  (* depth fuel exhausted / dangling index *)
| CNode (kind : N) (name : bytes) (exec : bool) (parser : N) (props : bytes) (children : list ctree) (redirect : option ctree).

Fixpoint bytes_leb (a b : bytes) : bool :=
  match a, b with
  | [], _ => true
  | _ :: _, [] => false
  | x :: a', y :: b' => if (x <? y)%N then true else if (y <? x)%N then false else bytes_leb a' b'
  end.

Definition cname (t : ctree) : bytes := match t with CNode _ n _ _ _ _ _ => n | CCut => [] end.

Fixpoint insert_by_name (t : ctree) (l : list ctree) : list ctree :=
  match l with
  | [] => [t]
  | x :: r => if bytes_leb (cname t) (cname x) then t :: l else x :: insert_by_name t r
  end.
Definition sort_by_name (l : list ctree) : list ctree := fold_right insert_by_name [] l.

Fixpoint canon (fuel : nat) (tbl : list node) (i : N) : ctree :=
  match fuel with
  | O => CCut
  | S f =>
      match nth_error tbl (N.to_nat i) with
      | None => CCut
      | Some nd =>
          CNode (nkind nd) (nname nd) (nexec nd) (nparser nd) (nprops nd)
                (sort_by_name (map (canon f tbl) (nchildren nd)))
                (match nredirect nd with Some j => Some (canon f tbl j) | None => None end)
      end
  end.

Fixpoint ctree_eqb (a b : ctree) {struct a} : bool :=
  match a, b with
  | CCut, CCut => true
  | CNode k n e p pr ch rd, CNode k' n' e' p' pr' ch' rd' =>
      (k =? k')%N && beq_bytes n n' && Bool.eqb e e' && (p =? p')%N && beq_bytes pr pr' &&
      (fix go (l1 l2 : list ctree) : bool :=
         match l1, l2 with
         | [], [] => true
         | x :: r1, y :: r2 => ctree_eqb x y && go r1 r2
         | _, _ => false
         end) ch ch' &&
      match rd, rd' with
      | None, None => true
      | Some x, Some y => ctree_eqb x y
      | _, _ => false
      end
  | _, _ => false
  end.

Definition depth_fuel : nat := 7.
Definition same_graph (t1 : list node) (r1 : N) (t2 : list node) (r2 : N) : bool :=
  ctree_eqb (canon depth_fuel t1 r1) (canon depth_fuel t2 r2).

Local Open Scope list_scope.
(* ---------- encoder of the same subset (mirror of encodeNode; used by the round-trip theorem) ---------- *)
Definition enc_string (s : bytes) : bytes := enc_varint (lenZ s) ++ s.
Definition enc_varints (l : list N) : bytes := flat_map (fun n => enc_varint (Z.of_N n)) l.

Definition name_of_parser (p : N) : bytes :=
  if (p =? 0)%N then tx "brigadier:bool" else if (p =? 3)%N then tx "brigadier:integer" else tx "brigadier:string".
Definition enc_parser_id (ver : Z) (p : N) : bytes :=
  if 759 <=? ver then enc_varint (Z.of_N p) else enc_string (name_of_parser p).

Definition flags_of (nd : node) : N :=
  (nkind nd + (if nexec nd then 4 else 0) + (match nredirect nd with Some _ => 8 | None => 0 end))%N.

Definition enc_node (ver : Z) (nd : node) : bytes :=
  flags_of nd ::
  (enc_varint (Z.of_nat (List.length (nchildren nd))) ++
   (enc_varints (nchildren nd) ++
    ((match nredirect nd with Some j => enc_varint (Z.of_N j) | None => [] end) ++
     (if (nkind nd =? 0)%N then []
      else enc_string (nname nd) ++
           (if (nkind nd =? 2)%N then enc_parser_id ver (nparser nd) ++ nprops nd else []))))).

Definition encode_table (ver : Z) (tbl : list node) (root : N) : bytes :=
  enc_varint (Z.of_nat (List.length tbl)) ++ (flat_map (enc_node ver) tbl ++ enc_varint (Z.of_N root)).

(* well-formed nodes of the subset *)
Definition small (n : N) : bool := Z.of_N n <? 2 ^ 31.
Definition wf_props (p : N) (pr : bytes) : bool :=
  if (p =? 0)%N then match pr with [] => true | _ => false end
  else if (p =? 5)%N then match pr with [m] => (m <? 3)%N | _ => false end
  else if (p =? 3)%N then
    match pr with
    | fl :: b => (fl <? 4)%N && Nat.eqb (List.length b) ((if N.testbit fl 0 then 4 else 0) + (if N.testbit fl 1 then 4 else 0))
    | [] => false
    end
  else false.
Definition wf_name (s : bytes) : bool := lenZ s <=? 262144.
Definition wf_node (nd : node) : bool :=
  forallb small (nchildren nd) && (Z.of_nat (List.length (nchildren nd)) <? 2 ^ 31) &&
  (match nredirect nd with Some j => small j | None => true end) &&
  (if (nkind nd =? 0)%N then (match nname nd with [] => true | _ => false end) && (nparser nd =? 0)%N && (match nprops nd with [] => true | _ => false end)
   else if (nkind nd =? 1)%N then wf_name (nname nd) && (nparser nd =? 0)%N && (match nprops nd with [] => true | _ => false end)
   else if (nkind nd =? 2)%N then wf_name (nname nd) && wf_props (nparser nd) (nprops nd)
   else false).
Definition wf_table (tbl : list node) (root : N) : bool :=
  forallb wf_node tbl && (Z.of_nat (List.length tbl) <? 2 ^ 31) && small root.
