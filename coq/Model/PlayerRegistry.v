(* C11 — model of the proxy's player registry
   (pkg/edition/java/proxy/proxy.go: playerNames / playerIDs under muP,
    canRegisterConnection, registerConnection, unregisterConnection;
    player.go: teardown, Disconnect; session_client_auth.go: authSessionHandler.Activated).
   Executable definitions only; proofs are in Proofs/C11*.v.

   Granularity: one Conc action per critical section of muP (the LockFacts obligation
   C11_registry_sections_locked re-checks on every run that every access of the two maps inside
   the three registry functions happens with muP held), plus the connection-close step
   (context cancellation, which makes Player.Active false) as its own action.

   Two defects of the PRE-FIX code (findings C11-1 and C11-2, both repaired in /repo by `fix:` commits)
   are kept as switches of one definition so that the old behaviour stays documented and refuted:
     v_unreg = true : unregisterConnection deletes by name and id unconditionally      (pre-fix, C11-1)
     v_leak  = true : registerConnection returns false WITHOUT unlocking muP (kick off) (pre-fix, C11-2)
   impl_cfg = the code as it is now = spec_cfg (both switches off); prefix_cfg sets both (the code
   before the repairs).  The judge only accepts impl_cfg: a recurrence of either defect is a violation. *)
From Coq Require Import List NArith Bool String Ascii.
From Verif Require Import Base.Conc.
Import ListNotations.
Open Scope N_scope.
Open Scope list_scope.

(* ---------- players ---------- *)

(* p_obj stands for the *connectedPlayer pointer (the harness numbers its player objects),
   p_name is the profile name as sent by the client, p_id indexes the harness's UUID table. *)
Record player := mkP { p_obj : N; p_name : string; p_id : N }.

Definition player_eqb (a b : player) : bool :=
  (p_obj a =? p_obj b) && String.eqb (p_name a) (p_name b) && (p_id a =? p_id b).

(* strings.ToLower restricted to ASCII (the generators only use ASCII names) *)
Definition lower_ascii (a : ascii) : ascii :=
  let n := N_of_ascii a in
  if (65 <=? n) && (n <=? 90) then ascii_of_N (n + 32) else a.
Fixpoint lower (s : string) : string :=
  match s with
  | EmptyString => EmptyString
  | String a r => String (lower_ascii a) (lower r)
  end.
Definition lname (p : player) : string := lower (p_name p).

(* ---------- Go maps as association lists with unique keys ---------- *)

Section Map.
  Context {K : Type} (keq : K -> K -> bool).
  Definition amap := list (K * player).
  Fixpoint get (k : K) (m : amap) : option player :=
    match m with
    | [] => None
    | (k', v) :: r => if keq k k' then Some v else get k r
    end.
  Definition del (k : K) (m : amap) : amap := filter (fun kv => negb (keq k (fst kv))) m.
  (* m[k] = v *)
  Definition put (k : K) (v : player) (m : amap) : amap := (k, v) :: del k m.
End Map.

(* ---------- shared state ---------- *)

(* what a goroutine remembers between two of its atomic steps *)
Inductive local :=
| LGo                                  (* passed canRegisterConnection / retrying the kick loop *)
| LDisc (e : player) (retry : bool)    (* about to call e.Disconnect(); retry = inside the kick loop *)
| LTear (e : player) (retry : bool)    (* won e's close: e's teardown still to run *)
| LEnd (registered : bool).            (* flow finished *)

Record state := mkS {
  names  : list (string * player);     (* Proxy.playerNames: lower-case name -> player *)
  ids    : list (N * player);          (* Proxy.playerIDs: uuid -> player *)
  leaked : bool;                       (* muP was left locked: every later critical section blocks *)
  closed : list N;                     (* p_obj of connections whose context is cancelled (not Active) *)
  dups   : list N;                     (* p_obj with disconnectDueToDuplicateConnection set *)
  locals : list (N * local)            (* goroutine id -> local *)
}.

Definition init : state := mkS [] [] false [] [] [].

Definition get_name (n : string) (s : state) := get String.eqb n (names s).
Definition get_id (i : N) (s : state) := get N.eqb i (ids s).
Definition memN (x : N) (l : list N) : bool := existsb (N.eqb x) l.

Fixpoint get_local (t : N) (l : list (N * local)) : option local :=
  match l with
  | [] => None
  | (t', v) :: r => if t =? t' then Some v else get_local t r
  end.
Definition set_local (t : N) (v : local) (s : state) : state :=
  mkS (names s) (ids s) (leaked s) (closed s) (dups s)
      ((t, v) :: filter (fun kv => negb (t =? fst kv)) (locals s)).

Definition set_maps (nm : list (string * player)) (im : list (N * player)) (s : state) : state :=
  mkS nm im (leaked s) (closed s) (dups s) (locals s).
Definition set_leaked (s : state) : state :=
  mkS (names s) (ids s) true (closed s) (dups s) (locals s).
Definition add_closed (o : N) (s : state) : state :=
  mkS (names s) (ids s) (leaked s) (o :: closed s) (dups s) (locals s).
Definition add_dup (o : N) (s : state) : state :=
  mkS (names s) (ids s) (leaked s) (closed s) (o :: dups s) (locals s).

(* ---------- configuration ---------- *)

Record cfg := mkC {
  online  : bool;      (* Config.OnlineMode *)
  kick    : bool;      (* Config.OnlineModeKickExistingPlayers *)
  v_unreg : bool;      (* true = the PRE-FIX unconditional delete *)
  v_leak  : bool       (* true = the PRE-FIX missing Unlock on the failure path *)
}.
Definition spec_cfg (on kk : bool) : cfg := mkC on kk false false.   (* what the property demands *)
Definition impl_cfg (on kk : bool) : cfg := spec_cfg on kk.          (* the code as it is now *)
Definition prefix_cfg (on kk : bool) : cfg := mkC on kk true true.   (* the code before fix C11-1 / C11-2 *)

(* ---------- the three registry functions (each body = one critical section) ---------- *)

(* Proxy.canRegisterConnection: true at once when online && kick, else both indices must be free *)
Definition can_register (c : cfg) (p : player) (s : state) : bool :=
  if online c && kick c then true
  else match get_name (lname p) s, get_id (p_id p) s with
       | None, None => true
       | _, _ => false
       end.

(* the two map writes at the end of registerConnection *)
Definition insert (p : player) (s : state) : state :=
  set_maps (put String.eqb (lname p) p (names s)) (put N.eqb (p_id p) p (ids s)) s.

(* registerConnection, else branch (kick off): name taken or id taken => return false.
   The pre-fix code returned there with muP still locked (v_leak). *)
Definition register_nokick (c : cfg) (p : player) (s : state) : state * bool :=
  match get_name (lname p) s, get_id (p_id p) s with
  | None, None => (insert p s, true)
  | _, _ => ((if v_leak c then set_leaked s else s), false)
  end.

(* registerConnection, kick branch, one pass of the retry loop under the lock:
   inl e = an existing player with this id was found (lock released, e must be disconnected, retry),
   inr s' = registered. *)
Definition register_kick_pass (p : player) (s : state) : player + state :=
  match get_id (p_id p) s with
  | Some e => inl e
  | None => inr (insert p s)
  end.

(* unregisterConnection.  found = an entry exists under the player's id.
   now (= spec): found and the deletes only concern entries that hold this very player.
   pre-fix (v_unreg): delete(playerNames, lower(name)); delete(playerIDs, id) whoever is stored there. *)
Definition stored_is (p : player) (o : option player) : bool :=
  match o with Some q => player_eqb q p | None => false end.

Definition unregister (c : cfg) (p : player) (s : state) : state * bool :=
  if v_unreg c then
    (set_maps (del String.eqb (lname p) (names s)) (del N.eqb (p_id p) (ids s)) s,
     match get_id (p_id p) s with Some _ => true | None => false end)
  else
    (set_maps (if stored_is p (get_name (lname p) s) then del String.eqb (lname p) (names s) else names s)
              (if stored_is p (get_id (p_id p) s) then del N.eqb (p_id p) (ids s) else ids s) s,
     stored_is p (get_id (p_id p) s)).

Definition impl_unregister := unregister (impl_cfg false false).
Definition spec_unregister := unregister (spec_cfg false false).
Definition prefix_unregister := unregister (prefix_cfg false false).

(* the trigger of (fixed) finding C11-1: an unregister issued for a player object that is not the
   stored one while a different player is stored under its lower-case name or under its id *)
Definition other_stored (p : player) (o : option player) : bool :=
  match o with Some q => negb (player_eqb q p) | None => false end.
Definition trigger_unreg (p : player) (s : state) : bool :=
  other_stored p (get_name (lname p) s) || other_stored p (get_id (p_id p) s).
(* the trigger of (fixed) finding C11-2: registerConnection (kick off) on a taken name or id *)
Definition trigger_leak (c : cfg) (p : player) (s : state) : bool :=
  negb (kick c) &&
  match get_name (lname p) s, get_id (p_id p) s with None, None => false | _, _ => true end.

(* ---------- events (what the trace theorems talk about) ---------- *)

(* DisconnectEvent.LoginStatus, with CanceledByUser / CanceledByProxy merged *)
Inductive status := SSuccessful | SConflicting | SCanceled.

Inductive event :=
| EvReg (p : player)                   (* registerConnection(p) returned true *)
| EvRejected (p : player)              (* canRegisterConnection / registerConnection said no *)
| EvTeardown (p : player) (st : status)(* p's own connection ran teardown (its own disconnect) *)
| EvUnreg (p : player)                 (* a bare unregisterConnection(p) (p asks for its own removal) *)
| EvBlocked.                           (* a step that needs muP after muP was leaked *)

(* connectedPlayer.teardown: unregisterConnection(p), then the DisconnectEvent status *)
Definition teardown (c : cfg) (p : player) (s : state) : state * status :=
  let '(s1, found) := unregister c p s in
  (s1, if found then (if memN (p_obj p) (dups s) then SConflicting else SSuccessful) else SCanceled).

(* Decidable form of "a new registration under a UUID comes after the removal of the older one", used
   by the judge on OBSERVED event logs: walking the trace with the list of players that are registered
   and not yet removed by their own teardown / unregister, a registration of p must find no other
   live player with p's UUID.  (Proofs/C11.v: order_ok_sound links it to reg_order.) *)
Fixpoint order_ok (livep : list player) (evs : list event) : bool :=
  match evs with
  | [] => true
  | EvReg p :: r =>
      forallb (fun q => player_eqb q p || negb (p_id q =? p_id p)) livep && order_ok (p :: livep) r
  | EvTeardown q _ :: r => order_ok (filter (fun x => negb (player_eqb x q)) livep) r
  | EvUnreg q :: r => order_ok (filter (fun x => negb (player_eqb x q)) livep) r
  | _ :: r => order_ok livep r
  end.

(* ---------- atomic actions of goroutine t ---------- *)

Inductive act :=
| ACan (t : N) (p : player)     (* Activated: canRegisterConnection(p); on false go to Disconnect(p) *)
| ANop                          (* events fired without touching the registry (a scheduling point) *)
| AReg (t : N) (p : player)     (* registerConnection(p): whole call (kick off) / one locked pass (kick on) *)
| ABegin (t : N) (p : player)   (* somebody (client EOF, proxy, plugin) starts p.Disconnect / conn.Close *)
| AClose (t : N)                (* the Active check + context cancellation of the pending Disconnect *)
| ATear (t : N)                 (* SessionHandler.Disconnected -> teardown of the connection just closed *)
| AUnreg (p : player).          (* a bare unregisterConnection(p) *)

Definition blocked (s : state) : state * list event := (s, [EvBlocked]).

Definition sem (c : cfg) (a : act) : @action state event := fun s =>
  match a with
  | ANop => (s, [])
  | ACan t p =>
      match get_local t (locals s) with
      | None =>
          if online c && kick c then (set_local t LGo s, [])
          else if leaked s then blocked s
          else if can_register c p s then (set_local t LGo s, [])
          else (set_local t (LDisc p false) s, [EvRejected p])
      | Some _ => (s, [])
      end
  | AReg t p =>
      match get_local t (locals s) with
      | Some LGo =>
          if leaked s then blocked s
          else if kick c then
            match register_kick_pass p s with
            | inl e => (set_local t (LDisc e true) (add_dup (p_obj e) s), [])
            | inr s1 => (set_local t (LEnd true) s1, [EvReg p])
            end
          else
            let '(s1, ok) := register_nokick c p s in
            if ok then (set_local t (LEnd true) s1, [EvReg p])
            else (set_local t (LDisc p false) s1, [EvRejected p])
      | _ => (s, [])
      end
  | ABegin t p =>
      match get_local t (locals s) with
      | None => (set_local t (LDisc p false) s, [])
      | Some _ => (s, [])
      end
  | AClose t =>
      match get_local t (locals s) with
      | Some (LDisc e retry) =>
          if memN (p_obj e) (closed s)
          then (set_local t (if retry then LGo else LEnd false) s, [])       (* not Active: returns at once *)
          else (set_local t (LTear e retry) (add_closed (p_obj e) s), [])
      | _ => (s, [])
      end
  | ATear t =>
      match get_local t (locals s) with
      | Some (LTear e retry) =>
          if leaked s then blocked s
          else let '(s1, st) := teardown c e s in
               (set_local t (if retry then LGo else LEnd false) s1, [EvTeardown e st])
      | _ => (s, [])
      end
  | AUnreg p =>
      if leaked s then blocked s else (fst (unregister c p s), [EvUnreg p])
  end.

(* ---------- goroutines ---------- *)

(* authSessionHandler.Activated for a new connection of p, goroutine t.
   kick off: canRegister; events; register; [Disconnect(p) = close; teardown] (runs only if rejected).
   kick on : the retry loop is unrolled n times: pass; [close e; teardown e]; pass; ... *)
Definition login_thread (c : cfg) (n : nat) (t : N) (p : player) : list act :=
  [ACan t p; ANop; AReg t p]
  ++ (if kick c then List.concat (repeat [AClose t; ATear t; AReg t p] n) else [])
  ++ [AClose t; ATear t].

(* the connection of p goes away (client EOF, Player.Disconnect from a plugin, DisconnectAll) *)
Definition disconnect_thread (t : N) (p : player) : list act := [ABegin t p; AClose t; ATear t].

Definition compile (c : cfg) (ts : list (list act)) : list (@thread state event) :=
  map (map (sem c)) ts.

(* ---------- sequential specification of the API (harness ops) ---------- *)

Inductive op :=
| OCan (h : N) | OReg (h : N) | OUnreg (h : N)     (* the three registry functions on player object h *)
| ODisc (h : N)                                    (* Player.Disconnect(reason) on object h *)
| OLogin (h : N)                                   (* authSessionHandler.Activated for connection h *)
| OPlayer (i : N) | OByName (n : string) | OCount | OPlayers
| OSnap.                                           (* all lookups over the pool at once *)

Inductive res :=
| RUnit
| RBool (b : bool)
| ROpt (o : option N)                              (* p_obj of the player found *)
| RCount (n : N)
| RList (l : list N)                               (* p_obj sorted ascending *)
| RSnap (byid : list (option N)) (byname : list (option N)) (all : list N) (n : N)
| RHang.                                           (* the call did not return (watchdog) *)

(* what one call shows: its result and the DisconnectEvents fired while it ran,
   as (p_obj of the event's player, login status), in firing order *)
Definition out : Type := res * list (N * status).

(* run a straight-line goroutine alone *)
Definition run_seq (c : cfg) (acts : list act) (s : state) : state * list event :=
  fold_left (fun se a => let '(s1, ev) := sem c a (fst se) in (s1, snd se ++ ev)) acts (s, []).

Fixpoint insert_sorted (x : N) (l : list N) : list N :=
  match l with
  | [] => [x]
  | y :: r => if x <=? y then x :: l else y :: insert_sorted x r
  end.
Definition sortN (l : list N) : list N := fold_right insert_sorted [] l.

Definition obj_of (o : option player) : option N := option_map p_obj o.
Definition players_sorted (s : state) : list N := sortN (map (fun kv => p_obj (snd kv)) (ids s)).

Definition teardowns (evs : list event) : list (N * status) :=
  flat_map (fun e => match e with EvTeardown p st => [(p_obj p, st)] | _ => [] end) evs.
Definition has_blocked (evs : list event) : bool :=
  existsb (fun e => match e with EvBlocked => true | _ => false end) evs.

(* registerConnection as ONE call of goroutine t that already passed canRegister:
   kick off = the single critical section; kick on = the retry loop with the synchronous
   existing.Disconnect() in between, unrolled three times (more means it spins) *)
Definition register_call (c : cfg) (t : N) (p : player) : list act :=
  AReg t p :: (if kick c then List.concat (repeat [AClose t; ATear t; AReg t p] 3) else []).

(* goroutine ids used by sequential ops are fresh: t = the op's position in the history *)
Definition step (c : cfg) (pool : list player) (idpool : list N) (namepool : list string)
           (t : N) (s : state) (o : op) : state * out :=
  let pl h := nth (N.to_nat h) pool (mkP 0 "" 0) in
  let locked (r : state -> state * out) : state * out := if leaked s then (s, (RHang, [])) else r s in
  match o with
  | OCan h =>
      if online c && kick c then (s, (RBool true, []))
      else locked (fun s => (s, (RBool (can_register c (pl h) s), [])))
  | OReg h =>
      let '(s1, evs) := run_seq c (register_call c t (pl h)) (set_local t LGo s) in
      if has_blocked evs then (s1, (RHang, teardowns evs))
      else match get_local t (locals s1) with
           | Some (LEnd true) => (s1, (RBool true, teardowns evs))
           | Some (LDisc _ false) => (s1, (RBool false, teardowns evs))
           | _ => (s1, (RHang, teardowns evs))      (* kick loop still spinning *)
           end
  | OUnreg h =>
      locked (fun s => let '(s1, f) := unregister c (pl h) s in (s1, (RBool f, [])))
  | ODisc h =>
      let '(s1, evs) := run_seq c (disconnect_thread t (pl h)) s in
      if has_blocked evs then (s1, (RHang, teardowns evs)) else (s1, (RUnit, teardowns evs))
  | OLogin h =>
      let '(s1, evs) := run_seq c (login_thread c 3 t (pl h)) s in
      if has_blocked evs then (s1, (RHang, teardowns evs))
      else match get_local t (locals s1) with
           | Some (LEnd b) => (s1, (RBool b, teardowns evs))
           | _ => (s1, (RHang, teardowns evs))
           end
  | OPlayer i => locked (fun s => (s, (ROpt (obj_of (get_id i s)), [])))
  | OByName n => locked (fun s => (s, (ROpt (obj_of (get_name (lower n) s)), [])))
  | OCount => locked (fun s => (s, (RCount (N.of_nat (List.length (ids s))), [])))
  | OPlayers => locked (fun s => (s, (RList (players_sorted s), [])))
  | OSnap =>
      locked (fun s =>
        (s, (RSnap (map (fun i => obj_of (get_id i s)) idpool)
                   (map (fun n => obj_of (get_name (lower n) s)) namepool)
                   (players_sorted s) (N.of_nat (List.length (ids s))), [])))
  end.

(* ---------- result equality ---------- *)

Definition status_eqb (a b : status) : bool :=
  match a, b with
  | SSuccessful, SSuccessful | SConflicting, SConflicting | SCanceled, SCanceled => true
  | _, _ => false
  end.
Definition opt_eqb {A} (eqb : A -> A -> bool) (a b : option A) : bool :=
  match a, b with Some x, Some y => eqb x y | None, None => true | _, _ => false end.
Fixpoint list_eqb {A} (eqb : A -> A -> bool) (a b : list A) : bool :=
  match a, b with
  | [], [] => true
  | x :: r, y :: r' => eqb x y && list_eqb eqb r r'
  | _, _ => false
  end.
Definition res_eqb (a b : res) : bool :=
  match a, b with
  | RUnit, RUnit => true
  | RBool x, RBool y => Bool.eqb x y
  | ROpt x, ROpt y => opt_eqb N.eqb x y
  | RCount x, RCount y => x =? y
  | RList x, RList y => list_eqb N.eqb x y
  | RSnap a1 b1 c1 n1, RSnap a2 b2 c2 n2 =>
      list_eqb (opt_eqb N.eqb) a1 a2 && list_eqb (opt_eqb N.eqb) b1 b2 && list_eqb N.eqb c1 c2 && (n1 =? n2)
  | RHang, RHang => true
  | _, _ => false
  end.
Definition out_eqb (a b : out) : bool :=
  res_eqb (fst a) (fst b)
  && list_eqb (fun x y => (fst x =? fst y) && status_eqb (snd x) (snd y)) (snd a) (snd b).
