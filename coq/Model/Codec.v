(* C01 / C02 — model of the Java-edition packet codec:
     pkg/edition/java/proto/codec/encoder.go   (writeBuf, writeCompressed, compress)
     pkg/edition/java/proto/codec/decoder.go   (readVarIntFrame, readPayload, decompress, readPacket, decodePayload)
     pkg/edition/java/proto/codec/cipher.go    (CFB8 with key = iv = shared secret; go-mc CFB8)
     pkg/edition/java/netmc/{reader,writer}.go (bufio + cipher.StreamReader/Writer + fullReader)
   Executable definitions only; proofs are in Proofs/C01*.v and Proofs/C02*.v.
   zlib and the AES block function are Section variables (DESIGN.md 5.3). *)
From Coq Require Import List NArith ZArith Bool.
From Verif Require Import Base.Hex Base.VarInt.
Import ListNotations.
Open Scope N_scope.

(* ---------- small helpers ---------- *)

Definition len (b : bytes) : N := N.of_nat (length b).

(* constant byte strings, used by generated case files for multi-megabyte payloads *)
Definition rep (b n : N) : bytes := N.iter n (cons b) [].

(* Go conversions: uint32(val) and int(int32(u)) *)
Definition u32 (z : Z) : N := Z.to_N (z mod 4294967296).
Definition i32 (u : N) : Z := if u <? 2147483648 then Z.of_N u else (Z.of_N u - 4294967296)%Z.

(* util.WriteVarIntN *)
Definition write_varint (v : Z) : bytes := VarInt.enc (u32 v).

(* util.ReadVarIntReturnN, both code paths (io.ByteReader loop and plain reader loop behave alike:
   a 6th byte is consumed before "VarInt is too big"; see Proofs: rd_varint_flat for the plain-reader loop) *)
Inductive vres :=
| VVal (v : Z) (n : N) (rest : bytes)
| VShort
| VTooBig.

Definition read_varint (bs : bytes) : vres :=
  match VarInt.dec bs with
  | Ok (u, n, r) => VVal (i32 u) n r
  | Err ErrShort => VShort
  | Err ErrTooBig => VTooBig
  end.

(* Velocity / vanilla Varint21FrameDecoder: at most three bytes of length prefix *)
Fixpoint read_varint21_fuel (f : nat) (i acc : N) (bs : bytes) : vres :=
  match f with
  | O => VTooBig
  | S f' =>
    match bs with
    | [] => VShort
    | b :: r =>
      let acc' := acc + (b mod 128) * 2 ^ (7 * i) in
      if b <? 128 then VVal (Z.of_N acc') (i + 1) r
      else read_varint21_fuel f' (i + 1) acc' r
    end
  end.
Definition read_varint21 (bs : bytes) : vres := read_varint21_fuel 3 0 0 bs.

Inductive dir := ServerBound | ClientBound.

Definition MAXFRAME : Z := 2097151.                       (* codec.MaximumFrameLength = 2^21 - 1 *)
Definition cap (d : dir) : Z :=
  match d with ServerBound => 2097152 | ClientBound => 8388608 end.   (* 2 MiB / 8 MiB *)

(* configuration of one decoder: threshold (negative = compression off) and direction *)
Record cfg := mkcfg { c_thr : Z; c_dir : dir }.

(* what a full inflation of a zlib body gives: every byte produced before the stream ended or broke,
   and whether it ended cleanly (final block reached, Adler-32 matched) *)
Record zres := mkz { z_out : bytes; z_clean : bool }.

Inductive ferr :=
| ELenVarInt        (* length prefix is not a VarInt *)
| EFrameTooLarge    (* codec.FrameTooLargeError: length < 0 or > 2^21-1 *)
| EClaimedVarInt    (* claimed-size VarInt unreadable inside the frame *)
| ENegClaimed       (* claimed size negative (reference only) *)
| EOverThreshold    (* uncompressed frame larger than the threshold *)
| EBelowThreshold   (* compressed frame with claimed size below the threshold *)
| EOverCap          (* claimed size above the direction cap *)
| EInflate          (* body does not inflate as required *)
| ETooManyEmpty     (* more than 11 empty frames in a row *)
| EPacketId.        (* payload does not start with a VarInt packet id *)

Inductive fres :=
| FOk (payload rest : bytes)
| FErr (e : ferr)
| FNeedMore.

(* a decided result when more input follows: only the undecoded remainder grows *)
Definition extend (r : fres) (more : bytes) : fres :=
  match r with FOk p rest => FOk p (rest ++ more) | x => x end.

Fixpoint beq_list (a b : list bytes) : bool :=
  match a, b with
  | [], [] => true
  | x :: a', y :: b' => beq_bytes x y && beq_list a' b'
  | _, _ => false
  end.

Section Codec.
  (* compress/zlib: Writer at a level (Reset; Write p; Close) and Reader *)
  Variable deflate : Z -> bytes -> bytes.
  Variable inflate : bytes -> zres.
  (* PRE-FIX code only: decompress() stopped after `claimed` bytes and called Close(): on a stream that is not
     clean, whether Close still reported the breakage depended on how far compress/flate had decoded.
     Abstract bit: true = no error surfaced. Today's code never consults it. *)
  Variable lazy_close_ok : bytes -> N -> bool.
  (* first byte of the AES block encryption of the 16-byte shift register (only that byte is used) *)
  Variable E : bytes -> bytes.

  (* ---------- writer: encoder.go ---------- *)

  (* writeBuf / writeCompressed; t < 0 means compression disabled (SetCompression: enabled = t >= 0) *)
  Definition frame (t lvl : Z) (p : bytes) : bytes :=
    if (t <? 0)%Z then write_varint (Z.of_N (len p)) ++ p
    else if (Z.of_N (len p) <? t)%Z
         then write_varint (Z.of_N (len p) + 1) ++ write_varint 0 ++ p
         else let z := write_varint (Z.of_N (len p)) ++ deflate lvl p in
              write_varint (Z.of_N (len z)) ++ z.

  Definition frames (t lvl : Z) (ps : list bytes) : bytes := flat_map (frame t lvl) ps.

  (* ---------- AES/CFB8: cipher.go + go-mc CFB8 (register = last 16 ciphertext bytes, starts as iv) ---------- *)

  Definition ks (reg : bytes) : N := hd 0 (E reg).
  Definition shift_in (reg : bytes) (c : N) : bytes := tl reg ++ [c].

  Fixpoint cfb8_enc (reg p : bytes) : bytes :=
    match p with
    | [] => []
    | x :: r => let c := N.lxor x (ks reg) in c :: cfb8_enc (shift_in reg c) r
    end.

  Fixpoint cfb8_dec (reg c : bytes) : bytes :=
    match c with
    | [] => []
    | y :: r => N.lxor y (ks reg) :: cfb8_dec (shift_in reg y) r
    end.

  (* register after the cipher has seen ciphertext c *)
  Fixpoint cfb8_adv (reg c : bytes) : bytes :=
    match c with [] => reg | y :: r => cfb8_adv (shift_in reg y) r end.

  (* enc = None: no encryption; Some secret: newCFB8FromSecret uses the secret as key and as iv *)
  Definition wire (t lvl : Z) (enc : option bytes) (ps : list bytes) : bytes :=
    match enc with
    | None => frames t lvl ps
    | Some secret => cfb8_enc secret (frames t lvl ps)
    end.

  (* ---------- decoder on the available plaintext bytes: decoder.go ---------- *)

  (* Decoder.decompress after the size checks.  fix2 = true is today's code (commit 9119697): after the
     `claimed` bytes one more byte is read and must be EOF, so the stream has to be a clean zlib stream of exactly
     `claimed` bytes.  fix2 = false is the PRE-FIX code: io.ReadFull of exactly `claimed` bytes, then Close,
     never reading to EOF. *)
  Definition inflate_claimed (fix2 : bool) (zb : bytes) (claimed : N) : option bytes :=
    let r := inflate zb in
    if fix2 then
      if z_clean r && (len (z_out r) =? claimed) then Some (z_out r) else None
    else
      if len (z_out r) <? claimed then None
      else if z_clean r || lazy_close_ok zb claimed then Some (firstn (N.to_nat claimed) (z_out r))
      else None.

  (* Decoder.readPayload on the frame body (compression enabled, threshold t >= 0).
     fix1 = true is today's code (commit 7de81ff): a negative claimed size is an error.
     fix1 = false is the PRE-FIX code: `claimed <= 0` takes the not-compressed branch.
     Returns the allocation made for inflating (make([]byte, claimed)) and the payload or error. *)
  Definition payload_of (fix1 fix2 : bool) (c : cfg) (body : bytes) : list N * (bytes + ferr) :=
    if (c_thr c <? 0)%Z then ([], inl body)
    else
      match read_varint body with
      | VShort | VTooBig => ([], inr EClaimedVarInt)
      | VVal claimed _ zb =>
        if fix1 && (claimed <? 0)%Z then ([], inr ENegClaimed)
        else if (claimed <=? 0)%Z then
          if (c_thr c <? Z.of_N (len zb))%Z then ([], inr EOverThreshold) else ([], inl zb)
        else if (claimed <? c_thr c)%Z then ([], inr EBelowThreshold)
        else if (cap (c_dir c) <? claimed)%Z then ([], inr EOverCap)
        else
          match inflate_claimed fix2 zb (Z.to_N claimed) with
          | Some p => ([Z.to_N claimed], inl p)
          | None => ([Z.to_N claimed], inr EInflate)
          end
      end.

  (* readVarIntFrame + readPayload on the bytes available; `rv` is the length-prefix reader
     (read_varint for the code, read_varint21 for the Velocity reference).
     First component: sizes passed to make([]byte, n), in order. *)
  Definition decode_frame_with (rv : bytes -> vres) (fix1 fix2 : bool) (c : cfg) (s : bytes) : list N * fres :=
    match rv s with
    | VShort => ([], FNeedMore)
    | VTooBig => ([], FErr ELenVarInt)
    | VVal l _ rest =>
      if (l =? 0)%Z then ([], FOk [] rest)
      else if (l <? 0)%Z || (MAXFRAME <? l)%Z then ([], FErr EFrameTooLarge)
      else
        let n := Z.to_N l in
        if len rest <? n then ([n], FNeedMore)
        else
          let body := firstn (N.to_nat n) rest in
          let rest' := skipn (N.to_nat n) rest in
          match payload_of fix1 fix2 c body with
          | (a, inl p) => (n :: a, FOk p rest')
          | (a, inr e) => (n :: a, FErr e)
          end
    end.

  (* today's decoder.go (both repairs are in: commits 7de81ff "reject compressed frames with a negative claimed
     uncompressed size" and 9119697 "reject compressed bodies that inflate to more than the claimed size") *)
  Definition impl_decode_frame : cfg -> bytes -> list N * fres := decode_frame_with read_varint true true.
  (* PRE-FIX variant: decoder.go before those two commits (claimed <= 0 taken as "not compressed"; ReadFull of
     exactly `claimed` bytes then Close, never reading to EOF).  Kept only to state what was wrong. *)
  Definition prefix_decode_frame : cfg -> bytes -> list N * fres := decode_frame_with read_varint false false.
  (* reference written from the property statement / Velocity's MinecraftVarintFrameDecoder + MinecraftCompressDecoder *)
  Definition velocity_decode_frame : cfg -> bytes -> list N * fres := decode_frame_with read_varint21 true true.

  (* Decoder.readPacket + decodePayload up to the packet id: empty payloads are skipped, the 12th in a
     row is an error ("got too many empty packets": retries > 10); the payload must start with a VarInt.
     `retries` counts empties skipped so far in this call. Fuel bounds the number of frames looked at. *)
  Fixpoint read_packet_with (df : cfg -> bytes -> list N * fres) (fuel : nat) (retries : N) (c : cfg) (s : bytes)
    : list N * fres :=
    match fuel with
    | O => ([], FErr ETooManyEmpty)
    | S fuel' =>
      match df c s with
      | (a, FOk [] rest) =>
        if 10 <? retries then (a, FErr ETooManyEmpty)
        else let '(a', r) := read_packet_with df fuel' (retries + 1) c rest in (a ++ a', r)
      | (a, FOk p rest) =>
        match read_varint p with
        | VVal _ _ _ => (a, FOk p rest)
        | _ => (a, FErr EPacketId)
        end
      | (a, r) => (a, r)
      end
    end.
  (* 12 frames are enough: the 12th consecutive empty one is the error *)
  Definition read_packet (df : cfg -> bytes -> list N * fres) : cfg -> bytes -> list N * fres :=
    read_packet_with df 12 0.

  (* how a sequence of Decode calls ends *)
  Inductive term := TNeedMore | TErr (e : ferr) | TFuel.

  (* repeated Decode until the first call that does not return a packet *)
  Fixpoint decode_stream_with (df : cfg -> bytes -> list N * fres) (fuel : nat) (c : cfg) (s : bytes)
    : list bytes * term :=
    match fuel with
    | O => ([], TFuel)
    | S fuel' =>
      match snd (read_packet df c s) with
      | FOk p rest => let '(ps, t) := decode_stream_with df fuel' c rest in (p :: ps, t)
      | FErr e => ([], TErr e)
      | FNeedMore => ([], TNeedMore)
      end
    end.

  (* every successful Decode consumes at least one byte, so length s + 1 calls always reach the end *)
  Definition decode_stream_flat (df : cfg -> bytes -> list N * fres) (c : cfg) (s : bytes) : list bytes * term :=
    decode_stream_with df (S (length s)) c s.

  (* two runs of Decode calls agree: same payloads in the same order, and they stop the same way up to the
     kind of error *)
  Definition term_same (a b : term) : bool :=
    match a, b with
    | TNeedMore, TNeedMore => true
    | TErr _, TErr _ => true
    | TFuel, TFuel => true
    | _, _ => false
    end.
  Definition stream_same (a b : list bytes * term) : bool :=
    beq_list (fst a) (fst b) && term_same (snd a) (snd b).

  (* ---------- C01: the premises of the round trip, decidable (the judge evaluates the same terms) ---------- *)

  (* Encoder.Write's documented precondition: the payload starts with its packet-id VarInt *)
  Definition starts_with_id (p : bytes) : bool :=
    match read_varint p with VVal _ _ _ => true | _ => false end.

  (* the decoder's own limits: the frame body the writer produces fits 2^21-1 bytes and, when the payload
     is compressed, the payload fits the reader's direction cap *)
  Definition fitsb (t lvl : Z) (d : dir) (p : bytes) : bool :=
    if (t <? 0)%Z then (Z.of_N (len p) <=? MAXFRAME)%Z
    else if (Z.of_N (len p) <? t)%Z then (Z.of_N (len p) + 1 <=? MAXFRAME)%Z
    else (Z.of_N (len (write_varint (Z.of_N (len p)) ++ deflate lvl p)) <=? MAXFRAME)%Z
         && (Z.of_N (len p) <=? cap d)%Z.

  (* ---------- C02: what "minimally encoded length prefix" means, and agreement up to the error kind ---------- *)

  (* the prefix in front of s is decided by both prefix readers alike: complete and minimal (re-encoding the
     value gives the same bytes), or fewer than three continuation bytes so far, or over-long for both *)
  Definition minimal_prefix (s : bytes) : bool :=
    match read_varint s with
    | VVal l n _ => beq_bytes (firstn (N.to_nat n) s) (write_varint l)
    | VShort => Nat.ltb (length s) 3
    | VTooBig => true
    end.

  (* q holds in front of every frame the decoder walks over (fuel: one per frame) *)
  Fixpoint walk_all (fuel : nat) (q : bytes -> bool) (c : cfg) (s : bytes) : bool :=
    match fuel with
    | O => true
    | S fuel' =>
      q s &&
      match snd (impl_decode_frame c s) with
      | FOk _ rest => match s with [] => true | _ => walk_all fuel' q c rest end
      | _ => true
      end
    end.
  (* every frame of the stream has a minimal length prefix *)
  Definition minimal_stream (c : cfg) (s : bytes) : bool := walk_all (S (length s)) minimal_prefix c s.

  (* same accept / reject / wait decision, same payload and same remaining bytes; error kinds may differ *)
  Definition same_decision (a b : fres) : bool :=
    match a, b with
    | FOk p r, FOk p' r' => beq_bytes p p' && beq_bytes r r'
    | FErr _, FErr _ => true
    | FNeedMore, FNeedMore => true
    | _, _ => false
    end.

  (* inputs of the two findings that were repaired (known_findings.jsonl: C02-1, C02-2, kind "fixed"), at frame level: the frame is complete and well-sized and
     (1) claims a negative size with a body that fits the threshold, or
     (2) claims a size within [threshold, cap] that the body's inflation does not meet exactly although it
         yields at least that many bytes and Close stays silent *)
  Definition frame_body (s : bytes) : option bytes :=
    match read_varint s with
    | VVal l _ rest =>
      if (0 <? l)%Z && (l <=? MAXFRAME)%Z && (Z.to_N l <=? len rest) then Some (firstn (Z.to_nat l) rest) else None
    | _ => None
    end.

  Definition trigger1 (c : cfg) (s : bytes) : bool :=
    (0 <=? c_thr c)%Z &&
    match frame_body s with
    | Some body =>
      match read_varint body with
      | VVal claimed _ zb => (claimed <? 0)%Z && (Z.of_N (len zb) <=? c_thr c)%Z
      | _ => false
      end
    | None => false
    end.

  Definition trigger2 (c : cfg) (s : bytes) : bool :=
    (0 <=? c_thr c)%Z &&
    match frame_body s with
    | Some body =>
      match read_varint body with
      | VVal claimed _ zb =>
        (0 <? claimed)%Z && (c_thr c <=? claimed)%Z && (claimed <=? cap (c_dir c))%Z &&
        let r := inflate zb in
        (Z.to_N claimed <=? len (z_out r)) &&
        negb (z_clean r && (len (z_out r) =? Z.to_N claimed)) &&
        (z_clean r || lazy_close_ok zb (Z.to_N claimed))
      | _ => false
      end
    | None => false
    end.

  (* no frame of the stream is an input of one of the two repaired findings *)
  Definition untriggered_stream (c : cfg) (s : bytes) : bool :=
    walk_all (S (length s)) (fun s' => negb (trigger1 c s') && negb (trigger2 c s')) c s.

  (* ---------- the reader stack: conn.Read chunks -> bufio -> (decrypt) -> fullReader ---------- *)

  (* io.ReadFull over a connection whose Read calls return the given chunks (empty chunks allowed) *)
  Fixpoint read_full (cs : list bytes) (n : nat) : option (bytes * list bytes) :=
    match n with
    | O => Some ([], cs)
    | S _ =>
      match cs with
      | [] => None
      | ch :: r =>
        if Nat.ltb (length ch) n
        then match read_full r (n - length ch) with
             | Some (b, r') => Some (ch ++ b, r')
             | None => None
             end
        else Some (firstn n ch, skipn n ch :: r)
      end
    end.

  (* reader state: remaining chunks and the decrypt register (None = encryption off) *)
  Record reader := mkrd { r_chunks : list bytes; r_reg : option bytes }.

  (* fullReader.Read over cipher.StreamReader over bufio: n plaintext bytes or EOF *)
  Definition rd_read (r : reader) (n : nat) : option (bytes * reader) :=
    match read_full (r_chunks r) n with
    | None => None
    | Some (b, cs') =>
      match r_reg r with
      | None => Some (b, mkrd cs' None)
      | Some reg => Some (cfb8_dec reg b, mkrd cs' (Some (cfb8_adv reg b)))
      end
    end.

  Inductive rvres := RVal (v : Z) (r : reader) | RShort | RTooBig.

  (* ReadVarIntReturnN, plain-reader loop (the frame length is read from the fullReader one byte at a time):
     uresult |= (b & 0x7F) << (7*bytesRead); bytesRead++; if bytesRead > 5 -> too big *)
  Fixpoint rd_varint_fuel (f : nat) (i acc : N) (r : reader) : rvres :=
    match f with
    | O => RTooBig
    | S f' =>
      match rd_read r 1 with
      | Some ([b], r') =>
        let acc' := N.lor acc (N.shiftl (N.land b 127) (7 * i) mod 2 ^ 32) in
        if 5 <=? i then RTooBig
        else if N.land b 128 =? 0 then RVal (i32 acc') r'
        else rd_varint_fuel f' (i + 1) acc' r'
      | _ => RShort
      end
    end.
  Definition rd_varint (r : reader) : rvres := rd_varint_fuel 6 0 0 r.

  Inductive rres := ROk (payload : bytes) (r : reader) | RErr (e : ferr) | RNeedMore.

  (* readVarIntFrame + readPayload over the reader (today's code: both fix flags true) *)
  Definition rd_frame (fix1 fix2 : bool) (c : cfg) (r : reader) : rres :=
    match rd_varint r with
    | RShort => RNeedMore
    | RTooBig => RErr ELenVarInt
    | RVal l r1 =>
      if (l =? 0)%Z then ROk [] r1
      else if (l <? 0)%Z || (MAXFRAME <? l)%Z then RErr EFrameTooLarge
      else
        match rd_read r1 (Z.to_nat l) with
        | None => RNeedMore
        | Some (body, r2) =>
          match snd (payload_of fix1 fix2 c body) with
          | inl p => ROk p r2
          | inr e => RErr e
          end
        end
    end.

  Fixpoint rd_packet_fuel (fix1 fix2 : bool) (fuel : nat) (retries : N) (c : cfg) (r : reader) : rres :=
    match fuel with
    | O => RErr ETooManyEmpty
    | S fuel' =>
      match rd_frame fix1 fix2 c r with
      | ROk [] r' =>
        if 10 <? retries then RErr ETooManyEmpty
        else rd_packet_fuel fix1 fix2 fuel' (retries + 1) c r'
      | ROk p r' =>
        match read_varint p with
        | VVal _ _ _ => ROk p r'
        | _ => RErr EPacketId
        end
      | x => x
      end
    end.
  Definition rd_packet (fix1 fix2 : bool) : cfg -> reader -> rres := rd_packet_fuel fix1 fix2 12 0.

  Fixpoint rd_stream_fuel (fix1 fix2 : bool) (fuel : nat) (c : cfg) (r : reader) : list bytes * term :=
    match fuel with
    | O => ([], TFuel)
    | S fuel' =>
      match rd_packet fix1 fix2 c r with
      | ROk p r' => let '(ps, t) := rd_stream_fuel fix1 fix2 fuel' c r' in (p :: ps, t)
      | RErr e => ([], TErr e)
      | RNeedMore => ([], TNeedMore)
      end
    end.

  (* C01's reader: ReadPacket until the stream is exhausted, over chunked (optionally encrypted) input.
     Fuel = number of stream bytes + 1. *)
  Definition decode_stream (c : cfg) (enc : option bytes) (chunks : list bytes) : list bytes * term :=
    rd_stream_fuel true true (S (length (concat chunks))) c (mkrd chunks enc).

  (* ---------- C01: histories — configuration changes between buffered writes ---------- *)

  (* what a user of netmc.Writer does, in order.  Flush does not appear on the wire model at all: frames that are
     still sitting in the bufio.Writer when the threshold changes or encryption is enabled are delivered intact,
     in the form they had when they were written (writer.go: the cipher sits ABOVE the write buffer). *)
  Inductive wop :=
  | WWrite (p : bytes)          (* Writer.Write(p) *)
  | WThr (t : Z)                (* SetCompressionThreshold(t) *)
  | WEnc (secret : bytes)       (* EnableEncryption(secret) *)
  | WFlush.                     (* Flush() *)

  (* bytes that reach the conn; t = threshold in force, reg = cipher register (None = not encrypting yet) *)
  Fixpoint wire_ops (lvl t : Z) (reg : option bytes) (ops : list wop) : bytes :=
    match ops with
    | [] => []
    | WWrite p :: r =>
      match reg with
      | None => frame t lvl p ++ wire_ops lvl t None r
      | Some g => let c := cfb8_enc g (frame t lvl p) in c ++ wire_ops lvl t (Some (cfb8_adv g c)) r
      end
    | WThr t' :: r => wire_ops lvl t' reg r
    | WEnc s :: r => wire_ops lvl t (Some s) r
    | WFlush :: r => wire_ops lvl t reg r
    end.

  (* the peer's reader makes the same changes after the same number of packets: one ReadPacket per write,
     SetCompressionThreshold / EnableEncryption in between (the decrypt reader is put over whatever is still
     unread), and after the last op it keeps reading until the stream is exhausted *)
  Fixpoint read_ops (d : dir) (t : Z) (r : reader) (ops : list wop) : list bytes * term :=
    match ops with
    | [] => rd_stream_fuel true true (S (length (concat (r_chunks r)))) (mkcfg t d) r
    | WWrite _ :: rest =>
      match rd_packet true true (mkcfg t d) r with
      | ROk p r' => let '(ps, tm) := read_ops d t r' rest in (p :: ps, tm)
      | RErr e => ([], TErr e)
      | RNeedMore => ([], TNeedMore)
      end
    | WThr t' :: rest => read_ops d t' r rest
    | WEnc s :: rest => read_ops d t (mkrd (r_chunks r) (Some s)) rest
    | WFlush :: rest => read_ops d t r rest
    end.

  Fixpoint written (ops : list wop) : list bytes :=
    match ops with
    | [] => []
    | WWrite p :: r => p :: written r
    | _ :: r => written r
    end.

  (* every written payload meets the round-trip premises under the threshold in force when it is written *)
  Fixpoint ops_ok (lvl t : Z) (d : dir) (ops : list wop) : bool :=
    match ops with
    | [] => true
    | WWrite p :: r => starts_with_id p && fitsb t lvl d p && ops_ok lvl t d r
    | WThr t' :: r => ops_ok lvl t' d r
    | _ :: r => ops_ok lvl t d r
    end.

End Codec.

(* ---------- oracle tables: how generated case files instantiate zlib and AES ---------- *)

Fixpoint assoc_bytes {A : Type} (k : bytes) (tbl : list (bytes * A)) : option A :=
  match tbl with
  | [] => None
  | (k', v) :: r => if beq_bytes k k' then Some v else assoc_bytes k r
  end.

(* deflate table of one case: payload -> zlib stream at the case's level; a missing entry yields [] and
   makes the case disagree (never silently agree) *)
Definition deflate_of (tbl : list (bytes * bytes)) (lvl : Z) (p : bytes) : bytes :=
  match assoc_bytes p tbl with Some z => z | None => [] end.

(* inflate table: body -> (output, clean); missing = broken stream with no output *)
Definition inflate_of (tbl : list (bytes * zres)) (zb : bytes) : zres :=
  match assoc_bytes zb tbl with Some r => r | None => mkz [] false end.

Fixpoint lazy_of (tbl : list (bytes * N * bool)) (zb : bytes) (n : N) : bool :=
  match tbl with
  | [] => false
  | (k, m, v) :: r => if (m =? n) && beq_bytes zb k then v else lazy_of r zb n
  end.

(* AES table: 16-byte register -> first byte of AES_k(register); registers are keyed as numbers *)
Definition pack (reg : bytes) : N := fold_left (fun a b => a * 256 + b) reg 0.
Fixpoint assoc_N (k : N) (tbl : list (N * N)) : option N :=
  match tbl with
  | [] => None
  | (k', v) :: r => if k =? k' then Some v else assoc_N k r
  end.
