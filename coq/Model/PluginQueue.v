(* C24 — the two early-plugin-message queues as one parametrised machine.

   Go sources (pkg/edition/java/proxy):
     session_client_config.go  clientConfigSessionHandler.handlePluginMessage (queue/direct decision),
                               enqueuePluginMessage, flushQueuedPluginMessagesTo          [QConfig]
     session_client_play.go    clientPlaySessionHandler.handlePluginMessage (final branch),
                               enqueueLoginPluginMessage, drainQueuedLoginPluginMessages,
                               FlushQueuedPluginMessages, Deactivated                      [QPreJoin]
   Caps: maxQueuedLoginPluginMessages = 1024, maxQueuedLoginPluginMessageBytes = 4 MiB (both queues).

   A message is (id, size): the id is stamped by the machine (the k-th plugin message the client
   sent), the size is len(msg.Data) — the only thing about the body the code looks at.
   Executable definitions only; proofs are in Proofs/C24.v.

   Environment script for QPreJoin (the harness follows it, see harness/cmd/c24): the phases of the
   connection towards server s count as complete exactly from the flush towards s on (in the code the
   completing FML handshake packet sets the phase and flushes inside one handlePluginMessage call;
   completeJoin follows the drain in handleBackendJoinGame), until the handler is deactivated. *)
From Coq Require Import List NArith Bool.
Import ListNotations.
Open Scope N_scope.

Definition max_msgs : N := 1024.
Definition max_bytes : N := 4194304.

Inductive qkind := QConfig | QPreJoin.
Record qmsg := mkQ { q_id : N; q_size : N }.
Inductive fres := FOk | FNoConn.          (* serverConn.ensureConnected() succeeded / failed *)

Inductive op :=
| OMsg (tgt : option N) (size : N)        (* client plugin message; tgt = the server connection it is for *)
| OFlush (s : N) (r : fres)               (* backend s became ready: flush towards it *)
| OSwitch.                                (* handler replaced (new config phase) / Deactivated *)

Inductive out :=
| Deliver (s : N) (id : N) (size : N)     (* plugin message written to backend s *)
| Disconnect.                             (* player disconnected: "Too many plugin messages ..." *)

Record st := mkSt {
  q : list qmsg;            (* pluginMessages / loginPluginMessages *)
  qbytes : N;               (* ...Bytes *)
  ovf : bool;               (* ...Overflowed latch *)
  ready : option N;         (* readyServer / server whose phases are complete *)
  dead : bool;              (* player connection already closed: Disconnect is a no-op *)
  sent : N }.               (* ghost: number of client messages so far = next id *)

Definition init : st := mkSt [] 0 false None false 0.

Definition opt_eqb (a : option N) (b : N) : bool :=
  match a with Some x => x =? b | None => false end.

Definition exceeds (s : st) (size : N) : bool :=
  (max_bytes <? qbytes s + size) || (max_msgs <? N.of_nat (length (q s)) + 1).

(* enqueuePluginMessage / enqueueLoginPluginMessage after the ready test *)
Definition enqueue (s : st) (size : N) : st * list out :=
  let s1 := mkSt (q s) (qbytes s) (ovf s) (ready s) (dead s) (sent s + 1) in
  if ovf s then (s1, [])
  else if exceeds s size then
    (mkSt [] 0 true (ready s) true (sent s + 1), if dead s then [] else [Disconnect])
  else (mkSt (q s ++ [mkQ (sent s) size]) (qbytes s + size) false (ready s) (dead s) (sent s + 1), []).

Definition deliver_all (srv : N) (l : list qmsg) : list out :=
  map (fun m => Deliver srv (q_id m) (q_size m)) l.

Definition step (k : qkind) (s : st) (o : op) : st * list out :=
  match o with
  | OMsg tgt size =>
    match tgt with
    | None =>
      match k with
      | QConfig => enqueue s size                   (* target == nil: queue path *)
      | QPreJoin => (mkSt (q s) (qbytes s) (ovf s) (ready s) (dead s) (sent s + 1), [])
                                                    (* connectedServer() == nil: dropped *)
      end
    | Some t =>
      if opt_eqb (ready s) t
      then (mkSt (q s) (qbytes s) (ovf s) (ready s) (dead s) (sent s + 1), [Deliver t (sent s) size])
      else enqueue s size
    end
  | OFlush srv FNoConn => (s, [])
  | OFlush srv FOk =>
    match k with
    | QConfig =>
      if opt_eqb (ready s) srv then (s, [])         (* readyServer == serverConn: nothing to do *)
      else (mkSt [] 0 (ovf s) (Some srv) (dead s) (sent s), deliver_all srv (q s))
    | QPreJoin => (mkSt [] 0 (ovf s) (Some srv) (dead s) (sent s), deliver_all srv (q s))
    end
  | OSwitch => (mkSt [] 0 false None (dead s) (sent s), [])
  end.

Fixpoint run (k : qkind) (s : st) (ops : list op) : st * list out :=
  match ops with
  | [] => (s, [])
  | o :: r => let '(s1, e1) := step k s o in let '(s2, e2) := run k s1 r in (s2, e1 ++ e2)
  end.

(* largest queue length / byte counter over all states of a history (what the harness records) *)
Fixpoint run_max (k : qkind) (s : st) (ops : list op) : N * N :=
  match ops with
  | [] => (N.of_nat (length (q s)), qbytes s)
  | o :: r =>
    let '(a, b) := run_max k (fst (step k s o)) r in
    (N.max (N.of_nat (length (q s))) a, N.max (qbytes s) b)
  end.

(* ---------- projections used by the theorems and the judge ---------- *)
Definition delivered_ids (es : list out) : list N :=
  flat_map (fun e => match e with Deliver _ i _ => [i] | Disconnect => [] end) es.
Definition ids (l : list qmsg) : list N := map q_id l.
Fixpoint sum_sizes (l : list qmsg) : N := match l with [] => 0 | m :: r => q_size m + sum_sizes r end.

Fixpoint increasing_from (lo : N) (l : list N) : bool :=   (* strictly increasing, all >= lo *)
  match l with
  | [] => true
  | x :: r => (lo <=? x) && increasing_from (x + 1) r
  end.
Definition increasing (l : list N) : bool := increasing_from 0 l.

Fixpoint count_up (n : nat) (from : N) : list N :=
  match n with O => [] | S k => from :: count_up k (from + 1) end.

(* ---------- decidable equality for the judge ---------- *)
Definition beq_out (a b : out) : bool :=
  match a, b with
  | Deliver s i z, Deliver s' i' z' => (s =? s') && (i =? i') && (z =? z')
  | Disconnect, Disconnect => true
  | _, _ => false
  end.
Fixpoint beq_outs (a b : list out) : bool :=
  match a, b with
  | [], [] => true
  | x :: a', y :: b' => beq_out x y && beq_outs a' b'
  | _, _ => false
  end.
