(* C08 (and the forwarding clause of C10) - the login phase of one client connection.
   Executable definitions only. Mirrors, function by function:
     initialLoginSessionHandler.HandlePacket / handleServerLogin / handleEncryptionResponse / assertState
       (pkg/edition/java/proxy/session_client_initial_login.go),
     authSessionHandler.Activated / startLoginCompletion / completeLoginProtocolPhaseAndInitialize /
       HandlePacket / handleLoginAcknowledged (session_client_auth.go),
     loginInboundConn.handleLoginPluginResponse for ids nobody asked for (login_inbound.go),
     auth.authenticator.AuthenticateJoin's mapping of the session server's answer (auth/authenticator.go).
   RSA (Verify, DecryptSharedSecret), the key signature checks and aes.NewCipher are boolean inputs
   carried by the operations; the session server is an input outcome. *)
From Coq Require Import List Bool Arith.
Import ListNotations.

(* result of the PreLoginEvent handlers *)
Inductive prelogin := PAllow | PDeny | PForceOnline | PForceOffline.

(* what the session server answers to hasJoined *)
Inductive session :=
| SProfile      (* 200 with a profile that has a name            -> online profile        *)
| SNoContent    (* 204                                          -> Response.OnlineMode = false *)
| SUnauthorized (* 401                                          -> OnlineMode = false    *)
| SOtherStatus  (* any other status                             -> error                 *)
| STransport    (* the HTTP round trip fails                    -> error                 *)
| SEmptyBody    (* 200 with an empty body                       -> OnlineMode = false    *)
| SBadProfile.  (* 200 with a body without a name / bad JSON    -> GameProfile() fails   *)

Record cfg := mkCfg {
  online_mode : bool;   (* config.OnlineMode *)
  pre : prelogin;
  provider : bool;      (* the transport itself provides a GameProfile (netmc.Assert GameProfileProvider) *)
  compress : bool;      (* Compression.Threshold >= 0 and protocol >= 1.8 *)
  has_plugin : bool;    (* protocol >= 1.13: LoginPluginResponse is a registered packet *)
  has_ack : bool;       (* protocol >= 1.20.2: LoginAcknowledged exists, login success is awaited *)
  key_window : bool;    (* 1.19 <= protocol < 1.19.3: login start may carry a player key *)
  force_key : bool;     (* config.ForceKeyAuthentication *)
  outcome : session;
  pre_msgs : nat        (* login plugin messages a PreLogin subscriber sends through the event's
                           connection (LoginPhaseConnection.SendLoginPluginMessage); ids 1..n *)
}.

(* the player key carried by login start *)
Inductive keyst := KNone | KExpired | KInvalid | KValid.

Inductive op :=
| LoginStart (name_valid : bool) (key : keyst)
| EncResp (token_ok secret_ok keylen_ok : bool)
    (* token_ok: the token decrypts to the issued one (no key) / the signature over token and salt
       verifies and a salt is present (key); secret_ok: the shared secret decrypts;
       keylen_ok: the decrypted secret is a valid AES key *)
| PluginResp (id : nat)  (* LoginPluginResponse carrying this message id (outstanding or not) *)
| LoginAck
| Unknown.        (* packet id without a registration in the login state, or an undecodable body *)

Inductive uuid_src := UOffline | USession | UProvider.

Inductive out :=
| OEncRequest           (* EncryptionRequest written (fresh verify token)                      *)
| OEncEnabled           (* conn.EnableEncryption (decrypted secret) succeeded                  *)
| OJoin                 (* AuthenticateJoin (serverId (secret, key), username) was called      *)
| OSetCompression
| OPluginMsg (id : nat) (* LoginPluginMessage written (queued by a PreLogin subscriber)          *)
| ORegister             (* registrar.registerConnection returned true: player is findable      *)
| OSuccess (u : uuid_src)  (* ServerLoginSuccess written; which identity it announces          *)
| ODisconnect           (* Disconnect packet in the login state                                *)
| OPost                 (* traffic after the login state (play/config), here: "no servers" kick *)
| OOther                (* any other frame or undecodable bytes (never produced by the model)   *)
| OClose.

(* initialLoginSessionHandler.currentState *)
Inductive istate := LoginExpected | LoginReceived | EncRequestSent | EncResponseReceived.

Inductive phase :=
| PInit (s : istate) (key : keyst) (outst : list nat)
    (* initialLoginSessionHandler is active; key = inbound.playerKey; outst = the ids in
       loginInboundConn.outstandingResponses. (LoginReceived, outst <> []) is the state in which the
       continuation of handleServerLogin waits for the client's answers (onAllMessagesHandled). *)
| PAuthWait                          (* authSessionHandler active, loginState = successSent (1.20.2+) *)
| PClosed.                           (* connection closed (or handed over and closed)              *)

Definition effective_online (c : cfg) : bool :=
  match pre c with
  | PForceOffline => false
  | PForceOnline => true
  | _ => online_mode c
  end.

(* authSessionHandler.Activated .. completeLoginProtocolPhaseAndInitialize for a fresh, unique name,
   vanilla connection type, LoginEvent allowed, no servers configured *)
Definition activate (c : cfg) (u : uuid_src) : phase * list out :=
  let pre_ := (if compress c then [OSetCompression] else []) ++ [ORegister; OSuccess u] in
  if has_ack c then (PAuthWait, pre_)
  else (PClosed, pre_ ++ [OPost; OClose]).   (* play state; connectToInitialServer: no server -> kick *)

(* the continuation handed to loginInboundConn.loginEventFired: runs at once when nothing was queued,
   otherwise when the last outstanding message has been answered *)
Definition proceed (c : cfg) (k : keyst) : phase * list out :=
  if effective_online c then
    if provider c then activate c UProvider
    else (PInit EncRequestSent k [], [OEncRequest])
  else activate c UOffline.

(* SendLoginPluginMessage refuses clients older than 1.13 *)
Definition queued_msgs (c : cfg) : list nat := if has_plugin c then seq 1 (pre_msgs c) else [].

(* handleServerLogin after assertState succeeded (currentState is already loginPacketReceived) *)
Definition handle_login (c : cfg) (name_valid : bool) (k : keyst) : phase * list out :=
  let bye := (PClosed, [ODisconnect; OClose]) in
  if negb name_valid then bye else
  match k with
  | KExpired | KInvalid => bye
  | _ =>
    if (match k with KNone => key_window c && force_key c | _ => false end) then bye else
    match pre c with
    | PDeny => bye
    | _ =>
      match queued_msgs c with
      | [] => proceed c k
      | _ :: _ => (PInit LoginReceived k (queued_msgs c), map OPluginMsg (queued_msgs c))   (* wait for the answers *)
      end
    end
  end.

(* loginInboundConn.handleLoginPluginResponse *)
Definition remove_id (id : nat) (l : list nat) : list nat := filter (fun j => negb (Nat.eqb j id)) l.
Definition handle_plugin (c : cfg) (s : istate) (k : keyst) (outst : list nat) (id : nat) : phase * list out :=
  if existsb (Nat.eqb id) outst then
    match remove_id id outst, s with
    | [], LoginReceived => proceed c k            (* last answer: onAllMessagesHandled runs, once *)
    | rest, _ => (PInit s k rest, [])
    end
  else (PInit s k outst, []).                      (* unknown id: ignored *)

(* handleEncryptionResponse after assertState succeeded *)
Definition handle_enc (c : cfg) (token_ok secret_ok keylen_ok : bool) : phase * list out :=
  if negb token_ok then (PClosed, [OClose]) else
  if negb secret_ok then (PClosed, [OClose]) else
  if negb keylen_ok then (PClosed, [ODisconnect; OClose]) else   (* EnableEncryption failed: plaintext kick *)
  match outcome c with
  | SProfile => let '(p, os) := activate c USession in (p, OEncEnabled :: OJoin :: os)
  | _ => (PClosed, [OEncEnabled; OJoin; ODisconnect; OClose])
  end.

Definition step (c : cfg) (p : phase) (o : op) : phase * list out :=
  match p with
  | PClosed => (PClosed, [])
  | PInit s k outst =>
      match o with
      | LoginStart nv key =>
          match s with
          | LoginExpected => handle_login c nv (if key_window c then key else KNone)
          | _ => (PClosed, [OClose])                       (* assertState *)
          end
      | EncResp t se kl =>
          match s with
          | EncRequestSent => handle_enc c t se kl
          | _ => (PClosed, [OClose])                       (* assertState *)
          end
      | PluginResp id => if has_plugin c then handle_plugin c s k outst id else (PClosed, [OClose])
      | LoginAck => (PClosed, [OClose])
      | Unknown => (PClosed, [OClose])
      end
  | PAuthWait =>
      match o with
      | LoginAck => (PClosed, [OPost; OClose])            (* config state; no server -> kick *)
      | PluginResp _ => if has_plugin c then (PAuthWait, []) else (PClosed, [OClose])
      | _ => (PClosed, [OClose])
      end
  end.

Definition init : phase := PInit LoginExpected KNone [].

Fixpoint run_from (c : cfg) (p : phase) (ops : list op) : phase * list (list out) :=
  match ops with
  | [] => (p, [])
  | o :: r => let '(p1, os) := step c p o in
              let '(p2, oss) := run_from c p1 r in (p2, os :: oss)
  end.
Definition run c ops := run_from c init ops.
Definition outs c ops : list (list out) := snd (run c ops).
Definition final c ops : phase := fst (run c ops).
Definition trace c ops : list out := concat (outs c ops).

(* ---- projections -------------------------------------------------------------------------------- *)

Definition out_eqb (a b : out) : bool :=
  match a, b with
  | OEncRequest, OEncRequest | OEncEnabled, OEncEnabled | OJoin, OJoin
  | OSetCompression, OSetCompression | ORegister, ORegister | ODisconnect, ODisconnect
  | OPost, OPost | OOther, OOther | OClose, OClose => true
  | OPluginMsg i, OPluginMsg j => Nat.eqb i j
  | OSuccess u, OSuccess v =>
      match u, v with UOffline, UOffline | USession, USession | UProvider, UProvider => true | _, _ => false end
  | _, _ => false
  end.

(* what the client can see on the wire *)
Definition visible (o : out) : bool :=
  match o with OEncEnabled | OJoin | ORegister => false | _ => true end.
Definition is_success (o : out) : bool := match o with OSuccess _ => true | _ => false end.
Definition is_admission (o : out) : bool := match o with OSuccess _ | ORegister => true | _ => false end.
Definition admitted (t : list out) : bool := existsb is_admission t.

(* the events of the chain of custody, in the order the property demands *)
Definition chain_event (o : out) : bool :=
  match o with OEncRequest | OEncEnabled | OJoin | ORegister | OSuccess _ => true | _ => false end.
Definition chain_of (t : list out) : list out := filter chain_event t.

(* a login start that is accepted as such (valid name, key accepted, not denied) *)
Definition good_login (c : cfg) (o : op) : bool :=
  match o with
  | LoginStart true k =>
      match (if key_window c then k else KNone) with
      | KExpired | KInvalid => false
      | KNone => negb (key_window c && force_key c)
      | KValid => true
      end && (match pre c with PDeny => false | _ => true end)
  | _ => false
  end.
Definition is_plugin_resp (o : op) : bool := match o with PluginResp _ => true | _ => false end.
Definition good_enc (o : op) : bool :=
  match o with EncResp true true true => true | _ => false end.

(* is o the packet the protocol expects next in phase p?  (plugin responses are never "out of order") *)
Definition in_order (c : cfg) (p : phase) (o : op) : bool :=
  match o with
  | PluginResp _ => has_plugin c
  | Unknown => false
  | LoginStart _ _ => match p with PInit LoginExpected _ _ => true | _ => false end
  | EncResp _ _ _ => match p with PInit EncRequestSent _ _ => true | _ => false end
  | LoginAck => match p with PAuthWait => true | _ => false end
  end.
