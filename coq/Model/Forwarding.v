(* C20 — model of Velocity modern forwarding.
   Go anchors: pkg/edition/java/internal/velocity/data_forwarding.go (findForwardingVersion,
   CreateForwardingData), pkg/edition/java/proxy/session_backend_login.go (handleLoginPluginMessage:
   requested version byte and the velocity:player_info answer; handleServerLoginSuccess: the
   forwarding-required check), proto/util writers (Model/Prim.v), crypto.WritePlayerKey.
   Reference side: Velocity's LoginSessionHandler / PlayerDataForwarding (requested version read with
   ByteBuf.readByte, i.e. signed; findForwardingVersion) and Paper's PaperVelocityProxy /
   VelocityProxy.checkIntegrity + payload reader.
   Executable definitions only; proofs in Proofs/C20.v. *)
From Coq Require Import List NArith ZArith Bool.
From Verif Require Import Base.Hex Base.Sha256 Base.Hmac Model.Prim.
Import ListNotations.
Open Scope Z_scope.

(* ---------- version negotiation ---------- *)

(* the player's key: absent, GenericV1, LinkedV2, or any other revision value (nil included) *)
Inductive key_kind := KNone | KV1 | KV2 | KOther.

Definition v_default : Z := 1.        (* DefaultForwardingVersion     / MODERN_DEFAULT      *)
Definition v_with_key : Z := 2.       (* WithKeyForwardingVersion     / MODERN_WITH_KEY     *)
Definition v_with_key_v2 : Z := 3.    (* WithKeyV2ForwardingVersion   / MODERN_WITH_KEY_V2  *)
Definition v_lazy_session : Z := 4.   (* LazySessionForwardingVersion / MODERN_LAZY_SESSION *)
Definition p_1_19_3 : Z := 761.       (* version.Minecraft_1_19_3.Protocol *)

(* findForwardingVersion, statement by statement *)
Definition find_version (requested protocol : Z) (k : key_kind) : Z :=
  let requested := Z.min requested v_lazy_session in
  if v_default <? requested then
    if p_1_19_3 <=? protocol then
      (if v_lazy_session <=? requested then v_lazy_session else v_default)
    else
      match k with
      | KNone => v_default
      | KV1 => v_with_key
      | KV2 => if v_with_key_v2 <=? requested then v_with_key_v2 else v_default
      | KOther => v_default
      end
  else v_default.

(* Velocity's choice, written as the table its findForwardingVersion implements:
   nothing above the default asked for -> default; 1.19.3+ clients have no chat keys -> lazy session
   when the backend can do it, else default; older clients: the key revision decides (a V2 key cannot
   be sent to a backend that only knows version 2). *)
Definition velocity_choice (requested protocol : Z) (k : key_kind) : Z :=
  if requested <=? 1 then 1
  else if 761 <=? protocol then (if requested <? 4 then 1 else 4)
  else match k with
       | KV1 => 2
       | KV2 => if requested <? 3 then 1 else 3
       | KNone | KOther => 1
       end.

(* the requested version is one byte of the login plugin request *)
(* PRE-FIX code (before commit 63b6e75, finding C20-1): int(p.Data[0]), unsigned *)
Definition prefix_requested (b : N) : Z := Z.of_N b.
(* the code as it is now: int(int8(p.Data[0])) *)
Definition impl_requested (b : N) : Z :=
  let u := (b mod 256)%N in if (128 <=? u)%N then Z.of_N u - 256 else Z.of_N u.
Definition spec_requested (b : N) : Z :=                                 (* ByteBuf.readByte(): signed *)
  if (b <? 128)%N then Z.of_N b else Z.of_N b - 256.

(* data of the request: exactly one byte selects a version, anything else means the default *)
Definition requested_of_data (req : N -> Z) (data : bytes) : Z :=
  match data with [b] => req b | _ => v_default end.

(* input class of finding C20-1 (fixed by 63b6e75): a request byte >= 0x80 was read unsigned; the
   choices differed when the version could go above the default *)
Definition trigger_unsigned (data : bytes) (protocol : Z) (k : key_kind) : bool :=
  match data with
  | [b] => (128 <=? b)%N && ((p_1_19_3 <=? protocol) || match k with KV1 | KV2 => true | _ => false end)
  | _ => false
  end.

(* ---------- the payload ---------- *)

Record key_data := mkKey {
  k_kind : key_kind;              (* KV1 / KV2 / KOther *)
  k_expiry : Z;                   (* ExpiryTemporal().UnixMilli() *)
  k_pub : bytes;                  (* SignedPublicKeyBytes() *)
  k_sig : bytes;                  (* Signature() *)
  k_holder : option bytes         (* SignatureHolder(); None = uuid.Nil *)
}.

Record fwd_input := mkIn {
  f_secret : bytes;
  f_addr : bytes;                 (* netutil.Host(player.RemoteAddr()) *)
  f_protocol : Z;
  f_uuid : bytes;                 (* 16 bytes *)
  f_name : bytes;
  f_props : list property;
  f_key : option key_data
}.

Definition kind_of (k : option key_data) : key_kind :=
  match k with None => KNone | Some d => k_kind d end.

(* the key section: versions 2 and 3 only; None = "player auth key missing" *)
Definition key_part (v : Z) (k : option key_data) : option bytes :=
  if (v_with_key <=? v) && (v <? v_lazy_session) then
    match k with
    | None => None
    | Some d =>
      Some (write_int 8 (k_expiry d) ++ write_bytes (k_pub d) ++ write_bytes (k_sig d)
            ++ (if v_with_key_v2 <=? v then
                  match k_holder d with
                  | Some h => write_bool true ++ write_uuid h
                  | None => write_bool false
                  end
                else []))
    end
  else Some [].

Definition body_of_version (v : Z) (i : fwd_input) : option bytes :=
  match key_part v (f_key i) with
  | None => None
  | Some kp =>
    Some (write_varint v ++ write_string (f_addr i) ++ write_uuid (f_uuid i) ++ write_string (f_name i)
          ++ write_properties (f_props i) ++ kp)
  end.

(* CreateForwardingData(secret, address, player, requested) *)
Definition body (requested : Z) (i : fwd_input) : option bytes :=
  body_of_version (find_version requested (f_protocol i) (kind_of (f_key i))) i.

Definition forwarding_data (requested : Z) (i : fwd_input) : option bytes :=
  match body requested i with
  | None => None
  | Some b => Some (hmac_sha256 (f_secret i) b ++ b)
  end.

(* what the property demands for a request: Velocity's reading of the byte, Velocity's choice *)
Definition spec_forwarding_data (data : bytes) (i : fwd_input) : option bytes :=
  match body_of_version (velocity_choice (requested_of_data spec_requested data) (f_protocol i)
                                         (kind_of (f_key i))) i with
  | None => None
  | Some b => Some (hmac_sha256 (f_secret i) b ++ b)
  end.
(* what the code does *)
Definition impl_forwarding_data (data : bytes) (i : fwd_input) : option bytes :=
  forwarding_data (requested_of_data impl_requested data) i.
(* what the PRE-fix code did *)
Definition prefix_forwarding_data (data : bytes) (i : fwd_input) : option bytes :=
  forwarding_data (requested_of_data prefix_requested data) i.

(* ---------- the Paper side ---------- *)

(* VelocityProxy.checkIntegrity: the first 32 bytes are HMAC-SHA256(secret, rest) *)
Definition paper_check_integrity (secret data : bytes) : bool :=
  Nat.leb 32 (length data)
  && beq_bytes (firstn 32 data) (hmac_sha256 secret (skipn 32 data)).

Record parsed := mkParsed {
  pr_version : Z;
  pr_addr : bytes;
  pr_uuid : bytes;
  pr_name : bytes;
  pr_props : list property;
  pr_key : option (Z * bytes * bytes);    (* expiry, public key, signature: versions 2 and 3 *)
  pr_signer : option bytes                (* version 3 with the holder flag set *)
}.

Definition paper_max_version : Z := 4.    (* MAX_SUPPORTED_FORWARDING_VERSION *)

(* PaperVelocityProxy payload reader: version (rejected above the maximum), address readUtf(32767),
   uuid, name readUtf(16), properties, and for versions 2/3 the key (long, byte array <= 512, byte
   array <= 4096) plus for version 3 the optional signer uuid.  Length limits in bytes follow gate's
   reader (4 bytes per character). *)
Definition paper_parse (b : bytes) : res (parsed * bytes) :=
  bind (read_varint b) (fun v r0 =>
  if (paper_max_version <? v) then Err EOverLimit else
  bind (read_string_max 32767 r0) (fun addr r1 =>
  bind (read_uuid r1) (fun u r2 =>
  bind (read_string_max 16 r2) (fun name r3 =>
  bind (impl_read_properties r3) (fun ps r4 =>
  if (v =? 2) || (v =? 3) then
    bind (read_int 8 r4) (fun ex r5 =>
    bind (impl_read_bytes_len 512 r5) (fun pub r6 =>
    bind (impl_read_bytes_len 4096 r6) (fun sg r7 =>
    if v =? 3 then
      bind (read_bool r7) (fun has r8 =>
      if has then bind (read_uuid r8) (fun h r9 =>
                    Ok (mkParsed v addr u name ps (Some (ex, pub, sg)) (Some h), r9))
      else Ok (mkParsed v addr u name ps (Some (ex, pub, sg)) None, r8))
    else Ok (mkParsed v addr u name ps (Some (ex, pub, sg)) None, r7))))
  else Ok (mkParsed v addr u name ps None None, r4)))))).

(* what the player data amounts to for a chosen version *)
Definition expected_parsed (v : Z) (i : fwd_input) : parsed :=
  let with_key := (2 <=? v) && (v <? 4) in
  mkParsed v (f_addr i) (f_uuid i) (f_name i) (f_props i)
    (if with_key then
       match f_key i with Some d => Some (k_expiry d, k_pub d, k_sig d) | None => None end
     else None)
    (if with_key && (3 <=? v) then match f_key i with Some d => k_holder d | None => None end else None).

(* ---------- the backend login fragment: forwarding must have been requested ---------- *)

Inductive login_event :=
| EvPluginRequest (velocity_channel : bool)    (* LoginPluginMessage; channel = velocity:player_info? *)
| EvLoginSuccess.                              (* ServerLoginSuccess *)

Inductive login_outcome :=
| OutAnswered        (* forwarding data written, informationForwarded := true *)
| OutIgnored         (* not the forwarding channel / not velocity mode (other handling, no forwarding) *)
| OutRefused         (* disconnect result "Your server did not send a forwarding request..." *)
| OutProceed.        (* login continues towards PLAY / CONFIG *)

(* state = informationForwarded *)
Definition login_step (velocity_mode : bool) (forwarded : bool) (e : login_event) : bool * login_outcome :=
  match e with
  | EvPluginRequest ch =>
    if velocity_mode && ch then (true, OutAnswered) else (forwarded, OutIgnored)
  | EvLoginSuccess =>
    if velocity_mode && negb forwarded then (forwarded, OutRefused) else (forwarded, OutProceed)
  end.

Fixpoint login_run (velocity_mode : bool) (forwarded : bool) (es : list login_event) : list login_outcome :=
  match es with
  | [] => []
  | e :: r =>
    let '(f', o) := login_step velocity_mode forwarded e in
    o :: match o with OutRefused => [] | _ => login_run velocity_mode f' r end   (* refused: connection closed *)
  end.

(* "a backend that completes login without requesting forwarding is refused", as a predicate on an
   observed run (forwarded = a forwarding request was answered earlier in the run) *)
Definition beq_outcome (a b : login_outcome) : bool :=
  match a, b with
  | OutAnswered, OutAnswered | OutIgnored, OutIgnored | OutRefused, OutRefused | OutProceed, OutProceed => true
  | _, _ => false
  end.
Fixpoint required_holds (velocity_mode forwarded : bool) (es : list login_event) (os : list login_outcome) : bool :=
  match es, os with
  | EvLoginSuccess :: _, o :: _ =>
    if velocity_mode && negb forwarded then beq_outcome o OutRefused else negb (beq_outcome o OutRefused)
  | EvPluginRequest ch :: es', o :: os' =>
    required_holds velocity_mode (forwarded || (velocity_mode && ch && beq_outcome o OutAnswered)) es' os'
  | _, _ => true
  end.
