(* C32 — the Lite ping (status) cache.  Executable definitions only.

   Go code mirrored (pkg/edition/java/lite/forward.go):
     pingStatusCache.get / getLocked   -> [live], [do_get]
     pingStatusCache.load              -> its three critical sections under c.mu:
          CS1 "generation := c.generation; if hit return"            -> [do_cs1]
          group.DoChan(flightKey, ...) : join the flight with that key or start one, whose
          first step is CS2 "if generation == c.generation && hit return cached" -> [do_dochan]
          CS3 after the loader returned "if generation == c.generation { Set }",
          then singleflight hands the value to every member        -> [do_complete]
     pingStatusCache.reset             -> [do_reset]
     ResolveStatusResponseWithGeneration (tryBackends + handleFallbackResponse) -> [resolve]
   golang.org/x/sync/singleflight.Group is modelled by the list [flights]: DoChan(key) joins a
   call in flight under the same key, otherwise starts one; the key is
   "generation:routeGeneration:backend:protocol", injective in (generation, pingKey).

   Time: the code has TWO clocks: ttlcache stamps an entry with expiresAt = time.Now() + ttl and
   itself hides entries whose expiresAt has passed on time.Now() ([wall]); getLocked additionally
   compares expiresAt with the injected clock c.now() ([now]).  In production c.now = time.Now, so
   both advance together ([do_tick]); the harness cannot move time.Now and advances only the
   injected clock ([do_skew]).  Ghost (history) fields, never read by the code paths, record
   logical start times so that the theorems can talk about "obtained before the reset". *)
From Coq Require Import List NArith Bool.
From Verif Require Import Base.Hex.
Import ListNotations.
Open Scope N_scope.

Definition key := (bytes * N * N)%type.                    (* backendAddr, protocol, routeGeneration *)
Definition key_eqb (a b : key) : bool :=
  let '(ba, pa, ra) := a in let '(bb, pb, rb) := b in beq_bytes ba bb && (pa =? pb) && (ra =? rb).

Definition value := (N * bool)%type.                       (* which fetch produced it, status (true) or error *)

Record entry := mkE {
  e_val : value;
  e_exp : N;            (* expiresAt on the injected clock *)
  e_set : N;            (* ghost: clock value when it was stored *)
  e_ttl : N;            (* ghost: ttl it was stored with *)
  e_fstart : N          (* ghost: logical time its fetch started *)
}.

Record flight := mkF {
  f_gen : N; f_key : key;
  f_leader : N;         (* request whose loader runs *)
  f_ttl : N;
  f_members : list (N * N);   (* requests waiting for the result (leader included), with the ghost
                                 logical time each of them started *)
  f_start : N           (* ghost: logical time the fetch started *)
}.

Record preq := mkP {    (* a request between CS1 and DoChan *)
  p_id : N; p_key : key; p_gen : N; p_ttl : N;
  p_start : N           (* ghost: logical time of its CS1 *)
}.

(* how a response was produced *)
Inductive source := SCs1 | SCs2 | SFlight | SGet.

Record resp := mkR {
  r_id : N;
  r_val : option value;       (* None: Get miss *)
  r_src : source;
  r_req_start : N;            (* ghost: logical time the request started *)
  r_fetch_start : N;          (* ghost: logical time the fetch that produced the value started *)
  r_now : N;                  (* ghost: injected clock when it was served *)
  r_set : N; r_ttl : N        (* ghost: for cache hits, when/with which ttl the entry was stored *)
}.

Record state := mkSt {
  wall : N;                   (* time.Now as ttlcache sees it *)
  now : N;                    (* the injected clock c.now() *)
  gen : N;
  cache : list (key * entry);
  flights : list flight;
  parked : list preq;
  time : N;                   (* ghost: logical clock, one tick per action *)
  resets : list N;            (* ghost: logical times of the resets, oldest first *)
  fetches : list N;           (* ghost/observable: leaders whose loader was started, oldest first *)
  responses : list resp       (* observable: answers, oldest first *)
}.

Definition init : state := mkSt 0 0 0 [] [] [] 1 [] [] [].

Fixpoint cache_find (c : list (key * entry)) (k : key) : option entry :=
  match c with
  | [] => None
  | (k', e) :: r => if key_eqb k' k then Some e else cache_find r k
  end.
Definition cache_del (c : list (key * entry)) (k : key) : list (key * entry) :=
  filter (fun x => negb (key_eqb (fst x) k)) c.
Definition cache_set (c : list (key * entry)) (k : key) (e : entry) : list (key * entry) :=
  (k, e) :: cache_del c k.

(* getLocked: a live entry, or nothing (an expired entry is deleted) *)
Definition live (s : state) (k : key) : option entry * list (key * entry) :=
  match cache_find (cache s) k with
  | None => (None, cache s)
  | Some e => if (e_exp e <=? wall s) || (e_exp e <=? now s)
              then (None, cache_del (cache s) k) else (Some e, cache s)
  end.

Definition tick1 (s : state) : N := time s + 1.

Definition add_resp (s : state) (r : resp) : list resp := responses s ++ [r].

(* CS1 of load (request i for key k with ttl) *)
Definition do_cs1 (i : N) (k : key) (ttl : N) (s : state) : state :=
  match live s k with
  | (Some e, c) =>
      mkSt (wall s) (now s) (gen s) c (flights s) (parked s) (tick1 s) (resets s) (fetches s)
           (add_resp s (mkR i (Some (e_val e)) SCs1 (time s) (e_fstart e) (now s) (e_set e) (e_ttl e)))
  | (None, c) =>
      mkSt (wall s) (now s) (gen s) c (flights s) (mkP i k (gen s) ttl (time s) :: parked s) (tick1 s)
           (resets s) (fetches s) (responses s)
  end.

Fixpoint take_parked (ps : list preq) (i : N) : option (preq * list preq) :=
  match ps with
  | [] => None
  | p :: r => if p_id p =? i then Some (p, r)
              else match take_parked r i with
                   | Some (q, r') => Some (q, p :: r')
                   | None => None
                   end
  end.

Definition same_flight (g : N) (k : key) (f : flight) : bool := (f_gen f =? g) && key_eqb (f_key f) k.

Fixpoint join_flight (fs : list flight) (g : N) (k : key) (i st : N) : option (list flight) :=
  match fs with
  | [] => None
  | f :: r =>
      if same_flight g k f
      then Some (mkF (f_gen f) (f_key f) (f_leader f) (f_ttl f) (f_members f ++ [(i, st)]) (f_start f) :: r)
      else match join_flight r g k i st with Some r' => Some (f :: r') | None => None end
  end.

(* group.DoChan for the parked request i: join, or lead (CS2, then the loader starts) *)
Definition do_dochan (i : N) (s : state) : state :=
  match take_parked (parked s) i with
  | None => mkSt (wall s) (now s) (gen s) (cache s) (flights s) (parked s) (tick1 s) (resets s) (fetches s) (responses s)
  | Some (p, ps) =>
      match join_flight (flights s) (p_gen p) (p_key p) i (p_start p) with
      | Some fs => mkSt (wall s) (now s) (gen s) (cache s) fs ps (tick1 s) (resets s) (fetches s) (responses s)
      | None =>
          let hit := if p_gen p =? gen s then live s (p_key p) else (None, cache s) in
          match hit with
          | (Some e, c) =>
              mkSt (wall s) (now s) (gen s) c (flights s) ps (tick1 s) (resets s) (fetches s)
                   (add_resp s (mkR i (Some (e_val e)) SCs2 (p_start p) (e_fstart e) (now s) (e_set e) (e_ttl e)))
          | (None, c) =>
              mkSt (wall s) (now s) (gen s) c
                   (mkF (p_gen p) (p_key p) i (p_ttl p) [(i, p_start p)] (time s) :: flights s) ps (tick1 s)
                   (resets s) (fetches s ++ [i]) (responses s)
          end
      end
  end.

Fixpoint take_flight (fs : list flight) (leader : N) : option (flight * list flight) :=
  match fs with
  | [] => None
  | f :: r => if f_leader f =? leader then Some (f, r)
              else match take_flight r leader with
                   | Some (g, r') => Some (g, f :: r')
                   | None => None
                   end
  end.

Definition member_resps (f : flight) (v : value) (s : state) : list resp :=
  map (fun m => mkR (fst m) (Some v) SFlight (snd m) (f_start f) (now s) (wall s) (f_ttl f)) (f_members f).

(* the loader of leader i returned (ok = status, not error): CS3 and delivery *)
Definition do_complete (i : N) (ok : bool) (s : state) : state :=
  match take_flight (flights s) i with
  | None => mkSt (wall s) (now s) (gen s) (cache s) (flights s) (parked s) (tick1 s) (resets s) (fetches s) (responses s)
  | Some (f, fs) =>
      let v := (i, ok) in
      let c := if f_gen f =? gen s
               then cache_set (cache s) (f_key f) (mkE v (wall s + f_ttl f) (wall s) (f_ttl f) (f_start f))
               else cache s in
      mkSt (wall s) (now s) (gen s) c fs (parked s) (tick1 s) (resets s) (fetches s)
           (responses s ++ member_resps f v s)
  end.

Definition do_reset (s : state) : state :=
  mkSt (wall s) (now s) (gen s + 1) [] (flights s) (parked s) (tick1 s) (resets s ++ [time s]) (fetches s) (responses s).

Definition do_tick (d : N) (s : state) : state :=
  mkSt (wall s + d) (now s + d) (gen s) (cache s) (flights s) (parked s) (tick1 s) (resets s) (fetches s) (responses s).

(* only the injected clock moves (harness) *)
Definition do_skew (d : N) (s : state) : state :=
  mkSt (wall s) (now s + d) (gen s) (cache s) (flights s) (parked s) (tick1 s) (resets s) (fetches s) (responses s).

(* pingStatusCache.get, the fast path *)
Definition do_get (i : N) (k : key) (s : state) : state :=
  match live s k with
  | (Some e, c) =>
      mkSt (wall s) (now s) (gen s) c (flights s) (parked s) (tick1 s) (resets s) (fetches s)
           (add_resp s (mkR i (Some (e_val e)) SGet (time s) (e_fstart e) (now s) (e_set e) (e_ttl e)))
  | (None, c) =>
      mkSt (wall s) (now s) (gen s) c (flights s) (parked s) (tick1 s) (resets s) (fetches s)
           (add_resp s (mkR i None SGet (time s) 0 (now s) 0 0))
  end.

(* ---------- schedules as the harness scripts them ---------- *)

Inductive ev :=
| ECs1 (i : N) (k : key) (ttl : N)
| EDoChan (i : N)
| EComplete (i : N) (ok : bool)
| EReset
| ETick (d : N)
| ESkew (d : N)
| EGet (i : N) (k : key).

Definition step (s : state) (e : ev) : state :=
  match e with
  | ECs1 i k ttl => do_cs1 i k ttl s
  | EDoChan i => do_dochan i s
  | EComplete i ok => do_complete i ok s
  | EReset => do_reset s
  | ETick d => do_tick d s
  | ESkew d => do_skew d s
  | EGet i k => do_get i k s
  end.

Definition run_events (es : list ev) : state := fold_left step es init.

(* observable projection: (request, value) in the order the answers were produced, and the
   loaders that were started *)
Definition obs_of (s : state) : list (N * option value) * list N :=
  (map (fun r => (r_id r, r_val r)) (responses s), fetches s).

(* ---------- ResolveStatusResponse: backends in iterator order, then the fallback ---------- *)

Inductive answer := AStatus (backend_index : N) | AFallback | AError.

(* [oks]: for every backend tried, in order, whether it produced a status *)
Fixpoint first_ok (i : N) (oks : list bool) : option N :=
  match oks with
  | [] => None
  | true :: _ => Some i
  | false :: r => first_ok (N.succ i) r
  end.

Definition resolve (oks : list bool) (has_fallback : bool) : answer :=
  match first_ok 0 oks with
  | Some i => AStatus i
  | None => if has_fallback then AFallback else AError
  end.
