(* C25 — the four handlePluginMessage functions of the session handlers as decision tables.

   Go sources (pkg/edition/java/proxy):
     session_client_play.go    clientPlaySessionHandler.handlePluginMessage, getChannels
     session_client_config.go  clientConfigSessionHandler.handlePluginMessage
     session_backend_config.go backendConfigSessionHandler.HandlePacket/handlePluginMessage
     session_backend_play.go   backendPlaySessionHandler.HandlePacket/handlePluginMessage
   Helpers: proto/packet/plugin/util.go (IsRegister, IsUnregister, McBrand),
            proxy/message/message.go (ChannelIdentifierFrom, NewChannelIdentifier),
            proxy/bungeecord (IsBungeeCordMessage).

   [impl_handle] is the code as it exists (two recorded defects included), [spec_handle] is what
   property C25 demands.  Executable definitions only; proofs are in Proofs/C25.v.

   Not modelled (the generator stays outside, stated in meta/C25.json): the legacy-Forge handshake
   channel "FML|HS" (phase handlers), non-ASCII channel names (strings.EqualFold folding), the body
   of brand messages (projected to the channel only). *)
From Coq Require Import List NArith Bool.
From Verif Require Import Base.Hex.
Import ListNotations.
Open Scope N_scope.

(* ---------- channel names ---------- *)

Definition lower_ascii (b : N) : N := if (65 <=? b) && (b <=? 90) then b + 32 else b.
(* strings.EqualFold restricted to ASCII *)
Definition eq_fold (a b : bytes) : bool := beq_bytes (map lower_ascii a) (map lower_ascii b).

(* "REGISTER" "minecraft:register" "UNREGISTER" "minecraft:unregister" "MC|Brand" "minecraft:brand"
   "BungeeCord" "bungeecord:main" as byte lists *)
Definition s_REGISTER : bytes := [82;69;71;73;83;84;69;82].
Definition s_mc_register : bytes := [109;105;110;101;99;114;97;102;116;58;114;101;103;105;115;116;101;114].
Definition s_UNREGISTER : bytes := [85;78;82;69;71;73;83;84;69;82].
Definition s_mc_unregister : bytes := [109;105;110;101;99;114;97;102;116;58;117;110;114;101;103;105;115;116;101;114].
Definition s_MC_Brand : bytes := [77;67;124;66;114;97;110;100].
Definition s_mc_brand : bytes := [109;105;110;101;99;114;97;102;116;58;98;114;97;110;100].
Definition s_BungeeCord : bytes := [66;117;110;103;101;101;67;111;114;100].
Definition s_bungeecord_main : bytes := [98;117;110;103;101;101;99;111;114;100;58;109;97;105;110].
Definition s_minecraft : bytes := [109;105;110;101;99;114;97;102;116].

Inductive kind := KRegister | KUnregister | KBrand | KOther.

(* plugin.IsRegister / IsUnregister / McBrand, in the order the handlers test them *)
Definition classify (ch : bytes) : kind :=
  if eq_fold ch s_REGISTER || eq_fold ch s_mc_register then KRegister
  else if eq_fold ch s_UNREGISTER || eq_fold ch s_mc_unregister then KUnregister
  else if eq_fold ch s_MC_Brand || eq_fold ch s_mc_brand then KBrand
  else KOther.

(* bungeecord.IsBungeeCordMessage: EqualFold with the modern and the legacy channel name *)
Definition is_bungee (ch : bytes) : bool := eq_fold s_bungeecord_main ch || eq_fold s_BungeeCord ch.

(* ---------- getChannels (session_client_play.go) ---------- *)

(* strings.Split(payload, "\x00") *)
Fixpoint split0 (cur : bytes) (bs : bytes) : list bytes :=
  match bs with
  | [] => [rev cur]
  | b :: r => if b =? 0 then rev cur :: split0 [] r else split0 (b :: cur) r
  end.

(* message.allowedInNamespace / allowedInValue on bytes (every allowed character is ASCII) *)
Definition allowed_ns (c : N) : bool :=
  (c =? 95) || (c =? 45) || ((97 <=? c) && (c <=? 122)) || ((48 <=? c) && (c <=? 57)) || (c =? 46).
Definition allowed_val (c : N) : bool := allowed_ns c || (c =? 47).

(* message.NewChannelIdentifier followed by ID(): "namespace:name" or error *)
Definition new_identifier (ns name : bytes) : option bytes :=
  match ns, name with
  | [], _ => None
  | _, [] => None
  | _, _ => if forallb allowed_ns ns && forallb allowed_val name then Some (ns ++ 58 :: name) else None
  end.

(* strings.Index(identifier, ":") as a split at the first colon *)
Fixpoint cut_colon (pre : bytes) (bs : bytes) : option (bytes * bytes) :=
  match bs with
  | [] => None
  | b :: r => if b =? 58 then Some (rev pre, r) else cut_colon (b :: pre) r
  end.

(* message.ChannelIdentifierFrom *)
Definition identifier_from (s : bytes) : option bytes :=
  match cut_colon [] s with
  | None => new_identifier s_minecraft s
  | Some ([], rest) => new_identifier s_minecraft rest
  | Some (ns, name) => new_identifier ns name
  end.

Fixpoint keep_valid (f : bytes -> option bytes) (l : list bytes) : list bytes :=
  match l with
  | [] => []
  | c :: r => match f c with Some i => i :: keep_valid f r | None => keep_valid f r end
  end.

(* getChannels(existing, msg, ver): the identifiers (as ID strings) handed to the event.
   nil and the empty slice are both []. *)
Definition parse_channels (ver13 : bool) (existing : N) (data : bytes) : list bytes :=
  match data with
  | [] => []
  | _ =>
    if 32767 <? N.of_nat (length data) then []
    else
      let chans := split0 [] data in
      if 1024 <? existing + N.of_nat (length chans) then []
      else keep_valid (if ver13 then identifier_from else new_identifier s_minecraft) chans
  end.

(* ---------- environment, message, outcome ---------- *)

Inductive handler := HClientPlay | HClientConfig | HBackendConfig | HBackendPlay.
Inductive bphase := BVanilla | BUnknown | BTransition.       (* serverConnection.connPhase *)
Inductive sub := SDefault | SAllow | SDeny.                  (* what the PluginMessageEvent subscriber does *)

(* one serverConnection of the player; s_conn names the recording connection its writes land on *)
Record srv := mkSrv {
  s_conn : N; s_has_conn : bool; s_play : bool; s_phase : bphase; s_write_ok : bool; s_closed : bool }.

Record env := mkEnv {
  e_ver13 : bool;               (* player protocol >= 1.13 *)
  e_existing : N;               (* player.clientsideChannels.Len() before the call *)
  e_connected : option srv;     (* player.connectedServer() *)
  e_inflight : option srv;      (* player.connectionInFlight() *)
  e_client_complete : bool;     (* player.phase().ConsideredComplete() *)
  e_known : bool;               (* ChannelRegistrar.FromID(channel) succeeded *)
  e_sub : sub;
  e_ready : bool }.             (* client config: readyServer == target *)

Record msg := mkMsg { m_ch : bytes; m_data : bytes; m_payload : bytes }.

Inductive ev :=
| ERegister (chs : list bytes)            (* PlayerChannelRegisterEvent, Channels() as ID strings *)
| EUnregister (chs : list bytes)
| EPM (id : bytes) (data : bytes).        (* PluginMessageEvent: Identifier().ID(), Data() *)

Inductive wr :=
| WPkt (conn : N) (ok : bool) (ch data : bytes)  (* WritePacket/BufferPacket of a plugin.Message, and its result *)
| WRaw (conn : N) (payload : bytes)              (* Write(pc.Payload) *)
| WBrand (conn : N) (ch : bytes).                (* rewritten brand message; body not compared *)

Record outcome := mkOut { o_events : list ev; o_writes : list wr; o_queued : bool }.

Definition nothing : outcome := mkOut [] [] false.
Definition client_conn : N := 0.

Definition phase_complete (p : bphase) : bool := match p with BUnknown => false | _ => true end.
(* serverConnection.active(): connection present, not closed (the player itself stays active) *)
Definition active (s : srv) : bool := s_has_conn s && negb (s_closed s).

(* PluginMessageEvent.Allowed() after the subscriber ran; [dflt] is the forward field the handler set *)
Definition allowed (dflt : bool) (s : sub) : bool :=
  match s with SDefault => dflt | SAllow => true | SDeny => false end.

Definition pkt (s : srv) (m : msg) : wr := WPkt (s_conn s) (s_write_ok s) (m_ch m) (m_data m).

(* ---------- clientPlaySessionHandler.handlePluginMessage ---------- *)
(* [fixed1] = false: today's code (event fired when WritePacket FAILED); true: what C25 demands *)
Definition client_play (fixed1 : bool) (e : env) (m : msg) : outcome :=
  match e_connected e with          (* the FML|HS in-flight edge case is outside the generator *)
  | None => nothing
  | Some s =>
    if negb (s_has_conn s) then nothing
    else if negb (s_play s) then nothing             (* "backend server was not ready. Packet discarded." *)
    else match classify (m_ch m) with
    | KRegister =>
      let chs := parse_channels (e_ver13 e) (e_existing e) (m_data m) in
      let fire := if fixed1 then s_write_ok s else negb (s_write_ok s) in
      mkOut (if fire then [ERegister chs] else []) [pkt s m] false
    | KUnregister =>
      mkOut [EUnregister (parse_channels (e_ver13 e) 0 (m_data m))] [pkt s m] false
    | KBrand => mkOut [] [WBrand (s_conn s) (m_ch m)] false
    | KOther =>
      match s_phase s with
      | BTransition => nothing       (* forwarded to the in-flight connection's Forge phase only *)
      | ph =>
        if e_client_complete e && phase_complete ph then
          if negb (e_known e) then mkOut [] [pkt s m] false
          else mkOut [EPM (m_ch m) (m_data m)]
                     (if allowed true (e_sub e) then [pkt s m] else []) false
        else mkOut [] [] true        (* enqueueLoginPluginMessage *)
      end
    end
  end.

(* ---------- clientConfigSessionHandler.handlePluginMessage ---------- *)
Definition target (e : env) : option srv :=     (* connectionInFlightOrConnectedServer *)
  match e_inflight e with Some s => Some s | None => e_connected e end.

Definition client_config (e : env) (m : msg) : outcome :=
  match classify (m_ch m) with
  | KBrand =>
    match target e with
    | Some s => if e_ready e && s_has_conn s then mkOut [] [WBrand (s_conn s) (m_ch m)] false else nothing
    | None => nothing
    end
  | _ =>
    if is_bungee (m_ch m) then nothing
    else match target e with
    | None => mkOut [] [] true                  (* queued: no backend yet *)
    | Some s =>
      if negb (e_ready e) then mkOut [] [] true (* queued until flushQueuedPluginMessagesTo *)
      else if negb (e_known e) then
        (if s_has_conn s then mkOut [] [pkt s m] false else nothing)
      else mkOut [EPM (m_ch m) (m_data m)]
                 (if allowed false (e_sub e) && active s then [pkt s m] else []) false
    end
  end.

(* ---------- backendConfigSessionHandler ---------- *)
(* [fixed2] = false: today's code (event data = pc.Payload); true: the message's Data *)
Definition backend_config (fixed2 : bool) (s : srv) (e : env) (m : msg) : outcome :=
  if negb (active s) then nothing                (* shouldHandle *)
  else match classify (m_ch m) with
  | KBrand => mkOut [] [WBrand client_conn (m_ch m)] false
  | _ =>
    if negb (e_known e) then mkOut [] [WRaw client_conn (m_payload m)] false
    else mkOut [EPM (m_ch m) (if fixed2 then m_data m else m_payload m)]
               (if allowed false (e_sub e) then [WRaw client_conn (m_payload m)] else []) false
  end.

(* ---------- backendPlaySessionHandler (BungeeCord responder = Nop, Vanilla backend phase) ---------- *)
Definition backend_play (s : srv) (e : env) (m : msg) : outcome :=
  if negb (active s) then nothing
  else match classify (m_ch m) with
  | KRegister | KUnregister => mkOut [] [WRaw client_conn (m_payload m)] false
  | KBrand => mkOut [] [WBrand client_conn (m_ch m)] false
  | KOther =>
    if negb (e_known e) then mkOut [] [WRaw client_conn (m_payload m)] false
    else mkOut [EPM (m_ch m) (m_data m)]
               (if allowed true (e_sub e) then [WPkt client_conn true (m_ch m) (m_data m)] else []) false
  end.

(* backend handlers act for the connected server of the case *)
Definition handle (fixed1 fixed2 : bool) (h : handler) (e : env) (m : msg) : outcome :=
  match h with
  | HClientPlay => client_play fixed1 e m
  | HClientConfig => client_config e m
  | HBackendConfig => match e_connected e with Some s => backend_config fixed2 s e m | None => nothing end
  | HBackendPlay => match e_connected e with Some s => backend_play s e m | None => nothing end
  end.

Definition impl_handle := handle false false.
Definition spec_handle := handle true true.

(* ---------- histories: several messages through the same handler instance ----------
   None of the event paths changes handler state, so a history is handled message by message;
   in particular no message's event or forwarded copy may depend on a later message. *)
Definition handle_history (fixed1 fixed2 : bool) (h : handler) (e : env) (ms : list msg) : list outcome :=
  map (handle fixed1 fixed2 h e) ms.
Definition impl_history := handle_history false false.
Definition spec_history := handle_history true true.

(* ---------- the property's own predicate ---------- *)

Fixpoint beq_list (a b : list bytes) : bool :=
  match a, b with
  | [], [] => true
  | x :: a', y :: b' => beq_bytes x y && beq_list a' b'
  | _, _ => false
  end.

Definition is_reg_ev (x : ev) : bool := match x with ERegister _ => true | _ => false end.

(* "the proxy forwards it to its backend": a successful write of the message itself *)
Definition forwarded (m : msg) (o : outcome) : bool :=
  existsb (fun w => match w with
                    | WPkt _ true ch d => beq_bytes ch (m_ch m) && beq_bytes d (m_data m)
                    | _ => false end) (o_writes o).

(* clause (i): a client registration raises exactly one register event iff it was forwarded *)
Definition holds_register (h : handler) (e : env) (m : msg) (o : outcome) : bool :=
  let regs := filter is_reg_ev (o_events o) in
  match h, classify (m_ch m) with
  | HClientPlay, KRegister =>
    if forwarded m o
    then match regs with
         | [ERegister chs] => beq_list chs (parse_channels (e_ver13 e) (e_existing e) (m_data m))
         | _ => false end
    else match regs with [] => true | _ => false end
  | _, _ => match regs with [] => true | _ => false end
  end.

(* clause (ii): every plugin-message event exposes the message body, and whatever is written
   is the message itself (decoded form or the raw packet it came in) *)
Definition holds_body (m : msg) (o : outcome) : bool :=
  forallb (fun x => match x with EPM _ d => beq_bytes d (m_data m) | _ => true end) (o_events o) &&
  forallb (fun w => match w with
                    | WPkt _ _ ch d => beq_bytes ch (m_ch m) && beq_bytes d (m_data m)
                    | WRaw _ p => beq_bytes p (m_payload m)
                    | WBrand _ _ => true end) (o_writes o).

Definition holds_P (h : handler) (e : env) (m : msg) (o : outcome) : bool :=
  holds_register h e m o && holds_body m o.

(* ---------- trigger classes of the two recorded findings ---------- *)

(* k = 1: a client registration reaches the register branch of the client play handler *)
Definition trigger1 (h : handler) (e : env) (m : msg) : bool :=
  match h, e_connected e, classify (m_ch m) with
  | HClientPlay, Some s, KRegister => s_has_conn s && s_play s
  | _, _, _ => false
  end.

(* k = 2: a backend CONFIG-phase plugin message on a channel the registrar knows *)
Definition trigger2 (h : handler) (e : env) (m : msg) : bool :=
  match h, e_connected e, classify (m_ch m) with
  | HBackendConfig, Some s, KBrand => false
  | HBackendConfig, Some s, _ => active s && e_known e
  | _, _, _ => false
  end.

(* ---------- decidable equality of outcomes (for the judge) ---------- *)
Definition beq_ev (a b : ev) : bool :=
  match a, b with
  | ERegister x, ERegister y => beq_list x y
  | EUnregister x, EUnregister y => beq_list x y
  | EPM i d, EPM j f => beq_bytes i j && beq_bytes d f
  | _, _ => false
  end.
Definition beq_wr (a b : wr) : bool :=
  match a, b with
  | WPkt c o ch d, WPkt c' o' ch' d' => (c =? c') && Bool.eqb o o' && beq_bytes ch ch' && beq_bytes d d'
  | WRaw c p, WRaw c' p' => (c =? c') && beq_bytes p p'
  | WBrand c ch, WBrand c' ch' => (c =? c') && beq_bytes ch ch'
  | _, _ => false
  end.
Fixpoint beq_all {A : Type} (f : A -> A -> bool) (a b : list A) : bool :=
  match a, b with
  | [], [] => true
  | x :: a', y :: b' => f x y && beq_all f a' b'
  | _, _ => false
  end.
Definition beq_outcome (a b : outcome) : bool :=
  beq_all beq_ev (o_events a) (o_events b) && beq_all beq_wr (o_writes a) (o_writes b) &&
  Bool.eqb (o_queued a) (o_queued b).

(* ---------- register histories: the player's known channel set as state ----------
   clientsideChannels is a set of the RAW channel strings that validated; its size feeds getChannels'
   cap test.  Registrations add to it, unregistrations remove from it (client play handler, register /
   unregister branch reached). *)
Fixpoint keep_valid_raw (f : bytes -> option bytes) (l : list bytes) : list bytes :=
  match l with
  | [] => []
  | c :: r => match f c with Some _ => c :: keep_valid_raw f r | None => keep_valid_raw f r end
  end.
(* the second result of getChannels: the raw strings *)
Definition parse_raw (ver13 : bool) (existing : N) (data : bytes) : list bytes :=
  match data with
  | [] => []
  | _ =>
    if 32767 <? N.of_nat (length data) then []
    else
      let chans := split0 [] data in
      if 1024 <? existing + N.of_nat (length chans) then []
      else keep_valid_raw (if ver13 then identifier_from else new_identifier s_minecraft) chans
  end.
Definition mem (x : bytes) (l : list bytes) : bool := existsb (beq_bytes x) l.
Definition add_all (known l : list bytes) : list bytes :=
  fold_left (fun k x => if mem x k then k else k ++ [x]) l known.
Definition remove_all (known l : list bytes) : list bytes := filter (fun x => negb (mem x l)) known.

Definition with_existing (e : env) (n : N) : env :=
  mkEnv (e_ver13 e) n (e_connected e) (e_inflight e) (e_client_complete e) (e_known e) (e_sub e) (e_ready e).

Definition branch_reached (e : env) : bool :=
  match e_connected e with Some s => s_has_conn s && s_play s | None => false end.

Definition known_after (known : list bytes) (e : env) (m : msg) : list bytes :=
  if branch_reached e then
    match classify (m_ch m) with
    | KRegister => add_all known (parse_raw (e_ver13 e) (N.of_nat (length known)) (m_data m))
    | KUnregister => remove_all known (parse_raw (e_ver13 e) 0 (m_data m))
    | _ => known
    end
  else known.

(* every step with the environment it ran in (existing = size of the known set at that moment) *)
Fixpoint reg_history (fixed1 fixed2 : bool) (known : list bytes) (e : env) (ms : list msg) : list (env * outcome) :=
  match ms with
  | [] => []
  | m :: r =>
    let e' := with_existing e (N.of_nat (length known)) in
    (e', handle fixed1 fixed2 HClientPlay e' m) :: reg_history fixed1 fixed2 (known_after known e m) e r
  end.

Fixpoint reg_hist_holds (steps : list (env * outcome)) (ms : list msg) (obs : list outcome) : bool :=
  match steps, ms, obs with
  | [], [], [] => true
  | (e, _) :: st', m :: ms', o :: obs' => holds_P HClientPlay e m o && reg_hist_holds st' ms' obs'
  | _, _, _ => false
  end.
Fixpoint reg_hist_equal (steps : list (env * outcome)) (obs : list outcome) : bool :=
  match steps, obs with
  | [], [] => true
  | (_, o') :: st', o :: obs' => beq_outcome o o' && reg_hist_equal st' obs'
  | _, _ => false
  end.

(* what the blocking subscriber of one message of a history saw, and what was written for it:
   Data() when the subscriber started, Data() when it was released (after the NEXT message had been
   handled), and the writes of that message's forward callback *)
Record hobs := mkH { h_start : bytes; h_end : bytes; h_writes : list wr }.

(* one message of a history against the outcome a model gives for it *)
Definition hist_matches (o : outcome) (x : hobs) : bool :=
  match o_events o with
  | [EPM _ d] => beq_bytes (h_start x) d && beq_bytes (h_end x) d
  | _ => beq_bytes (h_start x) [] && beq_bytes (h_end x) []
  end && beq_all beq_wr (h_writes x) (o_writes o).

Fixpoint hist_all (os : list outcome) (xs : list hobs) : bool :=
  match os, xs with
  | [], [] => true
  | o :: os', x :: xs' => hist_matches o x && hist_all os' xs'
  | _, _ => false
  end.
