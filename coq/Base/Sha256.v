(* Executable SHA-256 (FIPS 180-4) over bytes-as-N, in the style of Base/Sha1.v (whose w32, add32,
   not32, be_bytes, words, chunks and pad it reuses: SHA-1 and SHA-256 share the padding rule).
   Validated by the FIPS vectors below and by correspondence with Go's crypto/sha256 (C20). *)
From Coq Require Import List NArith Lia.
From Verif Require Import Base.Sha1.
Import ListNotations.
Open Scope N_scope.

Definition rotr (n x : N) : N := w32 (N.lor (N.shiftr x n) (N.shiftl x (32 - n))).
Definition shr (n x : N) : N := N.shiftr x n.
Definition xor3 (a b c : N) : N := N.lxor (N.lxor a b) c.

Definition ch (x y z : N) : N := N.lxor (N.land x y) (N.land (not32 x) z).
Definition maj (x y z : N) : N := xor3 (N.land x y) (N.land x z) (N.land y z).
Definition bsig0 (x : N) : N := xor3 (rotr 2 x) (rotr 13 x) (rotr 22 x).
Definition bsig1 (x : N) : N := xor3 (rotr 6 x) (rotr 11 x) (rotr 25 x).
Definition ssig0 (x : N) : N := xor3 (rotr 7 x) (rotr 18 x) (shr 3 x).
Definition ssig1 (x : N) : N := xor3 (rotr 17 x) (rotr 19 x) (shr 10 x).

Definition K256 : list N := [
  1116352408; 1899447441; 3049323471; 3921009573; 961987163; 1508970993; 2453635748; 2870763221;
  3624381080; 310598401; 607225278; 1426881987; 1925078388; 2162078206; 2614888103; 3248222580;
  3835390401; 4022224774; 264347078; 604807628; 770255983; 1249150122; 1555081692; 1996064986;
  2554220882; 2821834349; 2952996808; 3210313671; 3336571891; 3584528711; 113926993; 338241895;
  666307205; 773529912; 1294757372; 1396182291; 1695183700; 1986661051; 2177026350; 2456956037;
  2730485921; 2820302411; 3259730800; 3345764771; 3516065817; 3600352804; 4094571909; 275423344;
  430227734; 506948616; 659060556; 883997877; 958139571; 1322822218; 1537002063; 1747873779;
  1955562222; 2024104815; 2227730452; 2361852424; 2428436474; 2756734187; 3204031479; 3329325298].

(* message schedule kept newest first: w[t-1] :: w[t-2] :: ...; w[t] = ssig1 w[t-2] + w[t-7] + ssig0 w[t-15] + w[t-16] *)
Definition next_w256 (ws : list N) : N :=
  add32 (add32 (ssig1 (nth 1 ws 0)) (nth 6 ws 0)) (add32 (ssig0 (nth 14 ws 0)) (nth 15 ws 0)).

Fixpoint extend256 (n : nat) (ws : list N) : list N :=
  match n with O => ws | S k => extend256 k (next_w256 ws :: ws) end.

Definition st256 := (N * N * N * N * N * N * N * N)%type.

Definition round256 (s : st256) (kw : N * N) : st256 :=
  let '(a, b, c, d, e, f, g, h) := s in
  let t1 := add32 (add32 (add32 (add32 h (bsig1 e)) (ch e f g)) (fst kw)) (snd kw) in
  let t2 := add32 (bsig0 a) (maj a b c) in
  (add32 t1 t2, a, b, c, add32 d t1, e, f, g).

Definition compress256 (hs : st256) (block : list N) : st256 :=
  let w16 := words 16 block in
  let w64 := rev (extend256 48 (rev w16)) in
  let '(a, b, c, d, e, f, g, h) := fold_left round256 (combine K256 w64) hs in
  let '(h0, h1, h2, h3, h4, h5, h6, h7) := hs in
  (add32 h0 a, add32 h1 b, add32 h2 c, add32 h3 d, add32 h4 e, add32 h5 f, add32 h6 g, add32 h7 h).

Definition iv256 : st256 :=
  (1779033703, 3144134277, 1013904242, 2773480762, 1359893119, 2600822924, 528734635, 1541459225).

Definition sha256 (msg : list N) : list N :=
  let p := pad msg in
  let '(a, b, c, d, e, f, g, h) := fold_left compress256 (chunks (length p) 64 p) iv256 in
  be_bytes 4 a ++ be_bytes 4 b ++ be_bytes 4 c ++ be_bytes 4 d
  ++ be_bytes 4 e ++ be_bytes 4 f ++ be_bytes 4 g ++ be_bytes 4 h.

(* "abc" -> ba7816bf 8f01cfea 414140de 5dae2223 b00361a3 96177a9c b410ff61 f20015ad *)
Example sha256_abc : sha256 [97; 98; 99] =
  [186;120;22;191; 143;1;207;234; 65;65;64;222; 93;174;34;35;
   176;3;97;163; 150;23;122;156; 180;16;255;97; 242;0;21;173].
Proof. vm_compute. reflexivity. Qed.

(* "" -> e3b0c442 98fc1c14 9afbf4c8 996fb924 27ae41e4 649b934c a495991b 7852b855 *)
Example sha256_empty : sha256 [] =
  [227;176;196;66; 152;252;28;20; 154;251;244;200; 153;111;185;36;
   39;174;65;228; 100;155;147;76; 164;149;153;27; 120;82;184;85].
Proof. vm_compute. reflexivity. Qed.

(* "abcdbcdecdefdefgefghfghighijhijkijkljklmklmnlmnomnopnopq" (two blocks) ->
   248d6a61 d20638b8 e5c02693 0c3e6039 a33ce459 64ff2167 f6ecedd4 19db06c1 *)
Example sha256_two_blocks : sha256
  [97;98;99;100;98;99;100;101;99;100;101;102;100;101;102;103;101;102;103;104;102;103;104;105;
   103;104;105;106;104;105;106;107;105;106;107;108;106;107;108;109;107;108;109;110;108;109;110;111;
   109;110;111;112;110;111;112;113] =
  [36;141;106;97; 210;6;56;184; 229;192;38;147; 12;62;96;57;
   163;60;228;89; 100;255;33;103; 246;236;237;212; 25;219;6;193].
Proof. vm_compute. reflexivity. Qed.

(* the digest always has 32 bytes *)
Lemma be_bytes_length n x : length (be_bytes n x) = n.
Proof. revert x. induction n as [|k IH]; intro x; simpl; [reflexivity|]. rewrite app_length, IH. simpl. lia. Qed.

Lemma sha256_length msg : length (sha256 msg) = 32%nat.
Proof.
  unfold sha256. destruct (fold_left compress256 _ iv256) as [[[[[[[a b] c] d] e] f] g] h].
  rewrite !app_length, !be_bytes_length. reflexivity.
Qed.
