(* Executable MD5 (RFC 1321) over bytes-as-N; validated by the RFC's test suite below and by
   correspondence with Go crypto/md5 (C10). Little-endian words, per-round shift table, K constants
   as literals (K[i] = floor(2^32 * abs(sin(i+1)))). Same skeleton as Base/Sha1.v. *)
From Coq Require Import List NArith Lia.
Import ListNotations.
Open Scope N_scope.

Definition w32 (x : N) : N := x mod 4294967296.
Definition rotl (n x : N) : N := w32 (N.lor (N.shiftl x n) (N.shiftr x (32 - n))).
Definition add32 (a b : N) : N := w32 (a + b).
Definition not32 (x : N) : N := 4294967295 - x.

Fixpoint le_bytes (n : nat) (x : N) : list N :=   (* n bytes little-endian *)
  match n with O => [] | S k => (x mod 256) :: le_bytes k (x / 256) end.

Definition pad (msg : list N) : list N :=
  let l := N.of_nat (length msg) in
  let k := (119 - l mod 64) mod 64 in               (* zeros so that total = 56 mod 64 *)
  msg ++ [128] ++ repeat 0 (N.to_nat k) ++ le_bytes 8 (8 * l).

Fixpoint words (fuel : nat) (bs : list N) : list N :=   (* little-endian 32-bit words *)
  match fuel, bs with
  | S f, a :: b :: c :: d :: r => (a + 256 * (b + 256 * (c + 256 * d))) :: words f r
  | _, _ => []
  end.

Fixpoint chunks (fuel : nat) (n : nat) (l : list N) : list (list N) :=
  match fuel with O => [] | S f => match l with [] => [] | _ => firstn n l :: chunks f n (skipn n l) end end.

Definition md5_K : list N := [
  3614090360; 3905402710; 606105819; 3250441966; 4118548399; 1200080426; 2821735955; 4249261313;
  1770035416; 2336552879; 4294925233; 2304563134; 1804603682; 4254626195; 2792965006; 1236535329;
  4129170786; 3225465664; 643717713; 3921069994; 3593408605; 38016083; 3634488961; 3889429448;
  568446438; 3275163606; 4107603335; 1163531501; 2850285829; 4243563512; 1735328473; 2368359562;
  4294588738; 2272392833; 1839030562; 4259657740; 2763975236; 1272893353; 4139469664; 3200236656;
  681279174; 3936430074; 3572445317; 76029189; 3654602809; 3873151461; 530742520; 3299628645;
  4096336452; 1126891415; 2878612391; 4237533241; 1700485571; 2399980690; 4293915773; 2240044497;
  1873313359; 4264355552; 2734768916; 1309151649; 4149444226; 3174756917; 718787259; 3951481745].

Definition md5_S : list N := [
  7; 12; 17; 22; 7; 12; 17; 22; 7; 12; 17; 22; 7; 12; 17; 22;
  5; 9; 14; 20; 5; 9; 14; 20; 5; 9; 14; 20; 5; 9; 14; 20;
  4; 11; 16; 23; 4; 11; 16; 23; 4; 11; 16; 23; 4; 11; 16; 23;
  6; 10; 15; 21; 6; 10; 15; 21; 6; 10; 15; 21; 6; 10; 15; 21].

Definition st := (N * N * N * N)%type.

(* one of the 64 operations; i = operation index, m = the 16 message words of the block *)
Definition op (m : list N) (s : st) (i : nat) : st :=
  let '(a, b, c, d) := s in
  let ni := N.of_nat i in
  let '(f, g) :=
    if Nat.ltb i 16 then (N.lor (N.land b c) (N.land (not32 b) d), ni)
    else if Nat.ltb i 32 then (N.lor (N.land d b) (N.land (not32 d) c), (5 * ni + 1) mod 16)
    else if Nat.ltb i 48 then (N.lxor (N.lxor b c) d, (3 * ni + 5) mod 16)
    else (N.lxor c (N.lor b (not32 d)), (7 * ni) mod 16) in
  let f' := add32 (add32 (add32 f a) (nth i md5_K 0)) (nth (N.to_nat g) m 0) in
  (d, add32 b (rotl (nth i md5_S 0) f'), b, c).

Definition compress (h : st) (block : list N) : st :=
  let m := words 16 block in
  let '(a, b, c, d) := fold_left (op m) (seq 0 64) h in
  let '(h0, h1, h2, h3) := h in
  (add32 h0 a, add32 h1 b, add32 h2 c, add32 h3 d).

Definition md5 (msg : list N) : list N :=
  let p := pad msg in
  let '(a, b, c, d) := fold_left compress (chunks (length p) 64 p)
      (1732584193, 4023233417, 2562383102, 271733878) in
  le_bytes 4 a ++ le_bytes 4 b ++ le_bytes 4 c ++ le_bytes 4 d.

Lemma le_bytes_length n x : length (le_bytes n x) = n.
Proof. revert x. induction n; intro x; cbn; [reflexivity|rewrite IHn; reflexivity]. Qed.

Lemma md5_length msg : length (md5 msg) = 16%nat.
Proof.
  unfold md5. destruct (fold_left compress _ _) as [[[a b] c] d].
  rewrite !app_length, !le_bytes_length. reflexivity.
Qed.

Lemma le_bytes_lt n : forall x, Forall (fun b => b < 256) (le_bytes n x).
Proof. induction n; intro x; cbn; constructor; [apply N.mod_lt; lia|apply IHn]. Qed.

Lemma md5_bytes msg : Forall (fun b => b < 256) (md5 msg).
Proof.
  unfold md5. destruct (fold_left compress _ _) as [[[a b] c] d].
  repeat (apply Forall_app; split); apply le_bytes_lt.
Qed.

(* RFC 1321, appendix A.5 test suite *)
(* "" -> d41d8cd98f00b204e9800998ecf8427e *)
Example md5_empty : md5 [] = [212;29;140;217;143;0;178;4;233;128;9;152;236;248;66;126].
Proof. vm_compute. reflexivity. Qed.
(* "a" -> 0cc175b9c0f1b6a831c399e269772661 *)
Example md5_a : md5 [97] = [12;193;117;185;192;241;182;168;49;195;153;226;105;119;38;97].
Proof. vm_compute. reflexivity. Qed.
(* "abc" -> 900150983cd24fb0d6963f7d28e17f72 *)
Example md5_abc : md5 [97;98;99] = [144;1;80;152;60;210;79;176;214;150;63;125;40;225;127;114].
Proof. vm_compute. reflexivity. Qed.
(* "message digest" -> f96b697d7cb7938d525a2f31aaf161d0 *)
Example md5_message_digest :
  md5 [109;101;115;115;97;103;101;32;100;105;103;101;115;116]
  = [249;107;105;125;124;183;147;141;82;90;47;49;170;241;97;208].
Proof. vm_compute. reflexivity. Qed.
(* "abcdefghijklmnopqrstuvwxyz" -> c3fcd3d76192e4007dfb496cca67e13b *)
Example md5_alphabet :
  md5 (map N.of_nat (seq 97 26)) = [195;252;211;215;97;146;228;0;125;251;73;108;202;103;225;59].
Proof. vm_compute. reflexivity. Qed.
(* "1234567890" x 8 (80 bytes, two blocks) -> 57edf4a22be3c955ac49da2e2107b67a *)
Example md5_digits80 :
  md5 (concat (repeat [49;50;51;52;53;54;55;56;57;48] 8))
  = [87;237;244;162;43;227;201;85;172;73;218;46;33;7;182;122].
Proof. vm_compute. reflexivity. Qed.
(* "A..Za..z0..9" (62 bytes: padding spills into a second block) -> d174ab98d277d9f5a5611c2c9f419d9f *)
Example md5_alnum62 :
  md5 (map N.of_nat (seq 65 26 ++ seq 97 26 ++ seq 48 10))
  = [209;116;171;152;210;119;217;245;165;97;28;44;159;65;157;159].
Proof. vm_compute. reflexivity. Qed.
