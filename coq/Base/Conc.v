(* Interleavings of atomic actions.

   A concurrent Go fragment is modelled as a list of threads (goroutines); each
   thread is a straight-line list of atomic actions on a shared state [S] that
   may emit observable events [E].  A schedule is a list of thread indices.
   Everything here is computable (meant for vm_compute on small instances) and
   comes with "for all schedules" invariant lemmas, so that a property can be
   proved once per action instead of once per interleaving.

   Conventions
   - Thread indices are STABLE: when a thread takes a step its head action is
     popped but the thread keeps its position, and a finished thread stays in
     the list as [].  So index i means the same goroutine throughout a run.
   - Scheduling a finished or non-existent thread is a no-op (the schedule entry
     is skipped), so [run] is total on arbitrary schedules.                     *)
From Coq Require Import List Arith Bool Lia.
Import ListNotations.

(* ---------- generic list helpers (outside the section: the section variable
              is called S and would shadow the nat constructor) ---------- *)

(* [pick ts i]: pop the head of the i-th list.  None if there is no i-th list or
   it is empty; otherwise the popped element and the updated lists (same length,
   same positions). *)
Fixpoint pick {A : Type} (ts : list (list A)) (i : nat) : option (A * list (list A)) :=
  match ts, i with
  | [], _ => None
  | [] :: _, O => None
  | (a :: t) :: rest, O => Some (a, t :: rest)
  | t :: rest, S i' =>
      match pick rest i' with
      | Some (a, rest') => Some (a, t :: rest')
      | None => None
      end
  end.

(* The popped element comes from the original lists and what remains is a
   sub-collection of the original lists. *)
Lemma pick_incl {A : Type} (ts : list (list A)) :
  forall i a ts', pick ts i = Some (a, ts') ->
    In a (concat ts) /\ incl (concat ts') (concat ts).
Proof.
  induction ts as [|t rest IH]; intros i a ts' H.
  - destruct i; discriminate.
  - destruct i as [|i].
    + destruct t as [|b t]; simpl in H; [discriminate|].
      inversion H; subst; clear H. simpl. split.
      * now left.
      * apply incl_tl, incl_refl.
    + simpl in H.
      assert (H' : match pick rest i with
                   | Some (a0, rest') => Some (a0, t :: rest')
                   | None => None end = Some (a, ts'))
        by (destruct t; exact H).
      clear H. destruct (pick rest i) as [[a0 rest']|] eqn:Hp; [|discriminate].
      inversion H'; subst; clear H'.
      destruct (IH _ _ _ Hp) as [Hin Hincl]. simpl. split.
      * apply in_or_app. now right.
      * apply incl_app.
        -- apply incl_appl, incl_refl.
        -- apply incl_appr, Hincl.
Qed.

Lemma pick_length {A : Type} (ts : list (list A)) :
  forall i a ts', pick ts i = Some (a, ts') -> length ts' = length ts.
Proof.
  induction ts as [|t rest IH]; intros i a ts' H.
  - destruct i; discriminate.
  - destruct i as [|i].
    + destruct t; simpl in H; [discriminate|]. inversion H; subst. reflexivity.
    + simpl in H.
      assert (H' : match pick rest i with
                   | Some (a0, rest') => Some (a0, t :: rest')
                   | None => None end = Some (a, ts'))
        by (destruct t; exact H).
      clear H. destruct (pick rest i) as [[a0 rest']|] eqn:Hp; [|discriminate].
      inversion H'; subst. simpl. f_equal. eauto.
Qed.

(* Each step removes exactly one element. *)
Lemma pick_steps {A : Type} (ts : list (list A)) :
  forall i a ts', pick ts i = Some (a, ts') ->
    length (concat ts) = S (length (concat ts')).
Proof.
  induction ts as [|t rest IH]; intros i a ts' H.
  - destruct i; discriminate.
  - destruct i as [|i].
    + destruct t; simpl in H; [discriminate|]. inversion H; subst. reflexivity.
    + simpl in H.
      assert (H' : match pick rest i with
                   | Some (a0, rest') => Some (a0, t :: rest')
                   | None => None end = Some (a, ts'))
        by (destruct t; exact H).
      clear H. destruct (pick rest i) as [[a0 rest']|] eqn:Hp; [|discriminate].
      inversion H'; subst. simpl. rewrite !app_length, (IH _ _ _ Hp). lia.
Qed.

(* Interleavings only depend on how many steps each thread has left.
   [choices base lens]: for every position with a positive count, the (absolute)
   index together with the counts after decrementing that position. *)
Fixpoint choices (base : nat) (lens : list nat) : list (nat * list nat) :=
  match lens with
  | [] => []
  | n :: rest =>
      (match n with O => [] | S n' => [(base, n' :: rest)] end)
      ++ map (fun c => (fst c, n :: snd c)) (choices (S base) rest)
  end.

(* All maximal sequences of indices, each index i used exactly lens[i] times.
   [fuel] must be at least the sum of [lens] (extra fuel is harmless; with too
   little fuel the schedules are truncated). *)
Fixpoint interleavings (fuel : nat) (lens : list nat) : list (list nat) :=
  match choices 0 lens with
  | [] => [[]]                                   (* nothing left to run *)
  | cs =>
      match fuel with
      | O => [[]]
      | S f => flat_map (fun c => map (cons (fst c)) (interleavings f (snd c))) cs
      end
  end.

Section Conc.
  Context {S E : Type}.

  (* one atomic step: new state + events emitted by that step *)
  Definition action : Type := S -> S * list E.
  (* a goroutine: straight-line sequence of atomic steps *)
  Definition thread : Type := list action.

  (* [run ts sched s] executes the schedule from state [s].
     Returns (final state, all events in emission order, remaining threads).
     Remaining threads keep their positions; finished ones are []. *)
  Fixpoint run (ts : list thread) (sched : list nat) (s : S)
    : S * list E * list thread :=
    match sched with
    | [] => (s, [], ts)
    | i :: sched' =>
        match pick ts i with
        | None => run ts sched' s                 (* finished / unknown thread: no-op *)
        | Some (a, ts') =>
            let '(s1, ev1) := a s in
            let '(s2, ev2, ts2) := run ts' sched' s1 in
            (s2, ev1 ++ ev2, ts2)
        end
    end.

  (* projections of a run result *)
  Definition final_state (r : S * list E * list thread) : S := fst (fst r).
  Definition events (r : S * list E * list thread) : list E := snd (fst r).
  Definition remaining (r : S * list E * list thread) : list thread := snd r.

  (* all threads have finished *)
  Definition complete (ts : list thread) : bool :=
    forallb (fun t => match t with [] => true | _ :: _ => false end) ts.

  (* every complete interleaving of the threads' steps, as lists of thread
     indices.  Exponential; for small examples under vm_compute only. *)
  Definition all_schedules (ts : list thread) : list (list nat) :=
    interleavings (length (concat ts)) (map (@length action) ts).

  (* run every complete schedule *)
  Definition outcomes (ts : list thread) (s : S) : list (S * list E * list thread) :=
    map (fun sched => run ts sched s) (all_schedules ts).

  (* boolean check of a (final state, trace) predicate over every complete schedule *)
  Definition check_all_schedules (ts : list thread) (s : S)
             (ok : S -> list E -> bool) : bool :=
    forallb (fun r => complete (remaining r) && ok (final_state r) (events r))
            (outcomes ts s).

  (* ---------- invariants over all schedules ---------- *)

  (* Generalised statement: start from any threads [ts'] whose actions all come
     from [ts] (this is what the remaining threads look like mid-run) and from
     any event prefix [evs0]. *)
  Lemma trace_inv_gen (P : S -> list E -> Prop) (ts : list thread) :
    (forall a, In a (concat ts) ->
       forall s evs, P s evs -> P (fst (a s)) (evs ++ snd (a s))) ->
    forall sched ts' s evs0,
      incl (concat ts') (concat ts) ->
      P s evs0 ->
      P (fst (fst (run ts' sched s))) (evs0 ++ snd (fst (run ts' sched s))).
  Proof.
    intros Hstep sched.
    induction sched as [|i sched IH]; intros ts' s evs0 Hincl HP.
    - simpl. now rewrite app_nil_r.
    - simpl. destruct (pick ts' i) as [[a ts'']|] eqn:Hp.
      + destruct (pick_incl _ _ _ _ Hp) as [Hin Hsub].
        specialize (Hstep a (Hincl _ Hin) s evs0 HP).
        destruct (a s) as [s1 ev1]. simpl in Hstep.
        specialize (IH ts'' s1 (evs0 ++ ev1)
                       (fun x Hx => Hincl x (Hsub x Hx)) Hstep).
        destruct (run ts'' sched s1) as [[s2 ev2] ts2]. simpl in *.
        now rewrite app_assoc.
      + now apply IH.
  Qed.

  (* Trace invariant: a predicate over (state, events so far) preserved by every
     action holds after any schedule. *)
  Lemma trace_inv_all_schedules (P : S -> list E -> Prop) (ts : list thread) :
    (forall a, In a (concat ts) ->
       forall s evs, P s evs -> P (fst (a s)) (evs ++ snd (a s))) ->
    forall sched s evs0,
      P s evs0 ->
      P (fst (fst (run ts sched s))) (evs0 ++ snd (fst (run ts sched s))).
  Proof.
    intros Hstep sched s evs0. apply (trace_inv_gen P ts Hstep). apply incl_refl.
  Qed.

  (* State invariant: preserved by every action => holds after any schedule. *)
  Lemma inv_all_schedules (Inv : S -> Prop) (ts : list thread) :
    (forall a, In a (concat ts) -> forall s, Inv s -> Inv (fst (a s))) ->
    forall sched s, Inv s -> Inv (fst (fst (run ts sched s))).
  Proof.
    intros Hstep sched s HI.
    exact (trace_inv_all_schedules (fun s _ => Inv s) ts
             (fun a Ha s0 _ H0 => Hstep a Ha s0 H0) sched s [] HI).
  Qed.

  (* The remaining threads only contain actions of the original threads, and
     there are as many of them (indices are stable). *)
  Lemma run_remaining_incl (ts : list thread) :
    forall sched s, incl (concat (snd (run ts sched s))) (concat ts).
  Proof.
    intros sched. revert ts.
    induction sched as [|i sched IH]; intros ts s; simpl.
    - apply incl_refl.
    - destruct (pick ts i) as [[a ts']|] eqn:Hp; [|apply IH].
      destruct (pick_incl _ _ _ _ Hp) as [_ Hsub].
      destruct (a s) as [s1 ev1].
      specialize (IH ts' s1). destruct (run ts' sched s1) as [[s2 ev2] ts2].
      simpl in *. intros x Hx. auto.
  Qed.

  Lemma run_remaining_length (ts : list thread) :
    forall sched s, length (snd (run ts sched s)) = length ts.
  Proof.
    intros sched. revert ts.
    induction sched as [|i sched IH]; intros ts s; simpl.
    - reflexivity.
    - destruct (pick ts i) as [[a ts']|] eqn:Hp; [|apply IH].
      destruct (a s) as [s1 ev1].
      specialize (IH ts' s1). destruct (run ts' sched s1) as [[s2 ev2] ts2].
      simpl in *. rewrite IH. eapply pick_length; eauto.
  Qed.

End Conc.

(* ---------- sanity examples (vm_compute) ---------- *)

(* 2 threads of 2 and 1 steps: 3 = C(3,1) complete interleavings. *)
Example all_schedules_2_1 :
  let bump (k : nat) : @action nat nat := fun s => (s + k, [k]) in
  all_schedules [[bump 1; bump 2]; [bump 10]] = [[0; 0; 1]; [0; 1; 0]; [1; 0; 0]].
Proof. vm_compute. reflexivity. Qed.

(* every one of them runs all threads to completion; commutative actions give
   the same final state but different traces *)
Example all_schedules_complete_2_1 :
  let bump (k : nat) : @action nat nat := fun s => (s + k, [k]) in
  let ts := [[bump 1; bump 2]; [bump 10]] in
  check_all_schedules ts 0 (fun s evs => (s =? 13) && (length evs =? 3)) = true
  /\ map (@events nat nat) (outcomes ts 0) = [[1; 2; 10]; [1; 10; 2]; [10; 1; 2]].
Proof. vm_compute. split; reflexivity. Qed.

(* 2+2 steps: C(4,2) = 6; 1+1+1 steps: 3! = 6; finished/unknown indices are no-ops *)
Example all_schedules_counts :
  let nop : @action unit unit := fun s => (s, []) in
  length (all_schedules [[nop; nop]; [nop; nop]]) = 6
  /\ length (all_schedules [[nop]; [nop]; [nop]]) = 6
  /\ all_schedules ([] : list (@thread unit unit)) = [[]]
  /\ complete (snd (run [[nop]; [nop]] [0; 0; 7; 1] tt)) = true.
Proof. vm_compute. repeat split; reflexivity. Qed.

Print Assumptions trace_inv_all_schedules.
Print Assumptions inv_all_schedules.
