(* Minecraft VarInt (unsigned 32-bit view) — mirrors util.WriteVarIntN / ReadVarIntReturnN. *)
From Coq Require Import List NArith ZArith Lia ZifyN ZifyBool Bool.
Import ListNotations.
Open Scope N_scope.
Ltac Zify.zify_post_hook ::= Z.div_mod_to_equations.

(* bytes as N < 256 (prototype) *)
Fixpoint enc_fuel (f : nat) (u : N) : list N :=
  match f with
  | O => []
  | S f' => if u <? 128 then [u] else (u mod 128 + 128) :: enc_fuel f' (u / 128)
  end.
Definition enc (u : N) : list N := enc_fuel 5 u.

Inductive err := ErrShort | ErrTooBig.
Inductive res (A:Type) := Ok (a:A) | Err (e:err).
Arguments Ok {A}. Arguments Err {A}.

(* i = index of byte being read (0-based), acc = value so far *)
Fixpoint dec_fuel (f : nat) (i : N) (acc : N) (bs : list N) : res (N * N * list N) :=
  match f with
  | O => Err ErrTooBig
  | S f' =>
    match bs with
    | [] => Err ErrShort
    | b :: r =>
      let acc' := N.lor acc (N.shiftl (N.land b 127) (7 * i) mod 2^32) in
      if 5 <=? i then Err ErrTooBig
      else if N.land b 128 =? 0 then Ok (acc', i + 1, r)
      else dec_fuel f' (i + 1) acc' r
    end
  end.
Definition dec (bs : list N) := dec_fuel 6 0 0 bs.

Lemma land127 b : N.land b 127 = b mod 128.
Proof. change 127 with (N.ones 7). rewrite N.land_ones. reflexivity. Qed.

Lemma land128_small b : b < 128 -> N.land b 128 = 0.
Proof.
  intros H. apply N.bits_inj_0. intros n. rewrite N.land_spec.
  destruct (N.eq_dec n 7) as [->|Hn].
  - replace (N.testbit b 7) with false; [reflexivity|].
    symmetry. apply N.bits_above_log2. destruct (N.eq_dec b 0) as [->|Hb]; [cbn; lia|].
    apply N.log2_lt_pow2; lia.
  - change 128 with (2^7). rewrite N.pow2_bits_eqb. 
    replace (7 =? n) with false by (symmetry; apply N.eqb_neq; lia). apply andb_false_r.
Qed.

Lemma land128_big b : 128 <= b < 256 -> N.land b 128 = 128.
Proof.
  intros H. apply N.bits_inj. intros n. rewrite N.land_spec.
  change 128 with (2^7). rewrite N.pow2_bits_eqb.
  destruct (N.eqb_spec 7 n) as [<-|Hn]; [|apply andb_false_r].
  rewrite andb_true_r. rewrite N.testbit_eqb. change (2^7) with 128.
  assert (b / 128 = 1) by lia.
  rewrite H0. reflexivity.
Qed.

(* value invariant: after consuming limbs, acc + 2^(7i) * u = v, all < 2^32 *)
Lemma lor_add_disjoint acc x i : acc < 2^(7*i) -> N.lor acc (N.shiftl x (7*i)) = acc + x * 2^(7*i).
Proof.
  intros H. rewrite N.shiftl_mul_pow2.
  rewrite <- N.lxor_lor.
  - rewrite N.add_nocarry_lxor; [reflexivity|].
    apply N.bits_inj_0. intros n. rewrite N.land_spec.
    destruct (N.lt_ge_cases n (7*i)) as [Hn|Hn].
    + rewrite (N.mul_pow2_bits_low x); [apply andb_false_r|assumption].
    + replace (N.testbit acc n) with false; [reflexivity|].
      symmetry. destruct (N.eq_dec acc 0) as [->|Ha]; [apply N.bits_0|].
      apply N.bits_above_log2. apply N.log2_lt_pow2; [lia|].
      eapply N.lt_le_trans; [exact H|]. apply N.pow_le_mono_r; lia.
  - apply N.bits_inj_0. intros n. rewrite N.land_spec.
    destruct (N.lt_ge_cases n (7*i)) as [Hn|Hn].
    + rewrite (N.mul_pow2_bits_low x); [apply andb_false_r|assumption].
    + replace (N.testbit acc n) with false; [reflexivity|].
      symmetry. destruct (N.eq_dec acc 0) as [->|Ha]; [apply N.bits_0|].
      apply N.bits_above_log2. apply N.log2_lt_pow2; [lia|].
      eapply N.lt_le_trans; [exact H|]. apply N.pow_le_mono_r; lia.
Qed.

Lemma i_cases i : i < 5 -> i = 0 \/ i = 1 \/ i = 2 \/ i = 3 \/ i = 4.
Proof. lia. Qed.

Lemma shl_mod_small x i : i < 5 -> x < 2^(32 - 7*i) ->
  N.shiftl x (7*i) mod 2^32 = x * 2^(7*i).
Proof.
  intros Hi Hx. rewrite N.shiftl_mul_pow2. apply N.mod_small.
  destruct (i_cases i Hi) as [->|[->|[->|[->| ->]]]]; cbn in *; lia.
Qed.

Lemma dec_last f i acc u rest :
  i < 5 -> acc < 2^(7*i) -> u < 2^(32 - 7*i) -> u < 128 ->
  dec_fuel (S f) i acc (u :: rest) = Ok (acc + u * 2^(7*i), i + 1, rest).
Proof.
  intros Hi Hacc Hu Hs. cbn [dec_fuel].
  replace (5 <=? i) with false by (symmetry; apply N.leb_gt; lia).
  rewrite land128_small by assumption. cbn [N.eqb].
  rewrite land127, (N.mod_small u 128) by assumption.
  rewrite shl_mod_small by assumption.
  rewrite <- N.shiftl_mul_pow2, lor_add_disjoint by assumption.
  rewrite N.shiftl_mul_pow2. reflexivity.
Qed.

Lemma dec_more f i acc u bs :
  i < 5 -> acc < 2^(7*i) -> u < 2^(32 - 7*i) -> 128 <= u ->
  dec_fuel (S f) i acc ((u mod 128 + 128) :: bs) =
  dec_fuel f (i + 1) (acc + (u mod 128) * 2^(7*i)) bs.
Proof.
  intros Hi Hacc Hu Hs. cbn [dec_fuel].
  replace (5 <=? i) with false by (symmetry; apply N.leb_gt; lia).
  assert (Hm : u mod 128 < 128) by (apply N.mod_lt; lia).
  rewrite land128_big by lia. cbn [N.eqb].
  rewrite land127.
  replace ((u mod 128 + 128) mod 128) with (u mod 128) by lia.
  rewrite shl_mod_small; [| assumption | ].
  - rewrite <- N.shiftl_mul_pow2, lor_add_disjoint by assumption.
    rewrite N.shiftl_mul_pow2. reflexivity.
  - eapply N.le_lt_trans; [|exact Hu]. apply N.mod_le. lia.
Qed.

Lemma dec_enc_gen k : forall i acc u rest,
  i + N.of_nat k = 5 -> (0 < k)%nat ->
  acc < 2^(7*i) -> u < 2^(32 - 7*i) ->
  dec_fuel (S k) i acc (enc_fuel k u ++ rest) =
  Ok (acc + u * 2^(7*i), i + N.of_nat (length (enc_fuel k u)), rest).
Proof.
  induction k as [|k IH]; intros i acc u rest Hik Hk Hacc Hu; [lia|].
  cbn [enc_fuel]. destruct (N.ltb_spec u 128) as [Hs|Hb].
  - cbn [app length]. rewrite dec_last by (try assumption; lia). reflexivity.
  - cbn [app length]. rewrite dec_more by (try assumption; lia).
    assert (Hi : i < 4).
    { destruct (N.eq_dec i 4) as [->|]; [cbn in Hu; lia| lia]. }
    rewrite IH.
    + assert (E : acc + u mod 128 * 2 ^ (7 * i) + u / 128 * 2 ^ (7 * (i + 1)) = acc + u * 2 ^ (7 * i)).
      { replace (7 * (i + 1)) with (7 * i + 7) by lia. rewrite N.pow_add_r.
        change (2^7) with 128.
        rewrite (N.div_mod u 128) at 3 by lia. lia. }
      rewrite E. f_equal. f_equal. f_equal. lia.
    + lia.
    + lia.
    + replace (7 * (i + 1)) with (7 * i + 7) by lia. rewrite N.pow_add_r. change (2^7) with 128.
      assert (u mod 128 < 128) by (apply N.mod_lt; lia). nia.
    + destruct (i_cases i ltac:(lia)) as [->|[->|[->|[->| ->]]]]; cbn in *; lia.
Qed.

Theorem varint_roundtrip u rest : u < 2^32 ->
  dec (enc u ++ rest) = Ok (u, N.of_nat (length (enc u)), rest).
Proof.
  intros H. unfold dec, enc. rewrite (dec_enc_gen 5 0 0 u rest); cbn; try lia.
  f_equal. f_equal. f_equal. lia.
Qed.
Print Assumptions varint_roundtrip.
