(* Linearizability of small recorded histories against a sequential specification.

   A history is a list of completed calls, each with an operation, the result
   that was observed, and invocation / response timestamps taken from one logical
   clock (c_inv < c_res for a well-formed call).  The sequential specification is
   a deterministic [step : St -> O -> St * R]; results are compared with a
   caller-supplied boolean [eqR].

   A linearization is given as [order], a list of indices into the history: the
   calls take effect one after another in that order.

   - [valid_linearization] is a computable checker for a proposed order,
   - [Linearizable] is the Prop-level definition,
   - [valid_linearization_sound] connects them,
   - [find_linearization] / [check_history] search for an order by backtracking
     (exponential; small histories under vm_compute only).  [check_history]
     re-validates whatever the search returns, so its soundness does not depend
     on the search being right.

   NOTE: inside the section the type variable is called O and shadows the nat
   constructor O; the code below writes 0 and never matches on the name O.   *)
From Coq Require Import List Arith ZArith Bool Lia Permutation.
Import ListNotations.

Record call (O R : Type) := mkCall {
  c_op  : O;      (* operation that was invoked *)
  c_ret : R;      (* result that was observed *)
  c_inv : Z;      (* invocation timestamp *)
  c_res : Z       (* response timestamp; c_inv < c_res *)
}.
Arguments mkCall {O R} _ _ _ _.
Arguments c_op {O R} _.
Arguments c_ret {O R} _.
Arguments c_inv {O R} _.
Arguments c_res {O R} _.

(* ---------- generic: boolean permutation-of-[0..n) check ---------- *)

Fixpoint nodupb (l : list nat) : bool :=
  match l with
  | [] => true
  | x :: r => negb (existsb (Nat.eqb x) r) && nodupb r
  end.

Lemma nodupb_NoDup l : nodupb l = true -> NoDup l.
Proof.
  induction l as [|x r IH]; simpl; intros H.
  - constructor.
  - apply andb_true_iff in H. destruct H as [Hx Hr].
    constructor; [|auto].
    intros Hin. apply negb_true_iff in Hx.
    assert (existsb (Nat.eqb x) r = true)
      by (apply existsb_exists; exists x; split; [assumption|apply Nat.eqb_refl]).
    congruence.
Qed.

(* [order] lists each of 0 .. n-1 exactly once *)
Definition is_perm_of_seq (order : list nat) (n : nat) : bool :=
  (length order =? n) && forallb (fun i => i <? n) order && nodupb order.

Lemma is_perm_of_seq_sound order n :
  is_perm_of_seq order n = true -> Permutation order (seq 0 n).
Proof.
  unfold is_perm_of_seq. intros H.
  apply andb_true_iff in H. destruct H as [H Hnd].
  apply andb_true_iff in H. destruct H as [Hlen Hlt].
  apply Nat.eqb_eq in Hlen. apply nodupb_NoDup in Hnd.
  apply NoDup_Permutation_bis; [assumption| |].
  - rewrite seq_length. lia.
  - intros i Hi. apply in_seq.
    rewrite forallb_forall in Hlt. specialize (Hlt i Hi).
    apply Nat.ltb_lt in Hlt. lia.
Qed.

Section Lin.
  Context {St O R : Type} (step : St -> O -> St * R) (eqR : R -> R -> bool).

  Definition history : Type := list (call O R).

  (* ---------- Prop-level definitions ---------- *)

  (* Real-time precedence.  If call [b] responded before call [a] was invoked
     (c_res b < c_inv a) then [b] must come before [a]; so for positions p < q
     (a at p, b at q, i.e. a ordered BEFORE b) that situation must not occur. *)
  Definition respects_realtime (h : history) (order : list nat) : Prop :=
    forall p q i j a b,
      p < q ->
      nth_error order p = Some i -> nth_error order q = Some j ->
      nth_error h i = Some a -> nth_error h j = Some b ->
      ~ (c_res b < c_inv a)%Z.

  (* Replaying the sequential specification along [order] from state [s]
     reproduces every recorded result (and every index is a valid call). *)
  Fixpoint replay_ok (s : St) (h : history) (order : list nat) : Prop :=
    match order with
    | [] => True
    | i :: rest =>
        exists c, nth_error h i = Some c
                  /\ eqR (snd (step s (c_op c))) (c_ret c) = true
                  /\ replay_ok (fst (step s (c_op c))) h rest
    end.

  Definition Linearizable (s0 : St) (h : history) : Prop :=
    exists order,
      Permutation order (seq 0 (length h))
      /\ respects_realtime h order
      /\ replay_ok s0 h order.

  (* ---------- computable checker ---------- *)

  (* [b] (index j) may be ordered after [a] (index i) *)
  Definition may_follow (h : history) (i j : nat) : bool :=
    match nth_error h i, nth_error h j with
    | Some a, Some b => negb (c_res b <? c_inv a)%Z
    | _, _ => true            (* bad indices are rejected by the permutation check *)
    end.

  Fixpoint realtime_okb (h : history) (order : list nat) : bool :=
    match order with
    | [] => true
    | i :: rest => forallb (may_follow h i) rest && realtime_okb h rest
    end.

  Fixpoint replay_okb (s : St) (h : history) (order : list nat) : bool :=
    match order with
    | [] => true
    | i :: rest =>
        match nth_error h i with
        | None => false
        | Some c =>
            let sr := step s (c_op c) in
            eqR (snd sr) (c_ret c) && replay_okb (fst sr) h rest
        end
    end.

  Definition valid_linearization (s0 : St) (h : history) (order : list nat) : bool :=
    is_perm_of_seq order (length h) && realtime_okb h order && replay_okb s0 h order.

  (* ---------- soundness ---------- *)

  Lemma realtime_okb_sound h order :
    realtime_okb h order = true -> respects_realtime h order.
  Proof.
    unfold respects_realtime.
    induction order as [|i0 rest IH]; intros H p q i j a b Hpq Hp Hq Ha Hb.
    - destruct p; discriminate.
    - simpl in H. apply andb_true_iff in H. destruct H as [Hhd Htl].
      destruct q as [|q]; [lia|]. simpl in Hq.
      destruct p as [|p].
      + simpl in Hp. inversion Hp; subst i0.
        rewrite forallb_forall in Hhd.
        specialize (Hhd j (nth_error_In _ _ Hq)).
        unfold may_follow in Hhd. rewrite Ha, Hb in Hhd.
        apply negb_true_iff, Z.ltb_ge in Hhd. lia.
      + simpl in Hp. apply (IH Htl p q i j a b); auto. lia.
  Qed.

  Lemma replay_okb_sound h order :
    forall s, replay_okb s h order = true -> replay_ok s h order.
  Proof.
    induction order as [|i rest IH]; intros s H; simpl in *.
    - exact I.
    - destruct (nth_error h i) as [c|]; [|discriminate].
      apply andb_true_iff in H. destruct H as [He Hr].
      exists c. repeat split; auto.
  Qed.

  Lemma valid_linearization_sound s0 h order :
    valid_linearization s0 h order = true -> Linearizable s0 h.
  Proof.
    unfold valid_linearization. intros H.
    apply andb_true_iff in H. destruct H as [H Hrep].
    apply andb_true_iff in H. destruct H as [Hperm Hrt].
    exists order. repeat split.
    - now apply is_perm_of_seq_sound.
    - now apply realtime_okb_sound.
    - now apply replay_okb_sound.
  Qed.

  (* ---------- brute-force search ---------- *)

  (* first Some produced by [f] over [l] *)
  Fixpoint first_some {A B : Type} (f : A -> option B) (l : list A) : option B :=
    match l with
    | [] => None
    | x :: r => match f x with Some y => Some y | None => first_some f r end
    end.

  (* call i can be placed next: every other not-yet-placed call j may follow it,
     i.e. all real-time predecessors of i are already placed *)
  Definition ready (h : history) (todo : list nat) (i : nat) : bool :=
    forallb (fun j => (j =? i) || may_follow h i j) todo.

  (* [todo]: indices not yet placed; [s]: specification state after the placed
     prefix.  Tries every ready call whose replayed result matches, recursively. *)
  Fixpoint search (fuel : nat) (h : history) (s : St) (todo : list nat)
    : option (list nat) :=
    match todo with
    | [] => Some []
    | _ :: _ =>
        match fuel with
        | 0 => None
        | Datatypes.S f =>
            first_some
              (fun i =>
                 match nth_error h i with
                 | None => None
                 | Some c =>
                     let sr := step s (c_op c) in
                     if ready h todo i && eqR (snd sr) (c_ret c) then
                       match search f h (fst sr) (remove Nat.eq_dec i todo) with
                       | Some o => Some (i :: o)
                       | None => None
                       end
                     else None
                 end)
              todo
        end
    end.

  (* fuel >= length h is enough (one unit per placed call) *)
  Definition find_linearization (fuel : nat) (s0 : St) (h : history)
    : option (list nat) :=
    search fuel h s0 (seq 0 (length h)).

  (* search, then independently validate the answer *)
  Definition check_history (fuel : nat) (s0 : St) (h : history) : bool :=
    match find_linearization fuel s0 h with
    | Some o => valid_linearization s0 h o
    | None => false
    end.

  Lemma check_history_sound fuel s0 h :
    check_history fuel s0 h = true -> Linearizable s0 h.
  Proof.
    unfold check_history.
    destruct (find_linearization fuel s0 h) as [o|]; [|discriminate].
    apply valid_linearization_sound.
  Qed.

End Lin.

(* ---------- example: an integer register ---------- *)

Module RegisterExample.
  Inductive rop := Wr (n : nat) | Rd.

  (* Wr n stores n and returns 0; Rd returns the stored value *)
  Definition rstep (s : nat) (o : rop) : nat * nat :=
    match o with Wr n => (n, 0) | Rd => (s, s) end.

  (* three overlapping calls, register initially 0:
       0: Wr 1      over [1,5]
       1: Rd -> x   over [2,3]   (inside the write)
       2: Rd -> y   over [4,6]   (overlaps the write, strictly after call 1) *)
  Definition hist (x y : nat) : list (call rop nat) :=
    [ mkCall (Wr 1) 0 1 5; mkCall Rd x 2 3; mkCall Rd y 4 6 ].

  (* old value then new value: linearizable as Rd(0); Wr 1; Rd(1) *)
  Example good_found : find_linearization rstep Nat.eqb 3 0 (hist 0 1) = Some [1; 0; 2].
  Proof. vm_compute. reflexivity. Qed.

  Example good_accepted : check_history rstep Nat.eqb 3 0 (hist 0 1) = true.
  Proof. vm_compute. reflexivity. Qed.

  Example good_linearizable : Linearizable rstep Nat.eqb 0 (hist 0 1).
  Proof. apply (check_history_sound _ _ 3). vm_compute. reflexivity. Qed.

  (* new value then old value (stale read): call 1 must follow the write, call 2
     must follow call 1 in real time, so it cannot read 0 *)
  Example bad_rejected : check_history rstep Nat.eqb 3 0 (hist 1 0) = false.
  Proof. vm_compute. reflexivity. Qed.

  (* the checker on explicit orders: a real-time violation, a wrong replay,
     and a non-permutation are all refused *)
  Example explicit_orders :
    valid_linearization rstep Nat.eqb 0 (hist 0 1) [1; 0; 2] = true
    /\ valid_linearization rstep Nat.eqb 0 (hist 0 0) [2; 1; 0] = false  (* 2 before 1 *)
    /\ valid_linearization rstep Nat.eqb 0 (hist 0 1) [0; 1; 2] = false  (* Rd(0) after Wr 1 *)
    /\ valid_linearization rstep Nat.eqb 0 (hist 0 1) [1; 0] = false
    /\ valid_linearization rstep Nat.eqb 0 (hist 0 1) [1; 0; 0] = false
    /\ valid_linearization rstep Nat.eqb 0 (hist 0 1) [1; 0; 3] = false.
  Proof. vm_compute. repeat split; reflexivity. Qed.
End RegisterExample.

Print Assumptions valid_linearization_sound.
Print Assumptions check_history_sound.
