(* Packed transport for long byte strings in generated case files only:
   7 bytes per primitive 63-bit integer, little endian inside the integer, explicit total length.
   Imported by case files, never by Model/Proofs/Properties. *)
From Coq Require Import List NArith ZArith Uint63.
From Verif Require Import Base.Hex.
Import ListNotations.
Open Scope N_scope.

Fixpoint unpack7 (k : nat) (z : N) : bytes :=
  match k with O => [] | S k' => (z mod 256) :: unpack7 k' (z / 256) end.

Definition unpack63 (len : N) (is : list int) : bytes :=
  firstn (N.to_nat len) (flat_map (fun i => unpack7 7 (Z.to_N (Uint63.to_Z i))) is).
Notation B := unpack63.

